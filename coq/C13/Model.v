(* C13 — executable model of falcon/media/multipart.py:MultipartForm.__iter__ (and its twin
   falcon/asgi/multipart.py:MultipartForm._iterate_parts), BodyPart.get_data / stream.read,
   written OVER THE FLAT CURSOR of C14 (coq/C14/Spec.v): every stream operation of the parser
   is the cursor operation; that the real buffered readers behave like the cursor for every
   transport chunking is C14's theorem.

   A consumption script says what the application does with each yielded part's stream. *)
From Coq Require Import ZArith NArith List Bool Arith Lia.
From Falcon.lib Require Import PyStr.
From Falcon.gen Require Import ConstsC13.
From Falcon.C14 Require Import Spec.
Import ListNotations.
Local Open Scope nat_scope.

Definition CRLF : bytes := mp_CRLF.
Definition CRLFCRLF : bytes := mp_CRLF_CRLF.
Definition DASHDASH : bytes := [45; 45]%N.
Definition COLON_SP : bytes := [58; 32]%N.
Definition s_cte : bytes := Eval vm_compute in
  [99;111;110;116;101;110;116;45;116;114;97;110;115;102;101;114;45;101;110;99;111;100;105;110;103]%N.
Definition s_binary : bytes := [98; 105; 110; 97; 114; 121]%N.

(* bytes.split(sep), non-empty sep; fuel = S (length l) *)
Fixpoint split_seq (fuel : nat) (sep l : bytes) : list bytes :=
  match fuel with
  | 0 => [l]
  | S f =>
    match find sep l with
    | None => [l]
    | Some i => firstn i l :: split_seq f sep (skipn (i + length sep) l)
    end
  end.

(* bytes.partition(sep) *)
Definition partition_seq (sep l : bytes) : bytes * bool * bytes :=
  match find sep l with
  | None => (l, false, [])
  | Some i => (firstn i l, true, skipn (i + length sep) l)
  end.

(* headers: Dict[bytes, bytes], insertion ordered, assignment replaces the value in place *)
Definition headers := list (bytes * bytes).

Fixpoint hset (h : headers) (k v : bytes) : headers :=
  match h with
  | [] => [(k, v)]
  | (k', v') :: tl => if str_eqb k k' then (k', v) :: tl else (k', v') :: hset tl k v
  end.

Fixpoint hget (h : headers) (k : bytes) : option bytes :=
  match h with
  | [] => None
  | (k', v) :: tl => if str_eqb k k' then Some v else hget tl k
  end.

(* the for-loop over headers_block.split(CRLF); None = the Content-Transfer-Encoding error *)
Fixpoint header_lines (lines : list bytes) (h : headers) : option headers :=
  match lines with
  | [] => Some h
  | line :: tl =>
    let '(name, sep, value) := partition_seq COLON_SP line in
    if sep then
      let name := lower name in
      if str_eqb name s_cte && negb (str_eqb value s_binary) then None
      else if mem name mp_ALLOWED_CONTENT_HEADERS then header_lines tl (hset h name value)
      else header_lines tl h
    else header_lines tl h
  end.

Definition parse_headers (block : bytes) : option headers :=
  header_lines (split_seq (S (length block)) CRLF block) [].

Record cfg := { max_count : nat; max_headers : nat; max_buffer : nat }.

(* what the application does with the stream of a yielded part *)
Inductive action :=
| ASkip                        (* nothing *)
| ARead (size : option nat)    (* part.stream.read(size) *)
| AGetData                     (* part.get_data() / part.data *)
| AReadUntil (d : bytes) (size : option nat).   (* part.stream.read_until(d, size) *)

Inductive perr :=              (* all are MultipartParseError (HTTP 400) *)
| EStructure                   (* 'unexpected form structure' *)
| EHeaders                     (* 'incomplete body part headers' *)
| ECTE                         (* Content-Transfer-Encoding other than binary *)
| ECount                       (* 'maximum number of form body parts exceeded' *)
| ETooLarge.                   (* get_data(): 'body part is too large' *)

Inductive status :=
| Done                         (* the iteration ended normally *)
| Failed (e : perr)
| Crash                        (* any other exception (ValueError from the reader) *)
| OutOfFuel.

Record part_obs := { po_headers : headers; po_data : option bytes }.

Section Parser.
Variable cs : nat.     (* chunk size of the underlying reader (peek cap, delimiter limit) *)
Variable c : cfg.

Fixpoint parse_loop (fuel : nat) (prologue : bool) (delim : bytes) (seen : nat)
         (script : list action) (rest : bytes) : list part_obs * status :=
  match fuel with
  | 0 => ([], OutOfFuel)
  | S f =>
    match sp_op cs (OPipeUntil delim true) rest with
    | (RBytes _, r1) =>
      let delim' := if prologue then CRLF ++ delim else delim in
      if str_eqb (sp_peek cs (Some 2) r1) DASHDASH then ([], Done)
      else
        match sp_op cs (OReadUntil CRLF (Some 0) true) r1 with
        | (RBytes _, r2) =>
          match sp_op cs (OReadUntil CRLFCRLF (Some (max_headers c)) true) r2 with
          | (RBytes block, r3) =>
            match parse_headers block with
            | None => ([], Failed ECTE)
            | Some hs =>
              let seen' := S seen in
              if (0 <? max_count c) && (max_count c <? seen') then ([], Failed ECount) else
              let body := cut delim' r3 in
              match hd ASkip script with
              | ASkip =>
                let '(ps, st) := parse_loop f false delim' seen' (tl script) r3 in
                ({| po_headers := hs; po_data := None |} :: ps, st)
              | ARead size =>
                let '(out, _) := sp_read size body in
                let '(ps, st) := parse_loop f false delim' seen' (tl script) (skipn (length out) r3) in
                ({| po_headers := hs; po_data := Some out |} :: ps, st)
              | AGetData =>
                let out := firstn (S (max_buffer c)) body in
                if S (max_buffer c) <=? length out
                then ([{| po_headers := hs; po_data := None |}], Failed ETooLarge)
                else
                  let '(ps, st) := parse_loop f false delim' seen' (tl script) (skipn (length out) r3) in
                  ({| po_headers := hs; po_data := Some out |} :: ps, st)
              | AReadUntil d size =>
                match sp_op cs (OReadUntil d size false) body with
                | (RBytes out, _) =>
                  let '(ps, st) := parse_loop f false delim' seen' (tl script) (skipn (length out) r3) in
                  ({| po_headers := hs; po_data := Some out |} :: ps, st)
                | _ => ([{| po_headers := hs; po_data := None |}], Crash)
                end
              end
            end
          | (RDelimErr _, _) => ([], Failed EHeaders)
          | _ => ([], Crash)
          end
        | (RDelimErr _, _) => ([], Failed EStructure)
        | _ => ([], Crash)
        end
    | (RDelimErr _, _) => ([], Failed EStructure)
    | _ => ([], Crash)
    end
  end.

(* MultipartForm(stream, boundary, ...).__iter__ consumed with [script] *)
Definition parse_form (boundary : bytes) (script : list action) (body : bytes)
  : list part_obs * status :=
  parse_loop (S (length body)) true (DASHDASH ++ boundary) 0 script body.

End Parser.
