(* C13 — round trip: parsing what the reference encoder produced yields exactly the encoded
   parts under every consumption script and every setting of the three parse limits. *)
From Coq Require Import ZArith NArith List Bool Arith Lia.
From Falcon.lib Require Import PyStr.
From Falcon.gen Require Import ConstsC13.
From Falcon.C14 Require Import Spec ProofsFind.
From Falcon.C13 Require Import Model Spec.
Import ListNotations.
Local Open Scope nat_scope.

(* ------------------------------------------------------------------ constants *)
Lemma CRLF_eq : CRLF = [13; 10]%N.
Proof. reflexivity. Qed.

Lemma CRLFCRLF_eq : CRLFCRLF = [13; 10; 13; 10]%N.
Proof. reflexivity. Qed.

Lemma CRLFCRLF_app : CRLFCRLF = CRLF ++ CRLF.
Proof. reflexivity. Qed.

Lemma length_CRLF : length CRLF = 2.
Proof. reflexivity. Qed.

Lemma length_CRLFCRLF : length CRLFCRLF = 4.
Proof. reflexivity. Qed.

Lemma length_DASHDASH : length DASHDASH = 2.
Proof. reflexivity. Qed.

Lemma length_COLON_SP : length COLON_SP = 2.
Proof. reflexivity. Qed.

(* ------------------------------------------------------------------ list helpers *)
Lemma firstn_length_app {A : Type} (a b : list A) : firstn (length a) (a ++ b) = a.
Proof. rewrite firstn_app_le by lia. apply firstn_all. Qed.

Lemma skipn_length_app {A : Type} (a b : list A) : skipn (length a) (a ++ b) = b.
Proof. rewrite skipn_app_ge by lia. rewrite Nat.sub_diag. reflexivity. Qed.

Lemma startswith_self_app (d r : bytes) : startswith (d ++ r) d = true.
Proof. apply startswith_app. exists r. reflexivity. Qed.

(* ------------------------------------------------------------------ delimiters *)
Lemma bad_delim_false cs d : bad_delim cs d = false -> 1 <= length d /\ length d <= cs.
Proof.
  unfold bad_delim. intro H. apply orb_false_iff in H as [H1 H2].
  apply Nat.eqb_neq in H1. apply Nat.ltb_ge in H2. lia.
Qed.

Lemma bad_delim_ok cs d : 1 <= length d -> length d <= cs -> bad_delim cs d = false.
Proof.
  intros H1 H2. unfold bad_delim. apply orb_false_iff. split.
  - apply Nat.eqb_neq. lia.
  - apply Nat.ltb_ge. lia.
Qed.

Lemma no_early_find d x : no_early d x = true -> find d (x ++ d) = Some (length x).
Proof.
  unfold no_early. destruct (find d (x ++ d)) as [i|]; [|discriminate].
  intro H. apply Nat.eqb_eq in H. subst. reflexivity.
Qed.

Lemma find_mid d x rest : 1 <= length d ->
  find d (x ++ d) = Some (length x) -> find d (x ++ d ++ rest) = Some (length x).
Proof. intros Hd H. rewrite app_assoc. apply find_app_Some; assumption. Qed.

(* after the application consumed k bytes of x the delimiter is still first found after x *)
Lemma find_skipn_mid d x k : k <= length x ->
  find d (x ++ d) = Some (length x) ->
  find d (skipn k x ++ d) = Some (length (skipn k x)).
Proof.
  intros Hk H. rewrite skipn_length. rewrite <- skipn_app_le by exact Hk.
  apply find_skipn_Some_le; assumption.
Qed.

Lemma cut_mid d x rest : 1 <= length d ->
  find d (x ++ d) = Some (length x) -> cut d (x ++ d ++ rest) = x.
Proof.
  intros Hd H. unfold cut. rewrite (find_mid d x rest Hd H). apply firstn_length_app.
Qed.

Definition size_ok (size : option nat) (n : nat) : Prop :=
  match size with None => True | Some m => n <= m end.

Lemma upto_mid d size x rest : 1 <= length d ->
  find d (x ++ d) = Some (length x) -> size_ok size (length x) ->
  upto d size (x ++ d ++ rest) = length x.
Proof.
  intros Hd H Hs. unfold upto. rewrite (find_mid d x rest Hd H).
  unfold lim. destruct size as [m|]; simpl in Hs; rewrite !app_length; lia.
Qed.

Lemma sp_until_mid d size x rest : 1 <= length d ->
  find d (x ++ d) = Some (length x) -> size_ok size (length x) ->
  sp_until d size true (x ++ d ++ rest) = (x, true, rest).
Proof.
  intros Hd H Hs. unfold sp_until. rewrite (upto_mid d size x rest Hd H Hs).
  rewrite skipn_length_app, firstn_length_app, startswith_self_app, skipn_length_app.
  reflexivity.
Qed.

Lemma sp_pipe_until_mid cs d x rest : bad_delim cs d = false ->
  find d (x ++ d) = Some (length x) ->
  sp_op cs (OPipeUntil d true) (x ++ d ++ rest) = (RBytes x, rest).
Proof.
  intros Hb H. destruct (bad_delim_false cs d Hb) as [Hd _].
  cbn [sp_op]. rewrite Hb. rewrite (sp_until_mid d None x rest Hd H I). reflexivity.
Qed.

Lemma sp_read_until_mid cs d m x rest : bad_delim cs d = false ->
  find d (x ++ d) = Some (length x) -> length x <= m ->
  sp_op cs (OReadUntil d (Some m) true) (x ++ d ++ rest) = (RBytes x, rest).
Proof.
  intros Hb H Hm. destruct (bad_delim_false cs d Hb) as [Hd _].
  cbn [sp_op]. rewrite Hb. rewrite (sp_until_mid d (Some m) x rest Hd H Hm). reflexivity.
Qed.

Lemma sp_read_until_short cs d m x rest : bad_delim cs d = false ->
  find d (x ++ d) = Some (length x) -> m < length x ->
  sp_op cs (OReadUntil d (Some m) true) (x ++ d ++ rest)
  = (RDelimErr [], skipn m (x ++ d ++ rest)).
Proof.
  intros Hb H Hm. destruct (bad_delim_false cs d Hb) as [Hd _].
  cbn [sp_op]. rewrite Hb. unfold sp_until.
  pose proof (find_mid d x rest Hd H) as Hf.
  assert (Hu : upto d (Some m) (x ++ d ++ rest) = m).
  { unfold upto, lim. rewrite Hf. rewrite !app_length. lia. }
  rewrite Hu. rewrite (find_Some_first d _ _ Hf m Hm). reflexivity.
Qed.

(* ------------------------------------------------------------------ searching past bytes
   that cannot start the pattern *)
Lemma find_no_head (c : N) d' x y : ~ In c x ->
  find (c :: d') (x ++ y)
  = match find (c :: d') y with Some i => Some (length x + i) | None => None end.
Proof.
  induction x as [|a x IH]; intro Hn.
  - cbn [app length]. destruct (find (c :: d') y); reflexivity.
  - cbn [app length]. rewrite find_eq.
    assert (Ha : N.eqb a c = false).
    { apply N.eqb_neq. intro E. apply Hn. left. exact E. }
    cbn [startswith]. rewrite Ha. cbn [andb].
    rewrite IH by (intro Hi; apply Hn; right; exact Hi).
    destruct (find (c :: d') y); reflexivity.
Qed.

(* ------------------------------------------------------------------ the header block *)
Definition hline (nv : bytes * bytes) : bytes := fst nv ++ COLON_SP ++ snd nv.

(* the lines joined by CRLF: the block the parser sees between the delimiter line and the
   closing CRLF CRLF *)
Fixpoint join_lines (hs : list (bytes * bytes)) : bytes :=
  match hs with
  | [] => []
  | h :: tl => match tl with [] => hline h | _ => hline h ++ CRLF ++ join_lines tl end
  end.

Lemma enc_headers_cons h tl : enc_headers (h :: tl) = hline h ++ CRLF ++ enc_headers tl.
Proof.
  unfold enc_headers, enc_header, hline. cbn [map concat]. rewrite <- !app_assoc. reflexivity.
Qed.

Lemma join_lines_cons2 h h2 tl :
  join_lines (h :: h2 :: tl) = hline h ++ CRLF ++ join_lines (h2 :: tl).
Proof. reflexivity. Qed.

Lemma enc_headers_join hs : hs <> [] -> enc_headers hs = join_lines hs ++ CRLF.
Proof.
  induction hs as [|h tl IH]; intro Hne; [congruence|].
  rewrite enc_headers_cons. destruct tl as [|h2 tl].
  - cbn [join_lines]. unfold enc_headers. cbn [map concat]. rewrite app_nil_r. reflexivity.
  - rewrite join_lines_cons2. rewrite IH by discriminate. rewrite <- !app_assoc. reflexivity.
Qed.

Lemma length_hline nv : 2 <= length (hline nv).
Proof. unfold hline. rewrite !app_length, length_COLON_SP. lia. Qed.

Lemma length_join_lines hs : length hs <= length (join_lines hs).
Proof.
  induction hs as [|h tl IH]; [apply Nat.le_refl|]. destruct tl as [|h2 tl].
  - cbn [join_lines length]. pose proof (length_hline h). lia.
  - rewrite join_lines_cons2. rewrite !app_length. pose proof (length_hline h).
    cbn [length] in *. lia.
Qed.

Lemma block_len_join p : p_headers p <> [] -> block_len p = length (join_lines (p_headers p)).
Proof.
  intro H. unfold block_len. rewrite (enc_headers_join _ H), app_length, length_CRLF. lia.
Qed.

Lemma no_crlf_In x : no_crlf x = true -> ~ In 13%N x /\ ~ In 10%N x.
Proof.
  unfold no_crlf. intro H. apply andb_true_iff in H as [H1 H2].
  apply negb_true_iff in H1, H2. split; intro Hi; apply char_in_In in Hi; congruence.
Qed.

Lemma wf_header_parts nv : wf_header nv = true ->
  no_crlf (fst nv) = true /\ no_crlf (snd nv) = true /\ no_early COLON_SP (fst nv) = true
  /\ (negb (str_eqb (lower (fst nv)) s_cte) || str_eqb (snd nv) s_binary) = true.
Proof.
  unfold wf_header. intro H. apply andb_true_iff in H as [H H4].
  apply andb_true_iff in H as [H H3]. apply andb_true_iff in H as [H1 H2]. tauto.
Qed.

Lemma hline_no_cr nv : wf_header nv = true -> ~ In 13%N (hline nv).
Proof.
  intro H. destruct (wf_header_parts nv H) as (H1 & H2 & _ & _).
  apply no_crlf_In in H1 as [H1 _]. apply no_crlf_In in H2 as [H2 _].
  unfold hline. intro Hi. apply in_app_or in Hi as [Hi|Hi]; [contradiction|].
  apply in_app_or in Hi as [Hi|Hi]; [|contradiction].
  unfold COLON_SP in Hi. cbn [In] in Hi. destruct Hi as [Hi|[Hi|[]]]; discriminate.
Qed.

Lemma hline_head nv : wf_header nv = true ->
  exists y w, hline nv = y :: w /\ y <> 13%N.
Proof.
  intro H. pose proof (hline_no_cr nv H) as Hn. pose proof (length_hline nv) as Hl.
  destruct (hline nv) as [|y w]; [cbn [length] in Hl; lia|].
  exists y, w. split; [reflexivity|]. intro E. apply Hn. left. exact E.
Qed.

Lemma join_lines_head h tl : wf_header h = true ->
  exists y w, join_lines (h :: tl) = y :: w /\ y <> 13%N.
Proof.
  intro H. destruct (hline_head h H) as (y & w & E & Hy). destruct tl as [|h2 tl].
  - exists y, w. cbn [join_lines]. split; assumption.
  - exists y, (w ++ CRLF ++ join_lines (h2 :: tl)). rewrite join_lines_cons2, E.
    split; [reflexivity | exact Hy].
Qed.

Lemma find_crlfcrlf_skip_crlf y w : y <> 13%N ->
  find CRLFCRLF (CRLF ++ y :: w)
  = match find CRLFCRLF (y :: w) with Some i => Some (2 + i) | None => None end.
Proof.
  intro Hy. apply N.eqb_neq in Hy.
  rewrite CRLF_eq, CRLFCRLF_eq. cbn [app].
  rewrite find_eq. cbn [startswith]. rewrite Hy.
  replace (N.eqb 13 13) with true by reflexivity. replace (N.eqb 10 10) with true by reflexivity.
  cbn [andb].
  rewrite find_eq. cbn [startswith]. replace (N.eqb 10 13) with false by reflexivity.
  cbn [andb].
  destruct (find [13; 10; 13; 10]%N (y :: w)); reflexivity.
Qed.

(* the first CRLF CRLF after a well-formed header block is the one closing it *)
Lemma find_crlfcrlf_block hs : hs <> [] -> forallb wf_header hs = true ->
  find CRLFCRLF (join_lines hs ++ CRLFCRLF) = Some (length (join_lines hs)).
Proof.
  induction hs as [|h tl IH]; intros Hne Hwf; [congruence|].
  cbn [forallb] in Hwf. apply andb_true_iff in Hwf as [Hh Htl].
  pose proof (hline_no_cr h Hh) as Hn.
  destruct tl as [|h2 tl].
  - cbn [join_lines]. rewrite CRLFCRLF_eq at 1. rewrite (find_no_head _ _ _ _ Hn).
    rewrite <- CRLFCRLF_eq. replace (find CRLFCRLF CRLFCRLF) with (Some 0) by reflexivity.
    f_equal. lia.
  - rewrite join_lines_cons2. rewrite <- !app_assoc.
    rewrite CRLFCRLF_eq at 1. rewrite (find_no_head _ _ _ _ Hn). rewrite <- CRLFCRLF_eq.
    assert (Hh2 : wf_header h2 = true).
    { cbn [forallb] in Htl. apply andb_true_iff in Htl as [Hh2 _]. exact Hh2. }
    destruct (join_lines_head h2 tl Hh2) as (y & w & E & Hy).
    specialize (IH ltac:(discriminate) Htl).
    rewrite E in IH |- *. cbn [app] in IH |- *.
    rewrite (find_crlfcrlf_skip_crlf y (w ++ CRLFCRLF) Hy). rewrite IH.
    f_equal. rewrite !app_length, length_CRLF. cbn [length]. lia.
Qed.

(* ------------------------------------------------------------------ splitting the block *)
Lemma find_crlf_hline h : wf_header h = true -> find CRLF (hline h) = None.
Proof.
  intro H. pose proof (hline_no_cr h H) as Hn.
  rewrite <- (app_nil_r (hline h)). rewrite CRLF_eq. rewrite (find_no_head _ _ _ _ Hn).
  reflexivity.
Qed.

Lemma find_crlf_hline_app h rest : wf_header h = true ->
  find CRLF (hline h ++ CRLF ++ rest) = Some (length (hline h)).
Proof.
  intro H. pose proof (hline_no_cr h H) as Hn.
  rewrite CRLF_eq at 1. rewrite (find_no_head _ _ _ _ Hn). rewrite <- CRLF_eq.
  rewrite find_eq. rewrite startswith_self_app. f_equal. lia.
Qed.

Lemma split_join hs : hs <> [] -> forallb wf_header hs = true ->
  forall fuel, length hs <= S fuel ->
  split_seq fuel CRLF (join_lines hs) = map hline hs.
Proof.
  induction hs as [|h tl IH]; intros Hne Hwf fuel Hf; [congruence|].
  cbn [forallb] in Hwf. apply andb_true_iff in Hwf as [Hh Htl].
  destruct tl as [|h2 tl].
  - cbn [join_lines map]. destruct fuel as [|f]; [reflexivity|].
    cbn [split_seq]. rewrite (find_crlf_hline h Hh). reflexivity.
  - rewrite join_lines_cons2. destruct fuel as [|f]; [cbn [length] in Hf; lia|].
    cbn [split_seq]. rewrite (find_crlf_hline_app h _ Hh).
    rewrite firstn_length_app.
    replace (length (hline h) + length CRLF) with (length (hline h ++ CRLF))
      by (rewrite app_length; reflexivity).
    rewrite app_assoc. rewrite skipn_length_app.
    rewrite IH; [reflexivity | discriminate | exact Htl | cbn [length] in *; lia].
Qed.

Lemma partition_hline h : wf_header h = true ->
  partition_seq COLON_SP (hline h) = (fst h, true, snd h).
Proof.
  intro H. destruct (wf_header_parts h H) as (_ & _ & H3 & _).
  apply no_early_find in H3. unfold partition_seq, hline.
  rewrite (find_mid COLON_SP (fst h) (snd h)) by (rewrite ?length_COLON_SP; auto).
  rewrite firstn_length_app.
  replace (length (fst h) + length COLON_SP) with (length (fst h ++ COLON_SP))
    by (rewrite app_length; reflexivity).
  rewrite app_assoc. rewrite skipn_length_app. reflexivity.
Qed.

Lemma header_lines_expect hs : forallb wf_header hs = true ->
  forall acc, header_lines (map hline hs) acc = Some (expect_headers hs acc).
Proof.
  induction hs as [|h tl IH]; intros Hwf acc; [reflexivity|].
  cbn [forallb] in Hwf. apply andb_true_iff in Hwf as [Hh Htl].
  cbn [map header_lines]. rewrite (partition_hline h Hh).
  destruct (wf_header_parts h Hh) as (_ & _ & _ & H4).
  destruct h as [n v]. cbn [fst snd] in *. cbn [expect_headers].
  assert (Hc : str_eqb (lower n) s_cte && negb (str_eqb v s_binary) = false).
  { apply orb_true_iff in H4 as [H4|H4].
    - apply negb_true_iff in H4. rewrite H4. reflexivity.
    - rewrite H4. apply andb_false_r. }
  rewrite Hc. destruct (mem (lower n) mp_ALLOWED_CONTENT_HEADERS); apply IH; exact Htl.
Qed.

Lemma parse_headers_block hs : hs <> [] -> forallb wf_header hs = true ->
  parse_headers (join_lines hs) = Some (expect_headers hs []).
Proof.
  intros Hne Hwf. unfold parse_headers.
  rewrite (split_join hs Hne Hwf) by (pose proof (length_join_lines hs); lia).
  apply header_lines_expect. exact Hwf.
Qed.

(* ------------------------------------------------------------------ the loop *)
(* what follows a boundary delimiter in an encoded form *)
Fixpoint after_delim (b tail : bytes) (ps : list part) : bytes :=
  match ps with
  | [] => DASHDASH ++ tail
  | p :: ps' =>
    CRLF ++ enc_headers (p_headers p) ++ CRLF ++ p_content p
         ++ (CRLF ++ DASHDASH ++ b) ++ after_delim b tail ps'
  end.

Lemma after_delim_cons b tail p ps : p_headers p <> [] ->
  after_delim b tail (p :: ps)
  = CRLF ++ join_lines (p_headers p) ++ CRLFCRLF ++ p_content p
         ++ (CRLF ++ DASHDASH ++ b) ++ after_delim b tail ps.
Proof.
  intro H. cbn [after_delim]. rewrite (enc_headers_join _ H). rewrite <- !app_assoc.
  reflexivity.
Qed.

Lemma encode_parts_after b tail ps :
  concat (map (encode_part b) ps) ++ DASHDASH ++ b ++ DASHDASH ++ tail
  = (DASHDASH ++ b) ++ after_delim b tail ps.
Proof.
  induction ps as [|p ps IH].
  - cbn [map concat after_delim app]. rewrite <- !app_assoc. reflexivity.
  - cbn [map concat after_delim]. rewrite <- app_assoc. rewrite IH.
    unfold encode_part. rewrite <- !app_assoc. reflexivity.
Qed.

Lemma peek2_crlf cs r : 2 <= cs -> str_eqb (sp_peek cs (Some 2) (CRLF ++ r)) DASHDASH = false.
Proof.
  intro H. unfold sp_peek. apply Nat.ltb_ge in H. rewrite H. reflexivity.
Qed.

Lemma peek2_dashdash cs r : 2 <= cs -> str_eqb (sp_peek cs (Some 2) (DASHDASH ++ r)) DASHDASH = true.
Proof.
  intro H. unfold sp_peek. apply Nat.ltb_ge in H. rewrite H. reflexivity.
Qed.

Lemma read_crlf0 cs r : 2 <= cs ->
  sp_op cs (OReadUntil CRLF (Some 0) true) (CRLF ++ r) = (RBytes [], r).
Proof.
  intro H. apply (sp_read_until_mid cs CRLF 0 [] r).
  - apply bad_delim_ok; rewrite length_CRLF; lia.
  - reflexivity.
  - apply Nat.le_refl.
Qed.

Lemma wf_part_parts b p : wf_part b p = true ->
  p_headers p <> [] /\ forallb wf_header (p_headers p) = true
  /\ no_early (CRLF ++ DASHDASH ++ b) (p_content p) = true.
Proof.
  unfold wf_part. intro H. apply andb_true_iff in H as [H H3]. apply andb_true_iff in H as [H1 H2].
  split; [|split; assumption]. destruct (p_headers p); [discriminate | discriminate].
Qed.

Lemma loop_correct cs c b tail : 1 <= length b -> length b + 4 <= cs ->
  forall ps, forallb (wf_part b) ps = true ->
  forall fuel (prologue : bool) d x seen script,
  length ps < fuel ->
  d = (if prologue then DASHDASH ++ b else CRLF ++ DASHDASH ++ b) ->
  find d (x ++ d) = Some (length x) ->
  parse_loop cs c fuel prologue d seen script (x ++ d ++ after_delim b tail ps)
  = expected_run cs c seen ps script.
Proof.
  intros Hb1 Hb2.
  induction ps as [|p ps IH]; intros Hwf fuel prologue d x seen script Hfuel Hd Hfind.
  - destruct fuel as [|f]; [lia|].
    assert (Hbd : bad_delim cs d = false).
    { apply bad_delim_ok; subst d; destruct prologue;
        rewrite !app_length, ?length_CRLF, ?length_DASHDASH; lia. }
    cbn [parse_loop after_delim expected_run].
    rewrite (sp_pipe_until_mid cs d x _ Hbd Hfind).
    rewrite peek2_dashdash by lia. reflexivity.
  - destruct fuel as [|f]; [cbn [length] in Hfuel; lia|].
    assert (Hbd : bad_delim cs d = false).
    { apply bad_delim_ok; subst d; destruct prologue;
        rewrite !app_length, ?length_CRLF, ?length_DASHDASH; lia. }
    cbn [forallb] in Hwf. apply andb_true_iff in Hwf as [Hp Hps].
    destruct (wf_part_parts b p Hp) as (Hne & Hhs & Hcont).
    apply no_early_find in Hcont.
    remember (CRLF ++ DASHDASH ++ b) as D' eqn:HD'.
    assert (HbD : bad_delim cs D' = false).
    { apply bad_delim_ok; subst D';
        rewrite !app_length, ?length_CRLF, ?length_DASHDASH; lia. }
    destruct (bad_delim_false cs D' HbD) as [HD1 _].
    assert (HdD : (if prologue then CRLF ++ d else d) = D').
    { subst d D'. destruct prologue; reflexivity. }
    rewrite (after_delim_cons b tail p ps Hne). rewrite <- HD'.
    remember (after_delim b tail ps) as A eqn:HA.
    remember (p_content p) as ct eqn:Hct.
    remember (p_headers p) as hs eqn:Hhsq.
    (* the recursive calls *)
    assert (Hrec : forall k scr, k <= length ct ->
      parse_loop cs c f false D' (S seen) scr (skipn k (ct ++ D' ++ A))
      = expected_run cs c (S seen) ps scr).
    { intros k scr Hk. rewrite skipn_app_le by exact Hk. subst A.
      apply IH; [exact Hps | cbn [length] in Hfuel; lia | reflexivity |].
      apply find_skipn_mid; assumption. }
    cbn [parse_loop expected_run]. rewrite HdD. rewrite <- ?Hct.
    rewrite (sp_pipe_until_mid cs d x _ Hbd Hfind).
    rewrite peek2_crlf by lia.
    rewrite read_crlf0 by lia.
    rewrite (block_len_join p) by (rewrite <- Hhsq; exact Hne). rewrite <- Hhsq.
    pose proof (find_crlfcrlf_block hs Hne Hhs) as Hfb.
    assert (Hbc : bad_delim cs CRLFCRLF = false).
    { apply bad_delim_ok; rewrite length_CRLFCRLF; lia. }
    destruct (max_headers c <? length (join_lines hs)) eqn:Emh.
    + apply Nat.ltb_lt in Emh.
      rewrite (sp_read_until_short cs CRLFCRLF _ _ _ Hbc Hfb Emh). reflexivity.
    + apply Nat.ltb_ge in Emh.
      rewrite (sp_read_until_mid cs CRLFCRLF _ _ _ Hbc Hfb Emh).
      rewrite (parse_headers_block hs Hne Hhs).
      destruct ((0 <? max_count c) && (max_count c <? S seen)); [reflexivity|].
      rewrite (cut_mid D' ct A HD1 Hcont).
      destruct (hd ASkip script) as [|size| |dl size] eqn:Eact.
      * rewrite <- (Hrec 0 (tl script)) by lia. reflexivity.
      * unfold sp_read.
        rewrite firstn_length, (Nat.min_l _ _ (lim_le size ct)).
        rewrite (Hrec _ _ (lim_le size ct)). reflexivity.
      * rewrite firstn_length.
        destruct (max_buffer c <? length ct) eqn:Emb.
        -- apply Nat.ltb_lt in Emb.
           replace (S (max_buffer c) <=? Nat.min (S (max_buffer c)) (length ct)) with true
             by (symmetry; apply Nat.leb_le; lia).
           reflexivity.
        -- apply Nat.ltb_ge in Emb.
           replace (S (max_buffer c) <=? Nat.min (S (max_buffer c)) (length ct)) with false
             by (symmetry; apply Nat.leb_gt; lia).
           rewrite Hrec by lia. rewrite firstn_all2 by lia. reflexivity.
      * destruct (bad_delim cs dl) eqn:Ebd.
        -- cbn [sp_op]. rewrite Ebd. reflexivity.
        -- cbn [sp_op]. rewrite Ebd. unfold sp_until.
           pose proof (upto_le_length dl size ct) as Hu.
           rewrite firstn_length, (Nat.min_l _ _ Hu).
           rewrite (Hrec _ _ Hu). reflexivity.
Qed.

(* ------------------------------------------------------------------ the theorem *)
Definition valid_script (cs : nat) (script : list action) : bool :=
  forallb (fun a => match a with AReadUntil d _ => negb (bad_delim cs d) | _ => true end) script.

Lemma length_encode_parts b ps : length ps <= length (concat (map (encode_part b) ps)).
Proof.
  induction ps as [|p ps IH]; [apply Nat.le_refl|].
  cbn [map concat length]. rewrite app_length. unfold encode_part at 1.
  rewrite app_length, length_DASHDASH. lia.
Qed.

(* the script need not even be valid: an invalid read_until delimiter is the ValueError
   (Crash) on both sides *)
Theorem roundtrip_any_script : forall cs c b pre epi fin ps script,
  wf_form cs b pre ps = true ->
  parse_form cs c b script (encode_form ps b pre epi fin) = expected_run cs c 0 ps script.
Proof.
  intros cs c b pre epi fin ps script Hwf.
  unfold wf_form in Hwf. apply andb_true_iff in Hwf as [Hwf Hps].
  apply andb_true_iff in Hwf as [Hwf Hpre]. apply andb_true_iff in Hwf as [Hwf H4].
  apply andb_true_iff in Hwf as [Hb1 Hb2].
  apply Nat.leb_le in Hb1, Hb2, H4. apply no_early_find in Hpre.
  unfold parse_form, encode_form.
  rewrite (encode_parts_after b ((if fin then CRLF else []) ++ epi) ps).
  remember ((if fin then CRLF else []) ++ epi) as tail eqn:Htail.
  apply (loop_correct cs c b tail Hb1 Hb2 ps Hps _ true (DASHDASH ++ b) pre 0 script);
    [|reflexivity|exact Hpre].
  rewrite <- (encode_parts_after b tail ps).
  pose proof (length_encode_parts b ps) as Hl.
  rewrite !app_length. lia.
Qed.

Theorem roundtrip : forall cs c b pre epi fin ps script,
  wf_form cs b pre ps = true -> valid_script cs script = true ->
  parse_form cs c b script (encode_form ps b pre epi fin) = expected_run cs c 0 ps script.
Proof.
  intros cs c b pre epi fin ps script Hwf _. apply roundtrip_any_script. exact Hwf.
Qed.

(* ------------------------------------------------------------------ the limits, exactly *)
(* what a skipped part presents *)
Definition obs_skip (p : part) : part_obs :=
  {| po_headers := expect_headers (p_headers p) []; po_data := None |}.

Definition all_skip (script : list action) : Prop := Forall (fun a => a = ASkip) script.

Definition headers_fit (c : cfg) (ps : list part) : Prop :=
  Forall (fun p => block_len p <= max_headers c) ps.

Lemma all_skip_hd script : all_skip script -> hd ASkip script = ASkip /\ all_skip (tl script).
Proof.
  intro H. destruct script as [|a tl]; [split; [reflexivity | constructor]|].
  inversion H; subst. split; [reflexivity | assumption].
Qed.

(* --- max_body_part_count *)
Lemma expected_count_ok_gen cs c : forall ps seen script,
  max_count c = 0 \/ seen + length ps <= max_count c ->
  snd (expected_run cs c seen ps script) <> Failed ECount.
Proof.
  induction ps as [|p ps IH]; intros seen script Hc; [discriminate|].
  cbn [expected_run].
  destruct (max_headers c <? block_len p); [discriminate|].
  assert (Ect : (0 <? max_count c) && (max_count c <? S seen) = false).
  { cbn [length] in Hc. destruct Hc as [Hc|Hc].
    - rewrite Hc. reflexivity.
    - apply andb_false_iff. right. apply Nat.ltb_ge. lia. }
  rewrite Ect.
  assert (Hc' : max_count c = 0 \/ S seen + length ps <= max_count c)
    by (cbn [length] in Hc; lia).
  specialize (IH (S seen) (tl script) Hc').
  destruct (expected_run cs c (S seen) ps (tl script)) as [r st]. cbn [snd] in IH.
  destruct (hd ASkip script) as [|size| |dl size].
  - exact IH.
  - exact IH.
  - destruct (max_buffer c <? length (p_content p)); [discriminate | exact IH].
  - destruct (bad_delim cs dl); [discriminate | exact IH].
Qed.

Lemma expected_count_ok cs c ps script :
  max_count c = length ps ->
  snd (expected_run cs c 0 ps script) <> Failed ECount.
Proof. intro H. apply expected_count_ok_gen. right. lia. Qed.

Lemma expected_all_skip_gen cs c : forall ps seen script,
  max_count c = 0 \/ seen + length ps <= max_count c ->
  headers_fit c ps -> all_skip script ->
  expected_run cs c seen ps script = (map obs_skip ps, Done).
Proof.
  induction ps as [|p ps IH]; intros seen script Hc Hh Hs; [reflexivity|].
  cbn [expected_run]. inversion Hh as [|p' ps' Hp Hps]; subst.
  apply Nat.ltb_ge in Hp. rewrite Hp.
  assert (Ect : (0 <? max_count c) && (max_count c <? S seen) = false).
  { cbn [length] in Hc. destruct Hc as [Hc|Hc].
    - rewrite Hc. reflexivity.
    - apply andb_false_iff. right. apply Nat.ltb_ge. lia. }
  rewrite Ect. destruct (all_skip_hd script Hs) as [Ehd Htl]. rewrite Ehd.
  rewrite (IH (S seen) (tl script)); [reflexivity | cbn [length] in Hc; lia | exact Hps | exact Htl].
Qed.

Lemma expected_count_exceeded_gen cs c : forall ps seen script,
  0 < max_count c -> seen <= max_count c -> max_count c < seen + length ps ->
  headers_fit c ps -> all_skip script ->
  expected_run cs c seen ps script
  = (map obs_skip (firstn (max_count c - seen) ps), Failed ECount).
Proof.
  induction ps as [|p ps IH]; intros seen script H0 Hle Hlt Hh Hs;
    [cbn [length] in Hlt; lia|].
  cbn [expected_run]. inversion Hh as [|p' ps' Hp Hps]; subst.
  apply Nat.ltb_ge in Hp. rewrite Hp.
  apply Nat.ltb_lt in H0. rewrite H0. apply Nat.ltb_lt in H0. cbn [andb].
  destruct (max_count c <? S seen) eqn:Ec.
  - apply Nat.ltb_lt in Ec. replace (max_count c - seen) with 0 by lia. reflexivity.
  - apply Nat.ltb_ge in Ec. destruct (all_skip_hd script Hs) as [Ehd Htl]. rewrite Ehd.
    rewrite (IH (S seen) (tl script)); [|exact H0|lia|cbn [length] in Hlt; lia|exact Hps|exact Htl].
    replace (max_count c - seen) with (S (max_count c - S seen)) by lia. reflexivity.
Qed.

Lemma expected_count_exceeded cs c ps script :
  0 < max_count c -> max_count c < length ps -> headers_fit c ps -> all_skip script ->
  expected_run cs c 0 ps script = (map obs_skip (firstn (max_count c) ps), Failed ECount).
Proof.
  intros H0 Hlt Hh Hs.
  rewrite (expected_count_exceeded_gen cs c ps 0 script H0) by (try assumption; lia).
  rewrite Nat.sub_0_r. reflexivity.
Qed.

Theorem limits_count_ok : forall cs c b pre epi fin ps script,
  wf_form cs b pre ps = true -> max_count c = length ps ->
  snd (parse_form cs c b script (encode_form ps b pre epi fin)) <> Failed ECount.
Proof.
  intros cs c b pre epi fin ps script Hwf Hc.
  rewrite (roundtrip_any_script cs c b pre epi fin ps script Hwf).
  apply expected_count_ok. exact Hc.
Qed.

Theorem limits_count_exceeded : forall cs c b pre epi fin ps script,
  wf_form cs b pre ps = true ->
  0 < max_count c -> max_count c < length ps -> headers_fit c ps -> all_skip script ->
  parse_form cs c b script (encode_form ps b pre epi fin)
  = (map obs_skip (firstn (max_count c) ps), Failed ECount).
Proof.
  intros cs c b pre epi fin ps script Hwf H0 Hlt Hh Hs.
  rewrite (roundtrip_any_script cs c b pre epi fin ps script Hwf).
  apply expected_count_exceeded; assumption.
Qed.

(* max_count = number of parts: everything is yielded; one less (or any smaller positive
   value): exactly max_count parts are yielded, then the parse error *)
Theorem limits_count_exact : forall cs c b pre epi fin ps script,
  wf_form cs b pre ps = true -> headers_fit c ps -> all_skip script -> 0 < max_count c ->
  (max_count c = length ps ->
   parse_form cs c b script (encode_form ps b pre epi fin) = (map obs_skip ps, Done))
  /\ (max_count c < length ps ->
   parse_form cs c b script (encode_form ps b pre epi fin)
   = (map obs_skip (firstn (max_count c) ps), Failed ECount)).
Proof.
  intros cs c b pre epi fin ps script Hwf Hh Hs H0. split; intro Hc.
  - rewrite (roundtrip_any_script cs c b pre epi fin ps script Hwf).
    apply expected_all_skip_gen; [right; lia | exact Hh | exact Hs].
  - apply limits_count_exceeded; assumption.
Qed.

(* --- max_body_part_headers_size *)
Lemma wf_block_len_pos b p : wf_part b p = true -> 2 <= block_len p.
Proof.
  intro H. destruct (wf_part_parts b p H) as (Hne & _ & _).
  rewrite (block_len_join p Hne). pose proof (length_join_lines (p_headers p)) as Hl.
  destruct (p_headers p) as [|h tl]; [congruence|]. destruct tl as [|h2 tl].
  - cbn [join_lines]. apply length_hline.
  - rewrite join_lines_cons2, app_length. pose proof (length_hline h). lia.
Qed.

Lemma expected_headers_exceeded cs c seen p ps script :
  max_headers c < block_len p ->
  expected_run cs c seen (p :: ps) script = ([], Failed EHeaders).
Proof. intro H. cbn [expected_run]. apply Nat.ltb_lt in H. rewrite H. reflexivity. Qed.

Lemma expected_headers_ok cs c : forall ps seen script,
  headers_fit c ps -> snd (expected_run cs c seen ps script) <> Failed EHeaders.
Proof.
  induction ps as [|p ps IH]; intros seen script Hh; [discriminate|].
  cbn [expected_run]. inversion Hh as [|p' ps' Hp Hps]; subst.
  apply Nat.ltb_ge in Hp. rewrite Hp.
  destruct ((0 <? max_count c) && (max_count c <? S seen)); [discriminate|].
  specialize (IH (S seen) (tl script) Hps).
  destruct (expected_run cs c (S seen) ps (tl script)) as [r st]. cbn [snd] in IH.
  destruct (hd ASkip script) as [|size| |dl size].
  - exact IH.
  - exact IH.
  - destruct (max_buffer c <? length (p_content p)); [discriminate | exact IH].
  - destruct (bad_delim cs dl); [discriminate | exact IH].
Qed.

Theorem limits_headers_ok : forall cs c b pre epi fin ps script,
  wf_form cs b pre ps = true -> headers_fit c ps ->
  snd (parse_form cs c b script (encode_form ps b pre epi fin)) <> Failed EHeaders.
Proof.
  intros cs c b pre epi fin ps script Hwf Hh.
  rewrite (roundtrip_any_script cs c b pre epi fin ps script Hwf).
  apply expected_headers_ok. exact Hh.
Qed.

Theorem limits_headers_exceeded : forall cs c b pre epi fin p ps script,
  wf_form cs b pre (p :: ps) = true -> max_headers c < block_len p ->
  parse_form cs c b script (encode_form (p :: ps) b pre epi fin) = ([], Failed EHeaders).
Proof.
  intros cs c b pre epi fin p ps script Hwf Hh.
  rewrite (roundtrip_any_script cs c b pre epi fin (p :: ps) script Hwf).
  apply expected_headers_exceeded. exact Hh.
Qed.

Lemma wf_form_parts cs b pre ps : wf_form cs b pre ps = true -> forallb (wf_part b) ps = true.
Proof. unfold wf_form. intro H. apply andb_true_iff in H as [_ H]. exact H. Qed.

(* single-part forms: a headers block of exactly max_headers bytes is accepted, one byte
   more is 'incomplete body part headers' *)
Theorem limits_headers_exact : forall cs c b pre epi fin p script,
  wf_form cs b pre [p] = true ->
  (max_headers c = block_len p ->
   snd (parse_form cs c b script (encode_form [p] b pre epi fin)) <> Failed EHeaders)
  /\ (max_headers c = block_len p - 1 ->
   parse_form cs c b script (encode_form [p] b pre epi fin) = ([], Failed EHeaders)).
Proof.
  intros cs c b pre epi fin p script Hwf. split; intro Hm.
  - apply limits_headers_ok; [exact Hwf|]. constructor; [lia | constructor].
  - apply limits_headers_exceeded; [exact Hwf|].
    apply wf_form_parts in Hwf. cbn [forallb] in Hwf. apply andb_true_iff in Hwf as [Hp _].
    pose proof (wf_block_len_pos b p Hp). lia.
Qed.

(* --- max_body_part_buffer_size (get_data) *)
Lemma count_first_ok c : (0 <? max_count c) && (max_count c <? 1) = false.
Proof.
  destruct (max_count c) as [|n]; [reflexivity|]. apply andb_false_iff. right.
  apply Nat.ltb_ge. lia.
Qed.

Lemma expected_buffer_ok cs c p script :
  block_len p <= max_headers c -> length (p_content p) <= max_buffer c ->
  expected_run cs c 0 [p] (AGetData :: script)
  = ([{| po_headers := expect_headers (p_headers p) []; po_data := Some (p_content p) |}], Done).
Proof.
  intros Hh Hb. cbn [expected_run hd tl]. apply Nat.ltb_ge in Hh, Hb.
  rewrite Hh, Hb, count_first_ok. reflexivity.
Qed.

Lemma expected_buffer_exceeded cs c p ps script :
  block_len p <= max_headers c -> max_buffer c < length (p_content p) ->
  expected_run cs c 0 (p :: ps) (AGetData :: script)
  = ([obs_skip p], Failed ETooLarge).
Proof.
  intros Hh Hb. cbn [expected_run hd tl]. apply Nat.ltb_ge in Hh. apply Nat.ltb_lt in Hb.
  rewrite Hh, Hb, count_first_ok. reflexivity.
Qed.

Theorem limits_buffer_exact : forall cs c b pre epi fin p script,
  wf_form cs b pre [p] = true -> block_len p <= max_headers c ->
  (max_buffer c = length (p_content p) ->
   parse_form cs c b (AGetData :: script) (encode_form [p] b pre epi fin)
   = ([{| po_headers := expect_headers (p_headers p) []; po_data := Some (p_content p) |}],
      Done))
  /\ (0 < length (p_content p) -> max_buffer c = length (p_content p) - 1 ->
   parse_form cs c b (AGetData :: script) (encode_form [p] b pre epi fin)
   = ([obs_skip p], Failed ETooLarge)).
Proof.
  intros cs c b pre epi fin p script Hwf Hh. split.
  - intro Hb. rewrite (roundtrip_any_script cs c b pre epi fin [p] _ Hwf).
    apply expected_buffer_ok; [exact Hh | lia].
  - intros Hpos Hb. rewrite (roundtrip_any_script cs c b pre epi fin [p] _ Hwf).
    apply expected_buffer_exceeded; [exact Hh | lia].
Qed.

(* ------------------------------------------------------------------ non-vacuity: a concrete
   well-formed form (two parts, a header to be dropped, a duplicate header, CR LF and dashes
   inside the content) and a run where every limit is at its exact value *)
Definition ex_b : bytes := [88; 89]%N.
Definition ex_p1 : part :=
  {| p_headers := [([67; 111; 110; 116; 101; 110; 116; 45; 84; 121; 112; 101], [97]);
                   ([88; 45; 79], []);
                   ([99; 111; 110; 116; 101; 110; 116; 45; 116; 121; 112; 101], [98; 58; 32])]%N;
     p_content := [13; 10; 45; 45; 88; 13; 10]%N |}.
Definition ex_p2 : part :=
  {| p_headers := [([], [120])]%N; p_content := [] |}.
Definition ex_cfg : cfg := {| max_count := 2; max_headers := 41; max_buffer := 7 |}.

Example ex_wf : wf_form 8 ex_b [45; 45; 88]%N [ex_p1; ex_p2] = true.
Proof. vm_compute. reflexivity. Qed.

Example ex_run :
  parse_form 8 ex_cfg ex_b [AGetData; ARead (Some 3)]
             (encode_form [ex_p1; ex_p2] ex_b [45; 45; 88]%N [1; 2]%N true)
  = ([{| po_headers := [([99; 111; 110; 116; 101; 110; 116; 45; 116; 121; 112; 101],
                         [98; 58; 32])]%N;
         po_data := Some [13; 10; 45; 45; 88; 13; 10]%N |};
      {| po_headers := []; po_data := Some [] |}], Done).
Proof. vm_compute. reflexivity. Qed.
