From Coq Require Import ZArith List Bool String.
From Coq Require Import ExtrOcamlBasic.
From Falcon.lib Require Import Wire PyStr.
From Falcon.C14 Require Import Spec.
From Falcon.C13 Require Import Model ModelReaders Spec ModelPart SpecPart ModelHeap ModelPartOps.
Import ListNotations.
Open Scope Z_scope.

Definition d_cfg (v : val) : cfg :=
  {| max_count := dnat (nth_val 0 v); max_headers := dnat (nth_val 1 v); max_buffer := dnat (nth_val 2 v) |}.

Definition d_action (v : val) : action :=
  match v with
  | L [I 1; s] => ARead (dopt dnat s)
  | L [I 2] => AGetData
  | L [I 3; d; s] => AReadUntil (dstr d) (dopt dnat s)
  | _ => ASkip
  end.

Definition d_part (v : val) : part :=
  {| p_headers := dlist (fun p => (dstr (nth_val 0 p), dstr (nth_val 1 p))) (nth_val 0 v);
     p_content := dstr (nth_val 1 v) |}.

Definition v_headers (h : headers) : val := vlist (vpair vstr vstr) h.

Definition v_perr (e : perr) : Z :=
  match e with EStructure => 1 | EHeaders => 2 | ECTE => 3 | ECount => 4 | ETooLarge => 5 end.

Definition v_status (s : status) : val :=
  match s with
  | Done => L [I 0]
  | Failed e => L [I 1; I (v_perr e)]
  | Crash => L [I 2]
  | OutOfFuel => L [I 3]
  end.

Definition v_obs (o : part_obs) : val := L [v_headers (po_headers o); vopt vstr (po_data o)].

Definition v_run (r : list part_obs * status) : val := L [vlist v_obs (fst r); v_status (snd r)].

Definition d_perr (z : Z) : perr :=
  if z =? 1 then EStructure else if z =? 2 then EHeaders else if z =? 3 then ECTE
  else if z =? 4 then ECount else ETooLarge.

Definition d_status (v : val) : status :=
  match v with
  | L [I 0] => Done
  | L [I 1; I e] => Failed (d_perr e)
  | L [I 2] => Crash
  | _ => OutOfFuel
  end.

Definition d_obs (v : val) : part_obs :=
  {| po_headers := dlist (fun p => (dstr (nth_val 0 p), dstr (nth_val 1 p))) (nth_val 0 v);
     po_data := dopt dstr (nth_val 1 v) |}.

Definition d_run (v : val) : list part_obs * status :=
  (dlist d_obs (nth_val 0 v), d_status (nth_val 1 v)).

Definition v_ares {A} (f : A -> val) (r : ares A) : val :=
  match r with AOk a => L [I 0; f a] | AParseError => L [I 1] | ANeed => L [I 2] end.

Definition v_view (v : view) : val :=
  L [v_ares vstr (v_ctype v); v_ares (vopt vstr) (v_name v); v_ares (vopt vstr) (v_filename v)].

Definition d_headers (v : val) : headers :=
  dlist (fun p => (dstr (nth_val 0 p), dstr (nth_val 1 p))) v.

Definition d_field (v : val) : field :=
  {| f_name := dstr (nth_val 0 v);
     f_filename := dopt (fun p => (dbool (nth_val 0 p), dstr (nth_val 1 p))) (nth_val 1 v);
     f_ctype := dopt dstr (nth_val 2 v);
     f_content := dstr (nth_val 3 v) |}.

Definition v_part (p : part) : val := L [v_headers (p_headers p); vstr (p_content p)].

Definition d_pop (v : val) : pop :=
  match v with
  | L [I 0; sz] => PRead (dopt dnat sz)
  | L [I 1] => PGetData
  | L [I 2] => PGetText
  | _ => PGetMedia
  end.

Definition v_pres (r : pres) : val :=
  match r with
  | PBytes b => L [I 0; vstr b]
  | PText t => L [I 1; vopt vstr t]
  | PMedia k => L [I 2; vnat k]
  | PTooLarge => L [I 3]
  | PBadText => L [I 4]
  | PBadHeader => L [I 5]
  | PHandlerError k => L [I 6; vnat k]
  | PUnsupported => L [I 7]
  | PNeed => L [I 8]
  end.

(* ops: 0 parse        [0; cs; cfg; boundary; script; body]            -> run
        1 encode       [1; parts; boundary; pre; epi; fin]             -> body
        2 expected     [2; cs; cfg; parts; script]                         -> run
        3 wf_form      [3; cs; boundary; pre; parts]                   -> bool
        5 parse through the sync reader model   [5; cs; cfg; boundary; script; body; schedule]
        6 parse through the async reader model  [6; cs; cfg; boundary; script; chunks]
        7 BodyPart attributes of a header dictionary  [7; headers] -> [content_type; name; filename]
        8 secure_filename  [8; filename; NFKD(filename)]
        9 fields -> parts  [9; boundary; fields] -> [[part; wf_field]]
       10 metadata reads  [10; header dictionaries of the yielded parts; times 0 before/1 after/2 end/3 twice]
       11 operations on one part  [11; max_buffer; default_charset; handlers; hok; headers; content; ops] -> [results; handler log]
        4 oracles      [4; cs; cfg; parts; script; observed]               -> [roundtrip ok; no crash] *)
Definition run (v : val) : val :=
  match v with
  | L [I 0; cs; c; b; script; body] =>
    v_run (parse_form (dnat cs) (d_cfg c) (dstr b) (dlist d_action script) (dstr body))
  | L [I 1; ps; b; pre; epi; fin] =>
    vstr (encode_form (dlist d_part ps) (dstr b) (dstr pre) (dstr epi) (dbool fin))
  | L [I 2; cs; c; ps; script] =>
    v_run (expected_run (dnat cs) (d_cfg c) 0 (dlist d_part ps) (dlist d_action script))
  | L [I 3; cs; b; pre; ps] =>
    vbool (wf_form (dnat cs) (dstr b) (dstr pre) (dlist d_part ps))
  | L [I 4; cs; c; ps; script; obs] =>
    L [vbool (oracle_roundtrip (dnat cs) (d_cfg c) (dlist d_part ps) (dlist d_action script) (d_run obs));
       vbool (oracle_no_crash (d_run obs))]
  | L [I 5; cs; c; b; script; body; sched] =>
    v_run (parse_form_sync (dnat cs) (d_cfg c) (dstr b) (dlist d_action script) (dstr body) (dlist dnat sched))
  | L [I 6; cs; c; b; script; chunks] =>
    let cl := dlist dstr chunks in
    let fuel := (List.length cl + 20)%nat in
    v_run (parse_form_async (dnat cs) fuel (d_cfg c) (dstr b) (dlist d_action script) cl)
  | L [I 7; hs] => v_view (view_of (d_headers hs))
  | L [I 8; fname; nfkd] => vopt vstr (secure_filename (fun _ => dstr nfkd) (dstr fname))
  | L [I 9; b; fs] =>
    vlist (fun f => L [v_part (field_part f); vbool (wf_field (dstr b) f)]) (dlist d_field fs)
  | L [I 10; hss; times] =>
    let ps := map (fun h => {| po_headers := h; po_data := None |}) (dlist d_headers hss) in
    let ts := dlist (fun t => let z := dZ t in
                              if z =? 1 then MAfter else if z =? 2 then MEnd
                              else if z =? 3 then MTwice else MBefore) times in
    vlist (vlist v_view) (metadata_views false ps ts)
  | L [I 11; mb; dc; hd; hok; hs; content; ops] =>
    let hdata := dlist (fun p => (dstr (nth_val 0 p), dN (nth_val 1 p))) hd in
    let oks := dlist dbool hok in
    let '(rs, st) := prun (dnat mb) (dstr dc) hdata (fun k => nth k oks true) (d_headers hs)
                          (pinit (dstr content)) (dlist d_pop ops) in
    L [vlist v_pres rs;
       vlist (fun e => L [vN (fst (fst e)); vstr (snd (fst e)); vstr (snd e)]) (s_log st)]
  | _ => L [I (-1)]
  end.

Extraction "C13/model.ml" run.
