(* C13 — the header-derived attributes of a parsed part (content_type, name, filename) are
   those of the form field the reference encoder serialised, and the field-level round trip. *)
From Coq Require Import ZArith NArith List Bool Arith Lia.
From Falcon.lib Require Import PyStr Utf8.
From Falcon.gen Require Import ConstsC11 ConstsC13.
Require Falcon.C11.Model.
From Falcon.C14 Require Import Spec ProofsFind.
From Falcon.C13 Require Import Model Spec ModelPart SpecPart ProofsRoundtrip ProofsPartHeader.
Import ListNotations.
Local Open Scope nat_scope.

(* ------------------------------------------------------------------ the header dictionary *)
Lemma lower_cd_hdr : lower s_cd_hdr = s_content_disposition.
Proof. reflexivity. Qed.
Lemma lower_ct_hdr : lower s_ct_hdr = s_content_type.
Proof. reflexivity. Qed.
Lemma mem_cd : mem s_content_disposition mp_ALLOWED_CONTENT_HEADERS = true.
Proof. reflexivity. Qed.
Lemma mem_ct : mem s_content_type mp_ALLOWED_CONTENT_HEADERS = true.
Proof. reflexivity. Qed.

Definition field_headers (f : field) : headers :=
  (s_content_disposition, encode (cd_value (f_name f) (f_filename f)))
    :: match f_ctype f with Some ct => [(s_content_type, ct)] | None => [] end.

Lemma expect_field_headers f :
  expect_headers (p_headers (field_part f)) [] = field_headers f.
Proof.
  unfold field_part, field_headers. cbn [p_headers]. destruct (f_ctype f) as [ct|].
  - cbn [expect_headers]. rewrite lower_cd_hdr, mem_cd, lower_ct_hdr, mem_ct. reflexivity.
  - cbn [expect_headers]. rewrite lower_cd_hdr, mem_cd. reflexivity.
Qed.

Lemma hget_ct f :
  hget (field_headers f) s_content_type = f_ctype f.
Proof. unfold field_headers. destruct (f_ctype f); reflexivity. Qed.

Lemma hget_cd f :
  hget (field_headers f) s_content_disposition
  = Some (encode (cd_value (f_name f) (f_filename f))).
Proof. reflexivity. Qed.

(* ------------------------------------------------------------------ 1. content_type *)
Theorem content_type_roundtrip : forall f, wf_ctype (f_ctype f) = true ->
  content_type (expect_headers (p_headers (field_part f)) []) = AOk (field_ctype f).
Proof.
  intros f Hwf. rewrite expect_field_headers. unfold content_type, field_ctype.
  rewrite hget_ct. destruct (f_ctype f) as [ct|]; [|reflexivity].
  cbn [wf_ctype] in Hwf. apply andb_true_iff in Hwf as [Hwf _].
  apply andb_true_iff in Hwf as [Ha _]. unfold ascii_decode. rewrite Ha. reflexivity.
Qed.

(* ------------------------------------------------------------------ 2. UTF-8 *)
Theorem utf8_decode_encode : forall s, forallb scalar s = true -> utf8_decode (encode s) = Some s.
Proof.
  intros s H. unfold utf8_decode. rewrite (decode_encode s H). rewrite str_eqb_refl. reflexivity.
Qed.

(* ------------------------------------------------------------------ characters of cd_value *)
Definition good (c : N) : bool := scalar c && negb (c =? 13)%N && negb (c =? 10)%N.

Lemma forallb_impl {A : Type} (p q : A -> bool) l :
  (forall x, p x = true -> q x = true) -> forallb p l = true -> forallb q l = true.
Proof.
  intros H Hp. rewrite forallb_forall in *. intros x Hx. apply H, Hp, Hx.
Qed.

Lemma quotable_good s : quotable s = true -> forallb good s = true.
Proof.
  unfold quotable. apply forallb_impl. intros c H. unfold good.
  repeat (apply andb_true_iff in H as [H ?]). rewrite H. cbn [andb].
  apply andb_true_iff. split; assumption.
Qed.

Lemma pct_ok_good c : pct_ok c = true -> good c = true.
Proof. unfold pct_ok, good, scalar. lia. Qed.

Lemma cd_value_good name fn : quotable name = true -> wf_filename fn = true ->
  forallb good (cd_value name fn) = true.
Proof.
  intros Hn Hfn. unfold cd_value. rewrite !forallb_app. rewrite (quotable_good name Hn).
  replace (forallb good s_form_data_name) with true by reflexivity.
  replace (forallb good [dq]) with true by reflexivity. cbn [andb].
  destruct fn as [[[|] f]|]; [| |reflexivity].
  - cbn [wf_filename] in Hfn.
    assert (Hsc : forallb scalar f = true) by (destruct f; [discriminate | exact Hfn]).
    rewrite forallb_app. replace (forallb good s_filename_ext) with true by reflexivity.
    cbn [andb]. apply (forallb_impl pct_ok good _ pct_ok_good). apply ext_value_ok. exact Hsc.
  - cbn [wf_filename] in Hfn. rewrite !forallb_app. rewrite (quotable_good f Hfn).
    replace (forallb good s_filename_q) with true by reflexivity. reflexivity.
Qed.

Lemma good_scalar s : forallb good s = true -> forallb scalar s = true.
Proof.
  apply forallb_impl. intros c H. unfold good in H.
  apply andb_true_iff in H as [H _]. apply andb_true_iff in H as [H _]. exact H.
Qed.

Lemma encode_In (a : N) s : In a (encode s) -> exists c, In c s /\ In a (encode_cp c).
Proof.
  unfold encode. intro H. apply in_flat_map in H. exact H.
Qed.

Lemma good_no_crlf s : forallb good s = true -> no_crlf (encode s) = true.
Proof.
  intro H. rewrite forallb_forall in H. unfold no_crlf. apply andb_true_iff. split;
    apply negb_true_iff; apply not_true_iff_false; intro Hi; apply char_in_In in Hi;
    apply encode_In in Hi as (c & Hc & Hin); apply encode_cp_In_ascii in Hin;
    try (apply N.ltb_lt; reflexivity); subst c; apply H in Hc; discriminate Hc.
Qed.

(* ------------------------------------------------------------------ Content-Disposition *)
Lemma content_disposition_field f :
  quotable (f_name f) = true -> wf_filename (f_filename f) = true ->
  content_disposition (field_headers f)
  = AOk (parse_header (cd_value (f_name f) (f_filename f))).
Proof.
  intros Hn Hfn. unfold content_disposition. rewrite hget_cd.
  rewrite utf8_decode_encode; [reflexivity|].
  apply good_scalar. apply cd_value_good; assumption.
Qed.

(* ------------------------------------------------------------------ 4. name *)
Theorem name_roundtrip : forall f,
  quotable (f_name f) = true -> wf_filename (f_filename f) = true ->
  part_name (expect_headers (p_headers (field_part f)) []) = AOk (Some (f_name f)).
Proof.
  intros f Hn Hfn. rewrite expect_field_headers. unfold part_name.
  rewrite (content_disposition_field f Hn Hfn).
  pose proof (parse_cd_params _ _ Hn Hfn) as Hp.
  destruct (parse_header (cd_value (f_name f) (f_filename f))) as [k ps]. cbn [snd] in Hp.
  subst ps. reflexivity.
Qed.

(* ------------------------------------------------------------------ filename*: the regex *)
Lemma take_line_id p : ~ In 10%N p -> take_line p = p.
Proof.
  induction p as [|c p IH]; intro Hn; [reflexivity|]. cbn [take_line].
  assert (Hc : (c =? 10)%N = false).
  { apply N.eqb_neq. intro E. apply Hn. left. exact E. }
  rewrite Hc. rewrite IH by (intro Hi; apply Hn; right; exact Hi). reflexivity.
Qed.

Definition s_utf8 : str := [85;84;70;45;56]%N.      (* UTF-8 *)

Lemma match_filename_star_ext p : p <> [] -> ~ In 10%N p ->
  match_filename_star (s_utf8qq ++ p) = RxMatch s_utf8 p.
Proof.
  intros Hne Hlf. unfold s_utf8qq, match_filename_star. cbn. rewrite (take_line_id p Hlf).
  destruct p as [|c p]; [congruence | reflexivity].
Qed.

Lemma lookup_codec_utf8 : lookup_codec s_utf8 = Some CUtf8.
Proof. reflexivity. Qed.

(* ------------------------------------------------------------------ filename*: unquoting *)
Lemma hexval_hexdig n : (n < 16)%N -> hexval (hexdig n) = Some n.
Proof.
  intro H. unfold hexval, hexdig. destruct (n <? 10)%N eqn:E.
  - replace ((48 <=? 48 + n) && (48 + n <=? 57))%N with true by lia. f_equal. lia.
  - replace ((48 <=? 55 + n) && (55 + n <=? 57))%N with false by lia.
    replace ((65 <=? 55 + n) && (55 + n <=? 70))%N with true by lia. f_equal. lia.
Qed.

Lemma unquote_pct_byte c rest : (c < 256)%N ->
  unquote_bytes (pct_byte c ++ rest) = c :: unquote_bytes rest.
Proof.
  intro H. unfold pct_byte. destruct (unreserved c) eqn:E.
  - cbn [app unquote_bytes].
    replace (c =? 37)%N with false by (unfold unreserved in E; lia). reflexivity.
  - cbn [app unquote_bytes]. replace (37 =? 37)%N with true by reflexivity.
    rewrite (hexval_hexdig (c / 16)) by (apply N.div_lt_upper_bound; lia).
    rewrite (hexval_hexdig (c mod 16)) by (apply N.mod_lt; lia).
    f_equal. rewrite N.mul_comm. symmetry. apply N.div_mod. lia.
Qed.

Lemma unquote_bytes_pct bs : Forall (fun c => (c < 256)%N) bs ->
  unquote_bytes (pct_encode bs) = bs.
Proof.
  induction 1 as [|c bs Hc _ IH]; [reflexivity|].
  unfold pct_encode in *. cbn [flat_map]. rewrite (unquote_pct_byte c _ Hc), IH. reflexivity.
Qed.

Lemma pct_ok_Forall_ascii s : forallb pct_ok s = true -> Forall (fun c => (c < 128)%N) s.
Proof.
  intro H. rewrite forallb_forall in H. apply Forall_forall. intros c Hc.
  apply pct_ok_ascii. apply H. exact Hc.
Qed.

Lemma unquote_to_bytes_pct bs : Forall (fun c => (c < 256)%N) bs ->
  unquote_to_bytes (pct_encode bs) = bs.
Proof.
  intro H. unfold unquote_to_bytes.
  rewrite (encode_ascii (pct_encode bs)) by (apply pct_ok_Forall_ascii, pct_encode_ok, H).
  apply unquote_bytes_pct. exact H.
Qed.

(* ------------------------------------------------------------------ 5. filename *)
Theorem filename_roundtrip : forall f,
  quotable (f_name f) = true -> wf_filename (f_filename f) = true ->
  part_filename (expect_headers (p_headers (field_part f)) []) = AOk (field_filename f).
Proof.
  intros f Hn Hfn. rewrite expect_field_headers. unfold part_filename, field_filename.
  rewrite (content_disposition_field f Hn Hfn).
  pose proof (parse_cd_params _ _ Hn Hfn) as Hp.
  destruct (parse_header (cd_value (f_name f) (f_filename f))) as [k ps]. cbn [snd] in Hp.
  subst ps. destruct (f_filename f) as [[[|] fn]|].
  - (* filename*=UTF-8''pct *)
    cbn [wf_filename] in Hfn.
    assert (Hne : fn <> []) by (destruct fn; [discriminate | discriminate]).
    assert (Hsc : forallb scalar fn = true) by (destruct fn; [discriminate | exact Hfn]).
    replace (pget (cd_params (f_name f) (Some (true, fn))) s_filename_star)
      with (Some (s_ext_value fn)) by reflexivity.
    pose proof (ext_value_ok fn Hsc) as Hok.
    unfold s_ext_value. rewrite match_filename_star_ext.
    + rewrite lookup_codec_utf8. cbn [decode_with].
      rewrite unquote_to_bytes_pct by (apply encode_bytes; exact Hsc).
      rewrite (utf8_decode_encode fn Hsc). reflexivity.
    + apply pct_encode_nonempty. destruct fn as [|c fn]; [congruence|].
      unfold encode. cbn [flat_map]. pose proof (encode_cp_nonempty c).
      destruct (encode_cp c); [congruence | discriminate].
    + apply (pct_ok_notin _ _ Hok). reflexivity.
  - reflexivity.
  - reflexivity.
Qed.

(* ------------------------------------------------------------------ 6. the view *)
Lemma wf_field_parts b f : wf_field b f = true ->
  quotable (f_name f) = true /\ wf_filename (f_filename f) = true
  /\ wf_ctype (f_ctype f) = true /\ no_early (CRLF ++ DASHDASH ++ b) (f_content f) = true.
Proof.
  unfold wf_field. intro H. apply andb_true_iff in H as [H H4].
  apply andb_true_iff in H as [H H3]. apply andb_true_iff in H as [H1 H2]. tauto.
Qed.

Theorem field_view_roundtrip : forall b f, wf_field b f = true ->
  view_of (expect_headers (p_headers (field_part f)) []) = field_view f.
Proof.
  intros b f Hwf. destruct (wf_field_parts b f Hwf) as (H1 & H2 & H3 & _).
  unfold view_of, field_view.
  rewrite (content_type_roundtrip f H3), (name_roundtrip f H1 H2), (filename_roundtrip f H1 H2).
  reflexivity.
Qed.

(* ------------------------------------------------------------------ 7. field_part is well formed *)
Lemma wf_header_cd v : no_crlf v = true -> wf_header (s_cd_hdr, v) = true.
Proof.
  intro H. unfold wf_header. cbn [fst snd]. rewrite H.
  replace (no_crlf s_cd_hdr) with true by reflexivity.
  replace (no_early COLON_SP s_cd_hdr) with true by reflexivity.
  replace (str_eqb (lower s_cd_hdr) s_cte) with false by reflexivity. reflexivity.
Qed.

Lemma wf_header_ct v : no_crlf v = true -> wf_header (s_ct_hdr, v) = true.
Proof.
  intro H. unfold wf_header. cbn [fst snd]. rewrite H.
  replace (no_crlf s_ct_hdr) with true by reflexivity.
  replace (no_early COLON_SP s_ct_hdr) with true by reflexivity.
  replace (str_eqb (lower s_ct_hdr) s_cte) with false by reflexivity. reflexivity.
Qed.

Theorem field_part_wf : forall b f, wf_field b f = true -> wf_part b (field_part f) = true.
Proof.
  intros b f Hwf. destruct (wf_field_parts b f Hwf) as (H1 & H2 & H3 & H4).
  unfold wf_part, field_part. cbn [p_headers p_content]. rewrite H4, andb_true_r.
  cbn [forallb]. rewrite wf_header_cd by (apply good_no_crlf, cd_value_good; assumption).
  destruct (f_ctype f) as [ct|]; [|reflexivity].
  cbn [forallb]. rewrite wf_header_ct; [reflexivity|].
  cbn [wf_ctype] in H3. apply andb_true_iff in H3 as [H3 Hlf].
  apply andb_true_iff in H3 as [_ Hcr]. unfold no_crlf. rewrite Hcr, Hlf. reflexivity.
Qed.

(* ------------------------------------------------------------------ 8. forms of fields *)
Lemma expected_views cs c b : forall fs seen script,
  forallb (wf_field b) fs = true ->
  Forall2 (fun o f => view_of (po_headers o) = field_view f)
          (fst (expected_run cs c seen (map field_part fs) script))
          (firstn (length (fst (expected_run cs c seen (map field_part fs) script))) fs).
Proof.
  induction fs as [|f fs IH]; intros seen script Hwf; [constructor|].
  cbn [forallb] in Hwf. apply andb_true_iff in Hwf as [Hf Hfs].
  pose proof (field_view_roundtrip b f Hf) as Hv.
  specialize (IH (S seen) (tl script) Hfs).
  cbn [map expected_run].
  destruct (max_headers c <? block_len (field_part f)); [constructor|].
  destruct ((0 <? max_count c) && (max_count c <? S seen)); [constructor|].
  destruct (expected_run cs c (S seen) (map field_part fs) (tl script)) as [r st].
  cbn [fst] in IH.
  destruct (hd ASkip script) as [|size| |dl size].
  - cbn [fst length firstn]. constructor; [exact Hv | exact IH].
  - cbn [fst length firstn]. constructor; [exact Hv | exact IH].
  - destruct (max_buffer c <? length (p_content (field_part f))).
    + cbn [fst length firstn]. constructor; [exact Hv | constructor].
    + cbn [fst length firstn]. constructor; [exact Hv | exact IH].
  - destruct (bad_delim cs dl).
    + cbn [fst length firstn]. constructor; [exact Hv | constructor].
    + cbn [fst length firstn]. constructor; [exact Hv | exact IH].
Qed.

Theorem form_roundtrip : forall cs c b pre epi fin fs script,
  (1 <=? length b) && (length b + 4 <=? cs) && (4 <=? cs) && no_early (DASHDASH ++ b) pre = true ->
  forallb (wf_field b) fs = true ->
  parse_form cs c b script (encode_form (map field_part fs) b pre epi fin)
  = expected_run cs c 0 (map field_part fs) script
  /\ Forall2 (fun o f => view_of (po_headers o) = field_view f)
             (fst (expected_run cs c 0 (map field_part fs) script))
             (firstn (length (fst (expected_run cs c 0 (map field_part fs) script))) fs).
Proof.
  intros cs c b pre epi fin fs script Hb Hfs. split.
  - apply roundtrip_any_script. unfold wf_form. rewrite Hb. cbn [andb].
    apply forallb_forall. intros p Hp. apply in_map_iff in Hp as (f & <- & Hf).
    apply field_part_wf. rewrite forallb_forall in Hfs. apply Hfs. exact Hf.
  - apply (expected_views cs c b). exact Hfs.
Qed.

(* ------------------------------------------------------------------ non-vacuity: concrete
   fields (semicolons, '=', quotes' neighbours, white space incl. U+2003 and U+00A0 at the ends,
   non-BMP code points) evaluated through the model, independently of the theorems *)
Definition ex_f1 : field :=
  {| f_name := [32; 59; 97; 61; 59; 59; 32; 8195; 233; 128512; 160]%N;
     f_filename := Some (true, [59; 34; 92; 37; 10; 8364; 128512; 32]%N);
     f_ctype := Some [116; 101; 120; 116; 47; 120; 59; 32; 113; 61; 34; 49; 34]%N;
     f_content := [1; 2; 3]%N |}.
Definition ex_f2 : field :=
  {| f_name := [];
     f_filename := Some (false, [59; 32; 102; 105; 108; 101; 110; 97; 109; 101; 42; 61; 85; 59; 160]%N);
     f_ctype := None; f_content := [] |}.

Example ex_fields_wf : forallb (wf_field [88; 89]%N) [ex_f1; ex_f2] = true.
Proof. vm_compute. reflexivity. Qed.

Example ex_f1_view :
  view_of (expect_headers (p_headers (field_part ex_f1)) []) = field_view ex_f1.
Proof. vm_compute. reflexivity. Qed.

Example ex_f2_view :
  view_of (expect_headers (p_headers (field_part ex_f2)) []) = field_view ex_f2.
Proof. vm_compute. reflexivity. Qed.
