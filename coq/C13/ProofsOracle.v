(* C13 — the oracles of Spec.v accept the model. *)
From Coq Require Import ZArith NArith List Bool Arith Lia.
From Falcon.lib Require Import PyStr.
From Falcon.C14 Require Import Spec.
From Falcon.C13 Require Import Model Spec ProofsRoundtrip ProofsNoCrash.
Import ListNotations.
Local Open Scope nat_scope.

Lemma headers_eqb_refl h : headers_eqb h h = true.
Proof. induction h as [|[k v] h IH]; simpl; [reflexivity|]. rewrite !str_eqb_refl. exact IH. Qed.

Lemma optb_eqb_refl o : optb_eqb o o = true.
Proof. destruct o; simpl; auto using str_eqb_refl. Qed.

Lemma obs_eqb_refl l : obs_eqb l l = true.
Proof.
  induction l as [|x l IH]; simpl; [reflexivity|].
  rewrite headers_eqb_refl, optb_eqb_refl. exact IH.
Qed.

Lemma status_eqb_refl s : status_eqb s s = true.
Proof. destruct s as [|e| |]; simpl; try reflexivity. destruct e; reflexivity. Qed.

Lemma oracle_roundtrip_sound : forall cs c b pre epi fin ps script,
  wf_form cs b pre ps = true ->
  oracle_roundtrip cs c ps script (parse_form cs c b script (encode_form ps b pre epi fin)) = true.
Proof.
  intros cs c b pre epi fin ps script Hwf. unfold oracle_roundtrip.
  rewrite (roundtrip_any_script cs c b pre epi fin ps script Hwf).
  destruct (expected_run cs c 0 ps script) as [e st]. simpl.
  rewrite obs_eqb_refl, status_eqb_refl. reflexivity.
Qed.

Lemma oracle_no_crash_sound : forall cs c b script body,
  4 <= cs -> 1 <= length b -> length b + 4 <= cs -> script_ok cs script = true ->
  oracle_no_crash (parse_form cs c b script body) = true.
Proof.
  intros cs c b script body H4 Hb1 Hb2 Hs.
  pose proof (no_crash cs c b script body H4 Hb1 Hb2 Hs) as H.
  unfold oracle_no_crash, parse_error_or_done in *.
  destruct (snd (parse_form cs c b script body)); try reflexivity; contradiction.
Qed.

(* exactness of the comparison used by the oracle *)
Lemma headers_eqb_eq a b : headers_eqb a b = true -> a = b.
Proof.
  revert b; induction a as [|[k v] a IH]; intros [|[k' v'] b] H; simpl in H; try discriminate; [reflexivity|].
  apply andb_true_iff in H as [H H3]. apply andb_true_iff in H as [H1 H2].
  apply str_eqb_eq in H1, H2. apply IH in H3. congruence.
Qed.

Lemma obs_eqb_eq a b : obs_eqb a b = true -> a = b.
Proof.
  revert b; induction a as [|x a IH]; intros [|y b] H; simpl in H; try discriminate; [reflexivity|].
  apply andb_true_iff in H as [H H3]. apply andb_true_iff in H as [H1 H2].
  apply headers_eqb_eq in H1. apply IH in H3.
  destruct x as [hx dx], y as [hy dy]; simpl in *. subst.
  destruct dx, dy; simpl in H2; try discriminate; [apply str_eqb_eq in H2; subst|]; reflexivity.
Qed.
