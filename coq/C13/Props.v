(* C13 — property theorems only.  Each is closed by [exact] of a lemma from a Proofs*.v file
   and followed by Print Assumptions. *)
From Coq Require Import ZArith NArith List Bool Arith.
From Falcon.lib Require Import PyStr.
From Falcon.C14 Require Import Spec.
From Falcon.C14 Require Import Model ModelAsync.
From Falcon.C13 Require Import Model ModelReaders Spec ProofsRoundtrip ProofsNoCrash ProofsOracle
  ProofsChunkingSync ProofsChunkingAsync ModelPart SpecPart ProofsPartHeader ProofsPart ModelHeap ProofsHeap
  ModelPartOps ProofsPartOps.
Import ListNotations.
Local Open Scope nat_scope.

(* ROUND TRIP.  For every list of well-formed parts, every boundary (1..cs-4 bytes), preamble,
   epilogue, with or without the final CRLF, EVERY consumption script (per part: skip /
   read(n) / read() / get_data() / read_until(d, n)) and EVERY setting of the three limits:
   iterating the parsed form yields exactly what [expected_run] says -- the same number of
   parts in order, the allowed headers (lower-cased, last wins), the exact content bytes as
   consumed -- and the parse limits bite exactly where expected_run says they do. *)
Theorem C13_multipart_roundtrip : forall cs c b pre epi fin ps script,
  wf_form cs b pre ps = true ->
  parse_form cs c b script (encode_form ps b pre epi fin) = expected_run cs c 0 ps script.
Proof. exact roundtrip_any_script. Qed.
Print Assumptions C13_multipart_roundtrip.

(* LIMITS, exact at their thresholds.  max_body_part_count: a form of exactly that many parts
   is accepted, one more part is refused after the allowed ones were yielded. *)
Theorem C13_limits_count_exact : forall cs c b pre epi fin ps script,
  wf_form cs b pre ps = true -> headers_fit c ps -> all_skip script -> 0 < max_count c ->
  (max_count c = length ps ->
     parse_form cs c b script (encode_form ps b pre epi fin) = (map obs_skip ps, Done))
  /\ (max_count c < length ps ->
     parse_form cs c b script (encode_form ps b pre epi fin)
     = (map obs_skip (firstn (max_count c) ps), Failed ECount)).
Proof. exact limits_count_exact. Qed.
Print Assumptions C13_limits_count_exact.

(* max_body_part_headers_size: a header block of exactly that size is accepted, one byte
   less room gives 'incomplete body part headers' *)
Theorem C13_limits_headers_exact : forall cs c b pre epi fin p script,
  wf_form cs b pre [p] = true ->
  (max_headers c = block_len p ->
     snd (parse_form cs c b script (encode_form [p] b pre epi fin)) <> Failed EHeaders)
  /\ (max_headers c = block_len p - 1 ->
     parse_form cs c b script (encode_form [p] b pre epi fin) = ([], Failed EHeaders)).
Proof. exact limits_headers_exact. Qed.
Print Assumptions C13_limits_headers_exact.

(* max_body_part_buffer_size: get_data() of a part of exactly that size succeeds, one byte
   more content gives 'body part is too large' *)
Theorem C13_limits_buffer_exact : forall cs c b pre epi fin p script,
  wf_form cs b pre [p] = true -> block_len p <= max_headers c ->
  (max_buffer c = length (p_content p) ->
     parse_form cs c b (AGetData :: script) (encode_form [p] b pre epi fin)
     = ([{| po_headers := expect_headers (p_headers p) [];
            po_data := Some (p_content p) |}], Done))
  /\ (0 < length (p_content p) -> max_buffer c = length (p_content p) - 1 ->
     parse_form cs c b (AGetData :: script) (encode_form [p] b pre epi fin)
     = ([obs_skip p], Failed ETooLarge)).
Proof. exact limits_buffer_exact. Qed.
Print Assumptions C13_limits_buffer_exact.

(* INDEPENDENCE OF THE TRANSPORT CHUNKING: C14's refinement theorems composed with the above.
   [parse_form_sync] / [parse_form_async] (ModelReaders.v) are the same parser loop running on
   the MODELLED BUFFERED READERS of C14 exactly as the real code does (the part stream is
   stream.delimit(delimiter), the application acts on that child reader, the parent continues
   from wherever the child's read-ahead left it).  For EVERY body (valid or not), every
   short-read schedule of the source and every chunk size >= boundary length + 4, the result
   is the one computed over the flat cursor ... *)
Theorem C13_multipart_chunking_independent : forall cs c b script body sched,
  4 <= cs -> 1 <= length b -> length b + 4 <= cs ->
  parse_form_sync cs c b script body sched = parse_form cs c b script body.
Proof. exact multipart_chunking_independent_sync. Qed.
Print Assumptions C13_multipart_chunking_independent.

(* ... hence for encoded forms exactly the encoded parts / limit errors, through the reader *)
Theorem C13_multipart_roundtrip_through_sync_reader : forall cs c b pre epi fin ps script sched,
  wf_form cs b pre ps = true ->
  parse_form_sync cs c b script (encode_form ps b pre epi fin) sched = expected_run cs c 0 ps script.
Proof. exact multipart_roundtrip_sync. Qed.
Print Assumptions C13_multipart_roundtrip_through_sync_reader.

(* the same through the async reader, for every way the transport chunks the body (incl. empty
   and 1-byte chunks).  [F] is the loop fuel of the async reader model (>= #chunks + 6).
   script_ok is needed here: read_until(invalid delimiter, 0) returns b'' in the async reader
   (the generator that validates the delimiter is never started) but is a ValueError on the
   cursor -- Example script_ok_needed in ProofsChunkingAsync.v. *)
Theorem C13_multipart_chunking_independent_async : forall cs F c b script chunks,
  4 <= cs -> 1 <= length b -> length b + 4 <= cs -> length chunks + 6 <= F ->
  script_ok cs script = true ->
  parse_form_async cs F c b script chunks = parse_form cs c b script (concat chunks).
Proof. exact multipart_chunking_independent_async. Qed.
Print Assumptions C13_multipart_chunking_independent_async.

Theorem C13_multipart_roundtrip_through_async_reader : forall cs F c b pre epi fin ps script chunks,
  wf_form cs b pre ps = true -> concat chunks = encode_form ps b pre epi fin ->
  length chunks + 6 <= F -> script_ok cs script = true ->
  parse_form_async cs F c b script chunks = expected_run cs c 0 ps script.
Proof. exact multipart_roundtrip_async. Qed.
Print Assumptions C13_multipart_roundtrip_through_async_reader.

(* NAMES, FILENAMES, CONTENT TYPES.  ModelPart.v models BodyPart.content_type / .name /
   .filename over the header dictionary (ASCII / strict UTF-8 decoding, C11's parse_header model
   incl. its quoted-string path, the filename* regex, percent-decoding, charset decoding).
   The reference encoder's domain (wf_field): name and plain filename = any Unicode scalar values
   except double quote, backslash, CR, LF (so ';', '=', spaces, non-BMP are fine);
   extended filename (filename*=UTF-8''pct) = any non-empty string of scalar values;
   content type = ASCII without CR/LF.  For every field in that domain the part presents exactly
   the field's content type (default text/plain), name and filename. *)
Theorem C13_field_view_roundtrip : forall b f, wf_field b f = true ->
  view_of (expect_headers (p_headers (field_part f)) []) = field_view f.
Proof. exact field_view_roundtrip. Qed.
Print Assumptions C13_field_view_roundtrip.

(* the Content-Disposition value the encoder writes parses (C11 model, old-stdlib path with
   quote counting) to exactly the name / filename / filename* parameters *)
Theorem C13_parse_content_disposition : forall name fn,
  quotable name = true -> wf_filename fn = true ->
  let ps := snd (parse_header (cd_value name fn)) in
  pget ps s_name = Some name /\
  match fn with
  | None => pget ps s_filename = None /\ pget ps s_filename_star = None
  | Some (false, f) => pget ps s_filename = Some f /\ pget ps s_filename_star = None
  | Some (true, f) => pget ps s_filename_star = Some (s_ext_value f) /\ pget ps s_filename = None
  end.
Proof. exact parse_cd_value. Qed.
Print Assumptions C13_parse_content_disposition.

(* the whole form, at the level of fields: parse(encode(fields)) is the expected run (any
   script, any limits), and every yielded part presents its field's content type, name and
   filename *)
Theorem C13_form_roundtrip : forall cs c b pre epi fin fs script,
  (1 <=? length b) && (length b + 4 <=? cs) && (4 <=? cs) && no_early (DASHDASH ++ b) pre = true ->
  forallb (wf_field b) fs = true ->
  parse_form cs c b script (encode_form (map field_part fs) b pre epi fin)
  = expected_run cs c 0 (map field_part fs) script
  /\ Forall2 (fun o f => view_of (po_headers o) = field_view f)
             (fst (expected_run cs c 0 (map field_part fs) script))
             (firstn (length (fst (expected_run cs c 0 (map field_part fs) script))) fs).
Proof. exact form_roundtrip. Qed.
Print Assumptions C13_form_roundtrip.

(* WHEN THE METADATA IS READ.  ModelHeap.v models the header dictionaries as references into a
   store with one allocation per yielded part (the `headers = {}` inside the loop) and makes the
   moment of the metadata read part of the consumption script: before the content, after the
   content, only after the whole form was iterated (part objects kept), or twice.  Whatever the
   moments, every read returns the view of the part's OWN headers ... *)
Theorem C13_metadata_read_time_independent : forall ps times,
  metadata_views false ps times = own_views ps times.
Proof. exact metadata_read_time_independent. Qed.
Print Assumptions C13_metadata_read_time_independent.

(* ... which is false of the aliasing variant (one dictionary shared by all parts of an
   iteration, cleared per part): a late read reports a later part's values *)
Theorem C13_metadata_late_read_wrong_if_shared :
  exists ps times, metadata_views true ps times <> own_views ps times.
Proof. exact late_read_wrong_if_shared. Qed.
Print Assumptions C13_metadata_late_read_wrong_if_shared.

(* get_text() / .text, get_media() / .media, get_data() / .data: ModelPartOps.v is the state machine
   of one BodyPart (stream + the caches _data and _media; handler resolution = C11's model of
   Handlers._resolve on the part's content type; what the k-th handler invocation does is an
   input).  TEXT ROUND TRIP: a text/plain part whose charset is declared with one of the encoder's
   spellings (utf-8, UTF-8, utf8, latin-1, ISO-8859-1, latin1, ascii, us-ascii, US-ASCII) or not
   declared (default utf-8), holding the bytes of a text encodable in that charset and within
   the buffer limit: get_text() returns exactly that text (header dictionary as produced for a
   form field: content-disposition first, then content-type). *)
Theorem C13_part_text_roundtrip : forall max_buffer name cd t v,
  (name = None /\ cd = CUtf8) \/ (exists n, name = Some n /\ In (n, cd) text_charsets) ->
  encodable cd t = true -> length (encode_with cd t) <= max_buffer ->
  let h := [(s_content_disposition, v); (s_content_type, text_ctype name)] in
  get_text max_buffer s_utf8_default h (pinit (encode_with cd t))
  = (PText (Some t), {| s_rest := []; s_data := Some (encode_with cd t); s_media := None;
                        s_calls := 0; s_log := [] |}).
Proof. exact part_text_roundtrip_cd. Qed.
Print Assumptions C13_part_text_roundtrip.

(* a part that is not text/plain: get_text() is None and does not touch the stream *)
Theorem C13_part_text_not_text_plain : forall max_buffer dc h s ct,
  content_type h = AOk ct -> fst (parse_header ct) <> s_text_plain ->
  get_text max_buffer dc h s = (PText None, s).
Proof. exact part_text_not_text_plain. Qed.
Print Assumptions C13_part_text_not_text_plain.

(* MEDIA PARSED AT MOST ONCE: once a handler invocation succeeded, every later get_media() /
   .media returns the same object, invokes no handler and reads nothing *)
Theorem C13_part_media_parsed_once : forall max_buffer dc hd hok h s r s',
  get_media hd hok h s = (r, s') -> forall k, r = PMedia k ->
  s_media s' = Some k /\
  forall ops, Forall (fun o => o = PGetMedia) ops ->
    prun max_buffer dc hd hok h s' ops = (map (fun _ => PMedia k) ops, s').
Proof. exact part_media_parsed_once. Qed.
Print Assumptions C13_part_media_parsed_once.

(* whatever the application does with a part: handler invocations only ever grow, none happens
   once the media is cached, and each one is logged (handler, content type, bytes) exactly once *)
Theorem C13_part_media_invocations : forall max_buffer dc hd hok h ops s rs s',
  prun max_buffer dc hd hok h s ops = (rs, s') ->
  s_calls s <= s_calls s' /\ (s_media s <> None -> s_calls s' = s_calls s) /\
  length (s_log s') = length (s_log s) + (s_calls s' - s_calls s).
Proof. exact part_media_invocations. Qed.
Print Assumptions C13_part_media_invocations.

(* the part content is read into _data once; every later get_data() returns the cached bytes *)
Theorem C13_part_data_read_once : forall max_buffer s r s',
  get_data max_buffer s = (r, s') ->
  s_data s' <> None /\
  forall r2 s2, get_data max_buffer s' = (r2, s2) -> s2 = s' /\ exists d, r2 = PBytes d /\ s_data s' = Some d.
Proof. exact part_data_read_once. Qed.
Print Assumptions C13_part_data_read_once.

(* INVALID STRUCTURE.  For EVERY byte string as body (valid, corrupted, truncated, garbage),
   every boundary, every limit setting and every consumption script with valid read_until
   delimiters, iterating the form terminates (fuel |body|+1 is never exhausted) and ends
   normally or with MultipartParseError -- never another exception, never a hang. *)
Theorem C13_invalid_structure_is_parse_error : forall cs c b script body,
  4 <= cs -> 1 <= length b -> length b + 4 <= cs -> script_ok cs script = true ->
  parse_error_or_done (snd (parse_form cs c b script body)).
Proof. exact no_crash. Qed.
Print Assumptions C13_invalid_structure_is_parse_error.

(* "... or silently wrong parts" (the part that holds of arbitrary bodies): whatever a part's
   stream hands to the application is a contiguous slice of the request body *)
Theorem C13_part_data_is_a_slice_of_the_body : forall cs c b script body ps st,
  parse_form cs c b script body = (ps, st) ->
  Forall (fun p => match po_data p with
                   | Some d => exists i, firstn (length d) (skipn i body) = d
                   | None => True end) ps.
Proof. exact parts_prefix_sound. Qed.
Print Assumptions C13_part_data_is_a_slice_of_the_body.

(* the oracles the harness evaluates on the real parsers accept the model *)
Theorem C13_oracle_roundtrip_sound : forall cs c b pre epi fin ps script,
  wf_form cs b pre ps = true ->
  oracle_roundtrip cs c ps script (parse_form cs c b script (encode_form ps b pre epi fin)) = true.
Proof. exact oracle_roundtrip_sound. Qed.
Print Assumptions C13_oracle_roundtrip_sound.

Theorem C13_oracle_no_crash_sound : forall cs c b script body,
  4 <= cs -> 1 <= length b -> length b + 4 <= cs -> script_ok cs script = true ->
  oracle_no_crash (parse_form cs c b script body) = true.
Proof. exact oracle_no_crash_sound. Qed.
Print Assumptions C13_oracle_no_crash_sound.

(* ... and an observation the round-trip oracle accepts has exactly the expected parts *)
Theorem C13_oracle_exact : forall a b, obs_eqb a b = true -> a = b.
Proof. exact obs_eqb_eq. Qed.
Print Assumptions C13_oracle_exact.

(* Non-vacuity: a concrete well-formed form (two parts, a dropped header, a duplicate header,
   CRLF and dashes inside the content) and its run under limits and a script. *)
Example C13_wf_satisfiable : exists cs b pre ps, wf_form cs b pre ps = true /\ length ps = 2.
Proof.
  exists 40, [120; 121]%N, [112]%N,
    [ {| p_headers := [([67;45;68]%N, [102;59;32;110;61;34;97;34]%N); ([88]%N, [49]%N)];
         p_content := [104;13;10;45;45;120;10]%N |};
      {| p_headers := [([99;111;110;116;101;110;116;45;116;121;112;101]%N, [116;47;112]%N)];
         p_content := [] |} ].
  split; [vm_compute; reflexivity | reflexivity].
Qed.
