(* C13 — property theorems only.  Each is closed by [exact] of a lemma from a Proofs*.v file
   and followed by Print Assumptions. *)
From Coq Require Import ZArith NArith List Bool Arith.
From Falcon.lib Require Import PyStr.
From Falcon.C14 Require Import Spec.
From Falcon.C13 Require Import Model Spec ProofsNoCrash.
Import ListNotations.
Local Open Scope nat_scope.

(* "a structurally invalid body produces the multipart parse error, never another exception,
   a hang ...": for EVERY byte string as body (valid, corrupted, truncated, garbage), every
   boundary of length 1..cs-4, every limit setting and every consumption script, iterating the
   form terminates (within fuel |body|+1) and ends normally or with MultipartParseError. *)
Theorem C13_invalid_structure_is_parse_error : forall cs c b script body,
  4 <= cs -> 1 <= length b -> length b + 4 <= cs -> script_ok cs script = true ->
  parse_error_or_done (snd (parse_form cs c b script body)).
Proof. exact no_crash. Qed.
Print Assumptions C13_invalid_structure_is_parse_error.

(* "... or silently wrong parts" (the part that holds of arbitrary bodies): whatever a part's
   stream hands to the application is a contiguous slice of the request body *)
Theorem C13_part_data_is_a_slice_of_the_body : forall cs c b script body ps st,
  parse_form cs c b script body = (ps, st) ->
  Forall (fun p => match po_data p with
                   | Some d => exists i, firstn (length d) (skipn i body) = d
                   | None => True end) ps.
Proof. exact parts_prefix_sound. Qed.
Print Assumptions C13_part_data_is_a_slice_of_the_body.
