From Coq Require Import ZArith List Bool.
From Falcon.C13 Require Import Model Spec.
