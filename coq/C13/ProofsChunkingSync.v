(* C13 x C14 — the multipart parser running on the modelled sync buffered reader
   (ModelReaders.v: sparse_loop / parse_form_sync) computes exactly what the parser over the
   flat cursor computes (Model.v: parse_loop / parse_form): for every conforming transport,
   every short-read schedule and every chunk size >= boundary length + 4.  Composed with
   ProofsRoundtrip.v: parsing an encoded form THROUGH THE BUFFERED READER yields the encoded
   parts / limit errors. *)
From Coq Require Import ZArith NArith List Bool Arith Lia.
From Falcon.lib Require Import PyStr.
From Falcon.C14 Require Import Spec Model ProofsDefs ProofsSync ProofsFind ProofsUntil ProofsHistory.
From Falcon.C13 Require Import Model ModelReaders Spec ProofsRoundtrip.
Import ListNotations.
Local Open Scope nat_scope.

(* ================================================================== 1. the cursor-level loop *)
Lemma upto_None_cut : forall d (l : bytes), upto d None l = length (cut d l).
Proof.
  intros d l. unfold upto, cut, lim. destruct (find d l) as [i|]; [|reflexivity].
  rewrite firstn_length. lia.
Qed.

(* pipe_until(d) from anywhere before the delimiter stops at the same place *)
Lemma upto_None_skip : forall d (r : bytes) t, t <= length (cut d r) ->
  skipn (upto d None (skipn t r)) (skipn t r) = skipn (upto d None r) r.
Proof.
  intros d r t Ht. rewrite !upto_None_cut. rewrite (cut_skipn d t r Ht).
  rewrite skipn_length, skipn_add. f_equal. lia.
Qed.

Lemma sp_pipe_until_form : forall cs d (l : bytes),
  sp_op cs (OPipeUntil d true) l =
  if bad_delim cs d then (RValErr, l) else
  if startswith (skipn (upto d None l) l) d
  then (RBytes (firstn (upto d None l) l), skipn (length d) (skipn (upto d None l) l))
  else (RDelimErr (firstn (upto d None l) l), skipn (upto d None l) l).
Proof.
  intros cs d l. cbn [sp_op]. destruct (bad_delim cs d); [reflexivity|].
  unfold sp_until. destruct (startswith (skipn (upto d None l) l) d); reflexivity.
Qed.

(* the loop does not care where inside the current part the stream stands.  (Holds for any
   delimiter and any fuel; k <= t is not needed.) *)
Lemma parse_loop_skip : forall cs c fuel d seen script (r : bytes) t k,
  t <= length (cut d r) -> k <= length (cut d r) ->
  parse_loop cs c fuel false d seen script (skipn t r) =
  parse_loop cs c fuel false d seen script (skipn k r).
Proof.
  intros cs c fuel d seen script r t k Ht Hk. destruct fuel as [|f]; [reflexivity|].
  cbn [parse_loop]. rewrite !sp_pipe_until_form.
  rewrite (upto_None_skip d r t Ht), (upto_None_skip d r k Hk).
  destruct (bad_delim cs d); [reflexivity|].
  destruct (startswith (skipn (upto d None r) r) d); reflexivity.
Qed.

(* ================================================================== 2. the loop on the reader *)
Section Refines.
Variable S : Type.
Variable rd : S -> nat -> bytes * S.
Variable sabs : S -> bytes.
Variable cs : nat.
Variable P : S -> Prop.
Variable NT : Prop.
Hypothesis Hsrc : good_source_on P rd sabs.
Hypothesis cs4 : 4 <= cs.
Variable c : cfg.
Notation abs := (abs S sabs).
Notation Inv := (InvP S sabs P NT).

Lemma cs_pos : 0 < cs.
Proof. lia. Qed.

(* an invalid delimiter is the ValueError, whatever the state *)
Lemma read_until_bad : forall (T : Type) (trd : T -> nat -> bytes * T) (st : state T) d size consume,
  bad_delim cs d = true -> read_until T trd cs true st d size consume = (RValErr, st).
Proof.
  intros T trd st d size consume Hbad. unfold read_until.
  assert (Hru : forall n cns, read_until_ T trd cs true st d n cns = (UValErr, st)).
  { intros n cns. unfold read_until_. unfold bad_delim in Hbad. rewrite Hbad. reflexivity. }
  set (rs := normalize_size T st size).
  destruct (Nat.leb_spec rs (max_join_size cs)) as [Hle|Hgt].
  - rewrite Hru. reflexivity.
  - unfold pipe_until.
    assert (Hrs : normalize_size T st (Some rs) = rs).
    { unfold rs, normalize_size. destruct size as [n|].
      - destruct (Nat.ltb_spec (rem st + avail T st) n) as [H1|H1].
        + rewrite Nat.ltb_irrefl. reflexivity.
        + destruct (Nat.ltb_spec (rem st + avail T st) n); [lia | reflexivity].
      - rewrite Nat.ltb_irrefl. reflexivity. }
    rewrite Hrs. cbn [pu_loop]. destruct (Nat.eqb_spec rs 0) as [Hz|_]; [lia|].
    rewrite Hru. reflexivity.
Qed.

(* one valid operation of the application on a fresh delimited child of [p3]: it does what
   the cursor does on the part body, and leaves the parent within the body, at or after the
   point the child consumed up to (the child's read-ahead) *)
Lemma child_op : forall (p3 : state S) (d : bytes) o r ch,
  Inv p3 -> 1 <= length d -> length d <= cs -> valid_op cs o = true ->
  run_op (state S) (child_rd S rd cs true d) cs true (init (state S) (child_max S p3) p3) o
    = (r, ch) ->
  exists v', sp_op cs o (cut d (abs p3)) = (r, v') /\ Inv (src ch) /\
  exists t, length (cut d (abs p3)) - length v' <= t /\ t <= length (cut d (abs p3)) /\
            abs (src ch) = skipn t (abs p3).
Proof.
  intros p3 d o r ch HI Hd1 Hd2 Hv H.
  set (W := abs p3) in *. set (J := fun _ : state S => True).
  assert (HJ : forall (p : state S) o r (p' : state S), J p -> Inv p -> valid_op cs o = true ->
                 run_op S rd cs true p o = (r, p') -> J p') by (intros; exact I).
  pose proof (child_init S sabs cs P NT cs_pos J d Hd1 Hd2 W p3 HI I eq_refl) as HR.
  destruct (child_step S rd sabs cs P NT Hsrc cs_pos J HJ d Hd1 Hd2 W _ o r ch HR Hv H)
    as (HR' & Hsp & Hfl).
  change (fl S sabs (init (state S) (child_max S p3) p3)) with W in Hsp, Hfl.
  exists (cut d (fl S sabs ch)). split; [exact Hsp|].
  destruct HR' as ((_ & (HIp & _ & t & Ht & Hp) & _) & m & Hm & Hflm).
  split; [exact HIp|]. exists t.
  assert (Hmc : m <= length (cut d W)) by lia.
  pose proof (cut_length_le d W) as HcW.
  assert (Htm : t = m + length (buffered ch)).
  { unfold fl in Hflm. fold (buffered ch) in Hflm. rewrite Hp in Hflm.
    apply (f_equal (@length N)) in Hflm. rewrite app_length, !skipn_length in Hflm. lia. }
  split; [|split; [exact Ht | exact Hp]].
  rewrite Hflm, (cut_skipn d m W Hmc), skipn_length. lia.
Qed.

(* the application's action on the part stream *)
Lemma sync_action_spec : forall (d : bytes) a (p3 : state S) od ost p4,
  Inv p3 -> 1 <= length d -> length d <= cs ->
  sync_action S rd cs c d a p3 = (od, ost, p4) ->
  let r3 := abs p3 in
  let body := cut d r3 in
  match a with
  | ASkip => od = None /\ ost = None /\ p4 = p3
  | ARead size =>
    od = Some (firstn (lim size body) body) /\ ost = None /\ Inv p4 /\
    exists t, lim size body <= t /\ t <= length body /\ abs p4 = skipn t r3
  | AGetData =>
    let out := firstn (Datatypes.S (max_buffer c)) body in
    if Datatypes.S (max_buffer c) <=? length out
    then od = None /\ ost = Some (Failed ETooLarge)
    else od = Some out /\ ost = None /\ Inv p4 /\
         exists t, length out <= t /\ t <= length body /\ abs p4 = skipn t r3
  | AReadUntil dd size =>
    match sp_op cs (OReadUntil dd size false) body with
    | (RBytes out, _) =>
      od = Some out /\ ost = None /\ Inv p4 /\
      exists t, length out <= t /\ t <= length body /\ abs p4 = skipn t r3
    | _ => od = None /\ ost = Some Crash
    end
  end.
Proof.
  intros d a p3 od ost p4 HI Hd1 Hd2 H. cbv zeta. unfold sync_action in H.
  set (child := init (state S) (child_max S p3) p3) in H.
  set (body := cut d (abs p3)) in *.
  destruct a as [| size | | dd size].
  - injection H as <- <- <-. auto.
  - destruct (read (state S) (child_rd S rd cs true d) cs true child size) as [out ch] eqn:E.
    injection H as <- <- <-.
    assert (Ho : run_op (state S) (child_rd S rd cs true d) cs true child (ORead size)
                 = (RBytes out, ch)) by (cbn [run_op]; rewrite E; reflexivity).
    destruct (child_op p3 d (ORead size) _ _ HI Hd1 Hd2 eq_refl Ho)
      as (v' & Hsp & HI4 & t & Ht1 & Ht2 & Hp).
    fold body in Hsp, Ht1, Ht2. cbn [sp_op] in Hsp. unfold sp_read in Hsp.
    injection Hsp as Hout Hv'. subst out v'. pose proof (lim_le size body) as Hl.
    rewrite skipn_length in Ht1.
    split; [reflexivity|]. split; [reflexivity|]. split; [exact HI4|].
    exists t. split; [lia|]. split; [exact Ht2 | exact Hp].
  - destruct (read (state S) (child_rd S rd cs true d) cs true child
                   (Some (Datatypes.S (max_buffer c)))) as [out ch] eqn:E.
    assert (Ho : run_op (state S) (child_rd S rd cs true d) cs true child
                        (ORead (Some (Datatypes.S (max_buffer c)))) = (RBytes out, ch))
      by (cbn [run_op]; rewrite E; reflexivity).
    destruct (child_op p3 d (ORead (Some (Datatypes.S (max_buffer c)))) _ _ HI Hd1 Hd2 eq_refl Ho)
      as (v' & Hsp & HI4 & t & Ht1 & Ht2 & Hp).
    fold body in Hsp, Ht1, Ht2. cbn [sp_op] in Hsp. unfold sp_read in Hsp. cbn [lim] in Hsp.
    rewrite firstn_min_length, skipn_min_length in Hsp.
    assert (Hout : out = firstn (Datatypes.S (max_buffer c)) body) by congruence.
    assert (Hv' : v' = skipn (Datatypes.S (max_buffer c)) body) by congruence.
    clear Hsp. subst out v'.
    destruct (Datatypes.S (max_buffer c) <=? length (firstn (Datatypes.S (max_buffer c)) body));
      injection H as <- <- <-.
    + auto.
    + split; [reflexivity|]. split; [reflexivity|]. split; [exact HI4|].
      exists t. rewrite skipn_length in Ht1. rewrite firstn_length.
      split; [lia|]. split; [exact Ht2 | exact Hp].
  - destruct (bad_delim cs dd) eqn:Hbad.
    + rewrite (read_until_bad _ _ child dd size false Hbad) in H. injection H as <- <- <-.
      cbn [sp_op]. rewrite Hbad. auto.
    + destruct (read_until (state S) (child_rd S rd cs true d) cs true child dd size false)
        as [rr ch] eqn:E.
      assert (Hv : valid_op cs (OReadUntil dd size false) = true)
        by (cbn [valid_op]; rewrite Hbad; reflexivity).
      destruct (child_op p3 d (OReadUntil dd size false) rr ch HI Hd1 Hd2 Hv E)
        as (v' & Hsp & HI4 & t & Ht1 & Ht2 & Hp).
      fold body in Hsp, Ht1, Ht2. rewrite Hsp.
      cbn [sp_op] in Hsp. rewrite Hbad in Hsp. unfold sp_until in Hsp.
      injection Hsp as Hrr Hv'. subst rr v'. injection H as <- <- <-.
      split; [reflexivity|]. split; [reflexivity|]. split; [exact HI4|].
      exists t. rewrite skipn_length in Ht1. rewrite firstn_length.
      pose proof (upto_le_length dd size body). split; [lia|]. split; [exact Ht2 | exact Hp].
Qed.

Lemma length_CRLF : length CRLF = 2.
Proof. reflexivity. Qed.

Lemma length_CRLFCRLF : length CRLFCRLF = 4.
Proof. reflexivity. Qed.

Theorem sparse_loop_refines : forall fuel (prologue : bool) (delim : bytes) seen script st,
  Inv st -> 1 <= length delim ->
  length (if prologue then CRLF ++ delim else delim) <= cs ->
  sparse_loop S rd cs c fuel prologue delim seen script st =
  parse_loop cs c fuel prologue delim seen script (abs st).
Proof.
  induction fuel as [|f IH]; intros prologue delim seen script st HI Hd1 Hd2; [reflexivity|].
  assert (Hdcs : length delim <= cs).
  { destruct prologue; [rewrite app_length, length_CRLF in Hd2|]; lia. }
  set (delim' := if prologue then CRLF ++ delim else delim) in *.
  assert (Hd1' : 1 <= length delim').
  { unfold delim'. destruct prologue; [rewrite app_length, length_CRLF|]; lia. }
  cbn [sparse_loop parse_loop]. fold delim'.
  destruct (pipe_until S rd cs true st delim true None) as [r1 p1] eqn:E1.
  destruct (pipe_until_spec S rd sabs cs P NT Hsrc cs_pos _ _ _ _ _ HI Hd1 Hdcs E1) as [Hs1 HI1].
  rewrite Hs1. destruct r1 as [b1 | w1 | l1 |]; try reflexivity.
  destruct (peek S rd cs p1 (Some 2)) as [pk p1a] eqn:E2.
  destruct (ProofsSync.peek_spec S rd sabs cs P NT Hsrc _ _ _ _ HI1 E2) as (Hpk & Ha1a & HI1a).
  rewrite <- Hpk. destruct (str_eqb pk DASHDASH); [reflexivity|].
  rewrite <- Ha1a.
  destruct (read_until S rd cs true p1a CRLF (Some 0) true) as [r2 p2] eqn:E3.
  assert (Hc1 : 1 <= length CRLF) by (rewrite length_CRLF; lia).
  assert (Hc2 : length CRLF <= cs) by (rewrite length_CRLF; lia).
  destruct (read_until_spec S rd sabs cs P NT Hsrc cs_pos _ _ _ _ _ _ HI1a Hc1 Hc2 E3) as [Hs2 HI2].
  rewrite Hs2. destruct r2 as [b2 | w2 | l2 |]; try reflexivity.
  destruct (read_until S rd cs true p2 CRLFCRLF (Some (max_headers c)) true) as [r3 p3] eqn:E4.
  assert (Hcc1 : 1 <= length CRLFCRLF) by (rewrite length_CRLFCRLF; lia).
  assert (Hcc2 : length CRLFCRLF <= cs) by (rewrite length_CRLFCRLF; lia).
  destruct (read_until_spec S rd sabs cs P NT Hsrc cs_pos _ _ _ _ _ _ HI2 Hcc1 Hcc2 E4) as [Hs3 HI3].
  rewrite Hs3. destruct r3 as [block | w3 | l3 |]; try reflexivity.
  destruct (parse_headers block) as [hs|]; [|reflexivity].
  destruct ((0 <? max_count c) && (max_count c <? Datatypes.S seen)); [reflexivity|].
  destruct (sync_action S rd cs c delim' (hd ASkip script) p3) as [[od ost] p4] eqn:Ea.
  pose proof (sync_action_spec delim' _ p3 od ost p4 HI3 Hd1' Hd2 Ea) as Hact. cbv zeta in Hact.
  assert (Hnext : forall p4' t, Inv p4' -> t <= length (cut delim' (abs p3)) ->
            abs p4' = skipn t (abs p3) -> forall k, k <= t ->
            sparse_loop S rd cs c f false delim' (Datatypes.S seen) (tl script) p4' =
            parse_loop cs c f false delim' (Datatypes.S seen) (tl script) (skipn k (abs p3))).
  { intros p4' t HI4 Ht Hp k Hk. rewrite (IH false delim' _ _ p4' HI4 Hd1' Hd2), Hp.
    apply parse_loop_skip; lia. }
  destruct (hd ASkip script) as [| size | | dd size].
  - destruct Hact as (-> & -> & ->).
    rewrite (IH false delim' _ _ p3 HI3 Hd1' Hd2). reflexivity.
  - destruct Hact as (-> & -> & HI4 & t & Ht1 & Ht2 & Hp). unfold sp_read.
    rewrite (Hnext p4 t HI4 Ht2 Hp (length (firstn (lim size (cut delim' (abs p3)))
                                                 (cut delim' (abs p3))))).
    + reflexivity.
    + rewrite firstn_length. lia.
  - destruct (Datatypes.S (max_buffer c) <=?
              length (firstn (Datatypes.S (max_buffer c)) (cut delim' (abs p3)))).
    + destruct Hact as (-> & ->). reflexivity.
    + destruct Hact as (-> & -> & HI4 & t & Ht1 & Ht2 & Hp).
      rewrite (Hnext p4 t HI4 Ht2 Hp _ Ht1). reflexivity.
  - destruct (sp_op cs (OReadUntil dd size false) (cut delim' (abs p3))) as [[out | w | l |] v'].
    + destruct Hact as (-> & -> & HI4 & t & Ht1 & Ht2 & Hp).
      rewrite (Hnext p4 t HI4 Ht2 Hp _ Ht1). reflexivity.
    + destruct Hact as (-> & ->). reflexivity.
    + destruct Hact as (-> & ->). reflexivity.
    + destruct Hact as (-> & ->). reflexivity.
Qed.

End Refines.

(* ================================================================== 3. the form *)
Lemma length_DASHDASH' : length DASHDASH = 2.
Proof. reflexivity. Qed.

Theorem multipart_chunking_independent_sync : forall cs c b script body sched,
  4 <= cs -> 1 <= length b -> length b + 4 <= cs ->
  parse_form_sync cs c b script body sched = parse_form cs c b script body.
Proof.
  intros cs c b script body sched Hcs Hb1 Hb2. unfold parse_form_sync, parse_form.
  set (st := init source (length body) {| sdata := body; sched := sched |}).
  assert (HI : InvP source sdata (fun _ => True) False st).
  { split; [split; simpl; lia|]. split; [exact I | intros []]. }
  assert (Habs : abs source sdata st = body).
  { unfold st, ProofsDefs.abs, ProofsDefs.tail, init. cbn [buf bpos rem src sdata skipn app].
    apply firstn_all. }
  transitivity (parse_loop cs c (S (length body)) true (DASHDASH ++ b) 0 script
                           (abs source sdata st)); [|rewrite Habs; reflexivity].
  apply (sparse_loop_refines source src_read sdata cs (fun _ => True) False
           (good_source_total source src_read sdata src_read_good) Hcs c).
  - exact HI.
  - rewrite app_length, length_DASHDASH'. lia.
  - rewrite !app_length, length_DASHDASH'. cbn [length CRLF]. simpl. lia.
Qed.

(* ================================================================== 4. composed with the roundtrip *)
Corollary multipart_roundtrip_sync : forall cs c b pre epi fin ps script sched,
  wf_form cs b pre ps = true ->
  parse_form_sync cs c b script (encode_form ps b pre epi fin) sched =
  expected_run cs c 0 ps script.
Proof.
  intros cs c b pre epi fin ps script sched Hwf.
  rewrite <- (roundtrip_any_script cs c b pre epi fin ps script Hwf).
  pose proof Hwf as Hwf'. unfold wf_form in Hwf'.
  apply andb_true_iff in Hwf' as [Hwf' _]. apply andb_true_iff in Hwf' as [Hwf' _].
  apply andb_true_iff in Hwf' as [Hwf' H4]. apply andb_true_iff in Hwf' as [Hb1 Hb2].
  apply Nat.leb_le in Hb1, Hb2, H4.
  apply multipart_chunking_independent_sync; assumption.
Qed.
