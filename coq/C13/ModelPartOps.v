(* C13 — executable model of what an application can do with ONE yielded BodyPart, as a state
   machine over the part's delimited stream and its caches (falcon/media/multipart.py BodyPart,
   shared by falcon/asgi/multipart.py with awaits): stream.read, get_data()/.data (cache _data),
   get_text()/.text, get_media()/.media (cache _media; no error cache: unlike Request.get_media,
   a failed handler invocation is NOT remembered, so C12's state machine does not fit and is
   not imported).  Handler resolution is C11's model of Handlers._resolve on the part's content
   type with default 'text/plain'; what the k-th handler invocation does (succeeds / raises) is
   an input [hok], as in C12; the built-in handlers read the whole stream. *)
From Coq Require Import ZArith NArith List Bool Arith Lia.
From Falcon.lib Require Import PyStr Utf8.
From Falcon.C14 Require Import Spec.
From Falcon.C13 Require Import Model ModelPart.
Require Falcon.C11.Model.
Import ListNotations.
Local Open Scope nat_scope.

Inductive pop :=
| PRead (size : option nat)    (* part.stream.read(size) *)
| PGetData                     (* part.get_data() / part.data *)
| PGetText                     (* part.get_text() / part.text *)
| PGetMedia.                   (* part.get_media() / part.media *)

Inductive pres :=
| PBytes (b : bytes)
| PText (t : option str)
| PMedia (k : nat)             (* the object produced by handler invocation k *)
| PTooLarge                    (* MultipartParseError 'body part is too large' *)
| PBadText                     (* MultipartParseError 'invalid text or charset' *)
| PBadHeader                   (* MultipartParseError from the content_type property *)
| PHandlerError (k : nat)      (* whatever handler invocation k raised; not cached *)
| PUnsupported                 (* HTTPUnsupportedMediaType from the resolver *)
| PNeed.                       (* outside the modelled domain (ModelPart.ANeed, float oracle) *)

Record pstate := {
  s_rest : bytes;                        (* what the delimited part stream still holds *)
  s_data : option bytes;                 (* _data *)
  s_media : option nat;                  (* _media: Some k = result of invocation k *)
  s_calls : nat;                         (* handler.deserialize invocations so far *)
  s_log : list (N * str * bytes) }.      (* per invocation: handler, content type passed, bytes it read *)

Definition pinit (content : bytes) : pstate :=
  {| s_rest := content; s_data := None; s_media := None; s_calls := 0; s_log := [] |}.

Definition s_charset : str := [99;104;97;114;115;101;116]%N.

Section PartOps.
Variable max_buffer : nat.                     (* parse_options.max_body_part_buffer_size *)
Variable default_charset : str.                (* parse_options.default_charset *)
Variable hd : Falcon.C11.Model.hdata.          (* parse_options.media_handlers: key -> handler id *)
Variable hok : nat -> bool.                    (* does the k-th handler invocation succeed? *)
Variable h : headers.                          (* the part's header dictionary *)

(* get_data(): NOTE the assignment to _data happens before the size check, so after a
   'too large' error the truncated max+1 bytes stay cached and a second call returns them *)
Definition get_data (s : pstate) : pres * pstate :=
  match s_data s with
  | Some d => (PBytes d, s)
  | None =>
    let out := firstn (S max_buffer) (s_rest s) in
    let s' := {| s_rest := skipn (S max_buffer) (s_rest s); s_data := Some out;
                 s_media := s_media s; s_calls := s_calls s; s_log := s_log s |} in
    if S max_buffer <=? length out then (PTooLarge, s') else (PBytes out, s')
  end.

Definition get_text (s : pstate) : pres * pstate :=
  match content_type h with
  | AParseError => (PBadHeader, s)
  | ANeed => (PNeed, s)
  | AOk ct =>
    let '(mt, ps) := parse_header ct in
    if negb (str_eqb mt s_text_plain) then (PText None, s)
    else
      let charset := match pget ps s_charset with Some x => x | None => default_charset end in
      match get_data s with
      | (PBytes d, s') =>
        match lookup_codec charset with
        | None => (PNeed, s')
        | Some cd =>
          match decode_with cd d with
          | Some t => (PText (Some t), s')
          | None => (PBadText, s')
          end
        end
      | (r, s') => (r, s')
      end
  end.

Definition get_media (s : pstate) : pres * pstate :=
  match s_media s with
  | Some k => (PMedia k, s)
  | None =>
    match content_type h with
    | AParseError => (PBadHeader, s)
    | ANeed => (PNeed, s)
    | AOk ct =>
      match Falcon.C11.Model.resolve_uncached Falcon.C11.Model.cfg0 hd (Some ct, s_text_plain, true) with
      | Falcon.C11.Model.RHandler hid =>
        let k := s_calls s in
        let ok := hok k in
        ((if ok then PMedia k else PHandlerError k),
         {| s_rest := []; s_data := s_data s; s_media := if ok then Some k else None;
            s_calls := S k; s_log := s_log s ++ [(hid, ct, s_rest s)] |})
      | Falcon.C11.Model.RNeed => (PNeed, s)
      | _ => (PUnsupported, s)
      end
    end
  end.

Definition pstep (s : pstate) (o : pop) : pres * pstate :=
  match o with
  | PRead size =>
    let '(out, r) := sp_read size (s_rest s) in
    (PBytes out, {| s_rest := r; s_data := s_data s; s_media := s_media s;
                    s_calls := s_calls s; s_log := s_log s |})
  | PGetData => get_data s
  | PGetText => get_text s
  | PGetMedia => get_media s
  end.

Fixpoint prun (s : pstate) (ops : list pop) : list pres * pstate :=
  match ops with
  | [] => ([], s)
  | o :: tl => let '(r, s1) := pstep s o in let '(rs, s2) := prun s1 tl in (r :: rs, s2)
  end.

End PartOps.

(* ---- reference side for text parts: content type "text/plain; charset=<name>" and the bytes
   of a text in that charset *)
Definition s_text_plain_charset : str :=      (* text/plain; charset= *)
  [116;101;120;116;47;112;108;97;105;110;59;32;99;104;97;114;115;101;116;61]%N.

Definition text_ctype (name : option str) : str :=
  match name with None => s_text_plain | Some n => s_text_plain_charset ++ n end.

Definition encode_with (cd : codec) (t : str) : bytes :=
  match cd with CUtf8 => encode t | CLatin1 => t | CAscii => t end.

Definition encodable (cd : codec) (t : str) : bool :=
  match cd with
  | CUtf8 => forallb scalar t
  | CLatin1 => forallb (fun c => (c <? 256)%N) t
  | CAscii => is_ascii t
  end.

(* charset spellings of the reference encoder: utf-8, UTF-8, utf8, latin-1, ISO-8859-1, latin1,
   ascii, us-ascii, US-ASCII *)
Definition text_charsets : list (str * codec) :=
  [([117;116;102;45;56]%N, CUtf8); ([85;84;70;45;56]%N, CUtf8); ([117;116;102;56]%N, CUtf8);
   ([108;97;116;105;110;45;49]%N, CLatin1); ([73;83;79;45;56;56;53;57;45;49]%N, CLatin1);
   ([108;97;116;105;110;49]%N, CLatin1);
   ([97;115;99;105;105]%N, CAscii); ([117;115;45;97;115;99;105;105]%N, CAscii);
   ([85;83;45;65;83;67;73;73]%N, CAscii)].

Definition s_utf8_default : str := [117;116;102;45;56]%N.   (* MultipartParseOptions.default_charset *)
