(* C13 — parse_header (the C11 model, old stdlib path) on the Content-Disposition values the
   reference encoder writes: form-data; name="..."[; filename="..." | ; filename*=UTF-8''...] *)
From Coq Require Import ZArith NArith List Bool Arith Lia.
From Falcon.lib Require Import PyStr Utf8.
From Falcon.gen Require Import ConstsC11.
Require Falcon.C11.Model.
From Falcon.C14 Require Import Spec.
From Falcon.C13 Require Import Model Spec ModelPart SpecPart.
Import ListNotations.
Local Open Scope nat_scope.

Module C11 := Falcon.C11.Model.

(* ------------------------------------------------------------------ list helpers *)
Lemma firstn_len_app {A : Type} (a b : list A) : firstn (length a) (a ++ b) = a.
Proof.
  induction a as [|x a IH]; [reflexivity|]. cbn [length app firstn]. rewrite IH. reflexivity.
Qed.

Lemma skipn_len_app {A : Type} (a b : list A) : skipn (length a) (a ++ b) = b.
Proof. induction a as [|x a IH]; [reflexivity|]. cbn [length app skipn]. exact IH. Qed.

Lemma skipn_S_len_app {A : Type} (a : list A) x b : skipn (S (length a)) (a ++ x :: b) = b.
Proof. induction a as [|y a IH]; [reflexivity|]. cbn [length app skipn]. exact IH. Qed.

Lemma first_split (c : N) (l : list N) :
  ~ In c l \/ exists a b, l = a ++ c :: b /\ ~ In c a.
Proof.
  induction l as [|x l IH].
  - left. intros [].
  - destruct (N.eq_dec x c) as [->|Hx].
    + right. exists [], l. split; [reflexivity | intros []].
    + destruct IH as [Hn | (a & b & -> & Ha)].
      * left. intros [E|Hi]; [exact (Hx E) | exact (Hn Hi)].
      * right. exists (x :: a), b. split; [reflexivity|].
        intros [E|Hi]; [exact (Hx E) | exact (Ha Hi)].
Qed.

Lemma not_in_app (c : N) a b : ~ In c a -> ~ In c b -> ~ In c (a ++ b).
Proof. intros Ha Hb Hi. apply in_app_or in Hi as [Hi|Hi]; [exact (Ha Hi) | exact (Hb Hi)]. Qed.

Lemma not_in_cons (c x : N) l : x <> c -> ~ In c l -> ~ In c (x :: l).
Proof. intros Hx Hl [E|Hi]; [exact (Hx E) | exact (Hl Hi)]. Qed.

(* ------------------------------------------------------------------ find_from / counts *)
Lemma find_from_nochar c a rest st i : ~ In c a ->
  C11.find_from c (a ++ rest) st i = C11.find_from c rest st (i + length a).
Proof.
  revert i. induction a as [|x a IH]; intros i Hn.
  - cbn [app length]. rewrite Nat.add_0_r. reflexivity.
  - cbn [app length C11.find_from].
    assert (Hx : N.eqb x c = false).
    { apply N.eqb_neq. intro E. apply Hn. left. exact E. }
    rewrite Hx, andb_false_r.
    rewrite IH by (intro Hi; apply Hn; right; exact Hi).
    f_equal. lia.
Qed.

Lemma find_from_before c a rest st i : i + length a <= st ->
  C11.find_from c (a ++ rest) st i = C11.find_from c rest st (i + length a).
Proof.
  revert i. induction a as [|x a IH]; intros i Hle.
  - cbn [app length]. rewrite Nat.add_0_r. reflexivity.
  - cbn [app length C11.find_from]. cbn [length] in Hle.
    assert (Hs : (st <=? i) = false) by (apply Nat.leb_gt; lia).
    rewrite Hs. cbn [andb]. rewrite IH by lia. f_equal. lia.
Qed.

Lemma find_from_hit c rest st i : st <= i -> C11.find_from c (c :: rest) st i = Some i.
Proof.
  intro H. cbn [C11.find_from]. apply Nat.leb_le in H. rewrite H, N.eqb_refl. reflexivity.
Qed.

Lemma count_chr_app c a b : C11.count_chr c (a ++ b) = C11.count_chr c a + C11.count_chr c b.
Proof. unfold C11.count_chr. rewrite filter_app, app_length. reflexivity. Qed.

Lemma count_chr_notin c a : ~ In c a -> C11.count_chr c a = 0.
Proof.
  unfold C11.count_chr. induction a as [|x a IH]; intro Hn; [reflexivity|].
  cbn [filter]. assert (Hx : N.eqb c x = false).
  { apply N.eqb_neq. intro E. apply Hn. left. symmetry. exact E. }
  rewrite Hx. apply IH. intro Hi. apply Hn. right. exact Hi.
Qed.

Lemma count_chr_one c : C11.count_chr c [c] = 1.
Proof. unfold C11.count_chr. cbn [filter]. rewrite N.eqb_refl. reflexivity. Qed.

Lemma count2_notin a b s : ~ In a s -> C11.count2 a b s = 0.
Proof.
  induction s as [|x s IH]; intro Hn; [reflexivity|].
  destruct s as [|y s]; [reflexivity|].
  cbn [C11.count2].
  assert (Hx : N.eqb x a = false).
  { apply N.eqb_neq. intro E. apply Hn. left. exact E. }
  rewrite Hx. cbn [andb]. apply IH. intro Hi. apply Hn. right. exact Hi.
Qed.

(* ------------------------------------------------------------------ adjust_end *)
Definition seg_end (post : str) (n : nat) : option nat :=
  match post with [] => None | _ => Some n end.

Lemma dq_ne_semi : C11.dq <> C11.semi. Proof. discriminate. Qed.
Lemma dq_ne_bsl : C11.dq <> C11.bsl. Proof. discriminate. Qed.
Lemma semi_ne_dq : C11.semi <> C11.dq. Proof. discriminate. Qed.
Lemma semi_ne_bsl : C11.semi <> C11.bsl. Proof. discriminate. Qed.

(* [A]: what precedes (exactly one double quote so far: we are inside the quoted string),
   [N2]: the rest of the quoted string, then the closing quote and [post] *)
Lemma adjust_inner post : (forall x r, post = x :: r -> x = C11.semi) ->
  forall fuel N2 A st, length N2 < fuel ->
  ~ In C11.dq N2 -> ~ In C11.bsl N2 ->
  C11.count_chr C11.dq A = 1 -> ~ In C11.bsl A -> st <= length A ->
  C11.adjust_end fuel (A ++ N2 ++ C11.dq :: post)
                 (C11.find_from C11.semi (N2 ++ C11.dq :: post) st (length A))
  = seg_end post (length A + length N2 + 1).
Proof.
  intro Hpost. induction fuel as [|f IH]; intros N2 A st Hf Hdq Hbs HA HAb Hst; [lia|].
  assert (HApos : 0 < length A).
  { destruct A; [discriminate HA | cbn [length]; lia]. }
  destruct (first_split C11.semi N2) as [Hno | (a & b & -> & Hna)].
  - (* no more semicolon inside the quotes *)
    replace (N2 ++ C11.dq :: post) with ((N2 ++ [C11.dq]) ++ post)
      by (rewrite <- app_assoc; reflexivity).
    rewrite find_from_nochar
      by (apply not_in_app; [exact Hno | apply not_in_cons; [exact dq_ne_semi | intros []]]).
    destruct post as [|x r].
    + reflexivity.
    + rewrite (Hpost x r eq_refl).
      rewrite find_from_hit by lia. cbn [C11.adjust_end seg_end].
      replace (A ++ (N2 ++ [C11.dq]) ++ C11.semi :: r)
        with ((A ++ N2 ++ [C11.dq]) ++ C11.semi :: r)
        by (rewrite <- !app_assoc; reflexivity).
      replace (length A + length (N2 ++ [C11.dq])) with (length (A ++ N2 ++ [C11.dq]))
        by (rewrite !app_length; reflexivity).
      rewrite firstn_len_app.
      rewrite !count_chr_app, HA, (count_chr_notin _ _ Hdq), count_chr_one.
      rewrite count2_notin
        by (apply not_in_app; [exact HAb | apply not_in_app;
              [exact Hbs | apply not_in_cons; [exact dq_ne_bsl | intros []]]]).
      cbn [Nat.add Nat.sub Nat.odd Nat.even negb]. rewrite andb_false_r.
      f_equal. rewrite !app_length. cbn [length]. lia.
  - (* a semicolon inside the quotes: the count is odd, search on *)
    assert (Hdqa : ~ In C11.dq a) by (intro Hi; apply Hdq; apply in_or_app; left; exact Hi).
    assert (Hdqb : ~ In C11.dq b)
      by (intro Hi; apply Hdq; apply in_or_app; right; right; exact Hi).
    assert (Hbsa : ~ In C11.bsl a) by (intro Hi; apply Hbs; apply in_or_app; left; exact Hi).
    assert (Hbsb : ~ In C11.bsl b)
      by (intro Hi; apply Hbs; apply in_or_app; right; right; exact Hi).
    rewrite <- (app_assoc a (C11.semi :: b) (C11.dq :: post)).
    rewrite find_from_nochar by exact Hna. cbn [app].
    rewrite find_from_hit by lia. cbn [C11.adjust_end].
    replace (A ++ a ++ C11.semi :: b ++ C11.dq :: post)
      with ((A ++ a) ++ C11.semi :: b ++ C11.dq :: post)
      by (rewrite <- app_assoc; reflexivity).
    replace (length A + length a) with (length (A ++ a)) by (rewrite app_length; reflexivity).
    rewrite firstn_len_app.
    rewrite count_chr_app, HA, (count_chr_notin _ _ Hdqa).
    rewrite count2_notin by (apply not_in_app; assumption).
    assert (Hpos : (0 <? length (A ++ a)) = true)
      by (apply Nat.ltb_lt; rewrite app_length; lia).
    rewrite Hpos. cbn [Nat.add Nat.sub Nat.odd Nat.even negb andb].
    replace ((A ++ a) ++ C11.semi :: b ++ C11.dq :: post)
      with ((A ++ a ++ [C11.semi]) ++ b ++ C11.dq :: post)
      by (rewrite <- !app_assoc; reflexivity).
    replace (S (length (A ++ a))) with (length (A ++ a ++ [C11.semi]))
      by (rewrite !app_length; cbn [length]; lia).
    rewrite find_from_before by (cbn [Nat.add]; apply Nat.le_refl). cbn [Nat.add].
    rewrite IH.
    + f_equal. rewrite !app_length. cbn [length]. lia.
    + rewrite app_length in Hf. cbn [length] in Hf. lia.
    + exact Hdqb.
    + exact Hbsb.
    + rewrite !count_chr_app, HA, (count_chr_notin _ _ Hdqa).
      rewrite count_chr_notin by (apply not_in_cons; [exact semi_ne_dq | intros []]).
      reflexivity.
    + apply not_in_app; [exact HAb | apply not_in_app;
        [exact Hbsa | apply not_in_cons; [exact semi_ne_bsl | intros []]]].
    + apply Nat.le_refl.
Qed.

(* the segment  pre DQUOTE N DQUOTE  ends right after the closing quote *)
Lemma adjust_quoted pre N post fuel :
  (forall x r, post = x :: r -> x = C11.semi) ->
  ~ In C11.semi pre -> ~ In C11.dq pre -> ~ In C11.bsl pre ->
  ~ In C11.dq N -> ~ In C11.bsl N -> length N < fuel ->
  C11.adjust_end fuel (pre ++ C11.dq :: N ++ C11.dq :: post)
                 (C11.find_from C11.semi (pre ++ C11.dq :: N ++ C11.dq :: post) 0 0)
  = seg_end post (length (pre ++ C11.dq :: N ++ [C11.dq])).
Proof.
  intros Hpost Hs Hd Hb HdN HbN Hf.
  replace (pre ++ C11.dq :: N ++ C11.dq :: post)
    with ((pre ++ [C11.dq]) ++ N ++ C11.dq :: post)
    by (rewrite <- app_assoc; reflexivity).
  rewrite find_from_nochar
    by (apply not_in_app; [exact Hs | apply not_in_cons; [exact dq_ne_semi | intros []]]).
  cbn [Nat.add].
  rewrite (adjust_inner post Hpost fuel N (pre ++ [C11.dq]) 0).
  - f_equal. rewrite !app_length. cbn [length]. rewrite app_length. cbn [length]. lia.
  - exact Hf.
  - exact HdN.
  - exact HbN.
  - rewrite count_chr_app, (count_chr_notin _ _ Hd), count_chr_one. reflexivity.
  - apply not_in_app; [exact Hb | apply not_in_cons; [exact dq_ne_bsl | intros []]].
  - lia.
Qed.

(* ------------------------------------------------------------------ old_params, one segment *)
Lemma old_params_nil f : C11.old_params f [] = [].
Proof. destruct f; reflexivity. Qed.

(* an unquoted segment followed by another one *)
Lemma old_params_plain f a rest : ~ In C11.semi a -> ~ In C11.dq a ->
  C11.old_params (S f) (C11.semi :: a ++ C11.semi :: rest)
  = C11.strip a :: C11.old_params f (C11.semi :: rest).
Proof.
  intros Hs Hd. cbn [C11.old_params]. rewrite N.eqb_refl.
  rewrite find_from_nochar by exact Hs. cbn [Nat.add].
  rewrite find_from_hit by lia. cbn [C11.adjust_end].
  rewrite firstn_len_app. rewrite (count_chr_notin _ _ Hd).
  cbn [Nat.sub Nat.odd Nat.even negb]. rewrite andb_false_r.
  rewrite firstn_len_app, skipn_len_app. reflexivity.
Qed.

(* the last segment, unquoted *)
Lemma old_params_last f a : ~ In C11.semi a ->
  C11.old_params (S f) (C11.semi :: a) = [C11.strip a].
Proof.
  intros Hs. cbn [C11.old_params]. rewrite N.eqb_refl.
  assert (E : C11.find_from C11.semi a 0 0 = None).
  { rewrite <- (app_nil_r a). rewrite find_from_nochar by exact Hs. reflexivity. }
  rewrite E. cbn [C11.adjust_end].
  rewrite firstn_all, skipn_all, old_params_nil. reflexivity.
Qed.

(* a segment  pre DQUOTE N DQUOTE  (N may contain semicolons) *)
Lemma old_params_quoted f pre N post :
  (forall x r, post = x :: r -> x = C11.semi) ->
  ~ In C11.semi pre -> ~ In C11.dq pre -> ~ In C11.bsl pre ->
  ~ In C11.dq N -> ~ In C11.bsl N ->
  C11.old_params (S f) (C11.semi :: pre ++ C11.dq :: N ++ C11.dq :: post)
  = C11.strip (pre ++ C11.dq :: N ++ [C11.dq]) :: C11.old_params f post.
Proof.
  intros Hpost Hs Hd Hb HdN HbN. cbn [C11.old_params]. rewrite N.eqb_refl.
  rewrite (adjust_quoted pre N post _ Hpost Hs Hd Hb HdN HbN)
    by (rewrite !app_length; cbn [length]; rewrite app_length; cbn [length]; lia).
  assert (E : pre ++ C11.dq :: N ++ C11.dq :: post = (pre ++ C11.dq :: N ++ [C11.dq]) ++ post).
  { rewrite <- app_assoc. cbn [app]. rewrite <- app_assoc. reflexivity. }
  destruct post as [|x r].
  - cbn [seg_end]. rewrite firstn_all, skipn_all, old_params_nil.
    rewrite E, app_nil_r. reflexivity.
  - cbn [seg_end]. rewrite E. rewrite firstn_len_app, skipn_len_app. reflexivity.
Qed.

(* ------------------------------------------------------------------ strip *)
Lemma rstrip_id set (t : str) :
  (forall c r, rev t = c :: r -> char_in c set = false) -> rstrip_set set t = t.
Proof.
  intro H. unfold rstrip_set. destruct (rev t) as [|c r] eqn:E.
  - cbn [lstrip_set rev]. rewrite <- (rev_involutive t), E. reflexivity.
  - cbn [lstrip_set]. rewrite (H c r eq_refl). rewrite <- E. apply rev_involutive.
Qed.

Definition head_not_ws (t : str) : Prop :=
  match t with [] => True | x :: _ => char_in x c11_str_ws = false end.
Definition last_not_ws (t : str) : Prop :=
  forall c r, rev t = c :: r -> char_in c c11_str_ws = false.

Lemma strip_id t : head_not_ws t -> last_not_ws t -> C11.strip t = t.
Proof.
  intros Hh Hl. unfold C11.strip, strip_set.
  assert (E : lstrip_set c11_str_ws t = t).
  { destruct t as [|x t]; [reflexivity|]. cbn [lstrip_set]. cbn [head_not_ws] in Hh.
    rewrite Hh. reflexivity. }
  rewrite E. apply rstrip_id. exact Hl.
Qed.

Lemma strip_sp t : head_not_ws t -> last_not_ws t -> C11.strip (32%N :: t) = t.
Proof.
  intros Hh Hl. unfold C11.strip, strip_set.
  assert (E : lstrip_set c11_str_ws (32%N :: t) = t).
  { cbn [lstrip_set]. replace (char_in 32%N c11_str_ws) with true by reflexivity.
    destruct t as [|x t]; [reflexivity|]. cbn [lstrip_set]. cbn [head_not_ws] in Hh.
    rewrite Hh. reflexivity. }
  rewrite E. apply rstrip_id. exact Hl.
Qed.

Lemma last_not_ws_snoc l c : char_in c c11_str_ws = false -> last_not_ws (l ++ [c]).
Proof.
  intros H c' r E. rewrite rev_app_distr in E. cbn [rev app] in E.
  injection E as <- _. exact H.
Qed.

Lemma last_not_ws_all t : Forall (fun c => char_in c c11_str_ws = false) t -> last_not_ws t.
Proof.
  intros H c r E. rewrite Forall_forall in H. apply H. apply in_rev. rewrite E. left. reflexivity.
Qed.

(* ------------------------------------------------------------------ old_param *)
Lemma find_chr_first c a r i : ~ In c a ->
  C11.find_chr c (a ++ c :: r) i = Some (i + length a).
Proof.
  revert i. induction a as [|x a IH]; intros i Hn.
  - cbn [app C11.find_chr length]. rewrite N.eqb_refl. f_equal. lia.
  - cbn [app C11.find_chr length].
    assert (Hx : N.eqb x c = false).
    { apply N.eqb_neq. intro E. apply Hn. left. exact E. }
    rewrite Hx. rewrite IH by (intro Hi; apply Hn; right; exact Hi). f_equal. lia.
Qed.

Lemma replace2_notin a b c s : ~ In a s -> C11.replace2 a b c s = s.
Proof.
  induction s as [|x s IH]; intro Hn; [reflexivity|].
  destruct s as [|y s]; [reflexivity|].
  cbn [C11.replace2].
  assert (Hx : N.eqb x a = false).
  { apply N.eqb_neq. intro E. apply Hn. left. exact E. }
  rewrite Hx. cbn [andb]. f_equal. apply IH. intro Hi. apply Hn. right. exact Hi.
Qed.

Lemma dq_not_ws : char_in C11.dq c11_str_ws = false.
Proof. reflexivity. Qed.

(* k=DQUOTE N DQUOTE : the quotes are removed, N is kept as it is *)
Lemma old_param_quoted d k N : ~ In C11.eq_c k -> ~ In C11.bsl N ->
  C11.old_param d (k ++ C11.eq_c :: C11.dq :: N ++ [C11.dq])
  = C11.pset d (C11.lower_l1 (C11.strip k)) N.
Proof.
  intros Hk HN. unfold C11.old_param. rewrite (find_chr_first _ _ _ _ Hk). cbn [Nat.add].
  rewrite firstn_len_app, skipn_S_len_app.
  assert (Es : C11.strip (C11.dq :: N ++ [C11.dq]) = C11.dq :: N ++ [C11.dq]).
  { apply strip_id; [exact dq_not_ws|].
    change (C11.dq :: N ++ [C11.dq]) with ((C11.dq :: N) ++ [C11.dq]).
    apply last_not_ws_snoc. exact dq_not_ws. }
  rewrite Es. f_equal.
  destruct N as [|y N].
  - reflexivity.
  - cbn [app].
    change (C11.dq :: y :: N ++ [C11.dq]) with ((C11.dq :: y :: N) ++ [C11.dq]).
    rewrite last_last. rewrite N.eqb_refl. cbn [andb].
    change (y :: N ++ [C11.dq]) with ((y :: N) ++ [C11.dq]). rewrite removelast_last.
    rewrite (replace2_notin C11.bsl C11.bsl C11.bsl _ HN).
    apply replace2_notin. exact HN.
Qed.

(* k=v with v not quoted and without surrounding white space *)
Lemma old_param_plain d k v : ~ In C11.eq_c k -> C11.strip v = v ->
  (forall c r, v = c :: r -> c <> C11.dq) ->
  C11.old_param d (k ++ C11.eq_c :: v) = C11.pset d (C11.lower_l1 (C11.strip k)) v.
Proof.
  intros Hk Hv Hq. unfold C11.old_param. rewrite (find_chr_first _ _ _ _ Hk). cbn [Nat.add].
  rewrite firstn_len_app, skipn_S_len_app. rewrite Hv. f_equal.
  destruct v as [|c [|c2 t]]; [reflexivity | reflexivity |].
  assert (Hc : N.eqb c C11.dq = false) by (apply N.eqb_neq; exact (Hq c _ eq_refl)).
  rewrite Hc. reflexivity.
Qed.

(* ------------------------------------------------------------------ percent-encoding *)
(* the alphabet of pct_encode: unreserved, '%', upper-case hex digits *)
Definition pct_ok (c : N) : bool :=
  ((48 <=? c) && (c <=? 57) || (65 <=? c) && (c <=? 90) || (97 <=? c) && (c <=? 122)
   || (c =? 45) || (c =? 46) || (c =? 95) || (c =? 126) || (c =? 37))%N.

Lemma hexdig_ok n : (n < 16)%N -> pct_ok (hexdig n) = true.
Proof. intro H. unfold pct_ok, hexdig. destruct (n <? 10)%N eqn:E; lia. Qed.

Lemma pct_byte_ok c : (c < 256)%N -> forallb pct_ok (pct_byte c) = true.
Proof.
  intro H. unfold pct_byte. destruct (unreserved c) eqn:E.
  - cbn [forallb]. rewrite andb_true_r. unfold unreserved in E. unfold pct_ok. lia.
  - cbn [forallb].
    rewrite (hexdig_ok (c / 16)) by (apply N.div_lt_upper_bound; lia).
    rewrite (hexdig_ok (c mod 16)) by (apply N.mod_lt; lia).
    reflexivity.
Qed.

Lemma pct_encode_ok bs : Forall (fun c => (c < 256)%N) bs -> forallb pct_ok (pct_encode bs) = true.
Proof.
  induction 1 as [|c bs Hc _ IH]; [reflexivity|].
  unfold pct_encode in *. cbn [flat_map]. rewrite forallb_app, IH, (pct_byte_ok c Hc).
  reflexivity.
Qed.

Lemma pct_encode_nonempty bs : bs <> [] -> pct_encode bs <> [].
Proof.
  destruct bs as [|c bs]; [congruence|]. intros _. unfold pct_encode. cbn [flat_map].
  unfold pct_byte. destruct (unreserved c); discriminate.
Qed.

Lemma pct_ok_ne c x : pct_ok c = true ->
  negb (pct_ok x) = true -> c <> x.
Proof. intros Hc Hx E. subst. rewrite Hc in Hx. discriminate. Qed.

Lemma pct_ok_notin x s : forallb pct_ok s = true -> pct_ok x = false -> ~ In x s.
Proof.
  intros Hs Hx Hi. rewrite forallb_forall in Hs. apply Hs in Hi. congruence.
Qed.

Lemma pct_ok_not_ws c : pct_ok c = true -> char_in c c11_str_ws = false.
Proof.
  intro H. unfold char_in, c11_str_ws. cbn [existsb]. unfold pct_ok in H. lia.
Qed.

Lemma pct_ok_ascii c : pct_ok c = true -> (c < 128)%N.
Proof. unfold pct_ok. lia. Qed.

(* ------------------------------------------------------------------ the shapes of cd_value *)
Definition s_fd : str := [102;111;114;109;45;100;97;116;97]%N.                 (* form-data *)
Definition s_sp_name_eq : str := [32;110;97;109;101;61]%N.                      (* SP name= *)
Definition s_sp_filename_eq : str := [32;102;105;108;101;110;97;109;101;61]%N.  (* SP filename= *)
Definition s_sp_filename_star : str := [32;102;105;108;101;110;97;109;101;42]%N. (* SP filename* *)
Definition s_utf8qq : str := [85;84;70;45;56;39;39]%N.                          (* UTF-8'' *)

(* the text after filename*= *)
Definition s_ext_value (f : str) : str := s_utf8qq ++ pct_encode (encode f).

Definition cd_post (fn : option (bool * str)) : str :=
  match fn with
  | None => []
  | Some (false, f) => C11.semi :: s_sp_filename_eq ++ C11.dq :: f ++ C11.dq :: []
  | Some (true, f) => C11.semi :: s_sp_filename_star ++ C11.eq_c :: s_ext_value f
  end.

Lemma cd_value_shape name fn :
  cd_value name fn
  = s_fd ++ C11.semi :: s_sp_name_eq ++ C11.dq :: name ++ C11.dq :: cd_post fn.
Proof. destruct fn as [[[|] f]|]; reflexivity. Qed.

Lemma quotable_notin s : quotable s = true -> ~ In C11.dq s /\ ~ In C11.bsl s.
Proof.
  unfold quotable. intro H. rewrite forallb_forall in H.
  split; intro Hi; apply H in Hi; vm_compute in Hi; discriminate.
Qed.

Ltac notin := let H := fresh in intro H; cbn [In] in H;
  repeat (destruct H as [H|H]; [discriminate H|]); exact H.

Lemma cd_post_semi fn : forall x r, cd_post fn = x :: r -> x = C11.semi.
Proof.
  destruct fn as [[[|] f]|]; cbn [cd_post]; intros x r E; try discriminate;
    injection E as <- _; reflexivity.
Qed.

Lemma ext_value_ok f : forallb scalar f = true -> forallb pct_ok (pct_encode (encode f)) = true.
Proof. intro H. apply pct_encode_ok. apply encode_bytes. exact H. Qed.

Lemma key_name : C11.lower_l1 (C11.strip [110;97;109;101]%N) = s_name.
Proof. vm_compute. reflexivity. Qed.
Lemma key_filename : C11.lower_l1 (C11.strip [102;105;108;101;110;97;109;101]%N) = s_filename.
Proof. vm_compute. reflexivity. Qed.
Lemma key_filename_star :
  C11.lower_l1 (C11.strip [102;105;108;101;110;97;109;101;42]%N) = s_filename_star.
Proof. vm_compute. reflexivity. Qed.

(* the parameter dictionary parse_header builds *)
Definition cd_params (name : str) (fn : option (bool * str)) : params :=
  (s_name, name) ::
  match fn with
  | None => []
  | Some (false, f) => [(s_filename, f)]
  | Some (true, f) => [(s_filename_star, s_ext_value f)]
  end.

Lemma parse_cd_params name fn : quotable name = true -> wf_filename fn = true ->
  snd (parse_header (cd_value name fn)) = cd_params name fn.
Proof.
  intros Hn Hfn. destruct (quotable_notin name Hn) as [Hnd Hnb].
  unfold parse_header, C11.parse_header.
  assert (Hdq : char_in C11.dq (cd_value name fn) = true).
  { apply char_in_In. rewrite cd_value_shape. apply in_or_app. right. right.
    apply in_or_app. right. left. reflexivity. }
  rewrite Hdq. cbn [negb andb]. unfold C11.parse_header_old.
  rewrite cd_value_shape.
  remember (length (s_fd ++ C11.semi :: s_sp_name_eq ++ C11.dq :: name ++ C11.dq :: cd_post fn))
    as n eqn:En.
  destruct n as [|n]; [discriminate En|]. clear En.
  rewrite old_params_plain by (unfold s_fd; notin).
  rewrite (old_params_quoted _ s_sp_name_eq name (cd_post fn) (cd_post_semi fn))
    by (try exact Hnd; try exact Hnb; unfold s_sp_name_eq; notin).
  assert (Eseg : C11.strip (s_sp_name_eq ++ C11.dq :: name ++ [C11.dq])
                 = [110;97;109;101]%N ++ C11.eq_c :: C11.dq :: name ++ [C11.dq]).
  { unfold s_sp_name_eq. cbn [app]. apply strip_sp; [reflexivity|].
    exact (last_not_ws_snoc ([110; 97; 109; 101; 61]%N ++ C11.dq :: name) C11.dq dq_not_ws). }
  rewrite Eseg. clear Eseg.
  destruct fn as [[[|] f]|]; cbn [cd_post cd_params].
  - (* filename*=UTF-8''... *)
    cbn [wf_filename] in Hfn.
    assert (Hsc : forallb scalar f = true) by (destruct f; [discriminate | exact Hfn]).
    pose proof (ext_value_ok f Hsc) as Hok.
    assert (Hsemi : ~ In C11.semi (s_sp_filename_star ++ C11.eq_c :: s_ext_value f)).
    { apply not_in_app; [unfold s_sp_filename_star; notin|].
      apply not_in_cons; [discriminate|]. unfold s_ext_value.
      apply not_in_app; [unfold s_utf8qq; notin|].
      apply (pct_ok_notin _ _ Hok). reflexivity. }
    rewrite (old_params_last _ _ Hsemi).
    assert (Hnws : Forall (fun c => char_in c c11_str_ws = false) (s_ext_value f)).
    { unfold s_ext_value. apply Forall_app. split.
      - unfold s_utf8qq. repeat constructor.
      - apply Forall_forall. intros c Hc. apply pct_ok_not_ws.
        rewrite forallb_forall in Hok. apply Hok. exact Hc. }
    assert (Eseg : C11.strip (s_sp_filename_star ++ C11.eq_c :: s_ext_value f)
                   = [102;105;108;101;110;97;109;101;42]%N ++ C11.eq_c :: s_ext_value f).
    { unfold s_sp_filename_star. cbn [app]. apply strip_sp; [reflexivity|].
      apply last_not_ws_all. do 10 (constructor; [reflexivity|]). exact Hnws. }
    rewrite Eseg. clear Eseg. cbn [snd fold_left].
    rewrite old_param_quoted by first [exact Hnb | notin].
    rewrite old_param_plain.
    + rewrite key_name, key_filename_star. reflexivity.
    + notin.
    + apply strip_id.
      * unfold s_ext_value, s_utf8qq. reflexivity.
      * apply last_not_ws_all. exact Hnws.
    + unfold s_ext_value, s_utf8qq. cbn [app]. intros c r E. injection E as <- _. discriminate.
  - (* filename=DQUOTE...DQUOTE *)
    cbn [wf_filename] in Hfn. destruct (quotable_notin f Hfn) as [Hfd Hfb].
    rewrite (old_params_quoted _ s_sp_filename_eq f [])
      by first [exact Hfd | exact Hfb | (intros x r E; discriminate E)
               | (unfold s_sp_filename_eq; notin)].
    rewrite old_params_nil.
    assert (Eseg : C11.strip (s_sp_filename_eq ++ C11.dq :: f ++ [C11.dq])
                   = [102;105;108;101;110;97;109;101]%N ++ C11.eq_c :: C11.dq :: f ++ [C11.dq]).
    { unfold s_sp_filename_eq. cbn [app]. apply strip_sp; [reflexivity|].
      exact (last_not_ws_snoc ([102;105;108;101;110;97;109;101;61]%N ++ C11.dq :: f) C11.dq
                              dq_not_ws). }
    rewrite Eseg. clear Eseg. cbn [snd fold_left].
    rewrite old_param_quoted by first [exact Hfb | notin].
    rewrite old_param_quoted by first [exact Hnb | notin].
    rewrite key_name, key_filename. reflexivity.
  - rewrite old_params_nil. cbn [snd fold_left].
    rewrite old_param_quoted by first [exact Hnb | notin].
    rewrite key_name. reflexivity.
Qed.

Theorem parse_cd_value : forall name fn, quotable name = true -> wf_filename fn = true ->
  let ps := snd (parse_header (cd_value name fn)) in
  pget ps s_name = Some name /\
  match fn with
  | None => pget ps s_filename = None /\ pget ps s_filename_star = None
  | Some (false, f) => pget ps s_filename = Some f /\ pget ps s_filename_star = None
  | Some (true, f) => pget ps s_filename_star = Some (s_ext_value f) /\ pget ps s_filename = None
  end.
Proof.
  intros name fn Hn Hfn. cbv zeta. rewrite (parse_cd_params name fn Hn Hfn).
  destruct fn as [[[|] f]|]; repeat split; reflexivity.
Qed.
