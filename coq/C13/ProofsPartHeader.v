(* C13 — parse_header (the C11 model, old stdlib path) on the Content-Disposition values the
   reference encoder writes: form-data; name="..."[; filename="..." | ; filename*=UTF-8''...] *)
From Coq Require Import ZArith NArith List Bool Arith Lia.
From Falcon.lib Require Import PyStr Utf8.
From Falcon.gen Require Import ConstsC11.
Require Falcon.C11.Model.
From Falcon.C14 Require Import Spec.
From Falcon.C13 Require Import Model Spec ModelPart SpecPart.
Import ListNotations.
Local Open Scope nat_scope.

Module C11 := Falcon.C11.Model.

(* ------------------------------------------------------------------ list helpers *)
Lemma firstn_len_app {A : Type} (a b : list A) : firstn (length a) (a ++ b) = a.
Proof.
  induction a as [|x a IH]; [reflexivity|]. cbn [length app firstn]. rewrite IH. reflexivity.
Qed.

Lemma skipn_len_app {A : Type} (a b : list A) : skipn (length a) (a ++ b) = b.
Proof. induction a as [|x a IH]; [reflexivity|]. cbn [length app skipn]. exact IH. Qed.

Lemma skipn_S_len_app {A : Type} (a : list A) x b : skipn (S (length a)) (a ++ x :: b) = b.
Proof. induction a as [|y a IH]; [reflexivity|]. cbn [length app skipn]. exact IH. Qed.

Lemma first_split (c : N) (l : list N) :
  ~ In c l \/ exists a b, l = a ++ c :: b /\ ~ In c a.
Proof.
  induction l as [|x l IH].
  - left. intros [].
  - destruct (N.eq_dec x c) as [->|Hx].
    + right. exists [], l. split; [reflexivity | intros []].
    + destruct IH as [Hn | (a & b & -> & Ha)].
      * left. intros [E|Hi]; [exact (Hx E) | exact (Hn Hi)].
      * right. exists (x :: a), b. split; [reflexivity|].
        intros [E|Hi]; [exact (Hx E) | exact (Ha Hi)].
Qed.

Lemma not_in_app (c : N) a b : ~ In c a -> ~ In c b -> ~ In c (a ++ b).
Proof. intros Ha Hb Hi. apply in_app_or in Hi as [Hi|Hi]; [exact (Ha Hi) | exact (Hb Hi)]. Qed.

Lemma not_in_cons (c x : N) l : x <> c -> ~ In c l -> ~ In c (x :: l).
Proof. intros Hx Hl [E|Hi]; [exact (Hx E) | exact (Hl Hi)]. Qed.

(* ------------------------------------------------------------------ find_from / counts *)
Lemma find_from_nochar c a rest st i : ~ In c a ->
  C11.find_from c (a ++ rest) st i = C11.find_from c rest st (i + length a).
Proof.
  revert i. induction a as [|x a IH]; intros i Hn.
  - cbn [app length]. rewrite Nat.add_0_r. reflexivity.
  - cbn [app length C11.find_from].
    assert (Hx : N.eqb x c = false).
    { apply N.eqb_neq. intro E. apply Hn. left. exact E. }
    rewrite Hx, andb_false_r.
    rewrite IH by (intro Hi; apply Hn; right; exact Hi).
    f_equal. lia.
Qed.

Lemma find_from_before c a rest st i : i + length a <= st ->
  C11.find_from c (a ++ rest) st i = C11.find_from c rest st (i + length a).
Proof.
  revert i. induction a as [|x a IH]; intros i Hle.
  - cbn [app length]. rewrite Nat.add_0_r. reflexivity.
  - cbn [app length C11.find_from]. cbn [length] in Hle.
    assert (Hs : (st <=? i) = false) by (apply Nat.leb_gt; lia).
    rewrite Hs. cbn [andb]. rewrite IH by lia. f_equal. lia.
Qed.

Lemma find_from_hit c rest st i : st <= i -> C11.find_from c (c :: rest) st i = Some i.
Proof.
  intro H. cbn [C11.find_from]. apply Nat.leb_le in H. rewrite H, N.eqb_refl. reflexivity.
Qed.

Lemma count_chr_app c a b : C11.count_chr c (a ++ b) = C11.count_chr c a + C11.count_chr c b.
Proof. unfold C11.count_chr. rewrite filter_app, app_length. reflexivity. Qed.

Lemma count_chr_notin c a : ~ In c a -> C11.count_chr c a = 0.
Proof.
  unfold C11.count_chr. induction a as [|x a IH]; intro Hn; [reflexivity|].
  cbn [filter]. assert (Hx : N.eqb c x = false).
  { apply N.eqb_neq. intro E. apply Hn. left. symmetry. exact E. }
  rewrite Hx. apply IH. intro Hi. apply Hn. right. exact Hi.
Qed.

Lemma count_chr_one c : C11.count_chr c [c] = 1.
Proof. unfold C11.count_chr. cbn [filter]. rewrite N.eqb_refl. reflexivity. Qed.

Lemma count2_notin a b s : ~ In a s -> C11.count2 a b s = 0.
Proof.
  induction s as [|x s IH]; intro Hn; [reflexivity|].
  destruct s as [|y s]; [reflexivity|].
  cbn [C11.count2].
  assert (Hx : N.eqb x a = false).
  { apply N.eqb_neq. intro E. apply Hn. left. exact E. }
  rewrite Hx. cbn [andb]. apply IH. intro Hi. apply Hn. right. exact Hi.
Qed.

(* ------------------------------------------------------------------ adjust_end *)
Definition seg_end (post : str) (n : nat) : option nat :=
  match post with [] => None | _ => Some n end.

Lemma dq_ne_semi : C11.dq <> C11.semi. Proof. discriminate. Qed.
Lemma dq_ne_bsl : C11.dq <> C11.bsl. Proof. discriminate. Qed.
Lemma semi_ne_dq : C11.semi <> C11.dq. Proof. discriminate. Qed.
Lemma semi_ne_bsl : C11.semi <> C11.bsl. Proof. discriminate. Qed.

(* [A]: what precedes (exactly one double quote so far: we are inside the quoted string),
   [N2]: the rest of the quoted string, then the closing quote and [post] *)
Lemma adjust_inner post : (forall x r, post = x :: r -> x = C11.semi) ->
  forall fuel N2 A st, length N2 < fuel ->
  ~ In C11.dq N2 -> ~ In C11.bsl N2 ->
  C11.count_chr C11.dq A = 1 -> ~ In C11.bsl A -> st <= length A ->
  C11.adjust_end fuel (A ++ N2 ++ C11.dq :: post)
                 (C11.find_from C11.semi (N2 ++ C11.dq :: post) st (length A))
  = seg_end post (length A + length N2 + 1).
Proof.
  intro Hpost. induction fuel as [|f IH]; intros N2 A st Hf Hdq Hbs HA HAb Hst; [lia|].
  assert (HApos : 0 < length A).
  { destruct A; [discriminate HA | cbn [length]; lia]. }
  destruct (first_split C11.semi N2) as [Hno | (a & b & -> & Hna)].
  - (* no more semicolon inside the quotes *)
    replace (N2 ++ C11.dq :: post) with ((N2 ++ [C11.dq]) ++ post)
      by (rewrite <- app_assoc; reflexivity).
    rewrite find_from_nochar
      by (apply not_in_app; [exact Hno | apply not_in_cons; [exact dq_ne_semi | intros []]]).
    destruct post as [|x r].
    + reflexivity.
    + rewrite (Hpost x r eq_refl).
      rewrite find_from_hit by lia. cbn [C11.adjust_end seg_end].
      replace (A ++ (N2 ++ [C11.dq]) ++ C11.semi :: r)
        with ((A ++ N2 ++ [C11.dq]) ++ C11.semi :: r)
        by (rewrite <- !app_assoc; reflexivity).
      replace (length A + length (N2 ++ [C11.dq])) with (length (A ++ N2 ++ [C11.dq]))
        by (rewrite !app_length; reflexivity).
      rewrite firstn_len_app.
      rewrite !count_chr_app, HA, (count_chr_notin _ _ Hdq), count_chr_one.
      rewrite count2_notin
        by (apply not_in_app; [exact HAb | apply not_in_app;
              [exact Hbs | apply not_in_cons; [exact dq_ne_bsl | intros []]]]).
      cbn [Nat.add Nat.sub Nat.odd Nat.even negb]. rewrite andb_false_r.
      f_equal. rewrite !app_length. cbn [length]. lia.
  - (* a semicolon inside the quotes: the count is odd, search on *)
    assert (Hdqa : ~ In C11.dq a) by (intro Hi; apply Hdq; apply in_or_app; left; exact Hi).
    assert (Hdqb : ~ In C11.dq b)
      by (intro Hi; apply Hdq; apply in_or_app; right; right; exact Hi).
    assert (Hbsa : ~ In C11.bsl a) by (intro Hi; apply Hbs; apply in_or_app; left; exact Hi).
    assert (Hbsb : ~ In C11.bsl b)
      by (intro Hi; apply Hbs; apply in_or_app; right; right; exact Hi).
    rewrite <- (app_assoc a (C11.semi :: b) (C11.dq :: post)).
    rewrite find_from_nochar by exact Hna. cbn [app].
    rewrite find_from_hit by lia. cbn [C11.adjust_end].
    replace (A ++ a ++ C11.semi :: b ++ C11.dq :: post)
      with ((A ++ a) ++ C11.semi :: b ++ C11.dq :: post)
      by (rewrite <- app_assoc; reflexivity).
    replace (length A + length a) with (length (A ++ a)) by (rewrite app_length; reflexivity).
    rewrite firstn_len_app.
    rewrite count_chr_app, HA, (count_chr_notin _ _ Hdqa).
    rewrite count2_notin by (apply not_in_app; assumption).
    assert (Hpos : (0 <? length (A ++ a)) = true)
      by (apply Nat.ltb_lt; rewrite app_length; lia).
    rewrite Hpos. cbn [Nat.add Nat.sub Nat.odd Nat.even negb andb].
    replace ((A ++ a) ++ C11.semi :: b ++ C11.dq :: post)
      with ((A ++ a ++ [C11.semi]) ++ b ++ C11.dq :: post)
      by (rewrite <- !app_assoc; reflexivity).
    replace (S (length (A ++ a))) with (length (A ++ a ++ [C11.semi]))
      by (rewrite !app_length; cbn [length]; lia).
    rewrite find_from_before by (cbn [Nat.add]; apply Nat.le_refl). cbn [Nat.add].
    rewrite IH.
    + f_equal. rewrite !app_length. cbn [length]. lia.
    + rewrite app_length in Hf. cbn [length] in Hf. lia.
    + exact Hdqb.
    + exact Hbsb.
    + rewrite !count_chr_app, HA, (count_chr_notin _ _ Hdqa).
      rewrite count_chr_notin by (apply not_in_cons; [exact semi_ne_dq | intros []]).
      reflexivity.
    + apply not_in_app; [exact HAb | apply not_in_app;
        [exact Hbsa | apply not_in_cons; [exact semi_ne_bsl | intros []]]].
    + apply Nat.le_refl.
Qed.

(* the segment  pre DQUOTE N DQUOTE  ends right after the closing quote *)
Lemma adjust_quoted pre N post fuel :
  (forall x r, post = x :: r -> x = C11.semi) ->
  ~ In C11.semi pre -> ~ In C11.dq pre -> ~ In C11.bsl pre ->
  ~ In C11.dq N -> ~ In C11.bsl N -> length N < fuel ->
  C11.adjust_end fuel (pre ++ C11.dq :: N ++ C11.dq :: post)
                 (C11.find_from C11.semi (pre ++ C11.dq :: N ++ C11.dq :: post) 0 0)
  = seg_end post (length (pre ++ C11.dq :: N ++ [C11.dq])).
Proof.
  intros Hpost Hs Hd Hb HdN HbN Hf.
  replace (pre ++ C11.dq :: N ++ C11.dq :: post)
    with ((pre ++ [C11.dq]) ++ N ++ C11.dq :: post)
    by (rewrite <- app_assoc; reflexivity).
  rewrite find_from_nochar
    by (apply not_in_app; [exact Hs | apply not_in_cons; [exact dq_ne_semi | intros []]]).
  cbn [Nat.add].
  rewrite (adjust_inner post Hpost fuel N (pre ++ [C11.dq]) 0).
  - f_equal. rewrite !app_length. cbn [length]. rewrite app_length. cbn [length]. lia.
  - exact Hf.
  - exact HdN.
  - exact HbN.
  - rewrite count_chr_app, (count_chr_notin _ _ Hd), count_chr_one. reflexivity.
  - apply not_in_app; [exact Hb | apply not_in_cons; [exact dq_ne_bsl | intros []]].
  - lia.
Qed.

(* ------------------------------------------------------------------ old_params, one segment *)
Lemma old_params_nil f : C11.old_params f [] = [].
Proof. destruct f; reflexivity. Qed.

(* an unquoted segment followed by another one *)
Lemma old_params_plain f a rest : ~ In C11.semi a -> ~ In C11.dq a ->
  C11.old_params (S f) (C11.semi :: a ++ C11.semi :: rest)
  = C11.strip a :: C11.old_params f (C11.semi :: rest).
Proof.
  intros Hs Hd. cbn [C11.old_params]. rewrite N.eqb_refl.
  rewrite find_from_nochar by exact Hs. cbn [Nat.add].
  rewrite find_from_hit by lia. cbn [C11.adjust_end].
  rewrite firstn_len_app. rewrite (count_chr_notin _ _ Hd).
  cbn [Nat.sub Nat.odd Nat.even negb]. rewrite andb_false_r.
  rewrite firstn_len_app, skipn_len_app. reflexivity.
Qed.

(* the last segment, unquoted *)
Lemma old_params_last f a : ~ In C11.semi a ->
  C11.old_params (S f) (C11.semi :: a) = [C11.strip a].
Proof.
  intros Hs. cbn [C11.old_params]. rewrite N.eqb_refl.
  assert (E : C11.find_from C11.semi a 0 0 = None).
  { rewrite <- (app_nil_r a). rewrite find_from_nochar by exact Hs. reflexivity. }
  rewrite E. cbn [C11.adjust_end].
  rewrite firstn_all, skipn_all, old_params_nil. reflexivity.
Qed.

(* a segment  pre DQUOTE N DQUOTE  (N may contain semicolons) *)
Lemma old_params_quoted f pre N post :
  (forall x r, post = x :: r -> x = C11.semi) ->
  ~ In C11.semi pre -> ~ In C11.dq pre -> ~ In C11.bsl pre ->
  ~ In C11.dq N -> ~ In C11.bsl N ->
  C11.old_params (S f) (C11.semi :: pre ++ C11.dq :: N ++ C11.dq :: post)
  = C11.strip (pre ++ C11.dq :: N ++ [C11.dq]) :: C11.old_params f post.
Proof.
  intros Hpost Hs Hd Hb HdN HbN. cbn [C11.old_params]. rewrite N.eqb_refl.
  rewrite (adjust_quoted pre N post _ Hpost Hs Hd Hb HdN HbN)
    by (rewrite !app_length; cbn [length]; rewrite app_length; cbn [length]; lia).
  assert (E : pre ++ C11.dq :: N ++ C11.dq :: post = (pre ++ C11.dq :: N ++ [C11.dq]) ++ post).
  { rewrite <- app_assoc. cbn [app]. rewrite <- app_assoc. reflexivity. }
  destruct post as [|x r].
  - cbn [seg_end]. rewrite firstn_all, skipn_all, old_params_nil.
    rewrite E, app_nil_r. reflexivity.
  - cbn [seg_end]. rewrite E. rewrite firstn_len_app, skipn_len_app. reflexivity.
Qed.
