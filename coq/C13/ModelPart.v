(* C13 — executable model of the header-derived attributes of falcon.media.multipart.BodyPart
   (shared by falcon.asgi.multipart.BodyPart): content_type, name, filename (plain and the
   RFC 5987 filename* form), secure_filename — on top of the header dictionary that
   Model.parse_form yields.  parse_header is the Coq model of C11 (coq/C11/Model.v), UTF-8
   comes from coq/lib/Utf8.v.

   Domain (everything else answers ANeed = "outside the modelled domain", never a guess):
   * the regex class \w of _FILENAME_STAR_RFC5987 is modelled on ASCII; a non-ASCII code point
     met where the regex tests \w gives ANeed;
   * charsets of filename*: the names CPython resolves to utf-8, iso8859-1 or ascii (listed
     below, compared after lower-casing and mapping ' ' and '-' to '_'); any other name ANeed;
   * secure_filename: unicodedata.normalize('NFKD', .) is an oracle argument [nfkd] (the
     harness passes CPython's value; it is the identity on ASCII). *)
From Coq Require Import ZArith NArith List Bool Arith Lia.
From Falcon.lib Require Import PyStr Utf8.
From Falcon.C14 Require Import Spec.
From Falcon.C13 Require Import Model.
Require Falcon.C11.Model.
Import ListNotations.
Local Open Scope nat_scope.

Definition str := PyStr.str.
Definition params := Falcon.C11.Model.params.
Definition parse_header : str -> str * params := Falcon.C11.Model.parse_header.
Definition pget : params -> str -> option str := Falcon.C11.Model.pget.

Inductive ares (A : Type) :=
| AOk (a : A)
| AParseError            (* MultipartParseError (HTTP 400) *)
| ANeed.                 (* outside the modelled domain *)
Arguments AOk {A} a.
Arguments AParseError {A}.
Arguments ANeed {A}.

Definition s_content_type : bytes := [99;111;110;116;101;110;116;45;116;121;112;101]%N.
Definition s_content_disposition : bytes :=
  [99;111;110;116;101;110;116;45;100;105;115;112;111;115;105;116;105;111;110]%N.
Definition s_text_plain : str := [116;101;120;116;47;112;108;97;105;110]%N.
Definition s_name : str := [110;97;109;101]%N.
Definition s_filename : str := [102;105;108;101;110;97;109;101]%N.
Definition s_filename_star : str := [102;105;108;101;110;97;109;101;42]%N.

Definition is_ascii (s : list N) : bool := forallb (fun c => (c <? 128)%N) s.

(* bytes.decode('ascii') *)
Definition ascii_decode (b : bytes) : option str := if is_ascii b then Some b else None.

(* bytes.decode() = strict UTF-8: the lossy decoder of lib/Utf8.v is exact on valid input, and
   re-encoding its output differs from the input exactly when something was replaced *)
Definition utf8_decode (b : bytes) : option str :=
  let s := decode_replace b in
  if str_eqb (encode s) b then Some s else None.

(* bytes.decode('latin-1') is the identity on code points *)
Definition latin1_decode (b : bytes) : option str := Some b.

(* BodyPart.content_type *)
Definition content_type (h : headers) : ares str :=
  match hget h s_content_type with
  | None => AOk s_text_plain
  | Some v => match ascii_decode v with Some s => AOk s | None => AParseError end
  end.

(* parse_header(self._headers.get(b'content-disposition', b'').decode()) *)
Definition content_disposition (h : headers) : ares (str * params) :=
  let v := match hget h s_content_disposition with Some v => v | None => [] end in
  match utf8_decode v with
  | Some s => AOk (parse_header s)
  | None => AParseError
  end.

(* BodyPart.name *)
Definition part_name (h : headers) : ares (option str) :=
  match content_disposition h with
  | AOk (_, ps) => AOk (pget ps s_name)
  | AParseError => AParseError
  | ANeed => ANeed
  end.

(* ---- _FILENAME_STAR_RFC5987 = re.compile(r"([\w-]+)'[\w]*'(.+)"), used with .match() *)
Definition ascii_word (c : N) : bool :=
  ((48 <=? c) && (c <=? 57) || (65 <=? c) && (c <=? 90) || (97 <=? c) && (c <=? 122) || (c =? 95))%N.

(* longest prefix of [\w-] resp. [\w]; None when a non-ASCII code point is met (ANeed) *)
Fixpoint take_word (dash : bool) (s : str) : option (str * str) :=
  match s with
  | [] => Some ([], [])
  | c :: tl =>
    if (128 <=? c)%N then None
    else if ascii_word c || (dash && (c =? 45)%N) then
      match take_word dash tl with Some (w, r) => Some (c :: w, r) | None => None end
    else Some ([], s)
  end.

(* (.+): as many non-LF characters as there are *)
Fixpoint take_line (s : str) : str :=
  match s with
  | [] => []
  | c :: tl => if (c =? 10)%N then [] else c :: take_line tl
  end.

Inductive rx := RxMatch (charset raw : str) | RxNoMatch | RxNeed.

Definition quote : N := 39%N.

Definition match_filename_star (v : str) : rx :=
  match take_word true v with
  | None => RxNeed
  | Some ([], _) => RxNoMatch
  | Some (charset, r1) =>
    match r1 with
    | c :: r2 =>
      if (c =? quote)%N then
        match take_word false r2 with
        | None => RxNeed
        | Some (_, r3) =>
          match r3 with
          | c' :: r4 =>
            if (c' =? quote)%N then
              match take_line r4 with [] => RxNoMatch | raw => RxMatch charset raw end
            else RxNoMatch
          | [] => RxNoMatch
          end
        end
      else RxNoMatch
    | [] => RxNoMatch
    end
  end.

(* ---- urllib.parse.unquote_to_bytes(str): UTF-8 encode, then %XX (either case) -> byte *)
Definition hexval (c : N) : option N :=
  (if (48 <=? c) && (c <=? 57) then Some (c - 48)
   else if (65 <=? c) && (c <=? 70) then Some (c - 55)
   else if (97 <=? c) && (c <=? 102) then Some (c - 87)
   else None)%N.

Fixpoint unquote_bytes (b : bytes) : bytes :=
  match b with
  | [] => []
  | c :: tl =>
    if (c =? 37)%N then
      match tl with
      | h1 :: ((h2 :: tl2) as tl1) =>
        match hexval h1, hexval h2 with
        | Some a, Some d => (a * 16 + d)%N :: unquote_bytes tl2
        | _, _ => c :: unquote_bytes tl
        end
      | _ => c :: unquote_bytes tl
      end
    else c :: unquote_bytes tl
  end.

Definition unquote_to_bytes (s : str) : bytes := unquote_bytes (encode s).

(* ---- bytes.decode(charset) for the charsets in the modelled domain *)
Inductive codec := CUtf8 | CLatin1 | CAscii.

Definition norm_enc_chr (c : N) : N :=
  if ((c =? 45) || (c =? 32))%N then 95%N else lower_chr c.

Definition utf8_names : list str :=
  [[117;116;102;95;56]; [117;116;102;56]; [117;56]; [117;116;102]]%N.          (* utf_8 utf8 u8 utf *)
Definition latin1_names : list str :=
  [[108;97;116;105;110;95;49]; [108;97;116;105;110;49]; [105;115;111;95;56;56;53;57;95;49];
   [105;115;111;56;56;53;57;95;49]; [108;49]; [108;97;116;105;110]]%N.
   (* latin_1 latin1 iso_8859_1 iso8859_1 l1 latin *)
Definition ascii_names : list str :=
  [[97;115;99;105;105]; [117;115;95;97;115;99;105;105]]%N.                      (* ascii us_ascii *)

Definition lookup_codec (charset : str) : option codec :=
  let n := map norm_enc_chr charset in
  if mem n utf8_names then Some CUtf8
  else if mem n latin1_names then Some CLatin1
  else if mem n ascii_names then Some CAscii
  else None.

Definition decode_with (cd : codec) (b : bytes) : option str :=
  match cd with
  | CUtf8 => utf8_decode b
  | CLatin1 => latin1_decode b
  | CAscii => ascii_decode b
  end.

(* BodyPart.filename *)
Definition part_filename (h : headers) : ares (option str) :=
  match content_disposition h with
  | AOk (_, ps) =>
    let star := match pget ps s_filename_star with Some v => v | None => [] end in
    match match_filename_star star with
    | RxNeed => ANeed
    | RxNoMatch => AOk (pget ps s_filename)
    | RxMatch charset raw =>
      match lookup_codec charset with
      | None => ANeed
      | Some cd =>
        match decode_with cd (unquote_to_bytes raw) with
        | Some s => AOk (Some s)
        | None => AParseError
        end
      end
    end
  | AParseError => AParseError
  | ANeed => ANeed
  end.

(* falcon.util.misc.secure_filename, with unicodedata.normalize('NFKD', filename) supplied *)
Definition safe_chr (c : N) : bool :=
  ((48 <=? c) && (c <=? 57) || (65 <=? c) && (c <=? 90) || (97 <=? c) && (c <=? 122)
   || (c =? 46) || (c =? 45))%N.

Definition secure_filename (nfkd : str -> str) (filename : str) : option str :=
  match filename with
  | [] => None                                   (* ValueError *)
  | _ =>
    let f := nfkd filename in
    let f := match f with c :: tl => if (c =? 46)%N then 95%N :: tl else f | [] => f end in
    Some (map (fun c => if safe_chr c then c else 95%N) f)
  end.

(* BodyPart.secure_filename *)
Definition part_secure_filename (nfkd : str -> str) (h : headers) : ares str :=
  match part_filename h with
  | AOk fn =>
    match secure_filename nfkd (match fn with Some f => f | None => [] end) with
    | Some s => AOk s
    | None => AParseError
    end
  | AParseError => AParseError
  | ANeed => ANeed
  end.
