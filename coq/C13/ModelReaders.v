(* C13 — the same parser loop as Model.v:parse_loop, but running on the MODELLED BUFFERED
   READERS of C14 (coq/C14/Model.v sync, coq/C14/ModelAsync.v async) instead of the flat
   cursor, exactly as the real code does: the part's stream is stream.delimit(delimiter), the
   application acts on that child reader, and the next iteration continues on the parent
   wherever the child's read-ahead left it (the child is NOT exhausted; the following
   pipe_until(delimiter) skips the rest).  These are the functions that
   C13_multipart_chunking_independent relates to Model.parse_form. *)
From Coq Require Import ZArith NArith List Bool Arith Lia.
From Falcon.lib Require Import PyStr.
From Falcon.C14 Require Import Spec Model ModelAsync.
From Falcon.C13 Require Import Model.
Import ListNotations.
Local Open Scope nat_scope.

(* ================================================================== sync *)
Section SyncParser.
Variable S : Type.
Variable rd : S -> nat -> bytes * S.
Variable cs : nat.
Variable c : cfg.

Notation pst := (state S).
Notation cst := (state (state S)).

(* the application's action on the delimited child reader; returns what it obtained, whether
   it crashed (reader ValueError), whether get_data() found the part too large, and the
   parent reader afterwards *)
Definition sync_action (delim' : bytes) (a : action) (p : pst)
  : option bytes * option status * pst :=
  let crd := child_rd S rd cs true delim' in
  let child : cst := init pst (child_max S p) p in
  match a with
  | ASkip => (None, None, p)
  | ARead size =>
    let '(out, ch) := read pst crd cs true child size in (Some out, None, src ch)
  | AGetData =>
    let '(out, ch) := read pst crd cs true child (Some (Datatypes.S (max_buffer c))) in
    if Datatypes.S (max_buffer c) <=? length out then (None, Some (Failed ETooLarge), src ch)
    else (Some out, None, src ch)
  | AReadUntil d size =>
    match read_until pst crd cs true child d size false with
    | (RBytes out, ch) => (Some out, None, src ch)
    | (_, ch) => (None, Some Crash, src ch)
    end
  end.

Fixpoint sparse_loop (fuel : nat) (prologue : bool) (delim : bytes) (seen : nat)
         (script : list action) (p : pst) : list part_obs * status :=
  match fuel with
  | 0 => ([], OutOfFuel)
  | Datatypes.S f =>
    match pipe_until S rd cs true p delim true None with
    | (RBytes _, p1) =>
      let delim' := if prologue then CRLF ++ delim else delim in
      let '(pk, p1a) := peek S rd cs p1 (Some 2) in
      if str_eqb pk DASHDASH then ([], Done)           (* stream.read(2); break *)
      else
        match read_until S rd cs true p1a CRLF (Some 0) true with
        | (RBytes _, p2) =>
          match read_until S rd cs true p2 CRLFCRLF (Some (max_headers c)) true with
          | (RBytes block, p3) =>
            match parse_headers block with
            | None => ([], Failed ECTE)
            | Some hs =>
              let seen' := Datatypes.S seen in
              if (0 <? max_count c) && (max_count c <? seen') then ([], Failed ECount) else
              match sync_action delim' (hd ASkip script) p3 with
              | (od, None, p4) =>
                let '(ps, st) := sparse_loop f false delim' seen' (tl script) p4 in
                ({| po_headers := hs; po_data := od |} :: ps, st)
              | (od, Some st, _) => ([{| po_headers := hs; po_data := od |}], st)
              end
            end
          | (RDelimErr _, _) => ([], Failed EHeaders)
          | _ => ([], Crash)
          end
        | (RDelimErr _, _) => ([], Failed EStructure)
        | _ => ([], Crash)
        end
    | (RDelimErr _, _) => ([], Failed EStructure)
    | _ => ([], Crash)
    end
  end.

End SyncParser.

(* MultipartForm(BufferedReader(source.read, content_length, chunk_size), boundary) iterated
   under [script]; the scripted source delivers [body] with the short-read schedule [sched] *)
Definition parse_form_sync (cs : nat) (c : cfg) (boundary : bytes) (script : list action)
           (body : bytes) (sched : list nat) : list part_obs * status :=
  sparse_loop source src_read cs c (S (length body)) true (DASHDASH ++ boundary) 0 script
              (init source (length body) {| sdata := body; sched := sched |}).

(* ================================================================== async *)
Section AsyncParser.
Variable S : Type.
Variable nxt : S -> option bytes * S.
Variable cs : nat.
Variable F : nat.
Variable c : cfg.

Notation apst := (astate S).
Notation acst := (astate (dgen * astate S)).

Definition async_action (delim' : bytes) (a : action) (p : apst)
  : option bytes * option status * apst :=
  let cnx := child_nxt S nxt cs true F delim' in
  let child : acst := ainit (dgen * astate S) (D0, p) in
  match a with
  | ASkip => (None, None, p)
  | ARead size =>
    let '(out, ch) := aread _ cnx cs true F child size in (Some out, None, snd (asrc ch))
  | AGetData =>
    let '(out, ch) := aread _ cnx cs true F child (Some (Datatypes.S (max_buffer c))) in
    if Datatypes.S (max_buffer c) <=? length out
    then (None, Some (Failed ETooLarge), snd (asrc ch))
    else (Some out, None, snd (asrc ch))
  | AReadUntil d size =>
    match aread_until _ cnx cs true F child d size false with
    | (RBytes out, ch) => (Some out, None, snd (asrc ch))
    | (_, ch) => (None, Some Crash, snd (asrc ch))
    end
  end.

Fixpoint aparse_loop (fuel : nat) (prologue : bool) (delim : bytes) (seen : nat)
         (script : list action) (p : apst) : list part_obs * status :=
  match fuel with
  | 0 => ([], OutOfFuel)
  | Datatypes.S f =>
    match apipe_until S nxt cs true F p delim true with
    | (RBytes _, p1) =>
      let delim' := if prologue then CRLF ++ delim else delim in
      let '(pk, p1a) := apeek S nxt cs F p1 (Some 2) in
      if str_eqb pk DASHDASH then ([], Done)
      else
        match aread_until S nxt cs true F p1a CRLF (Some 0) true with
        | (RBytes _, p2) =>
          match aread_until S nxt cs true F p2 CRLFCRLF (Some (max_headers c)) true with
          | (RBytes block, p3) =>
            match parse_headers block with
            | None => ([], Failed ECTE)
            | Some hs =>
              let seen' := Datatypes.S seen in
              if (0 <? max_count c) && (max_count c <? seen') then ([], Failed ECount) else
              match async_action delim' (hd ASkip script) p3 with
              | (od, None, p4) =>
                let '(ps, st) := aparse_loop f false delim' seen' (tl script) p4 in
                ({| po_headers := hs; po_data := od |} :: ps, st)
              | (od, Some st, _) => ([{| po_headers := hs; po_data := od |}], st)
              end
            end
          | (RDelimErr _, _) => ([], Failed EHeaders)
          | _ => ([], Crash)
          end
        | (RDelimErr _, _) => ([], Failed EStructure)
        | _ => ([], Crash)
        end
    | (RDelimErr _, _) => ([], Failed EStructure)
    | _ => ([], Crash)
    end
  end.

End AsyncParser.

(* falcon.asgi.multipart.MultipartForm(BufferedReader(chunks, chunk_size), boundary) *)
Definition parse_form_async (cs F : nat) (c : cfg) (boundary : bytes) (script : list action)
           (chunks : list bytes) : list part_obs * status :=
  aparse_loop (list bytes) chunks_next cs F c (S (length (concat chunks))) true
              (DASHDASH ++ boundary) 0 script (ainit (list bytes) chunks).
