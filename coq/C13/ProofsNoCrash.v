(* C13 — robustness of the multipart parser model on ARBITRARY bodies:
   - no_crash: the iteration always ends, normally or with the multipart parse error;
   - parts_prefix_sound: every observed part's data is a contiguous slice of the body;
   - status_cases: one iteration either stops (Done / Failed) or yields a part and continues
     on a strictly shorter suffix of the input. *)
From Coq Require Import ZArith NArith List Bool Arith Lia.
From Falcon.lib Require Import PyStr.
From Falcon.gen Require Import ConstsC13.
From Falcon.C14 Require Import Spec ProofsFind.
From Falcon.C13 Require Import Model.
Import ListNotations.
Local Open Scope nat_scope.

Definition script_ok (cs : nat) (script : list action) : bool :=
  forallb (fun a => match a with AReadUntil d _ => negb (bad_delim cs d) | _ => true end) script.

Definition parse_error_or_done (s : status) : Prop :=
  match s with Done | Failed _ => True | Crash | OutOfFuel => False end.

(* ---------- suffixes and slices ---------- *)

Definition suf (a b : bytes) : Prop := exists k, a = skipn k b.

Lemma suf_refl a : suf a a.
Proof. exists 0. reflexivity. Qed.

Lemma suf_skipn k a : suf (skipn k a) a.
Proof. exists k. reflexivity. Qed.

Lemma suf_trans a b c : suf a b -> suf b c -> suf a c.
Proof.
  intros [k Hk] [j Hj]. subst a b. exists (j + k). apply skipn_add.
Qed.

Lemma suf_length a b : suf a b -> length a <= length b.
Proof. intros [k Hk]. subst a. rewrite skipn_length. lia. Qed.

Definition slice (d l : bytes) : Prop := exists i, firstn (length d) (skipn i l) = d.

Lemma firstn_is_prefix m (l : bytes) : firstn (length (firstn m l)) l = firstn m l.
Proof. rewrite firstn_length. apply firstn_min_length. Qed.

Lemma slice_firstn_suf m a l : suf a l -> slice (firstn m a) l.
Proof.
  intros [k Hk]. subst a. exists k. apply firstn_is_prefix.
Qed.

Lemma slice_suf d a l : suf a l -> slice d a -> slice d l.
Proof.
  intros [k Hk] [i Hi]. subst a. exists (k + i). rewrite skipn_add in Hi. exact Hi.
Qed.

Lemma cut_firstn d (l : bytes) : exists i, cut d l = firstn i l.
Proof.
  unfold cut. destruct (find d l) as [i|].
  - exists i. reflexivity.
  - exists (length l). symmetry. apply firstn_all.
Qed.

Lemma firstn_cut_firstn m d (l : bytes) : exists j, firstn m (cut d l) = firstn j l.
Proof.
  destruct (cut_firstn d l) as [i Hi]. rewrite Hi. rewrite firstn_firstn.
  eexists. reflexivity.
Qed.

(* ---------- the delimited cursor operations return a prefix and leave a suffix ---------- *)

Lemma sp_until_spec d size consume r b ok r' :
  sp_until d size consume r = (b, ok, r') ->
  exists n k, b = firstn n r /\ r' = skipn k r /\ n <= k /\ k <= length r /\
    (consume = true -> ok = true -> n + length d <= k) /\ (ok = false -> consume = true).
Proof.
  unfold sp_until. intros H.
  pose proof (upto_le_length d size r) as Hn.
  remember (upto d size r) as n eqn:En. clear En.
  destruct consume.
  - destruct (startswith (skipn n r) d) eqn:Es; inversion H; subst b ok r'; clear H.
    + exists n, (n + length d). rewrite skipn_add.
      apply startswith_length in Es. rewrite skipn_length in Es.
      repeat split; try lia; try (intros; discriminate).
    + exists n, n. repeat split; try lia; try (intros; discriminate).
  - inversion H; subst b ok r'; clear H.
    exists n, n. repeat split; try lia; try (intros; discriminate).
Qed.

Lemma sp_op_read_until cs d size x r res r' :
  sp_op cs (OReadUntil d size x) r = (res, r') ->
  (bad_delim cs d = true /\ res = RValErr) \/
  (bad_delim cs d = false /\ exists n k, r' = skipn k r /\ n <= k /\ k <= length r /\
     ((res = RBytes (firstn n r) /\ (x = true -> n + length d <= k)) \/
      (x = true /\ exists w, res = RDelimErr w))).
Proof.
  cbn [sp_op]. destruct (bad_delim cs d) eqn:Eb.
  - intros H. inversion H. left. split; reflexivity.
  - destruct (sp_until d size x r) as [[b ok] r0] eqn:Eu.
    apply sp_until_spec in Eu. destruct Eu as (n & k & Hb & Hr & Hnk & Hk & Hc & Hok).
    destruct ok; intros H; inversion H; subst res r'; right; split; try reflexivity;
      exists n, k; (split; [exact Hr | split; [exact Hnk | split; [exact Hk | ]]]).
    + left. split; [congruence | ]. intros Hx. apply Hc; [exact Hx | reflexivity].
    + right. split; [apply Hok; reflexivity | eexists; reflexivity].
Qed.

Lemma sp_op_pipe_until cs d x r res r' :
  sp_op cs (OPipeUntil d x) r = (res, r') ->
  (bad_delim cs d = true /\ res = RValErr) \/
  (bad_delim cs d = false /\ exists n k, r' = skipn k r /\ n <= k /\ k <= length r /\
     ((res = RBytes (firstn n r) /\ (x = true -> n + length d <= k)) \/
      (x = true /\ exists w, res = RDelimErr w))).
Proof.
  cbn [sp_op]. destruct (bad_delim cs d) eqn:Eb.
  - intros H. inversion H. left. split; reflexivity.
  - destruct (sp_until d None x r) as [[b ok] r0] eqn:Eu.
    apply sp_until_spec in Eu. destruct Eu as (n & k & Hb & Hr & Hnk & Hk & Hc & Hok).
    destruct ok; intros H; inversion H; subst res r'; right; split; try reflexivity;
      exists n, k; (split; [exact Hr | split; [exact Hnk | split; [exact Hk | ]]]).
    + left. split; [congruence | ]. intros Hx. apply Hc; [exact Hx | reflexivity].
    + right. split; [apply Hok; reflexivity | eexists; reflexivity].
Qed.

Lemma bad_delim_false_len cs d : bad_delim cs d = false -> 1 <= length d /\ length d <= cs.
Proof.
  unfold bad_delim. intros H. apply orb_false_iff in H. destruct H as [H1 H2].
  apply Nat.eqb_neq in H1. apply Nat.ltb_ge in H2. lia.
Qed.

Lemma bad_delim_false_intro cs d : 1 <= length d -> length d <= cs -> bad_delim cs d = false.
Proof.
  unfold bad_delim. intros H1 H2. apply orb_false_iff. split.
  - apply Nat.eqb_neq. lia.
  - apply Nat.ltb_ge. lia.
Qed.

(* ---------- one iteration of the loop ---------- *)

Section Step.
Variable cs : nat.
Variable c : cfg.

(* the iteration stopped: no data was observed in what it returned, and a Crash can only
   come from a delimiter the reader rejects *)
Definition stop_res (delim : bytes) (script : list action) (res : list part_obs * status) : Prop :=
  Forall (fun p => po_data p = None) (fst res) /\
  match snd res with
  | Done | Failed _ => True
  | Crash =>
      bad_delim cs delim = true \/ bad_delim cs CRLF = true \/ bad_delim cs CRLFCRLF = true \/
      exists d s, hd ASkip script = AReadUntil d s /\ bad_delim cs d = true
  | OutOfFuel => False
  end.

Ltac stop_now := left; unfold stop_res; split; cbn [fst snd]; [repeat constructor | auto].

Ltac same_loop :=
  match goal with
  | |- context [parse_loop cs c ?f ?p ?d ?s ?sc ?r] =>
      destruct (parse_loop cs c f p d s sc r); reflexivity
  end.

Lemma loop_step f (prologue : bool) (delim : bytes) seen script rest :
  let delim' := if prologue then CRLF ++ delim else delim in
  stop_res delim script (parse_loop cs c (S f) prologue delim seen script rest) \/
  exists hs od rest',
    parse_loop cs c (S f) prologue delim seen script rest =
      ({| po_headers := hs; po_data := od |}
         :: fst (parse_loop cs c f false delim' (S seen) (tl script) rest'),
       snd (parse_loop cs c f false delim' (S seen) (tl script) rest')) /\
    bad_delim cs delim = false /\
    suf rest' rest /\ length rest' < length rest /\
    match od with Some out => slice out rest | None => True end.
Proof.
  intros delim'. cbn [parse_loop].
  change (if prologue then CRLF ++ delim else delim) with delim'.
  destruct (sp_op cs (OPipeUntil delim true) rest) as [res1 r1] eqn:E1.
  apply sp_op_pipe_until in E1.
  destruct E1 as [[Hb1 Hres1] | (Hb1 & n1 & k1 & Hr1 & Hnk1 & Hk1 & [[Hres1 Hc1] | [_ [w1 Hres1]]])];
    subst res1; [stop_now | | stop_now].
  specialize (Hc1 eq_refl).
  pose proof (bad_delim_false_len _ _ Hb1) as [Hd1 _].
  assert (Hs1 : suf r1 rest) by (exists k1; exact Hr1).
  assert (Hl1 : length r1 < length rest) by (subst r1; rewrite skipn_length; lia).
  clear Hr1 Hnk1 Hk1 Hc1 n1 k1.
  destruct (str_eqb (sp_peek cs (Some 2) r1) DASHDASH); [stop_now | ].
  destruct (sp_op cs (OReadUntil CRLF (Some 0) true) r1) as [res2 r2] eqn:E2.
  apply sp_op_read_until in E2.
  destruct E2 as [[Hb2 Hres2] | (Hb2 & n2 & k2 & Hr2 & _ & _ & [[Hres2 _] | [_ [w2 Hres2]]])];
    subst res2; [stop_now | | stop_now].
  assert (Hs2 : suf r2 r1) by (exists k2; exact Hr2). clear Hr2 n2 k2.
  destruct (sp_op cs (OReadUntil CRLFCRLF (Some (max_headers c)) true) r2) as [res3 r3] eqn:E3.
  apply sp_op_read_until in E3.
  destruct E3 as [[Hb3 Hres3] | (Hb3 & n3 & k3 & Hr3 & _ & _ & [[Hres3 _] | [_ [w3 Hres3]]])];
    subst res3; [stop_now | | stop_now].
  assert (Hs3 : suf r3 r2) by (exists k3; exact Hr3). clear Hr3 k3.
  assert (Hs : suf r3 rest) by (eapply suf_trans; [exact Hs3 | eapply suf_trans; eassumption]).
  assert (Hl : length r3 < length rest).
  { apply suf_length in Hs3. apply suf_length in Hs2. lia. }
  clear Hs1 Hs2 Hs3 Hl1.
  destruct (parse_headers (firstn n3 r2)) as [hs|]; [ | stop_now].
  destruct ((0 <? max_count c) && (max_count c <? S seen)); [stop_now | ].
  destruct (hd ASkip script) as [ | size | | d size] eqn:Ha.
  - (* ASkip *)
    right. exists hs, None, r3. split; [same_loop | ].
    split; [exact Hb1 | split; [exact Hs | split; [exact Hl | exact I]]].
  - (* ARead *)
    unfold sp_read.
    set (out := firstn (lim size (cut delim' r3)) (cut delim' r3)).
    right. exists hs, (Some out), (skipn (length out) r3). split; [same_loop | ].
    split; [exact Hb1 | ].
    split; [eapply suf_trans; [apply suf_skipn | exact Hs] | ].
    split; [rewrite skipn_length; lia | ].
    destruct (firstn_cut_firstn (lim size (cut delim' r3)) delim' r3) as [j Hj].
    unfold out. rewrite Hj. apply slice_firstn_suf. exact Hs.
  - (* AGetData *)
    set (out := firstn (S (max_buffer c)) (cut delim' r3)).
    destruct (S (max_buffer c) <=? length out); [stop_now | ].
    right. exists hs, (Some out), (skipn (length out) r3). split; [same_loop | ].
    split; [exact Hb1 | ].
    split; [eapply suf_trans; [apply suf_skipn | exact Hs] | ].
    split; [rewrite skipn_length; lia | ].
    destruct (firstn_cut_firstn (S (max_buffer c)) delim' r3) as [j Hj].
    unfold out. rewrite Hj. apply slice_firstn_suf. exact Hs.
  - (* AReadUntil *)
    destruct (sp_op cs (OReadUntil d size false) (cut delim' r3)) as [res4 r4] eqn:E4.
    apply sp_op_read_until in E4.
    destruct E4 as [[Hb4 Hres4] | (Hb4 & n4 & k4 & _ & _ & _ & [[Hres4 _] | [Hx4 [w4 Hres4]]])];
      subst res4.
    + left. unfold stop_res. split; cbn [fst snd]; [repeat constructor | ].
      right. right. right. exists d, size. split; [exact Ha | exact Hb4].
    + set (out := firstn n4 (cut delim' r3)).
      right. exists hs, (Some out), (skipn (length out) r3). split; [same_loop | ].
      split; [exact Hb1 | ].
      split; [eapply suf_trans; [apply suf_skipn | exact Hs] | ].
      split; [rewrite skipn_length; lia | ].
      destruct (firstn_cut_firstn n4 delim' r3) as [j Hj].
      unfold out. rewrite Hj. apply slice_firstn_suf. exact Hs.
    + (* non-consuming read_until never reports a delimiter error; in the model this branch
         maps to Crash, so show it cannot happen *)
      discriminate Hx4.
Qed.

End Step.

(* ---------- consequences ---------- *)

Lemma bad_delim_CRLF cs : 4 <= cs -> bad_delim cs CRLF = false.
Proof. intros H. apply bad_delim_false_intro; cbn; lia. Qed.

Lemma bad_delim_CRLFCRLF cs : 4 <= cs -> bad_delim cs CRLFCRLF = false.
Proof. intros H. apply bad_delim_false_intro; cbn; lia. Qed.

Lemma script_ok_tl cs script : script_ok cs script = true -> script_ok cs (tl script) = true.
Proof.
  destruct script as [|a t]; [intros _; reflexivity | ].
  unfold script_ok. cbn [forallb tl]. intros H. apply andb_true_iff in H. apply H.
Qed.

Lemma script_ok_hd cs script d s :
  script_ok cs script = true -> hd ASkip script = AReadUntil d s -> bad_delim cs d = false.
Proof.
  destruct script as [|a t]; cbn [hd]; [intros _ H; discriminate H | ].
  unfold script_ok. cbn [forallb]. intros H Ha. subst a.
  apply andb_true_iff in H. destruct H as [H _]. apply negb_true_iff in H. exact H.
Qed.

Lemma stop_res_valid cs delim script res :
  4 <= cs -> bad_delim cs delim = false -> script_ok cs script = true ->
  stop_res cs delim script res ->
  parse_error_or_done (snd res) /\ Forall (fun p => po_data p = None) (fst res).
Proof.
  intros Hcs Hd Hsc [Hf Hst]. split; [ | exact Hf].
  destruct (snd res); cbn; auto.
  destruct Hst as [H | [H | [H | (d & s & Ha & H)]]].
  - congruence.
  - rewrite bad_delim_CRLF in H by exact Hcs. discriminate H.
  - rewrite bad_delim_CRLFCRLF in H by exact Hcs. discriminate H.
  - rewrite (script_ok_hd _ _ _ _ Hsc Ha) in H. discriminate H.
Qed.

(* 3. one iteration, for valid delimiters: it stops with Done / Failed e (having observed no
   data), or it yields a part and continues on a strictly shorter suffix of the input, the
   data it observed being a slice of the input *)
Lemma status_cases cs c f (prologue : bool) (delim : bytes) seen script rest :
  4 <= cs -> bad_delim cs delim = false -> script_ok cs script = true ->
  let delim' := if prologue then CRLF ++ delim else delim in
  let res := parse_loop cs c (S f) prologue delim seen script rest in
  (parse_error_or_done (snd res) /\ Forall (fun p => po_data p = None) (fst res)) \/
  exists hs od rest',
    res = ({| po_headers := hs; po_data := od |}
             :: fst (parse_loop cs c f false delim' (S seen) (tl script) rest'),
           snd (parse_loop cs c f false delim' (S seen) (tl script) rest')) /\
    suf rest' rest /\ length rest' < length rest /\
    match od with Some out => slice out rest | None => True end.
Proof.
  intros Hcs Hd Hsc delim' res.
  destruct (loop_step cs c f prologue delim seen script rest)
    as [Hstop | (hs & od & rest' & Heq & _ & Hsuf & Hlen & Hsl)].
  - left. apply (stop_res_valid cs delim script); assumption.
  - right. exists hs, od, rest'. repeat split; assumption.
Qed.

Lemma loop_no_crash cs c : forall f (prologue : bool) (delim : bytes) seen script rest,
  4 <= cs -> bad_delim cs delim = false ->
  (prologue = true -> bad_delim cs (CRLF ++ delim) = false) ->
  script_ok cs script = true -> length rest < f ->
  parse_error_or_done (snd (parse_loop cs c f prologue delim seen script rest)).
Proof.
  induction f as [|f IH]; intros prologue delim seen script rest Hcs Hd Hd' Hsc Hlen; [lia | ].
  destruct (status_cases cs c f prologue delim seen script rest Hcs Hd Hsc)
    as [[Hst _] | (hs & od & rest' & Heq & Hsuf & Hl & _)].
  - exact Hst.
  - rewrite Heq. cbn [snd]. apply IH.
    + exact Hcs.
    + destruct prologue; [apply Hd'; reflexivity | exact Hd].
    + intros Hf. discriminate Hf.
    + apply script_ok_tl. exact Hsc.
    + lia.
Qed.

(* 1. for every byte string the iteration ends, normally or with MultipartParseError *)
Theorem no_crash : forall cs c b script body,
  4 <= cs -> 1 <= length b -> length b + 4 <= cs -> script_ok cs script = true ->
  parse_error_or_done (snd (parse_form cs c b script body)).
Proof.
  intros cs c b script body Hcs Hb Hbc Hsc. unfold parse_form.
  apply loop_no_crash.
  - exact Hcs.
  - apply bad_delim_false_intro; rewrite app_length; cbn [length DASHDASH]; lia.
  - intros _. apply bad_delim_false_intro; rewrite !app_length; cbn; lia.
  - exact Hsc.
  - lia.
Qed.

Lemma loop_slices cs c : forall f (prologue : bool) (delim : bytes) seen script rest,
  Forall (fun p => match po_data p with Some d => slice d rest | None => True end)
         (fst (parse_loop cs c f prologue delim seen script rest)).
Proof.
  induction f as [|f IH]; intros prologue delim seen script rest; [constructor | ].
  destruct (loop_step cs c f prologue delim seen script rest)
    as [[Hf _] | (hs & od & rest' & Heq & _ & Hsuf & _ & Hsl)].
  - eapply Forall_impl; [ | exact Hf]. intros p Hp. rewrite Hp. exact I.
  - rewrite Heq. cbn [fst]. constructor.
    + cbn [po_data]. exact Hsl.
    + eapply Forall_impl; [ | apply IH]. intros p Hp. cbv beta in Hp.
      destruct (po_data p) as [d|]; [ | exact I].
      eapply slice_suf; [exact Hsuf | exact Hp].
Qed.

(* 2. no silently wrong parts, for arbitrary bodies: every observed part's data is a
   contiguous slice of the body *)
Theorem parts_prefix_sound : forall cs c b script body ps st,
  parse_form cs c b script body = (ps, st) ->
  Forall (fun p => match po_data p with
                   | Some d => exists i, firstn (length d) (skipn i body) = d
                   | None => True end) ps.
Proof.
  intros cs c b script body ps st H.
  pose proof (loop_slices cs c (S (length body)) true (DASHDASH ++ b) 0 script body) as Hs.
  unfold parse_form in H. rewrite H in Hs. exact Hs.
Qed.

