(* C13 — WHEN the application reads a part's metadata.  The real iterators build each part's
   header dictionary in a FRESH dict per loop iteration (`headers = {}` inside the while loop)
   and hand a reference to the BodyPart; content_type / name / filename are computed lazily from
   that dict when first read (name / filename / the parsed Content-Disposition are then cached,
   content_type is recomputed on every read).  This file models the references: a store of
   dictionaries, one allocation per yielded part, and metadata reads at four moments of the
   consumption script.  [shared := true] is the aliasing variant (one dict hoisted out of the
   loop and cleared per part) — NOT the code; it is there to show the theorem has content. *)
From Coq Require Import ZArith NArith List Bool Arith Lia.
From Falcon.lib Require Import PyStr.
From Falcon.C14 Require Import Spec.
From Falcon.C13 Require Import Model ModelPart SpecPart.
Import ListNotations.
Local Open Scope nat_scope.

(* when the metadata of a yielded part is read *)
Inductive mtime :=
| MBefore      (* while the part is current, before its content is consumed *)
| MAfter       (* while the part is current, after its content was consumed *)
| MEnd         (* only after the whole form was iterated (the part objects were kept) *)
| MTwice.      (* while current AND again after the whole form was iterated *)

Definition store := list headers.            (* address = index *)

Fixpoint set_nth (st : store) (a : nat) (h : headers) : store :=
  match st, a with
  | [], _ => []
  | _ :: tl, 0 => h :: tl
  | x :: tl, S a' => x :: set_nth tl a' h
  end.

(* `headers = {}` of one loop iteration *)
Definition alloc (shared : bool) (st : store) : nat * store :=
  if shared then (0, match st with [] => [[]] | _ :: tl => [] :: tl end)
  else (length st, st ++ [[]]).

(* one allocation + fill per yielded part; per part: its address and the store as it is while
   the part is current; finally the store after the iteration ended *)
Fixpoint heap_run (shared : bool) (st : store) (ps : list part_obs)
  : list (nat * store) * store :=
  match ps with
  | [] => ([], st)
  | o :: tl =>
    let '(a, st1) := alloc shared st in
    let st2 := set_nth st1 a (po_headers o) in
    let '(r, stf) := heap_run shared st2 tl in
    ((a, st2) :: r, stf)
  end.

Definition read_meta (st : store) (a : nat) : view := view_of (nth a st []).

(* the views the application obtains for each part, given when it reads them (default: MBefore) *)
Fixpoint reads (r : list (nat * store)) (stf : store) (times : list mtime) : list (list view) :=
  match r with
  | [] => []
  | (a, stnow) :: tl =>
    (match hd MBefore times with
     | MBefore | MAfter => [read_meta stnow a]
     | MEnd => [read_meta stf a]
     | MTwice => [read_meta stnow a; read_meta stf a]
     end) :: reads tl stf (List.tl times)
  end.

Definition metadata_views (shared : bool) (ps : list part_obs) (times : list mtime)
  : list (list view) :=
  let '(r, stf) := heap_run shared [] ps in reads r stf times.

(* what must be read, whenever it is read: the view of the part's OWN headers *)
Fixpoint own_views (ps : list part_obs) (times : list mtime) : list (list view) :=
  match ps with
  | [] => []
  | o :: tl =>
    (match hd MBefore times with
     | MTwice => [view_of (po_headers o); view_of (po_headers o)]
     | _ => [view_of (po_headers o)]
     end) :: own_views tl (List.tl times)
  end.
