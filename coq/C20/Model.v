(* C20 — executable model of falcon/middleware.py:CORSMiddleware.
   Strings are lists of code points; response headers are an insertion-ordered
   association list keyed by the lower-cased name (falcon.Response._headers). *)
From Coq Require Import ZArith List Bool String.
From Falcon.lib Require Import PyStr.
Import ListNotations.
Open Scope N_scope.

(* ---- configuration as passed to __init__ *)
Inductive raw_origins := RStr (s : str) | RIter (l : list str).
Record raw_cfg := { r_origins : raw_origins;
                    r_expose : option raw_origins;    (* None | str | iterable *)
                    r_creds : option raw_origins }.

Inductive origins := All | Only (l : list str).
Record cfg := { allow_origins : origins; expose : option str; allow_creds : origins }.

Definition star : str := Eval vm_compute in lit "*".

Fixpoint join_comma_sp (l : list str) : str :=
  match l with
  | [] => []
  | [x] => x
  | x :: tl => x ++ [44; 32] ++ join_comma_sp tl
  end.

(* None = ValueError raised by the constructor *)
Definition norm_origins (r : raw_origins) : option origins :=
  match r with
  | RStr s => if str_eqb s star then Some All else Some (Only [s])
  | RIter l => if mem star l then None else Some (Only l)
  end.

Definition normalize (r : raw_cfg) : option cfg :=
  match norm_origins (r_origins r) with
  | None => None
  | Some ao =>
    let ex := match r_expose r with
              | None => None
              | Some (RStr s) => Some s
              | Some (RIter l) => Some (join_comma_sp l)
              end in
    match r_creds r with
    | None => Some {| allow_origins := ao; expose := ex; allow_creds := Only [] |}
    | Some rc =>
      match norm_origins rc with
      | None => None
      | Some ac => Some {| allow_origins := ao; expose := ex; allow_creds := ac |}
      end
    end
  end.

Definition allowed (o : origins) (s : str) : bool :=
  match o with All => true | Only l => mem s l end.

(* ---- response header store *)
Definition headers := list (str * str).

Fixpoint hget (h : headers) (k : str) : option str :=
  match h with
  | [] => None
  | (k', v) :: tl => if str_eqb k k' then Some v else hget tl k
  end.

Fixpoint hset (h : headers) (k v : str) : headers :=
  match h with
  | [] => [(k, v)]
  | (k', v') :: tl => if str_eqb k k' then (k', v) :: tl else (k', v') :: hset tl k v
  end.

Fixpoint hdel (h : headers) (k : str) : headers :=
  match h with
  | [] => []
  | (k', v') :: tl => if str_eqb k k' then hdel tl k else (k', v') :: hdel tl k
  end.

(* lower-case header names used by the middleware *)
Definition s_acao : str := Eval vm_compute in lit "access-control-allow-origin".
Definition s_acac : str := Eval vm_compute in lit "access-control-allow-credentials".
Definition s_aceh : str := Eval vm_compute in lit "access-control-expose-headers".
Definition s_acam : str := Eval vm_compute in lit "access-control-allow-methods".
Definition s_acah : str := Eval vm_compute in lit "access-control-allow-headers".
Definition s_acma : str := Eval vm_compute in lit "access-control-max-age".
Definition s_allow : str := Eval vm_compute in lit "allow".
Definition s_true : str := Eval vm_compute in lit "true".
Definition s_86400 : str := Eval vm_compute in lit "86400".
Definition s_OPTIONS : str := Eval vm_compute in lit "OPTIONS".

Record request := { origin : option str; method : str;
                    acrm : option str; acrh : option str }.

Definition nonempty (o : option str) : bool :=
  match o with Some (_ :: _) => true | _ => false end.

(* process_response, statement by statement; [fixed] selects the repaired withdrawal
   list (with Access-Control-Allow-Credentials), see Consts.cors_withdraws_credentials *)
Definition process_response (fixed : bool) (c : cfg) (rq : request) (h : headers)
           (succeeded : bool) : headers :=
  match origin rq with
  | None => h
  | Some o =>
    if negb (allowed (allow_origins c) o) then h else
    let h1 :=
      match hget h s_acao with
      | Some _ => h
      | None =>
        let set_origin := match allow_origins c with All => star | Only _ => o end in
        if allowed (allow_creds c) o
        then hset (hset h s_acac s_true) s_acao o
        else hset h s_acao set_origin
      end in
    let h2 := if nonempty (expose c) then
                match expose c with Some e => hset h1 s_aceh e | None => h1 end
              else h1 in
    if succeeded && str_eqb (method rq) s_OPTIONS && nonempty (acrm rq) then
      let allow := hget h2 s_allow in
      let h3 := hdel h2 s_allow in
      let allow_headers := match acrh rq with Some x => x | None => star end in
      match allow with
      | None =>
        let h4 := hdel (hdel (hdel (hdel (hdel h3 s_acam) s_acah) s_acma) s_aceh) s_acao in
        if fixed then hdel h4 s_acac else h4
      | Some a => hset (hset (hset h3 s_acam a) s_acah allow_headers) s_acma s_86400
      end
    else h2
  end.

(* ---- app.py: cors_enable wiring.  A middleware component is abstracted to
   "is it a CORSMiddleware instance"; App.__init__ appends one instance when
   cors_enable is set, add_middleware refuses a batch that would make two. *)
Definition count_cors (l : list bool) : nat := List.length (List.filter (fun b => b) l).

(* None = ValueError; Some l' = the new _unprepared_middleware *)
Definition add_middleware (cors_enable : bool) (unprepared batch : list bool) : option (list bool) :=
  match batch with
  | [] => Some unprepared
  | _ => if cors_enable && Nat.ltb 1 (count_cors (unprepared ++ batch))
         then None else Some (unprepared ++ batch)
  end.

Definition app_init (cors_enable : bool) (middleware : list bool) : option (list bool) :=
  add_middleware cors_enable [] (if cors_enable then middleware ++ [true] else middleware).

(* later add_middleware calls; a rejected call raises and leaves the list as it was *)
Fixpoint add_all (cors_enable : bool) (unprepared : list bool) (batches : list (list bool)) : list bool :=
  match batches with
  | [] => unprepared
  | b :: tl =>
    match add_middleware cors_enable unprepared b with
    | None => add_all cors_enable unprepared tl
    | Some u => add_all cors_enable u tl
    end
  end.

(* which add_middleware calls are accepted (true) / raise ValueError (false) *)
Fixpoint add_all_trace (cors_enable : bool) (unprepared : list bool) (batches : list (list bool)) : list bool :=
  match batches with
  | [] => []
  | b :: tl =>
    match add_middleware cors_enable unprepared b with
    | None => false :: add_all_trace cors_enable unprepared tl
    | Some u => true :: add_all_trace cors_enable u tl
    end
  end.
