(* C20 — property theorems only.  Each is closed by [exact] of a lemma from Proofs.v and
   followed by Print Assumptions, so none can be quietly weakened. *)
From Coq Require Import ZArith List Bool String.
From Falcon.lib Require Import PyStr.
From Falcon.C20 Require Import Model Spec Proofs.
Import ListNotations.

(* Requests without an Origin header are left untouched. *)
Theorem C20_no_origin_untouched : forall f c rq h s,
  origin rq = None -> process_response f c rq h s = h.
Proof. exact no_origin_untouched. Qed.
Print Assumptions C20_no_origin_untouched.

(* CORS headers are added only for an origin the configuration allows. *)
Theorem C20_disallowed_origin_untouched : forall f c rq h s o,
  origin rq = Some o -> allowed (allow_origins c) o = false ->
  process_response f c rq h s = h.
Proof. exact disallowed_origin_untouched. Qed.
Print Assumptions C20_disallowed_origin_untouched.

(* The allowed origin is echoed whenever credentials are granted. *)
Theorem C20_credentials_echo_origin : forall c rq h s v,
  clean h -> hget (process_response true c rq h s) s_acac = Some v ->
  exists o, origin rq = Some o /\ hget (process_response true c rq h s) s_acao = Some o.
Proof. exact credentials_echo_origin. Qed.
Print Assumptions C20_credentials_echo_origin.

(* Credentials are granted only to origins configured for them. *)
Theorem C20_credentials_only_configured : forall c rq h s v,
  clean h -> hget (process_response true c rq h s) s_acac = Some v ->
  origin_allowed c rq = true /\ creds_allowed c rq = true.
Proof. exact credentials_only_configured. Qed.
Print Assumptions C20_credentials_only_configured.

(* A wildcard origin never coexists with a credentials grant. *)
Theorem C20_wildcard_never_with_credentials : forall c rq h s,
  clean h -> origin rq <> Some star ->
  hget (process_response true c rq h s) s_acao = Some star ->
  hget (process_response true c rq h s) s_acac = None.
Proof. exact wildcard_never_with_credentials. Qed.
Print Assumptions C20_wildcard_never_with_credentials.

(* A preflight is approved exactly for a successful OPTIONS exchange with
   Access-Control-Request-Method that advertises an Allow set. *)
Theorem C20_preflight_approved_iff : forall c rq h s,
  clean h ->
  let h' := process_response true c rq h s in
  (origin_allowed c rq && is_preflight rq s = true /\ hget h s_allow <> None ->
     hget h' s_acam = hget h s_allow /\
     hget h' s_acah = Some (match acrh rq with Some x => x | None => star end) /\
     hget h' s_acma = Some s_86400) /\
  (~ (origin_allowed c rq && is_preflight rq s = true /\ hget h s_allow <> None) ->
     hget h' s_acam = None /\ hget h' s_acah = None /\ hget h' s_acma = None).
Proof. exact preflight_approved_iff. Qed.
Print Assumptions C20_preflight_approved_iff.

(* ... with the Allow header removed ... *)
Theorem C20_allow_removed : forall c rq h s,
  origin_allowed c rq && is_preflight rq s = true ->
  hget (process_response true c rq h s) s_allow = None.
Proof. exact allow_removed. Qed.
Print Assumptions C20_allow_removed.

(* ... and all grants withdrawn otherwise (whatever the responder pre-set). *)
Theorem C20_preflight_withdrawn : forall c rq h s n,
  origin_allowed c rq && is_preflight rq s = true -> hget h s_allow = None ->
  In n cors_names -> hget (process_response true c rq h s) n = None.
Proof. exact preflight_withdrawn. Qed.
Print Assumptions C20_preflight_withdrawn.

(* The withdrawal list of the code as found (without Access-Control-Allow-Credentials)
   violates that clause: the witness replayed on the implementation was the finding. *)
Theorem C20_preflight_withdrawn_refuted_before_fix :
  exists c rq h s n,
    origin_allowed c rq && is_preflight rq s = true /\ hget h s_allow = None /\
    In n cors_names /\ hget (process_response false c rq h s) n <> None.
Proof. exact preflight_withdrawn_refuted_before_fix. Qed.
Print Assumptions C20_preflight_withdrawn_refuted_before_fix.

(* Frame: no header other than Access-Control-* and Allow is ever changed. *)
Theorem C20_other_headers_untouched : forall f c rq h s k,
  ~ In k cors_names -> k <> s_allow ->
  hget (process_response f c rq h s) k = hget h k.
Proof. exact other_headers_untouched. Qed.
Print Assumptions C20_other_headers_untouched.

Theorem C20_wildcard_in_iterable_rejected : forall l ex cr,
  In star l -> normalize {| r_origins := RIter l; r_expose := ex; r_creds := cr |} = None.
Proof. exact wildcard_in_iterable_rejected. Qed.
Print Assumptions C20_wildcard_in_iterable_rejected.

Theorem C20_no_credentials_by_default : forall r c,
  r_creds r = None -> normalize r = Some c -> forall o, allowed (allow_creds c) o = false.
Proof. exact no_credentials_by_default. Qed.
Print Assumptions C20_no_credentials_by_default.

(* app.py wiring: with cors_enable the app holds exactly one policy instance after any
   sequence of add_middleware calls (a batch that would add a second one is refused). *)
Theorem C20_cors_enable_single_instance : forall mw u batches,
  app_init true mw = Some u -> count_cors (add_all true u batches) = 1%nat.
Proof. exact cors_enable_single_instance. Qed.
Print Assumptions C20_cors_enable_single_instance.

(* The executable oracle the harness applies to the implementation accepts the model on
   every input. *)
Theorem C20_oracle_sound : forall c rq h s,
  oracle c rq s h (process_response true c rq h s) = [].
Proof. exact oracle_sound. Qed.
Print Assumptions C20_oracle_sound.

(* Non-vacuity: a clean pre-state, an allowed origin with credentials, an approved preflight. *)
Example C20_premises_satisfiable :
  let c := {| allow_origins := Only [lit "http://a"]; expose := Some (lit "X-A");
              allow_creds := Only [lit "http://a"] |} in
  let rq := {| origin := Some (lit "http://a"); method := s_OPTIONS;
               acrm := Some (lit "PUT"); acrh := None |} in
  let h := [(s_allow, lit "GET, PUT")] in
  clean h /\ origin_allowed c rq && is_preflight rq true = true /\
  hget (process_response true c rq h true) s_acac = Some s_true /\
  hget (process_response true c rq h true) s_acam = Some (lit "GET, PUT").
Proof.
  cbv zeta. split; [|vm_compute; repeat split; reflexivity].
  intros n Hn. apply in_cors_cases in Hn.
  destruct Hn as [-> | [-> | [-> | [-> | [-> | ->]]]]]; reflexivity.
Qed.
