From Coq Require Import ZArith List Bool String Lia.
From Falcon.lib Require Import PyStr.
From Falcon.C20 Require Import Model Spec.
Import ListNotations.

(* ---- the header store is a map *)
Lemma hget_hset h k v k' :
  hget (hset h k v) k' = if str_eqb k' k then Some v else hget h k'.
Proof.
  induction h as [|[k0 v0] tl IH]; simpl.
  - destruct (str_eqb k' k); reflexivity.
  - destruct (str_eqb k k0) eqn:E; simpl.
    + apply str_eqb_eq in E. subst k0. destruct (str_eqb k' k); reflexivity.
    + destruct (str_eqb k' k0) eqn:E2.
      * apply str_eqb_eq in E2. subst k0.
        rewrite (str_eqb_sym k' k), E. reflexivity.
      * exact IH.
Qed.

Lemma hget_hdel h k k' :
  hget (hdel h k) k' = if str_eqb k' k then None else hget h k'.
Proof.
  induction h as [|[k0 v0] tl IH]; simpl.
  - destruct (str_eqb k' k); reflexivity.
  - destruct (str_eqb k k0) eqn:E; simpl.
    + apply str_eqb_eq in E. subst k0. rewrite IH. destruct (str_eqb k' k); reflexivity.
    + destruct (str_eqb k' k0) eqn:E2.
      * apply str_eqb_eq in E2. subst k0. rewrite (str_eqb_sym k' k), E. reflexivity.
      * exact IH.
Qed.

Ltac hsimp := repeat (rewrite ?hget_hset, ?hget_hdel in * ).

(* h' in terms of a few boolean facts: unfold, split on every test of the model *)
Ltac split_model :=
  unfold process_response, is_preflight, origin_allowed, creds_allowed in *;
  repeat match goal with
  | |- context [match origin ?r with _ => _ end] => destruct (origin r) eqn:?
  | H : context [match origin ?r with _ => _ end] |- _ => destruct (origin r) eqn:?
  | |- context [if negb ?b then _ else _] => destruct b eqn:?; cbn [negb]
  | H : context [if negb ?b then _ else _] |- _ => destruct b eqn:?; cbn [negb] in H
  end.

Lemma in_cors_cases n : In n cors_names ->
  n = s_acao \/ n = s_acac \/ n = s_aceh \/ n = s_acam \/ n = s_acah \/ n = s_acma.
Proof. unfold cors_names. simpl. intuition. Qed.

Lemma clean_get h : clean h ->
  hget h s_acao = None /\ hget h s_acac = None /\ hget h s_aceh = None /\
  hget h s_acam = None /\ hget h s_acah = None /\ hget h s_acma = None.
Proof. intro C. repeat split; apply C; unfold cors_names; simpl; tauto. Qed.

Theorem no_origin_untouched f c rq h s :
  origin rq = None -> process_response f c rq h s = h.
Proof. intro H. unfold process_response. rewrite H. reflexivity. Qed.

Theorem disallowed_origin_untouched f c rq h s o :
  origin rq = Some o -> allowed (allow_origins c) o = false ->
  process_response f c rq h s = h.
Proof. intros H A. unfold process_response. rewrite H, A. reflexivity. Qed.

(* a generic case splitter for the remaining theorems: every [if]/[match] of the model
   and every comparison between the fixed header names computes *)
Ltac crush :=
  repeat first
    [ progress hsimp
    | progress (cbn [str_eqb] in * )
    | match goal with
      | H : Some _ = None |- _ => discriminate H
      | H : None = Some _ |- _ => discriminate H
      | H : Some _ = Some _ |- _ => injection H as H; subst
      | H : true = false |- _ => discriminate H
      | H : false = true |- _ => discriminate H
      | |- context [if ?b then _ else _] => destruct b eqn:?
      | H : context [if ?b then _ else _] |- _ => destruct b eqn:?
      | |- context [match ?x with Some _ => _ | None => _ end] => destruct x eqn:?
      | H : context [match ?x with Some _ => _ | None => _ end] |- _ => destruct x eqn:?
      | |- context [match ?x with All => _ | Only _ => _ end] => destruct x eqn:?
      | H : context [match ?x with All => _ | Only _ => _ end] |- _ => destruct x eqn:?
      end ].

(* comparisons between the concrete names, as rewrite rules *)
Ltac names := change (str_eqb s_acac s_acao) with false in *;
              change (str_eqb s_acao s_acac) with false in *.

(* One tactic decides every row of the decision table: unfold the model, split on each of
   its tests (all are booleans or options of the inputs), and let the map lemmas compute. *)
Ltac table C h :=
  let C1 := fresh "C1" in let C2 := fresh "C2" in let C3 := fresh "C3" in
  let C4 := fresh "C4" in let C5 := fresh "C5" in let C6 := fresh "C6" in
  destruct (clean_get h C) as (C1 & C2 & C3 & C4 & C5 & C6);
  unfold process_response, is_preflight, origin_allowed, creds_allowed in *;
  match goal with
  | c : cfg, rq : request, s : bool |- _ =>
    destruct (origin rq) as [?o|] eqn:?EO;
    [ destruct (allowed (allow_origins c) o) eqn:?EA; cbn [negb] in *;
      [ rewrite ?C1 in *;
        destruct (allowed (allow_creds c) o) eqn:?EC;
        destruct (expose c) as [[|? ?]|] eqn:?EX; cbn [nonempty] in *;
        destruct (s && str_eqb (method rq) s_OPTIONS && nonempty (acrm rq)) eqn:?EP;
        destruct (allow_origins c) eqn:?EAO;
        repeat (rewrite ?hget_hset, ?hget_hdel in * ; cbn in * );
        destruct (hget h s_allow) eqn:?EAl;
        repeat (rewrite ?hget_hset, ?hget_hdel in * ; cbn in * )
      | ]
    | ]
  end.

Theorem credentials_echo_origin c rq h s v :
  clean h -> hget (process_response true c rq h s) s_acac = Some v ->
  exists o, origin rq = Some o /\ hget (process_response true c rq h s) s_acao = Some o.
Proof.
  intros C H. table C h; try congruence; eexists; split; try reflexivity; congruence.
Qed.

Theorem credentials_only_configured c rq h s v :
  clean h -> hget (process_response true c rq h s) s_acac = Some v ->
  origin_allowed c rq = true /\ creds_allowed c rq = true.
Proof.
  intros C H. table C h; try congruence; split; congruence.
Qed.

Theorem wildcard_never_with_credentials c rq h s :
  clean h -> origin rq <> Some star ->
  hget (process_response true c rq h s) s_acao = Some star ->
  hget (process_response true c rq h s) s_acac = None.
Proof.
  intros C NS H. table C h; try congruence.
Qed.

(* which preflight grants the policy sets, and with which values *)
Theorem preflight_approved_iff c rq h s :
  clean h ->
  let h' := process_response true c rq h s in
  (origin_allowed c rq && is_preflight rq s = true /\ hget h s_allow <> None ->
     hget h' s_acam = hget h s_allow /\
     hget h' s_acah = Some (match acrh rq with Some x => x | None => star end) /\
     hget h' s_acma = Some s_86400) /\
  (~ (origin_allowed c rq && is_preflight rq s = true /\ hget h s_allow <> None) ->
     hget h' s_acam = None /\ hget h' s_acah = None /\ hget h' s_acma = None).
Proof.
  intros C h'. subst h'. table C h; split; intros HH; repeat split; try congruence;
    try (destruct HH; congruence); try (exfalso; apply HH; split; congruence);
    try (cbn in HH; destruct HH as [HH _]; discriminate HH).
Qed.

Theorem allow_removed c rq h s :
  origin_allowed c rq && is_preflight rq s = true ->
  hget (process_response true c rq h s) s_allow = None.
Proof.
  intro P. unfold process_response, origin_allowed, is_preflight in *.
  destruct (origin rq) as [o|]; [|discriminate].
  destruct (allowed (allow_origins c) o); [|discriminate]. cbn [negb andb] in *.
  rewrite P.
  match goal with |- context [match hget ?hh s_allow with _ => _ end] =>
    destruct (hget hh s_allow) end;
  repeat (rewrite ?hget_hset, ?hget_hdel; cbn); reflexivity.
Qed.

(* a denied preflight keeps no Access-Control-* header at all, pre-set or not *)
Theorem preflight_withdrawn c rq h s n :
  origin_allowed c rq && is_preflight rq s = true -> hget h s_allow = None ->
  In n cors_names -> hget (process_response true c rq h s) n = None.
Proof.
  intros P A Hn. unfold process_response, origin_allowed, is_preflight in *.
  destruct (origin rq) as [o|]; [|discriminate].
  destruct (allowed (allow_origins c) o); [|discriminate]. cbn [negb andb] in *.
  rewrite P.
  match goal with |- context [hget ?hh s_allow] =>
    assert (HA : hget hh s_allow = None) end.
  { destruct (hget h s_acao); destruct (allowed (allow_creds c) o);
    destruct (expose c) as [[|]|]; cbn [nonempty];
    repeat (rewrite ?hget_hset, ?hget_hdel; cbn); exact A. }
  rewrite HA.
  apply in_cors_cases in Hn.
  destruct Hn as [-> | [-> | [-> | [-> | [-> | ->]]]]];
  repeat (rewrite ?hget_hset, ?hget_hdel; cbn); reflexivity.
Qed.

(* the unrepaired withdrawal list leaves the credentials grant behind *)
Theorem preflight_withdrawn_refuted_before_fix :
  exists c rq h s n,
    origin_allowed c rq && is_preflight rq s = true /\ hget h s_allow = None /\
    In n cors_names /\ hget (process_response false c rq h s) n <> None.
Proof.
  exists {| allow_origins := All; expose := None; allow_creds := All |}.
  exists {| origin := Some (lit "http://a"); method := s_OPTIONS;
            acrm := Some (lit "GET"); acrh := None |}.
  exists [], true, s_acac. vm_compute. repeat split; try discriminate. tauto.
Qed.

(* frame: nothing but the CORS headers and Allow is ever touched *)
Theorem other_headers_untouched f c rq h s k :
  ~ In k cors_names -> k <> s_allow ->
  hget (process_response f c rq h s) k = hget h k.
Proof.
  intros NI NA.
  assert (E : forall n, In n cors_names -> str_eqb k n = false).
  { intros n Hn. apply str_eqb_neq. intro. subst. contradiction. }
  assert (EA : str_eqb k s_allow = false) by (apply str_eqb_neq; exact NA).
  assert (E1 : str_eqb k s_acao = false) by (apply E; unfold cors_names; simpl; tauto).
  assert (E2 : str_eqb k s_acac = false) by (apply E; unfold cors_names; simpl; tauto).
  assert (E3 : str_eqb k s_aceh = false) by (apply E; unfold cors_names; simpl; tauto).
  assert (E4 : str_eqb k s_acam = false) by (apply E; unfold cors_names; simpl; tauto).
  assert (E5 : str_eqb k s_acah = false) by (apply E; unfold cors_names; simpl; tauto).
  assert (E6 : str_eqb k s_acma = false) by (apply E; unfold cors_names; simpl; tauto).
  clear E NI NA.
  unfold process_response.
  destruct (origin rq) as [o|]; [|reflexivity].
  destruct (allowed (allow_origins c) o); cbn [negb]; [|reflexivity].
  destruct (hget h s_acao); destruct (allowed (allow_creds c) o);
  destruct (expose c) as [[|]|]; cbn [nonempty];
  destruct (s && str_eqb (method rq) s_OPTIONS && nonempty (acrm rq));
  destruct (allow_origins c); destruct f;
  try match goal with |- context [match hget ?hh s_allow with _ => _ end] =>
    destruct (hget hh s_allow) end;
  repeat (rewrite ?hget_hset, ?hget_hdel);
  rewrite ?E1, ?E2, ?E3, ?E4, ?E5, ?E6, ?EA; reflexivity.
Qed.

(* constructor validation *)
Theorem wildcard_in_iterable_rejected l ex cr :
  In star l -> normalize {| r_origins := RIter l; r_expose := ex; r_creds := cr |} = None.
Proof.
  intro H. unfold normalize, norm_origins. cbn.
  apply mem_In in H. rewrite H. reflexivity.
Qed.

Theorem no_credentials_by_default r c :
  r_creds r = None -> normalize r = Some c -> forall o, allowed (allow_creds c) o = false.
Proof.
  intros H N o. unfold normalize in N. rewrite H in N.
  destruct (norm_origins (r_origins r)); [|discriminate].
  injection N as <-. reflexivity.
Qed.

(* ---- the model passes its own oracle on every input: the oracle is implied by the
   theorems above, and it is what the harness evaluates on the implementation *)
Lemma opt_eqb_refl a : opt_eqb a a = true.
Proof. destruct a; simpl; [apply str_eqb_refl | reflexivity]. Qed.

Lemma opt_eqb_eq a b : opt_eqb a b = true <-> a = b.
Proof.
  destruct a, b; simpl; split; intro H; try discriminate; try reflexivity.
  - apply str_eqb_eq in H. congruence.
  - injection H as ->. apply str_eqb_refl.
Qed.

Lemma cleanb_clean h : cleanb h = true -> clean h.
Proof.
  unfold cleanb, clean. rewrite forallb_forall. intros H n Hn. specialize (H n Hn).
  destruct (hget h n); [discriminate | reflexivity].
Qed.

Lemma fails1_ok c rq h s : fails1 c rq h (process_response true c rq h s) = [].
Proof.
  unfold fails1. destruct (origin_allowed c rq) eqn:E; cbn [negb]; [reflexivity|].
  assert (process_response true c rq h s = h) as ->.
  { unfold origin_allowed in E. destruct (origin rq) as [o|] eqn:EO.
    - eapply disallowed_origin_untouched; eauto.
    - apply no_origin_untouched; exact EO. }
  rewrite (proj2 (forallb_forall _ _)); [reflexivity|].
  intros k _. apply opt_eqb_refl.
Qed.

Lemma fails2_ok c rq h s : fails2 rq h (process_response true c rq h s) = [].
Proof.
  unfold fails2. destruct (cleanb h) eqn:C; [|reflexivity]. apply cleanb_clean in C.
  destruct (hget _ s_acac) eqn:E; [|reflexivity].
  destruct (credentials_echo_origin _ _ _ _ _ C E) as [o [EO EA]].
  rewrite EA, EO. simpl. rewrite str_eqb_refl. reflexivity.
Qed.

Lemma fails3_ok c rq h s : fails3 c rq h (process_response true c rq h s) = [].
Proof.
  unfold fails3. destruct (cleanb h) eqn:C; [|reflexivity]. apply cleanb_clean in C.
  destruct (hget _ s_acac) eqn:E; [|reflexivity].
  destruct (credentials_only_configured _ _ _ _ _ C E) as [-> ->]. reflexivity.
Qed.

Lemma fails4_ok c rq h s : fails4 c rq s h (process_response true c rq h s) = [].
Proof.
  unfold fails4. destruct (cleanb h) eqn:C; [|reflexivity]. apply cleanb_clean in C.
  destruct (preflight_approved_iff c rq h s C) as [_ N].
  destruct (origin_allowed c rq && is_preflight rq s) eqn:P; cbn [andb].
  - destruct (hget h s_allow) eqn:A; cbn [isnone negb].
    + destruct (_ && _ && _); reflexivity.
    + destruct N as (-> & -> & ->); [intros [_ X]; apply X; reflexivity | reflexivity].
  - destruct N as (-> & -> & ->); [intros [X _]; discriminate X | reflexivity].
Qed.

Lemma fails5_ok c rq h s : fails5 c rq s h (process_response true c rq h s) = [].
Proof.
  unfold fails5. destruct (origin_allowed c rq && is_preflight rq s) eqn:P; [|reflexivity].
  rewrite (allow_removed _ _ _ _ P). cbn [isnone negb].
  destruct (hget h s_allow) eqn:A; cbn [isnone]; [reflexivity|].
  rewrite (proj2 (forallb_forall _ _)); [reflexivity|].
  intros n Hn. rewrite (preflight_withdrawn _ _ _ _ _ P A Hn). reflexivity.
Qed.

Lemma fails6_ok c rq h s : fails6 rq h (process_response true c rq h s) = [].
Proof.
  unfold fails6. destruct (cleanb h) eqn:C; [|reflexivity]. apply cleanb_clean in C.
  destruct (opt_eqb (origin rq) (Some star)) eqn:O; [reflexivity|]. cbn [negb andb].
  destruct (opt_eqb (hget _ s_acao) (Some star)) eqn:A; [|reflexivity].
  apply opt_eqb_eq in A.
  rewrite (wildcard_never_with_credentials c rq h s C); [reflexivity| |exact A].
  intro X. rewrite X in O. rewrite opt_eqb_refl in O. discriminate.
Qed.

Theorem oracle_sound c rq h s : oracle c rq s h (process_response true c rq h s) = [].
Proof.
  unfold oracle. rewrite fails1_ok, fails2_ok, fails3_ok, fails4_ok, fails5_ok, fails6_ok.
  reflexivity.
Qed.

(* ---- cors_enable keeps exactly one policy instance, whatever is added later *)
Lemma add_middleware_one u b u' :
  count_cors u = 1%nat -> add_middleware true u b = Some u' -> count_cors u' = 1%nat.
Proof.
  unfold add_middleware. intros H. destruct b as [|x b]; [intros E; injection E as <-; exact H|].
  cbn [andb]. destruct (Nat.ltb 1 (count_cors (u ++ x :: b))) eqn:L; [discriminate|].
  intros E. injection E as <-. apply PeanoNat.Nat.ltb_ge in L.
  unfold count_cors in *. rewrite filter_app, app_length in *. lia.
Qed.

Theorem cors_enable_single_instance mw u batches :
  app_init true mw = Some u -> count_cors (add_all true u batches) = 1%nat.
Proof.
  intros I. assert (H : count_cors u = 1%nat).
  { unfold app_init, add_middleware in I. destruct (mw ++ [true]) as [|x l] eqn:E.
    - destruct mw; discriminate.
    - cbn [andb app] in I. destruct (Nat.ltb 1 (count_cors (x :: l))) eqn:L; [discriminate|].
      injection I as <-. apply PeanoNat.Nat.ltb_ge in L. rewrite <- E in *.
      unfold count_cors in *. rewrite filter_app, app_length in *. simpl in *. lia. }
  clear I. revert u H. induction batches as [|b tl IH]; intros u H; simpl; [exact H|].
  destruct (add_middleware true u b) as [u'|] eqn:E.
  - apply IH. eapply add_middleware_one; eauto.
  - apply IH. exact H.
Qed.
