(* C20 — the property, stated over the header map the server finally sees. *)
From Coq Require Import ZArith List Bool String.
From Falcon.lib Require Import PyStr.
From Falcon.C20 Require Import Model.
Import ListNotations.

(* every Access-Control-* header the middleware can emit *)
Definition cors_names : list str := [s_acao; s_acac; s_aceh; s_acam; s_acah; s_acma].

(* the policy-owned preflight grants *)
Definition preflight_names : list str := [s_acam; s_acah; s_acma].

Definition is_preflight (rq : request) (succeeded : bool) : bool :=
  succeeded && str_eqb (method rq) s_OPTIONS && nonempty (acrm rq).

(* "the responder did not pre-set any CORS header" *)
Definition clean (h : headers) : Prop := forall n, In n cors_names -> hget h n = None.
Definition cleanb (h : headers) : bool :=
  forallb (fun n => match hget h n with None => true | Some _ => false end) cors_names.

Definition origin_allowed (c : cfg) (rq : request) : bool :=
  match origin rq with None => false | Some o => allowed (allow_origins c) o end.

Definition creds_allowed (c : cfg) (rq : request) : bool :=
  match origin rq with None => false | Some o => allowed (allow_creds c) o end.

Definition opt_eqb (a b : option str) : bool :=
  match a, b with
  | None, None => true
  | Some x, Some y => str_eqb x y
  | _, _ => false
  end.

Definition isnone (o : option str) : bool := match o with None => true | Some _ => false end.

(* Boolean oracle evaluated by the harness on the implementation's observation: given the
   pre-headers [h] (what the response held before the middleware ran) and the observed
   post-headers [h'], which clauses of the property fail? *)

(* 1: no Origin, or an origin the configuration does not allow => untouched *)
Definition fails1 (c : cfg) (rq : request) (h h' : headers) : list N :=
  if negb (origin_allowed c rq) then
    if forallb (fun k => opt_eqb (hget h k) (hget h' k)) (map fst h ++ map fst h')
    then [] else [1%N]
  else [].

(* 2: credentials granted => ACAO echoes the request origin (so never the wildcard) *)
Definition fails2 (rq : request) (h h' : headers) : list N :=
  if cleanb h then
    match hget h' s_acac with
    | Some _ => if opt_eqb (hget h' s_acao) (origin rq) && negb (isnone (origin rq))
                then [] else [2%N]
    | None => []
    end
  else [].

(* 3: credentials only for origins configured for them (and allowed at all) *)
Definition fails3 (c : cfg) (rq : request) (h h' : headers) : list N :=
  if cleanb h then
    match hget h' s_acac with
    | Some _ => if origin_allowed c rq && creds_allowed c rq then [] else [3%N]
    | None => []
    end
  else [].

(* 4: methods/headers/max-age granted only for an approved preflight *)
Definition fails4 (c : cfg) (rq : request) (succeeded : bool) (h h' : headers) : list N :=
  if cleanb h then
    if isnone (hget h' s_acam) && isnone (hget h' s_acah) && isnone (hget h' s_acma) then []
    else if origin_allowed c rq && is_preflight rq succeeded && negb (isnone (hget h s_allow))
         then [] else [4%N]
  else [].

(* 5: a preflight always loses Allow; a denied one keeps no Access-Control-* header *)
Definition fails5 (c : cfg) (rq : request) (succeeded : bool) (h h' : headers) : list N :=
  if origin_allowed c rq && is_preflight rq succeeded then
    if negb (isnone (hget h' s_allow)) then [5%N]
    else if isnone (hget h s_allow)
         then if forallb (fun n => isnone (hget h' n)) cors_names then [] else [5%N]
         else []
  else [].

(* 6: a wildcard ACAO never coexists with a credentials grant (origin "*" itself excluded) *)
Definition fails6 (rq : request) (h h' : headers) : list N :=
  if cleanb h && negb (opt_eqb (origin rq) (Some star)) then
    if opt_eqb (hget h' s_acao) (Some star) && negb (isnone (hget h' s_acac)) then [6%N] else []
  else [].

Definition oracle (c : cfg) (rq : request) (succeeded : bool) (h h' : headers) : list N :=
  fails1 c rq h h' ++ fails2 rq h h' ++ fails3 c rq h h' ++ fails4 c rq succeeded h h'
  ++ fails5 c rq succeeded h h' ++ fails6 rq h h'.
