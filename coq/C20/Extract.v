From Coq Require Import ZArith List Bool String.
From Coq Require Import ExtrOcamlBasic.
From Falcon.lib Require Import Wire PyStr.
From Falcon.C20 Require Import Model Spec.
Import ListNotations.
Open Scope Z_scope.

Definition d_raw (v : val) : raw_origins :=
  match v with
  | L [I 0; s] => RStr (dstr s)
  | L [I _; l] => RIter (dlist dstr l)
  | _ => RStr []
  end.

Definition d_rawcfg (v : val) : raw_cfg :=
  {| r_origins := d_raw (nth_val 0 v);
     r_expose := dopt d_raw (nth_val 1 v);
     r_creds := dopt d_raw (nth_val 2 v) |}.

Definition d_req (v : val) : request :=
  {| origin := dopt dstr (nth_val 0 v); method := dstr (nth_val 1 v);
     acrm := dopt dstr (nth_val 2 v); acrh := dopt dstr (nth_val 3 v) |}.

Definition d_headers (v : val) : headers :=
  dlist (fun p => (dstr (nth_val 0 p), dstr (nth_val 1 p))) v.

Definition v_headers (h : headers) : val := vlist (vpair vstr vstr) h.

Definition v_origins (o : origins) : val :=
  match o with All => L [I 0] | Only l => L [I 1; vlist vstr l] end.

(* ops: 0 normalize; 1 process_response; 2 oracle on an observed (h, h') *)
Definition run (v : val) : val :=
  match v with
  | L [I 0; rc] =>
    match normalize (d_rawcfg rc) with
    | None => L [I 0]
    | Some c => L [I 1; v_origins (allow_origins c); vopt vstr (expose c); v_origins (allow_creds c)]
    end
  | L [I 1; rc; rq; h; s] =>
    match normalize (d_rawcfg rc) with
    | None => L [I 0]
    | Some c =>
      let h' := process_response true c (d_req rq) (d_headers h) (dbool s) in
      L [I 1; v_headers h'; vlist vN (oracle c (d_req rq) (dbool s) (d_headers h) h')]
    end
  | L [I 2; rc; rq; h; s; h'] =>
    match normalize (d_rawcfg rc) with
    | None => L [I 0]
    | Some c => L [I 1; vlist vN (oracle c (d_req rq) (dbool s) (d_headers h) (d_headers h'))]
    end
  | L [I 3; ce; mw; batches] =>   (* app wiring: init then add_middleware batches *)
    match app_init (dbool ce) (dlist dbool mw) with
    | None => L [I 0]
    | Some u => L [I 1; vnat (count_cors (add_all (dbool ce) u (dlist (dlist dbool) batches)));
                   vlist vbool (add_all_trace (dbool ce) u (dlist (dlist dbool) batches))]
    end
  | _ => L [I (-1)]
  end.

Extraction "C20/model.ml" run.
