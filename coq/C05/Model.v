(* C05 — executable model of how falcon hands a response to the server:
   WSGI: the tail of App.__call__ (falcon/app.py) + App._get_body + Response.render_body +
         Response._wsgi_headers + app_helpers.CloseableStreamIterator, followed by what a
         conforming PEP 3333 server does with the returned iterable (iterate, then close());
   ASGI: the tail of asgi.App.__call__ (bodiless / SSE / data / stream branches, the
         try/finally around streaming) + Response._asgi_headers;
   status normalisation: util.misc.code_to_http_status / http_status_to_code.
   Byte strings are lists of N; the media serializer and SSEvent.serialize are oracles whose
   results are inputs. *)
From Coq Require Import ZArith NArith List Bool.
From Falcon.lib Require Import PyStr.
From Falcon.gen Require Import ConstsC05.
Import ListNotations.
Open Scope N_scope.

Definition bytes := list N.

(* ---- status values an application may assign to resp.status *)
Inductive status_in :=
| SInt (c : Z)                     (* int *)
| SLine (s : str)                  (* str containing a space: taken as a status line *)
| SCodeStr (s : str)               (* str without a space, e.g. '204' *)
| SEnum (c : N) (phrase : str).    (* http.HTTPStatus member *)

Definition digit (n : N) : N := 48 + n.
Definition digits3 (c : N) : str := [digit (c / 100); digit ((c / 10) mod 10); digit (c mod 10)].

Fixpoint assoc_line (t : list (N * str)) (c : N) : option str :=
  match t with
  | [] => None
  | (c', l) :: tl => if N.eqb c c' then Some l else assoc_line tl c
  end.

(* getattr(status_codes, 'HTTP_' + str(code)) or '<code> Unknown' *)
Definition line_of_code (c : N) : str :=
  match assoc_line status_lines c with
  | Some l => l
  | None => digits3 c ++ [32] ++ default_reason
  end.

(* int(s) for a string of ASCII digits (the only form the harness generates); None = ValueError *)
Fixpoint parse_digits (s : str) (acc : N) : option N :=
  match s with
  | [] => Some acc
  | d :: tl => if (48 <=? d) && (d <=? 57) then parse_digits tl (acc * 10 + (d - 48)) else None
  end.

Definition parse_int (s : str) : option N :=
  match s with [] => None | _ => parse_digits s 0 end.

(* util.misc.code_to_http_status; None = ValueError *)
Definition code_to_http_status (s : status_in) : option str :=
  match s with
  | SEnum c phrase => Some (digits3 c ++ [32] ++ phrase)   (* '{} {}'.format(value, phrase) *)
  | SLine l => Some l
  | SInt c => if (100 <=? c)%Z && (c <=? 999)%Z then Some (line_of_code (Z.to_N c)) else None
  | SCodeStr l =>
    match parse_int l with
    | Some c => if (100 <=? c) && (c <=? 999) then Some (line_of_code c) else None
    | None => None
    end
  end.

(* util.misc.http_status_to_code; None = ValueError *)
Definition http_status_to_code (s : status_in) : option Z :=
  match s with
  | SEnum c _ => Some (Z.of_N c)
  | SInt c => Some c
  | SLine l | SCodeStr l =>
    if Nat.ltb (length l) 3 then None
    else match parse_int (firstn 3 l) with Some c => Some (Z.of_N c) | None => None end
  end.

(* ---- response streams are scripts *)
Inductive skind :=
| KFile      (* has .read(): file-like (WSGI) / async file-like (ASGI) *)
| KIter.     (* iterable (WSGI) / async iterable (ASGI) *)

(* how a scripted failure manifests itself.  The framework's streaming code makes no
   distinction (it is a try/finally, not an except clause), so the model does not either -
   which is the point: the theorems hold for every kind. *)
Inductive fault :=
| FException        (* an Exception subclass is raised *)
| FBaseException    (* a BaseException that is not an Exception (KeyboardInterrupt-like) *)
| FCancel.          (* asyncio.CancelledError: raised by send()/read(), or the server cancels
                       the app task while it is parked in send() *)

Record stream := {
  k_kind : skind;
  k_chunks : list (option bytes);   (* successive results of read() / next(); None = a None item *)
  k_raises : option fault;          (* after the chunks: fail this way (Some) or end of stream *)
  k_has_close : bool
}.

(* what the error handler that answers a body-rendering failure leaves in the response *)
Record recovery := {
  rc_status : status_in;
  rc_text : option bytes;
  rc_data : option bytes;
  rc_media : option bytes;          (* ORACLE: serialized *)
  rc_media_fails : bool;            (* serializing THAT media raises as well *)
  rc_ctype : option str             (* content type set while handling (None: left as it was) *)
}.

Record input := {
  i_head : bool;                    (* req.method == 'HEAD' *)
  i_status : status_in;
  i_text : option bytes;            (* resp.text, UTF-8 encoded *)
  i_data : option bytes;            (* resp.data *)
  i_media : option bytes;           (* ORACLE: resp.media as serialized by its media handler *)
  i_stream : option stream;
  i_sse : option (list bytes);      (* ASGI: resp.sse, ORACLE: each event already serialized *)
  i_clen : option str;              (* Content-Length set by the application *)
  i_ctype : option str;             (* Content-Type set by the application *)
  i_wrapper : bool;                 (* WSGI: environ has wsgi.file_wrapper *)
  i_cached : bool;                  (* resp._media_rendered already holds the serialized media
                                       (an earlier render_body() call): no side effect now *)
  i_disconnect : option nat;        (* ASGI/SSE: receive() delivers http.disconnect once this many
                                       events have been sent *)
  i_media_fails : bool;             (* rendering resp.media raises (unserializable object, no
                                       handler for the content type, handler error) *)
  i_recovery : recovery             (* ... and this is how the error handler answers *)
}.

(* Response.render_body: text, else data, else rendered media *)
Definition render_body (i : input) : option bytes :=
  match i_text i with
  | Some t => Some t
  | None => match i_data i with
            | Some d => Some d
            | None => i_media i
            end
  end.

(* SSE: the emitter is abandoned after the event during which the disconnect watcher finished
   (`if watcher.done(): break` comes after the send); at least one event is attempted *)
Definition sse_effective (i : input) : option (list bytes) :=
  match i_sse i, i_disconnect i with
  | Some evs, Some k => Some (firstn (Nat.max 1 k) evs)
  | o, _ => o
  end.

(* ---- the header dict, keyed by lower-case name; only the two framing headers matter here *)
Record hdrs := { h_clen : option str; h_ctype : option str }.

(* side effect of render_body when it is resp.media that gets rendered:
   `if not self.content_type: self.content_type = self.options.default_media_type` *)
Definition media_rendered (i : input) : bool :=
  match i_text i, i_data i, i_media i with
  | None, None, Some _ => negb (i_cached i)
  | _, _, _ => false
  end.

Definition ctype_after_render (i : input) : option str :=
  if media_rendered i
  then match i_ctype i with
       | None | Some [] => Some default_media_type
       | c => c
       end
  else i_ctype i.

Definition headers0 (i : input) : hdrs := {| h_clen := i_clen i; h_ctype := ctype_after_render i |}.

Definition set_clen (h : hdrs) (v : str) : hdrs := {| h_clen := Some v; h_ctype := h_ctype h |}.

(* _wsgi_headers / _asgi_headers: `if media_type is not None and 'content-type' not in headers` *)
Definition finish_headers (h : hdrs) (media_type : option str) : hdrs :=
  match media_type, h_ctype h with
  | Some m, None => {| h_clen := h_clen h; h_ctype := Some m |}
  | _, _ => h
  end.

(* str(n) *)
Fixpoint dec_fuel (fuel : nat) (n : N) (acc : str) : str :=
  match fuel with
  | O => acc
  | S f => let acc' := digit (n mod 10) :: acc in
           if n / 10 =? 0 then acc' else dec_fuel f (n / 10) acc'
  end.
Definition dec (n : N) : str := dec_fuel (S (N.to_nat (N.log2 n))) n [].

Definition blen (b : bytes) : N := N.of_nat (length b).

(* ================================================================== WSGI *)

Inductive wbody :=
| WList (b : list bytes)          (* a list literal: [data] or [] *)
| WIter (s : stream)              (* resp.stream returned as is *)
| WCloseable (s : stream)         (* CloseableStreamIterator(stream, block_size) *)
| WWrapped (s : stream).          (* wsgi.file_wrapper(stream, block_size) *)

(* App._get_body *)
Definition get_body (i : input) : wbody * option N :=
  match render_body i with
  | Some d => (WList [d], Some (blen d))
  | None =>
    match i_stream i with
    | Some s =>
      (match k_kind s with
       | KFile => if i_wrapper i then WWrapped s else WCloseable s
       | KIter => WIter s
       end, None)
    | None => (WList [], Some 0)
    end
  end.

Definition mem_N (c : N) (l : list N) : bool := existsb (N.eqb c) l.

(* membership of the status in a set of codes.  by_code = true: `status_code in SET` (the
   repaired code, fixes/C05-wsgi-bodiless-by-status-code.patch); false: the code as found
   compared the status LINE with the canonical lines of the codes in the set *)
Definition wsgi_in_set (by_code : bool) (line : str) (code : Z) (set : list N) : bool :=
  if by_code then (0 <=? code)%Z && mem_N (Z.to_N code) set
  else existsb (fun c => str_eqb line (line_of_code c)) set.

Record wsgi_start := { ws_status : str; ws_headers : hdrs; ws_body : wbody }.

(* tail of App.__call__; None = ValueError from status normalisation *)
Definition wsgi_emit (by_code : bool) (i : input) : option wsgi_start :=
  let '(body, length) := get_body i in
  match code_to_http_status (i_status i), http_status_to_code (i_status i) with
  | Some line, Some code =>
    let h0 := headers0 i in
    let bodiless := wsgi_in_set by_code line code wsgi_bodiless in
    let typeless := wsgi_in_set by_code line code wsgi_typeless in
    if i_head i || bodiless then
      let '(h1, mt) :=
        if typeless then (h0, None)
        else match length, h_clen h0 with
             | Some n, None => if i_head i && negb bodiless
                               then (set_clen h0 (dec n), Some default_media_type)
                               else (h0, Some default_media_type)
             | _, _ => (h0, Some default_media_type)
             end in
      Some {| ws_status := line; ws_headers := finish_headers h1 mt; ws_body := WList [] |}
    else
      let h1 := match length with Some n => set_clen h0 (dec n) | None => h0 end in
      Some {| ws_status := line; ws_headers := finish_headers h1 (Some default_media_type);
              ws_body := body |}
  | _, _ => None
  end.

(* ---- what a conforming server does with the iterable: iterate to the end (or until it
   raises), then call close() if the iterable has one *)
Record served := {
  sv_chunks : list bytes;     (* byte strings received *)
  sv_raised : bool;           (* iteration raised *)
  sv_reads : nat;             (* read()/next() calls made on the application's stream *)
  sv_closes : nat             (* close() calls that reached the application's stream *)
}.

Definition raises_b (s : stream) : bool :=
  match k_raises s with Some _ => true | None => false end.

Definition is_nil_b (b : bytes) : bool := match b with [] => true | _ => false end.
Definition isSomeS (o : option stream) : bool := match o with Some _ => true | None => false end.
Definition isSomeC (o : option str) : bool := match o with Some _ => true | None => false end.

(* iterating a scripted stream; a file-like ends at the first empty chunk *)
Fixpoint drain (file : bool) (l : list (option bytes)) (raises : bool) : list bytes * bool * nat :=
  match l with
  | [] => ([], raises, 1%nat)                  (* the call that ends the stream or raises *)
  | c :: tl =>
    let b := match c with Some b => b | None => [] end in
    if file && is_nil_b b then ([], false, 1%nat)
    else let '(cs, r, n) := drain file tl raises in (b :: cs, r, S n)
  end.

Definition serve (b : wbody) : served :=
  match b with
  | WList l => {| sv_chunks := l; sv_raised := false; sv_reads := 0; sv_closes := 0 |}
  | WIter s =>
    let '(cs, r, n) := drain false (k_chunks s) (raises_b s) in
    {| sv_chunks := cs; sv_raised := r; sv_reads := n;
       sv_closes := if k_has_close s then 1 else 0 |}
  | WCloseable s | WWrapped s =>
    (* CloseableStreamIterator.close / the server's file wrapper: stream.close() if any *)
    let '(cs, r, n) := drain true (k_chunks s) (raises_b s) in
    {| sv_chunks := cs; sv_raised := r; sv_reads := n;
       sv_closes := if k_has_close s then 1 else 0 |}
  end.

(* ================================================================== ASGI *)

Inductive aevent :=
| AStart (status : Z) (h : hdrs)
| ABody (b : bytes) (more : bool).

Record asgi_out := {
  ao_events : list aevent;    (* events the server's send() accepted, in order *)
  ao_raised : bool;           (* an exception left the app (stream error / send failure) *)
  ao_reads : nat;
  ao_closes : nat
}.

(* send #n fails iff fail_at = Some n.  A sender state = (events accepted so far, count) *)
Definition send_ok (fail_at : option nat) (n : nat) : bool :=
  match fail_at with Some k => negb (Nat.eqb k n) | None => true end.

(* the streaming loop, entered inside try/finally.  Returns accepted body events, whether an
   exception escaped the loop, and the number of read()/__anext__ calls *)
Fixpoint stream_loop (file : bool) (l : list (option bytes)) (raises : bool)
         (fail_at : option nat) (n : nat) : list aevent * bool * nat * nat :=
  match l with
  | [] => ([], raises, 1%nat, n)
  | c :: tl =>
    match c, file with
    | None, false => ([], false, 1%nat, n)         (* async iterator yielded None: break *)
    | _, _ =>
      let b := match c with Some b => b | None => [] end in   (* `data or b''` *)
      if file && match c with Some [] => true | _ => false end then ([], false, 1%nat, n)  (* data == b'' *)
      else if send_ok fail_at n then
        let '(ev, r, rd, n') := stream_loop file tl raises fail_at (S n) in
        (ABody b true :: ev, r, S rd, n')
      else ([], true, 1%nat, n)                     (* send raised *)
    end
  end.

(* a straight-line sequence of sends starting at send #n *)
Fixpoint send_all (evs : list aevent) (fail_at : option nat) (n : nat) : list aevent * bool :=
  match evs with
  | [] => ([], false)
  | e :: tl => if send_ok fail_at n
               then let '(acc, r) := send_all tl fail_at (S n) in (e :: acc, r)
               else ([], true)
  end.

Definition to_Z_opt (o : option Z) : Z := match o with Some z => z | None => 0%Z end.

(* tail of asgi.App.__call__ ; None = ValueError from resp.status_code *)
Definition asgi_emit (i : input) (fail_at : option nat) : option asgi_out :=
  match http_status_to_code (i_status i) with
  | None => None
  | Some code =>
    let data := render_body i in
    let h0 := headers0 i in
    let bodiless := (0 <=? code)%Z && mem_N (Z.to_N code) asgi_bodiless in
    let typeless := (0 <=? code)%Z && mem_N (Z.to_N code) asgi_typeless in
    let plain evs := let '(acc, r) := send_all evs fail_at 0 in
                     Some {| ao_events := acc; ao_raised := r; ao_reads := 0; ao_closes := 0 |} in
    if i_head i || bodiless then
      let '(h1, mt) :=
        if typeless then (h0, None)
        else if (match data with Some _ => true | None => negb (isSomeS (i_stream i)) end)
                && i_head i && negb bodiless && negb (isSomeC (h_clen h0))
             then (set_clen h0 (match data with
                                | Some ((_ :: _) as d) => dec (blen d)
                                | _ => [48] end), Some default_media_type)
             else (h0, Some default_media_type) in
      plain [AStart code (finish_headers h1 mt); ABody [] false]
    else
    match sse_effective i with
    | Some evs =>
      plain (AStart code (finish_headers h0 (Some sse_media_type))
             :: map (fun e => ABody e true) evs ++ [ABody [] false])
    | None =>
      match data with
      | Some d =>
        plain [AStart code (finish_headers (set_clen h0 (dec (blen d))) (Some default_media_type));
               ABody d false]
      | None =>
        match i_stream i with
        | None =>
          plain [AStart code (finish_headers (set_clen h0 [48]) (Some default_media_type));
                 ABody [] false]
        | Some s =>
          let start := AStart code (finish_headers h0 (Some default_media_type)) in
          if send_ok fail_at 0 then
            let file := match k_kind s with KFile => true | KIter => false end in
            let '(ev, r, rd, n) := stream_loop file (k_chunks s) (raises_b s) fail_at 1 in
            let closes := if k_has_close s then 1%nat else 0%nat in    (* finally: *)
            if r then Some {| ao_events := start :: ev; ao_raised := true; ao_reads := rd;
                              ao_closes := closes |}
            else if send_ok fail_at n
                 then Some {| ao_events := start :: ev ++ [ABody [] false]; ao_raised := false;
                              ao_reads := rd; ao_closes := closes |}
                 else Some {| ao_events := start :: ev; ao_raised := true; ao_reads := rd;
                              ao_closes := closes |}
          else Some {| ao_events := []; ao_raised := true; ao_reads := 0; ao_closes := 0 |}
        end
      end
    end
  end.

(* ---- body rendering fails (falcon/app.py + asgi/app.py, the window repaired by
   fixes/C04-render-error-body.patch): _handle_exception resets text/data/media, the error
   handler fills the response in, and the response is rendered ONCE more; if that fails too
   it goes out bodiless.  The response stream is not looked at any more. *)
Definition render_fails (i : input) : bool := media_rendered i && i_media_fails i.

Definition recover (i : input) : input :=
  let rc := i_recovery i in
  {| i_head := i_head i; i_status := rc_status rc;
     i_text := rc_text rc; i_data := rc_data rc;
     i_media := if rc_media_fails rc then None else rc_media rc;
     i_stream := None; i_sse := i_sse i; i_clen := i_clen i;
     i_ctype := match rc_ctype rc with Some c => Some c | None => ctype_after_render i end;
     i_wrapper := i_wrapper i; i_cached := false; i_disconnect := i_disconnect i;
     i_media_fails := false; i_recovery := rc |}.

(* what the app finally renders from *)
Definition effective (i : input) : input := if render_fails i then recover i else i.

Definition wsgi_emit_r (by_code : bool) (i : input) : option wsgi_start := wsgi_emit by_code (effective i).
Definition asgi_emit_r (i : input) (fa : option (nat * fault)) : option asgi_out :=
  asgi_emit (effective i) (option_map fst fa).

(* the send fault carries its kind too; the emission does not depend on it *)
Definition asgi_emit_f (i : input) (fa : option (nat * fault)) : option asgi_out :=
  asgi_emit i (option_map fst fa).

(* ================================================================== building the response
   in several steps: assignments to text / data / media / content_type interleaved with early
   render_body() calls (a middleware or the responder peeking at the body).  Response.media's
   setter resets the render cache; data / text setters do not touch it; render_body() caches the
   serialized media in _media_rendered and uses the cache only when text and data are None. *)
Inductive step :=
| StText (v : option bytes)       (* resp.text = v   (already UTF-8 encoded) *)
| StData (v : option bytes)       (* resp.data = v *)
| StMedia (v : option bytes)      (* resp.media = obj, ORACLE: v = its serialization; None = None *)
| StCtype (v : option str)        (* resp.content_type = v *)
| StRender.                       (* resp.render_body() *)

Record rstate := {
  rs_text : option bytes;
  rs_data : option bytes;
  rs_media : option bytes;
  rs_rendered : option bytes;     (* _media_rendered; None = _UNSET *)
  rs_ctype : option str
}.

Definition rs_init : rstate :=
  {| rs_text := None; rs_data := None; rs_media := None; rs_rendered := None; rs_ctype := None |}.

(* Response.render_body on a response under construction *)
Definition render_state (s : rstate) : option bytes * rstate :=
  match rs_text s with
  | Some t => (Some t, s)
  | None =>
    match rs_data s with
    | Some d => (Some d, s)
    | None =>
      match rs_media s with
      | None => (None, s)
      | Some m =>
        match rs_rendered s with
        | Some r => (Some r, s)
        | None =>
          (Some m, {| rs_text := rs_text s; rs_data := rs_data s; rs_media := rs_media s;
                      rs_rendered := Some m;
                      rs_ctype := match rs_ctype s with
                                  | None | Some [] => Some default_media_type
                                  | c => c
                                  end |})
        end
      end
    end
  end.

Definition do_step (s : rstate) (st : step) : rstate :=
  match st with
  | StText v => {| rs_text := v; rs_data := rs_data s; rs_media := rs_media s;
                   rs_rendered := rs_rendered s; rs_ctype := rs_ctype s |}
  | StData v => {| rs_text := rs_text s; rs_data := v; rs_media := rs_media s;
                   rs_rendered := rs_rendered s; rs_ctype := rs_ctype s |}
  | StMedia v => {| rs_text := rs_text s; rs_data := rs_data s; rs_media := v;
                    rs_rendered := None; rs_ctype := rs_ctype s |}
  | StCtype v => {| rs_text := rs_text s; rs_data := rs_data s; rs_media := rs_media s;
                    rs_rendered := rs_rendered s; rs_ctype := v |}
  | StRender => snd (render_state s)
  end.

Definition run_steps (l : list step) : rstate := fold_left do_step l rs_init.

(* what the app finally renders: the cache, when present, stands for the media *)
Definition input_of_session (l : list step) (head : bool) (status : status_in)
           (stream : option stream) (clen : option str) (wrapper : bool) : input :=
  let s := run_steps l in
  {| i_head := head; i_status := status; i_text := rs_text s; i_data := rs_data s;
     i_media := match rs_media s with
                | Some m => Some (match rs_rendered s with Some r => r | None => m end)
                | None => None
                end;
     i_stream := stream; i_sse := None; i_clen := clen; i_ctype := rs_ctype s;
     i_wrapper := wrapper;
     i_cached := match rs_rendered s with Some _ => true | None => false end;
     i_disconnect := None; i_media_fails := false;
     i_recovery := {| rc_status := status; rc_text := None; rc_data := None; rc_media := None;
                      rc_media_fails := false; rc_ctype := None |} |}.
