(* C05 — the property as boolean predicates over what the SERVER observed (recorded by the
   harness's independent PEP 3333 / ASGI monitors), given what the application put into the
   response.  The status classes are those of the property statement, not the code's tables. *)
From Coq Require Import ZArith NArith List Bool.
From Falcon.lib Require Import PyStr.
From Falcon.C05 Require Import Model.
Import ListNotations.
Open Scope N_scope.

Definition spec_bodiless : list N := [100; 101; 204; 304].
Definition spec_typeless : list N := [204; 304].

Definition code_of (i : input) : Z := to_Z_opt (http_status_to_code (i_status i)).

Definition in_codes (c : Z) (l : list N) : bool := (0 <=? c)%Z && mem_N (Z.to_N c) l.

Definition is_bodiless (i : input) : bool := i_head i || in_codes (code_of i) spec_bodiless.
Definition is_typeless (i : input) : bool := in_codes (code_of i) spec_typeless.

Definition is_digit (d : N) : bool := (48 <=? d) && (d <=? 57).

(* "NNN reason" *)
Definition status_line_wf (l : str) : bool :=
  match l with
  | a :: b :: c :: sp :: _ :: _ => is_digit a && is_digit b && is_digit c && (sp =? 32)
  | _ => false
  end.

(* what the application may legitimately assign: codes 100..999, lines "NNN reason" *)
Definition status_wf (s : status_in) : bool :=
  match s with
  | SInt c => (100 <=? c)%Z && (c <=? 999)%Z
  | SEnum c phrase => (100 <=? c) && (c <=? 999) && negb (is_nil_b phrase)
  | SLine l => status_line_wf l
  | SCodeStr l => match parse_int l with
                  | Some c => (100 <=? c) && (c <=? 999) && Nat.eqb (length l) 3
                  | None => false
                  end
  end.

(* the bytes a scripted stream delivers when read to its end *)
Fixpoint stream_bytes (file : bool) (l : list (option bytes)) : bytes :=
  match l with
  | [] => []
  | c :: tl =>
    match c, file with
    | None, false => []
    | _, _ =>
      let b := match c with Some b => b | None => [] end in
      if file && match c with Some [] => true | _ => false end then []
      else b ++ stream_bytes file tl
    end
  end.

Definition isSomeSse (o : option (list bytes)) : bool :=
  match o with Some _ => true | None => false end.
Definition sse_events (i : input) : list bytes := match sse_effective i with Some l => l | None => [] end.
Definition is_file (s : stream) : bool := match k_kind s with KFile => true | KIter => false end.

(* the body the documented precedence selects: text > data > media > stream.  On ASGI an SSE
   emitter, when set, is the (streamed) body. *)
Definition chosen_body (asgi : bool) (i : input) : bytes :=
  if asgi && isSomeSse (sse_effective i) then concat (sse_events i)
  else match render_body i with
       | Some d => d
       | None => match i_stream i with
                 | Some s => stream_bytes (is_file s) (k_chunks s)
                 | None => []
                 end
       end.

(* "non-streamed": the body does not come from resp.stream / resp.sse *)
Definition non_streamed (asgi : bool) (i : input) : bool :=
  negb (asgi && isSomeSse (sse_effective i)) &&
  match render_body i with Some _ => true | None => negb (isSomeS (i_stream i)) end.

Fixpoint bytes_eqb (a b : bytes) : bool :=
  match a, b with
  | [], [] => true
  | x :: a', y :: b' => N.eqb x y && bytes_eqb a' b'
  | _, _ => false
  end.

Fixpoint is_prefix_b (a b : bytes) : bool :=
  match a, b with
  | [], _ => true
  | x :: a', y :: b' => N.eqb x y && is_prefix_b a' b'
  | _, _ => false
  end.

Definition ostr_eqb (a b : option str) : bool :=
  match a, b with
  | None, None => true
  | Some x, Some y => str_eqb x y
  | _, _ => false
  end.

Definition stream_has_close (i : input) : bool :=
  match i_stream i with Some s => k_has_close s | None => false end.

(* close(): never twice; exactly once if the stream was read at all (and has a close) *)
Definition close_ok (i : input) (reads closes : nat) : bool :=
  Nat.leb closes 1 &&
  (if Nat.ltb 0 reads then Nat.eqb closes (if stream_has_close i then 1 else 0) else true).

Definition rc0 : recovery :=
  {| rc_status := SInt 500; rc_text := None; rc_data := None; rc_media := None;
     rc_media_fails := false; rc_ctype := None |}.

(* ---- WSGI: what the monitor saw *)
Record wobs := {
  wo_status : str;
  wo_clen : option str;        (* Content-Length passed to start_response, if any *)
  wo_ctype : option str;       (* Content-Type passed to start_response, if any *)
  wo_chunks : list bytes;      (* byte strings yielded by the returned iterable *)
  wo_raised : bool;            (* iterating raised *)
  wo_reads : nat;              (* read()/next() calls that reached the application's stream *)
  wo_closes : nat              (* close() calls that reached it *)
}.

(* failing clauses:
   1 status line malformed                    2 body is not the one the precedence selects
   3 Content-Length != bytes sent             4 bodiless response carries body bytes / touches the stream
   5 204/304 with a framework Content-Type    6 other response without Content-Type
   7 close() not exactly once after streaming began *)
Definition oracle_wsgi (i : input) (o : wobs) : list nat :=
  let sent := concat (wo_chunks o) in
  (if status_line_wf (wo_status o) then [] else [1%nat])
  ++ (if is_bodiless i then []
      else if wo_raised o then (if is_prefix_b sent (chosen_body false i) then [] else [2%nat])
      else if bytes_eqb sent (chosen_body false i) then [] else [2%nat])
  ++ (if negb (is_bodiless i) && non_streamed false i
      then (if ostr_eqb (wo_clen o) (Some (dec (blen sent))) then [] else [3%nat]) else [])
  ++ (if is_bodiless i
      then (if is_nil_b sent && Nat.eqb (wo_reads o) 0 then [] else [4%nat]) else [])
  ++ (if is_typeless i && negb (isSomeC (i_ctype i))
      then (if isSomeC (wo_ctype o) then [5%nat] else []) else [])
  ++ (if negb (is_typeless i) then (if isSomeC (wo_ctype o) then [] else [6%nat]) else [])
  ++ (if close_ok i (wo_reads o) (wo_closes o) then [] else [7%nat]).

(* the observation the model predicts *)
Definition wobs_of (st : wsgi_start) : wobs :=
  let sv := serve (ws_body st) in
  {| wo_status := ws_status st; wo_clen := h_clen (ws_headers st); wo_ctype := h_ctype (ws_headers st);
     wo_chunks := sv_chunks sv; wo_raised := sv_raised sv; wo_reads := sv_reads sv;
     wo_closes := sv_closes sv |}.

(* ---- ASGI *)
Definition body_bytes (evs : list aevent) : bytes :=
  concat (map (fun e => match e with ABody b _ => b | AStart _ _ => [] end) evs).

(* after the start event: body events; [complete]: the last, and only the last, has
   more_body = False; otherwise (the app was interrupted) none has *)
Fixpoint bodies_ok (complete : bool) (evs : list aevent) : bool :=
  match evs with
  | [] => negb complete
  | ABody _ more :: tl =>
    match tl with
    | [] => Bool.eqb more (negb complete) || (negb complete && more)
    | _ => more && bodies_ok complete tl
    end
  | AStart _ _ :: _ => false
  end.

Definition events_ok (i : input) (o : asgi_out) : bool :=
  match ao_events o with
  | [] => ao_raised o                                  (* nothing was sent: only if interrupted *)
  | AStart st _ :: tl => Z.eqb st (code_of i) && bodies_ok (negb (ao_raised o)) tl
  | ABody _ _ :: _ => false
  end.

Definition start_headers (o : asgi_out) : option hdrs :=
  match ao_events o with AStart _ h :: _ => Some h | _ => None end.

(* failing clauses: 1 event sequence invalid; 2-7 as for WSGI *)
Definition oracle_asgi (i : input) (o : asgi_out) : list nat :=
  let sent := body_bytes (ao_events o) in
  (if events_ok i o then [] else [1%nat])
  ++ (if is_bodiless i then []
      else if ao_raised o then (if is_prefix_b sent (chosen_body true i) then [] else [2%nat])
      else if bytes_eqb sent (chosen_body true i) then [] else [2%nat])
  ++ match start_headers o with
     | None => []
     | Some h =>
       (if negb (is_bodiless i) && non_streamed true i && negb (ao_raised o)
        then (if ostr_eqb (h_clen h) (Some (dec (blen sent))) then [] else [3%nat]) else [])
       ++ (if is_typeless i && negb (isSomeC (i_ctype i))
           then (if isSomeC (h_ctype h) then [5%nat] else []) else [])
       ++ (if negb (is_typeless i) then (if isSomeC (h_ctype h) then [] else [6%nat]) else [])
     end
  ++ (if is_bodiless i
      then (if is_nil_b sent && Nat.eqb (ao_reads o) 0 then [] else [4%nat]) else [])
  ++ (if close_ok i (ao_reads o) (ao_closes o) then [] else [7%nat]).

(* ---- responses built in several steps: what the documented precedence refers to is the
   LATEST value assigned to each attribute, whatever was rendered in between *)
Definition latest_values (l : list step) : option bytes * option bytes * option bytes :=
  fold_left (fun acc st =>
               let '(t, d, m) := acc in
               match st with
               | StText v => (v, d, m)
               | StData v => (t, v, m)
               | StMedia v => (t, d, v)
               | _ => acc
               end) l (None, None, None).
