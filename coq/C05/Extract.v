From Coq Require Import ZArith NArith List Bool.
From Coq Require Import ExtrOcamlBasic.
From Falcon.lib Require Import Wire PyStr.
From Falcon.C05 Require Import Model Spec.
Import ListNotations.
Open Scope Z_scope.

Definition d_status (v : val) : status_in :=
  let t := dZ (nth_val 0 v) in
  if t =? 0 then SInt (dZ (nth_val 1 v))
  else if t =? 1 then SLine (dstr (nth_val 1 v))
  else if t =? 2 then SCodeStr (dstr (nth_val 1 v))
  else SEnum (dN (nth_val 1 v)) (dstr (nth_val 2 v)).

Definition d_stream (v : val) : stream :=
  {| k_kind := if dZ (nth_val 0 v) =? 0 then KFile else KIter;
     k_chunks := dlist (dopt dstr) (nth_val 1 v);
     k_raises := (let z := dZ (nth_val 2 v) in
                  if z =? 0 then None else if z =? 1 then Some FException
                  else if z =? 2 then Some FBaseException else Some FCancel);
     k_has_close := dbool (nth_val 3 v) |}.

(* send fault: [] | [[index; kind]] *)
Definition d_fault (z : Z) : fault :=
  if z =? 1 then FException else if z =? 2 then FBaseException else FCancel.
Definition d_sendfault (v : val) : option (nat * fault) :=
  dopt (fun p => (dnat (nth_val 0 p), d_fault (dZ (nth_val 1 p)))) v.

Definition d_input (v : val) : input :=
  {| i_head := dbool (nth_val 0 v); i_status := d_status (nth_val 1 v);
     i_text := dopt dstr (nth_val 2 v); i_data := dopt dstr (nth_val 3 v);
     i_media := dopt dstr (nth_val 4 v); i_stream := dopt d_stream (nth_val 5 v);
     i_sse := dopt (dlist dstr) (nth_val 6 v);
     i_clen := dopt dstr (nth_val 7 v); i_ctype := dopt dstr (nth_val 8 v);
     i_wrapper := dbool (nth_val 9 v); i_cached := false;
     i_disconnect := dopt dnat (nth_val 10 v);
     i_media_fails := dbool (nth_val 11 v);
     i_recovery :=
       let r := nth_val 12 v in
       {| rc_status := d_status (nth_val 0 r); rc_text := dopt dstr (nth_val 1 r);
          rc_data := dopt dstr (nth_val 2 r); rc_media := dopt dstr (nth_val 3 r);
          rc_media_fails := dbool (nth_val 4 r); rc_ctype := dopt dstr (nth_val 5 r) |} |}.

Definition d_step (v : val) : step :=
  let t := dZ (nth_val 0 v) in
  if t =? 0 then StText (dopt dstr (nth_val 1 v))
  else if t =? 1 then StData (dopt dstr (nth_val 1 v))
  else if t =? 2 then StMedia (dopt dstr (nth_val 1 v))
  else if t =? 3 then StCtype (dopt dstr (nth_val 1 v))
  else StRender.

(* a session input: [steps; head; status; stream?; clen?; wrapper] *)
Definition d_session (v : val) : input :=
  input_of_session (dlist d_step (nth_val 0 v)) (dbool (nth_val 1 v)) (d_status (nth_val 2 v))
                   (dopt d_stream (nth_val 3 v)) (dopt dstr (nth_val 4 v)) (dbool (nth_val 5 v)).

Definition v_wobs (o : wobs) : list val :=
  [vstr (wo_status o); vopt vstr (wo_clen o); vopt vstr (wo_ctype o);
   vlist vstr (wo_chunks o); vbool (wo_raised o); vnat (wo_reads o); vnat (wo_closes o)].

Definition d_wobs (st cl ct ch ra rd cs : val) : wobs :=
  {| wo_status := dstr st; wo_clen := dopt dstr cl; wo_ctype := dopt dstr ct;
     wo_chunks := dlist dstr ch; wo_raised := dbool ra; wo_reads := dnat rd; wo_closes := dnat cs |}.

Definition v_aevent (e : aevent) : val :=
  match e with
  | AStart s h => L [I 0; I s; vopt vstr (h_clen h); vopt vstr (h_ctype h)]
  | ABody b m => L [I 1; vstr b; vbool m]
  end.

Definition d_aevent (v : val) : aevent :=
  if dZ (nth_val 0 v) =? 0
  then AStart (dZ (nth_val 1 v)) {| h_clen := dopt dstr (nth_val 2 v); h_ctype := dopt dstr (nth_val 3 v) |}
  else ABody (dstr (nth_val 1 v)) (dbool (nth_val 2 v)).

(* ops: 0 wsgi model [0; by_code; i]        1 asgi model [1; i; fail_at?]
        2 oracle_wsgi on an observation     3 oracle_asgi on an observation *)
Definition run (v : val) : val :=
  match v with
  | L [I 0; by_code; i] =>
    let i' := effective (d_input i) in
    match wsgi_emit (dbool by_code) i' with
    | None => L [I 0]
    | Some st => let o := wobs_of st in
                 L (I 1 :: v_wobs o ++ [vlist vnat (oracle_wsgi i' o)])
    end
  | L [I 1; i; fa] =>
    let i' := effective (d_input i) in
    match asgi_emit_f i' (d_sendfault fa) with
    | None => L [I 0]
    | Some o => L [I 1; vlist v_aevent (ao_events o); vbool (ao_raised o); vnat (ao_reads o);
                   vnat (ao_closes o); vlist vnat (oracle_asgi i' o)]
    end
  | L [I 2; i; st; cl; ct; ch; ra; rd; cs] =>
    L [I 1; vlist vnat (oracle_wsgi (effective (d_input i)) (d_wobs st cl ct ch ra rd cs))]
  | L [I 3; i; evs; ra; rd; cs] =>
    L [I 1; vlist vnat (oracle_asgi (effective (d_input i))
                          {| ao_events := dlist d_aevent evs; ao_raised := dbool ra;
                             ao_reads := dnat rd; ao_closes := dnat cs |})]
  (* the same four ops for responses built in several steps (op + 10) *)
  | L [I 10; by_code; ss] =>
    let i' := d_session ss in
    match wsgi_emit (dbool by_code) i' with
    | None => L [I 0]
    | Some st => let o := wobs_of st in
                 L (I 1 :: v_wobs o ++ [vlist vnat (oracle_wsgi i' o)])
    end
  | L [I 11; ss; fa] =>
    let i' := d_session ss in
    match asgi_emit_f i' (d_sendfault fa) with
    | None => L [I 0]
    | Some o => L [I 1; vlist v_aevent (ao_events o); vbool (ao_raised o); vnat (ao_reads o);
                   vnat (ao_closes o); vlist vnat (oracle_asgi i' o)]
    end
  | L [I 12; ss; st; cl; ct; ch; ra; rd; cs] =>
    L [I 1; vlist vnat (oracle_wsgi (d_session ss) (d_wobs st cl ct ch ra rd cs))]
  | L [I 13; ss; evs; ra; rd; cs] =>
    L [I 1; vlist vnat (oracle_asgi (d_session ss)
                          {| ao_events := dlist d_aevent evs; ao_raised := dbool ra;
                             ao_reads := dnat rd; ao_closes := dnat cs |})]
  | _ => L [I (-1)]
  end.

Extraction "C05/model.ml" run.
