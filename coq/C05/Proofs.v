From Coq Require Import ZArith NArith List Bool Lia ZifyBool ZifyN.
From Falcon.lib Require Import PyStr.
From Falcon.gen Require Import ConstsC05.
From Falcon.C05 Require Import Model Spec.
Import ListNotations.
Open Scope N_scope.
Ltac Zify.zify_post_hook ::= Z.div_mod_to_equations.

(* ------------------------------------------------------------------ the regenerated tables *)

(* the code's status classes are the ones the property names (re-checked whenever
   coq/gen/ConstsC05.v is regenerated from the modules) *)
Lemma wsgi_bodiless_spec : wsgi_bodiless = spec_bodiless. Proof. reflexivity. Qed.
Lemma wsgi_typeless_spec : wsgi_typeless = spec_typeless. Proof. reflexivity. Qed.
Lemma asgi_bodiless_spec : asgi_bodiless = spec_bodiless. Proof. reflexivity. Qed.
Lemma asgi_typeless_spec : asgi_typeless = spec_typeless. Proof. reflexivity. Qed.

(* the WSGI app decides by status code (fixes/C05-wsgi-bodiless-by-status-code.patch) *)
Lemma wsgi_by_code : wsgi_sets_by_code = true. Proof. reflexivity. Qed.

(* the PERF comment in both apps: _TYPELESS_STATUS_CODES <= _BODILESS_STATUS_CODES *)
Theorem typeless_subset_bodiless :
  forallb (fun c => mem_N c wsgi_bodiless) wsgi_typeless = true /\
  forallb (fun c => mem_N c asgi_bodiless) asgi_typeless = true.
Proof. split; reflexivity. Qed.

Lemma typeless_bodiless_codes z : in_codes z spec_typeless = true -> in_codes z spec_bodiless = true.
Proof.
  unfold in_codes, spec_typeless, spec_bodiless, mem_N. simpl.
  destruct (0 <=? z)%Z; simpl; [|discriminate].
  destruct (Z.to_N z =? 204); destruct (Z.to_N z =? 304); simpl; try discriminate;
    rewrite ?orb_true_r; reflexivity.
Qed.

(* every defined status line is "NNN reason" for its own code *)
Definition table_ok : bool :=
  forallb (fun p => status_line_wf (snd p) && bytes_eqb (firstn 3 (snd p)) (digits3 (fst p))
                    && (100 <=? fst p) && (fst p <=? 999)) status_lines.

Lemma table_ok_true : table_ok = true. Proof. vm_compute. reflexivity. Qed.

Lemma assoc_line_in : forall t c l, assoc_line t c = Some l -> In (c, l) t.
Proof.
  induction t as [|[c' l'] tl IH]; intros c l H; simpl in H; [discriminate|].
  destruct (N.eqb c c') eqn:E.
  - apply N.eqb_eq in E. injection H as <-. subst. left. reflexivity.
  - right. apply IH. exact H.
Qed.

Lemma bytes_eqb_eq : forall a b, bytes_eqb a b = true -> a = b.
Proof.
  induction a as [|x a IH]; intros [|y b] H; simpl in H; try discriminate; [reflexivity|].
  apply andb_true_iff in H as [H1 H2]. apply N.eqb_eq in H1. apply IH in H2. congruence.
Qed.

Lemma bytes_eqb_refl : forall a, bytes_eqb a a = true.
Proof. induction a; simpl; [reflexivity|]. rewrite N.eqb_refl. exact IHa. Qed.

Lemma digit_is_digit n : n <= 9 -> is_digit (digit n) = true.
Proof. intro H. unfold is_digit, digit. lia. Qed.

Lemma digits3_wf c tail : 100 <= c -> c <= 999 ->
  status_line_wf (digits3 c ++ 32 :: tail) = negb (is_nil_b tail).
Proof.
  intros H1 H2. unfold digits3. cbn [app]. unfold status_line_wf.
  destruct tail as [|t0 tail]; [reflexivity|]. cbn [is_nil_b negb].
  rewrite !digit_is_digit by lia. reflexivity.
Qed.

Lemma default_reason_nonempty : is_nil_b default_reason = false. Proof. reflexivity. Qed.

Lemma line_of_code_wf c : 100 <= c -> c <= 999 ->
  status_line_wf (line_of_code c) = true /\ firstn 3 (line_of_code c) = digits3 c.
Proof.
  intros H1 H2. unfold line_of_code. destruct (assoc_line status_lines c) as [l|] eqn:E.
  - apply assoc_line_in in E. pose proof table_ok_true as T. unfold table_ok in T.
    rewrite forallb_forall in T. specialize (T _ E). simpl in T.
    apply andb_true_iff in T as [T _]. apply andb_true_iff in T as [T _].
    apply andb_true_iff in T as [T1 T2]. split; [exact T1|]. apply bytes_eqb_eq. exact T2.
  - split; [|reflexivity]. change (digits3 c ++ [32] ++ default_reason) with (digits3 c ++ 32 :: default_reason).
    rewrite digits3_wf by assumption. reflexivity.
Qed.

Lemma parse_digits3 c : 100 <= c -> c <= 999 -> parse_int (digits3 c) = Some c.
Proof.
  intros H1 H2. unfold parse_int, digits3. cbn [parse_digits].
  assert (D : forall n, n <= 9 -> ((48 <=? digit n) && (digit n <=? 57)) = true /\ digit n - 48 = n).
  { intros n Hn. unfold digit. split; lia. }
  destruct (D (c / 100) ltac:(lia)) as [-> ->].
  destruct (D ((c / 10) mod 10) ltac:(lia)) as [-> ->].
  destruct (D (c mod 10) ltac:(lia)) as [-> ->].
  f_equal. lia.
Qed.

(* ------------------------------------------------------------------ status normalisation *)

Lemma firstn3_wf l : status_line_wf l = true ->
  exists a b c tl, l = a :: b :: c :: tl /\ is_digit a = true /\ is_digit b = true /\ is_digit c = true.
Proof.
  unfold status_line_wf. destruct l as [|a [|b [|c [|sp [|x tl]]]]]; try discriminate.
  intro H. apply andb_true_iff in H as [H _].
  apply andb_true_iff in H as [H H3]. apply andb_true_iff in H as [H1 H2]. eauto 10.
Qed.

Lemma parse_three a b c : is_digit a = true -> is_digit b = true -> is_digit c = true ->
  exists n, parse_int [a; b; c] = Some n.
Proof.
  unfold parse_int, is_digit. simpl. intros -> -> ->. simpl. eauto.
Qed.

(* for every legitimate status value both normalisations are defined, the WSGI status line
   is "NNN reason", and the line and the ASGI integer code denote the same code *)
Theorem status_defined s : status_wf s = true ->
  exists l c, code_to_http_status s = Some l /\ http_status_to_code s = Some c /\
              status_line_wf l = true /\ (0 <= c)%Z /\ parse_int (firstn 3 l) = Some (Z.to_N c).
Proof.
  destruct s as [c|l|l|c phrase]; cbn [status_wf code_to_http_status http_status_to_code]; intro H.
  - rewrite H. assert (Hr : (100 <= c /\ c <= 999)%Z) by lia.
    destruct (line_of_code_wf (Z.to_N c)) as [W F]; try lia.
    exists (line_of_code (Z.to_N c)), c. repeat split; auto; try lia.
    rewrite F. apply parse_digits3; lia.
  - destruct (firstn3_wf l H) as (a & b & c & tl & -> & Da & Db & Dc).
    destruct (parse_three a b c Da Db Dc) as [n Hn].
    exists (a :: b :: c :: tl), (Z.of_N n).
    change (firstn 3 (a :: b :: c :: tl)) with [a; b; c]. rewrite Hn.
    assert (Hlen : Nat.ltb (length (a :: b :: c :: tl)) 3 = false) by reflexivity.
    rewrite Hlen, N2Z.id. repeat split; auto; lia.
  - destruct (parse_int l) as [c|] eqn:P; [|discriminate].
    assert (Hr : 100 <= c /\ c <= 999 /\ length l = 3%nat).
    { apply andb_true_iff in H as [H H3]. apply andb_true_iff in H as [H1 H2].
      apply Nat.eqb_eq in H3. lia. }
    destruct Hr as (H1 & H2 & H3).
    replace ((100 <=? c) && (c <=? 999)) with true by lia.
    destruct (line_of_code_wf c H1 H2) as [W F].
    exists (line_of_code c), (Z.of_N c).
    assert (Hf : firstn 3 l = l).
    { destruct l as [|a [|b [|d [|e tl]]]]; try discriminate; reflexivity. }
    rewrite H3, Hf, P, F, N2Z.id. change (3 <? 3)%nat with false. cbv iota.
    repeat split; auto; try lia. apply parse_digits3; assumption.
  - assert (Hr : 100 <= c /\ c <= 999 /\ is_nil_b phrase = false).
    { apply andb_true_iff in H as [H H3]. apply andb_true_iff in H as [H1 H2].
      destruct (is_nil_b phrase); [discriminate|]. lia. }
    destruct Hr as (H1 & H2 & H3).
    exists (digits3 c ++ [32] ++ phrase), (Z.of_N c). repeat split; try lia.
    + change (digits3 c ++ [32] ++ phrase) with (digits3 c ++ 32 :: phrase).
      rewrite digits3_wf by assumption. rewrite H3. reflexivity.
    + rewrite N2Z.id. change (firstn 3 (digits3 c ++ [32] ++ phrase)) with (digits3 c).
      apply parse_digits3; assumption.
Qed.

(* ------------------------------------------------------------------ WSGI framing *)

Definition no_none (l : list (option bytes)) : bool :=
  forallb (fun c => match c with Some _ => true | None => false end) l.

(* a WSGI iterable yields byte strings only *)
Definition wsgi_stream_ok (i : input) : bool :=
  match i_stream i with Some s => no_none (k_chunks s) | None => true end.

(* the one excluded shape (known finding C05-typeless-media-content-type) *)
Definition typeless_media (i : input) : bool :=
  is_typeless i && media_rendered i && negb (isSomeC (i_ctype i)).

Lemma drain_bytes file : forall l raises, no_none l = true ->
  concat (fst (fst (drain file l raises))) = stream_bytes file l /\
  (0 < snd (drain file l raises))%nat.
Proof.
  induction l as [|c tl IH]; intros raises H; simpl.
  - split; [reflexivity|lia].
  - simpl in H. destruct c as [b|]; [|discriminate]. simpl in H.
    destruct file; simpl.
    + destruct b as [|x b]; simpl; [split; [reflexivity|lia]|].
      destruct (IH raises H) as [E P]. destruct (drain true tl raises) as [[cs r] n]. simpl in *.
      rewrite E. split; [reflexivity|lia].
    + destruct (IH raises H) as [E P]. destruct (drain false tl raises) as [[cs r] n]. simpl in *.
      rewrite E. split; [reflexivity|lia].
Qed.

Lemma is_prefix_b_refl : forall a, is_prefix_b a a = true.
Proof. induction a; simpl; [reflexivity|]. rewrite N.eqb_refl. exact IHa. Qed.

Lemma ostr_eqb_refl o : ostr_eqb o o = true.
Proof. destruct o; simpl; [apply str_eqb_refl|reflexivity]. Qed.

Lemma finish_headers_clen h mt : h_clen (finish_headers h mt) = h_clen h.
Proof. unfold finish_headers. destruct mt, (h_ctype h); reflexivity. Qed.

Lemma finish_headers_ctype_some h m : isSomeC (h_ctype (finish_headers h (Some m))) = true.
Proof. unfold finish_headers. destruct (h_ctype h) eqn:E; simpl; [rewrite E|]; reflexivity. Qed.

Lemma finish_headers_ctype_none h : h_ctype (finish_headers h None) = h_ctype h.
Proof. unfold finish_headers. destruct (h_ctype h); reflexivity. Qed.

Lemma set_clen_ctype h v : h_ctype (set_clen h v) = h_ctype h. Proof. reflexivity. Qed.

Lemma served_stream s (Hs : no_none (k_chunks s) = true) b :
  b = WIter s /\ k_kind s = KIter \/ (b = WCloseable s \/ b = WWrapped s) /\ k_kind s = KFile ->
  concat (sv_chunks (serve b)) = stream_bytes (is_file s) (k_chunks s) /\
  (0 < sv_reads (serve b))%nat /\ sv_closes (serve b) = (if k_has_close s then 1 else 0)%nat.
Proof.
  intros [[-> K] | [[-> | ->] K]]; unfold serve, is_file; rewrite K.
  - destruct (drain_bytes false (k_chunks s) (raises_b s) Hs) as [E P].
    destruct (drain false (k_chunks s) (raises_b s)) as [[cs r] n]. simpl in *. auto.
  - destruct (drain_bytes true (k_chunks s) (raises_b s) Hs) as [E P].
    destruct (drain true (k_chunks s) (raises_b s)) as [[cs r] n]. simpl in *. auto.
  - destruct (drain_bytes true (k_chunks s) (raises_b s) Hs) as [E P].
    destruct (drain true (k_chunks s) (raises_b s)) as [[cs r] n]. simpl in *. auto.
Qed.

Local Opaque finish_headers.

Theorem wsgi_framing i st :
  status_wf (i_status i) = true -> wsgi_stream_ok i = true -> typeless_media i = false ->
  wsgi_emit true i = Some st -> oracle_wsgi i (wobs_of st) = [].
Proof.
  intros Hwf Hso Htm He.
  destruct (status_defined _ Hwf) as (line & code & Hl & Hc & Wl & Hpos & _).
  unfold wsgi_emit in He. rewrite Hl, Hc in He.
  assert (Hcode : code_of i = code) by (unfold code_of; rewrite Hc; reflexivity).
  change (wsgi_in_set true line code wsgi_bodiless) with (in_codes code spec_bodiless) in He.
  change (wsgi_in_set true line code wsgi_typeless) with (in_codes code spec_typeless) in He.
  unfold oracle_wsgi, is_bodiless, is_typeless. rewrite Hcode.
  unfold typeless_media, is_typeless in Htm. rewrite Hcode in Htm.
  pose proof (typeless_bodiless_codes code) as Hsub.
  destruct (get_body i) as [body length] eqn:Hg.
  destruct (i_head i || in_codes code spec_bodiless) eqn:Hb.
  - (* HEAD or bodiless status: an empty list is returned, the stream is never touched *)
    assert (Hst : ws_status st = line /\ ws_body st = WList [] /\
                  (in_codes code spec_typeless = true -> h_ctype (ws_headers st) = ctype_after_render i) /\
                  (in_codes code spec_typeless = false -> isSomeC (h_ctype (ws_headers st)) = true)).
    { destruct (in_codes code spec_typeless) eqn:Ht.
      - injection He as <-. simpl. split; [reflexivity|]. split; [reflexivity|].
        split; [intros _; apply finish_headers_ctype_none | discriminate].
      - destruct length as [n|]; [destruct (h_clen (headers0 i)) |];
          try destruct (i_head i && negb (in_codes code spec_bodiless));
          injection He as <-; cbn [ws_status ws_body ws_headers];
          (split; [reflexivity|]); (split; [reflexivity|]);
          (split; [discriminate | intros _; apply finish_headers_ctype_some]). }
    destruct Hst as (S1 & S2 & S3 & S4).
    unfold wobs_of. cbn [wo_status wo_clen wo_ctype wo_chunks wo_raised wo_reads wo_closes].
    rewrite S1, S2, Wl. cbn [serve sv_chunks sv_raised sv_reads sv_closes concat is_nil_b negb andb app Nat.eqb].
    unfold close_ok. cbn [Nat.leb Nat.ltb andb].
    destruct (in_codes code spec_typeless) eqn:Ht; cbn [negb andb app].
    + rewrite (S3 eq_refl). unfold ctype_after_render.
      destruct (isSomeC (i_ctype i)) eqn:Hct; simpl; [reflexivity|].
      destruct (media_rendered i); [discriminate|]. rewrite Hct. reflexivity.
    + rewrite (S4 eq_refl). reflexivity.
  - (* a body-bearing response *)
    apply orb_false_iff in Hb as [Hh Hbc].
    assert (Ht : in_codes code spec_typeless = false).
    { destruct (in_codes code spec_typeless) eqn:E; [|reflexivity]. rewrite Hsub in Hbc; [discriminate|reflexivity]. }
    rewrite Ht. injection He as <-. unfold wobs_of. cbn [ws_status ws_headers ws_body wo_status
      wo_clen wo_ctype wo_chunks wo_raised wo_reads wo_closes]. rewrite Wl.
    rewrite finish_headers_clen, finish_headers_ctype_some. cbn [negb andb app].
    unfold get_body in Hg. unfold chosen_body, non_streamed. cbn [andb negb].
    destruct (render_body i) as [d|] eqn:Hr.
    + injection Hg as <- <-. cbn [serve sv_chunks sv_raised sv_reads sv_closes concat].
      rewrite app_nil_r, bytes_eqb_refl. cbn [set_clen h_clen]. rewrite ostr_eqb_refl. reflexivity.
    + destruct (i_stream i) as [s|] eqn:Hs.
      * injection Hg as <- <-. unfold wsgi_stream_ok in Hso. rewrite Hs in Hso.
        cbn [isSomeS negb].
        match goal with |- context [serve ?b] =>
          destruct (served_stream s Hso b) as (E & P & C) end.
        { destruct (k_kind s); [right|left]; auto. destruct (i_wrapper i); auto. }
        rewrite E, bytes_eqb_refl, is_prefix_b_refl.
        unfold close_ok, stream_has_close. rewrite Hs, C.
        match goal with |- context [sv_raised ?x] => destruct (sv_raised x) end;
          match goal with |- context [Nat.ltb 0 ?n] => replace (Nat.ltb 0 n) with true by (symmetry; apply Nat.ltb_lt; exact P) end;
          destruct (k_has_close s); reflexivity.
      * injection Hg as <- <-. cbn [serve sv_chunks sv_raised sv_reads sv_closes concat isSomeS negb].
        cbn [bytes_eqb set_clen h_clen blen length N.of_nat]. reflexivity.
Qed.

Local Transparent finish_headers.

(* the code as found judged 204/304/100/101 by the status LINE: a custom reason phrase made a
   204 body-bearing *)
Theorem wsgi_framing_refuted_before_fix :
  exists i st, status_wf (i_status i) = true /\ wsgi_stream_ok i = true /\
               typeless_media i = false /\ wsgi_emit false i = Some st /\
               oracle_wsgi i (wobs_of st) <> [].
Proof.
  exists {| i_head := false; i_status := SLine [50; 48; 52; 32; 78; 111]; i_text := Some [97];
            i_data := None; i_media := None; i_stream := None; i_sse := None; i_clen := None;
            i_ctype := None; i_wrapper := false; i_cached := false; i_disconnect := None; i_media_fails := false; i_recovery := rc0 |}.
  eexists. repeat split; try (vm_compute; reflexivity). vm_compute. discriminate.
Qed.

(* the typeless clause at full strength is false of the faithful model *)
Theorem typeless_no_ctype_refuted :
  exists i st, status_wf (i_status i) = true /\ wsgi_emit true i = Some st /\
               is_typeless i = true /\ i_ctype i = None /\ h_ctype (ws_headers st) <> None.
Proof.
  exists {| i_head := false; i_status := SInt 204; i_text := None; i_data := None;
            i_media := Some [123; 125]; i_stream := None; i_sse := None; i_clen := None;
            i_ctype := None; i_wrapper := false; i_cached := false; i_disconnect := None; i_media_fails := false; i_recovery := rc0 |}.
  eexists. repeat split; try (vm_compute; reflexivity). vm_compute. discriminate.
Qed.

(* ------------------------------------------------------------------ ASGI framing *)

Definition all_more (evs : list aevent) : bool :=
  forallb (fun e => match e with ABody _ true => true | _ => false end) evs.

Lemma bodies_ok_all_more : forall l, all_more l = true -> bodies_ok false l = true.
Proof.
  induction l as [|e tl IH]; intro H; [reflexivity|].
  simpl in H. apply andb_true_iff in H as [He Ht]. destruct e as [|b m]; [discriminate|].
  destruct m; [|discriminate]. simpl. destruct tl; [reflexivity|]. simpl. apply IH. exact Ht.
Qed.

Lemma bodies_ok_complete : forall l b, all_more l = true -> bodies_ok true (l ++ [ABody b false]) = true.
Proof.
  induction l as [|e tl IH]; intros b H; [reflexivity|].
  simpl in H. apply andb_true_iff in H as [He Ht]. destruct e as [|b0 m]; [discriminate|].
  destruct m; [|discriminate]. cbn [app bodies_ok].
  destruct (tl ++ [ABody b false]) eqn:E; [destruct tl; discriminate|].
  rewrite <- E. simpl. apply IH. exact Ht.
Qed.

Lemma body_bytes_app a b : body_bytes (a ++ b) = body_bytes a ++ body_bytes b.
Proof. unfold body_bytes. rewrite map_app, concat_app. reflexivity. Qed.

Lemma is_prefix_b_app : forall a b, is_prefix_b a (a ++ b) = true.
Proof. induction a; intro b; simpl; [reflexivity|]. rewrite N.eqb_refl. apply IHa. Qed.

Lemma is_prefix_b_nil a : is_prefix_b [] a = true. Proof. reflexivity. Qed.

(* straight-line sends: what got through is a prefix; everything iff nothing failed *)
Lemma send_all_spec : forall evs fa n acc r,
  send_all evs fa n = (acc, r) ->
  exists rest, evs = acc ++ rest /\ (r = false -> rest = []) /\ (r = true -> rest <> []).
Proof.
  induction evs as [|e tl IH]; intros fa n acc r H; simpl in H.
  - injection H as <- <-. exists []. repeat split; auto. discriminate.
  - destruct (send_ok fa n).
    + destruct (send_all tl fa (S n)) as [acc' r'] eqn:E. injection H as <- <-.
      destruct (IH _ _ _ _ E) as (rest & -> & R1 & R2). exists rest. auto.
    + injection H as <- <-. exists (e :: tl). repeat split; auto; discriminate.
Qed.

(* the streaming loop: only more_body=True events; the bytes sent are a prefix of the
   stream's bytes, all of them if the loop ended normally; at least one read *)
Lemma stream_loop_spec file : forall l raises fa n ev r rd n',
  stream_loop file l raises fa n = (ev, r, rd, n') ->
  all_more ev = true /\ (0 < rd)%nat /\
  exists rest, stream_bytes file l = body_bytes ev ++ rest /\ (r = false -> rest = []).
Proof.
  assert (Step : forall (b : bytes) tl raises fa n ev r rd n' sb,
    (forall raises fa n ev r rd n', stream_loop file tl raises fa n = (ev, r, rd, n') ->
       all_more ev = true /\ (0 < rd)%nat /\
       exists rest, stream_bytes file tl = body_bytes ev ++ rest /\ (r = false -> rest = [])) ->
    sb = b ++ stream_bytes file tl ->
    (if send_ok fa n
     then let '(ev0, r0, rd0, n0) := stream_loop file tl raises fa (S n) in
          (ABody b true :: ev0, r0, S rd0, n0)
     else ([], true, 1%nat, n)) = (ev, r, rd, n') ->
    all_more ev = true /\ (0 < rd)%nat /\
    exists rest, sb = body_bytes ev ++ rest /\ (r = false -> rest = [])).
  { intros b tl raises fa n ev r rd n' sb IH -> H. destruct (send_ok fa n).
    - destruct (stream_loop file tl raises fa (S n)) as [[[ev0 r0] rd0] n0] eqn:E.
      injection H as <- <- <- <-. destruct (IH _ _ _ _ _ _ _ E) as (A & P & rest & Hb & Hr).
      split; [exact A|]. split; [lia|]. exists rest. split; [|exact Hr].
      unfold body_bytes in *. simpl. rewrite Hb, app_assoc. reflexivity.
    - injection H as <- <- <- <-. split; [reflexivity|]. split; [lia|].
      exists (b ++ stream_bytes file tl). split; [reflexivity|discriminate]. }
  induction l as [|c tl IH]; intros raises fa n ev r rd n' H.
  - simpl in H. injection H as <- <- <- <-. split; [reflexivity|]. split; [lia|].
    exists []. split; [reflexivity|auto].
  - destruct c as [b|]; destruct file.
    + destruct b as [|x b'].
      * simpl in H. injection H as <- <- <- <-. split; [reflexivity|]. split; [lia|].
        exists []. split; [reflexivity|auto].
      * apply (Step (x :: b') tl raises fa n ev r rd n'); [exact IH|reflexivity|exact H].
    + apply (Step b tl raises fa n ev r rd n'); [exact IH| |exact H].
      simpl. reflexivity.
    + apply (Step [] tl raises fa n ev r rd n'); [exact IH|reflexivity|exact H].
    + simpl in H. injection H as <- <- <- <-. split; [reflexivity|]. split; [lia|].
      exists []. split; [reflexivity|auto].
Qed.

Lemma is_prefix_b_of_app a rest : is_prefix_b a (a ++ rest) = true.
Proof. apply is_prefix_b_app. Qed.

(* the oracle follows from a handful of facts about the observation *)
Lemma oracle_asgi_from_facts i o h :
  events_ok i o = true ->
  (start_headers o = Some h \/ start_headers o = None) ->
  (is_bodiless i = false ->
     exists rest, chosen_body true i = body_bytes (ao_events o) ++ rest /\
                  (ao_raised o = false -> rest = [])) ->
  (is_bodiless i = true -> body_bytes (ao_events o) = [] /\ ao_reads o = 0%nat) ->
  (is_bodiless i = false -> non_streamed true i = true -> ao_raised o = false ->
     h_clen h = Some (dec (blen (body_bytes (ao_events o))))) ->
  (is_typeless i = true -> isSomeC (i_ctype i) = false -> h_ctype h = None) ->
  (is_typeless i = false -> isSomeC (h_ctype h) = true) ->
  close_ok i (ao_reads o) (ao_closes o) = true ->
  oracle_asgi i o = [].
Proof.
  intros Hev Hh Hprec Hbl Hlen Ht5 Ht6 Hcl. unfold oracle_asgi. rewrite Hev, Hcl.
  destruct (is_bodiless i) eqn:Eb.
  - destruct (Hbl eq_refl) as [S R]. rewrite S, R. cbn [negb andb app is_nil_b Nat.eqb].
    destruct Hh as [-> | ->]; [|reflexivity].
    destruct (is_typeless i) eqn:Et; cbn [negb andb app].
    + destruct (isSomeC (i_ctype i)) eqn:Ec; cbn [negb]; [reflexivity|].
      rewrite (Ht5 eq_refl eq_refl). reflexivity.
    + rewrite (Ht6 eq_refl). reflexivity.
  - destruct (Hprec eq_refl) as (rest & Hc & Hr). rewrite Hc. cbn [negb andb app].
    assert (Ht : is_typeless i = false).
    { unfold is_bodiless in Eb. apply orb_false_iff in Eb as [_ Eb]. unfold is_typeless.
      destruct (in_codes (code_of i) spec_typeless) eqn:E; [|reflexivity].
      rewrite (typeless_bodiless_codes _ E) in Eb. discriminate. }
    rewrite Ht. cbn [negb andb app].
    assert (Hp : (if ao_raised o
                  then if is_prefix_b (body_bytes (ao_events o)) (body_bytes (ao_events o) ++ rest) then [] else [2%nat]
                  else if bytes_eqb (body_bytes (ao_events o)) (body_bytes (ao_events o) ++ rest) then [] else [2%nat]) = []).
    { destruct (ao_raised o); [rewrite is_prefix_b_of_app; reflexivity|].
      rewrite (Hr eq_refl), app_nil_r, bytes_eqb_refl. reflexivity. }
    rewrite Hp. cbn [app].
    destruct Hh as [-> | ->]; [|reflexivity].
    rewrite (Ht6 Ht).
    destruct (non_streamed true i) eqn:En; cbn [andb]; [|reflexivity].
    destruct (ao_raised o) eqn:Er; cbn [negb]; [reflexivity|].
    rewrite (Hlen eq_refl eq_refl eq_refl). rewrite ostr_eqb_refl. reflexivity.
Qed.

Lemma snoc_prefix {A} : forall (l a rest : list A) x,
  l ++ [x] = a ++ rest -> rest <> [] -> exists rest', l = a ++ rest'.
Proof.
  induction l as [|y l IH]; intros a rest x H Hne.
  - destruct a as [|z a]; [exists []; reflexivity|].
    simpl in H. injection H as _ H. destruct a; [destruct rest; [congruence|discriminate]|discriminate].
  - destruct a as [|z a]; [exists (y :: l); reflexivity|].
    simpl in H. injection H as -> H. destruct (IH _ _ _ H Hne) as [r' ->]. exists r'. reflexivity.
Qed.

Lemma body_bytes_cons_start c h l : body_bytes (AStart c h :: l) = body_bytes l.
Proof. reflexivity. Qed.

Lemma body_bytes_last b : body_bytes [ABody b false] = b.
Proof. unfold body_bytes. simpl. apply app_nil_r. Qed.

Lemma all_more_app a b : all_more (a ++ b) = all_more a && all_more b.
Proof. unfold all_more. apply forallb_app. Qed.

(* a straight-line emission  start; bodies(more); last(no more)  under any send fault *)
Lemma plain_out i code h l b fa acc r :
  code_of i = code -> all_more l = true ->
  send_all (AStart code h :: l ++ [ABody b false]) fa 0 = (acc, r) ->
  let o := {| ao_events := acc; ao_raised := r; ao_reads := 0; ao_closes := 0 |} in
  events_ok i o = true /\ ao_reads o = 0%nat /\ ao_closes o = 0%nat /\
  (start_headers o = Some h \/ start_headers o = None) /\
  exists rest, body_bytes l ++ b = body_bytes (ao_events o) ++ rest /\
               (ao_raised o = false -> rest = []).
Proof.
  intros Hc Hl E.
  destruct (send_all_spec _ _ _ _ _ E) as (rest & Hsplit & R1 & R2). cbv zeta. cbn [ao_events ao_raised ao_reads ao_closes].
  destruct acc as [|e acc'].
  - assert (r = true) by (destruct r; [reflexivity|]; rewrite R1 in Hsplit by reflexivity; discriminate).
    subst r. unfold events_ok, start_headers. cbn [ao_events ao_raised].
    repeat split; auto. exists (body_bytes l ++ b). split; [reflexivity|discriminate].
  - simpl in Hsplit. injection Hsplit as <- Hs.
    unfold events_ok, start_headers. cbn [ao_events ao_raised]. rewrite Hc, Z.eqb_refl. cbn [andb].
    destruct r; cbn [negb].
    + destruct (snoc_prefix _ _ _ _ Hs (R2 eq_refl)) as [rest' ->].
      rewrite all_more_app in Hl. apply andb_true_iff in Hl as [Ha _].
      rewrite (bodies_ok_all_more _ Ha). repeat split; auto.
      rewrite body_bytes_cons_start, body_bytes_app, <- app_assoc. eexists. split; [reflexivity|discriminate].
    + rewrite (R1 eq_refl), app_nil_r in Hs. subst acc'.
      rewrite (bodies_ok_complete _ _ Hl). repeat split; auto.
      exists []. rewrite app_nil_r, body_bytes_cons_start, body_bytes_app, body_bytes_last. auto.
Qed.

Lemma dec_0 : dec 0 = [48]. Proof. reflexivity. Qed.

Local Opaque finish_headers dec.

Theorem asgi_framing i fa o :
  status_wf (i_status i) = true -> typeless_media i = false ->
  asgi_emit i fa = Some o -> oracle_asgi i o = [].
Proof.
  intros Hwf Htm He.
  destruct (status_defined _ Hwf) as (line & code & _ & Hc & _ & Hpos & _).
  unfold asgi_emit in He. rewrite Hc in He.
  assert (Hcode : code_of i = code) by (unfold code_of; rewrite Hc; reflexivity).
  change ((0 <=? code)%Z && mem_N (Z.to_N code) asgi_bodiless) with (in_codes code spec_bodiless) in He.
  change ((0 <=? code)%Z && mem_N (Z.to_N code) asgi_typeless) with (in_codes code spec_typeless) in He.
  assert (Hbl : is_bodiless i = i_head i || in_codes code spec_bodiless)
    by (unfold is_bodiless; rewrite Hcode; reflexivity).
  assert (Htl : is_typeless i = in_codes code spec_typeless)
    by (unfold is_typeless; rewrite Hcode; reflexivity).
  unfold typeless_media in Htm. rewrite Htl in Htm.
  assert (Hct0 : in_codes code spec_typeless = true -> isSomeC (i_ctype i) = false ->
                 ctype_after_render i = None).
  { intros T C. rewrite T, C in Htm. simpl in Htm. rewrite andb_true_r in Htm.
    unfold ctype_after_render. rewrite Htm. destruct (i_ctype i); [discriminate|reflexivity]. }
  destruct (i_head i || in_codes code spec_bodiless) eqn:Hb.
  - (* HEAD or bodiless status: start + one empty, final body event; no stream access *)
    match type of He with
    | (let '(h1, mt) := ?P in _) = _ => destruct P as [h1 mt] eqn:Ep
    end.
    assert (Hh1 : (in_codes code spec_typeless = true -> mt = None /\ h_ctype h1 = ctype_after_render i) /\
                  (in_codes code spec_typeless = false -> exists m, mt = Some m)).
    { destruct (in_codes code spec_typeless).
      - injection Ep as <- <-. split; [auto|discriminate].
      - split; [discriminate|]. intros _.
        match type of Ep with (if ?c then _ else _) = _ => destruct c end;
          injection Ep as <- <-; eauto. }
    destruct Hh1 as [T1 T2].
    destruct (send_all [AStart code (finish_headers h1 mt); ABody [] false] fa 0) as [acc r] eqn:E.
    injection He as <-.
    destruct (plain_out i code (finish_headers h1 mt) [] [] fa acc r Hcode eq_refl E)
      as (F1 & F2 & F3 & F4 & rest & F5 & F6).
    cbn [ao_events ao_raised ao_reads ao_closes] in *.
    apply (oracle_asgi_from_facts i _ (finish_headers h1 mt)); cbn [ao_events ao_raised ao_reads ao_closes];
      rewrite ?Hbl, ?Htl; auto; try discriminate.
    + intros _. split; [|reflexivity]. simpl in F5. destruct (body_bytes acc); [reflexivity|discriminate].
    + intros T C. destruct (T1 T) as [-> Hc1]. rewrite finish_headers_ctype_none, Hc1. apply Hct0; assumption.
    + intros T. destruct (T2 T) as [m ->]. apply finish_headers_ctype_some.
  - (* a body-bearing response *)
    apply orb_false_iff in Hb as [Hh Hbc].
    assert (Ht : in_codes code spec_typeless = false).
    { destruct (in_codes code spec_typeless) eqn:E; [|reflexivity].
      rewrite (typeless_bodiless_codes _ E) in Hbc. discriminate. }
    pose proof Hbl as Hbl'.
    assert (Htl' : is_typeless i = false) by (rewrite Htl; exact Ht).
    destruct (sse_effective i) as [evs|] eqn:Hsse.
    + (* server-sent events *)
      match type of He with
      | (let '(acc, r) := send_all (?s :: ?l ++ ?x) _ _ in _) = _ =>
        destruct (send_all (s :: l ++ x) fa 0) as [acc r] eqn:E
      end.
      injection He as <-.
      assert (Hall : all_more (map (fun e => ABody e true) evs) = true)
        by (clear; induction evs; simpl; auto).
      destruct (plain_out i code _ _ [] fa acc r Hcode Hall E) as (F1 & F2 & F3 & F4 & rest & F5 & F6).
      cbn [ao_events ao_raised ao_reads ao_closes] in *.
      eapply oracle_asgi_from_facts; cbn [ao_events ao_raised ao_reads ao_closes];
        rewrite ?Hbl', ?Htl'; eauto; try discriminate.
      * intros _. exists rest. split; [|exact F6]. rewrite <- F5, app_nil_r.
        unfold chosen_body, isSomeSse, sse_events. rewrite Hsse. cbn [andb].
        unfold body_bytes. rewrite map_map. clear. induction evs; simpl; [reflexivity|]. rewrite IHevs. reflexivity.
      * unfold non_streamed, isSomeSse. rewrite Hsse. discriminate.
      * intros _. apply finish_headers_ctype_some.
    + destruct (render_body i) as [d|] eqn:Hr.
      * (* text / data / media *)
        match type of He with
        | (let '(acc, r) := send_all [?s; ?x] _ _ in _) = _ =>
          destruct (send_all [s; x] fa 0) as [acc r] eqn:E
        end.
        injection He as <-.
        destruct (plain_out i code _ [] d fa acc r Hcode eq_refl E) as (F1 & F2 & F3 & F4 & rest & F5 & F6).
        cbn [ao_events ao_raised ao_reads ao_closes] in *.
        eapply oracle_asgi_from_facts; cbn [ao_events ao_raised ao_reads ao_closes];
          rewrite ?Hbl', ?Htl'; eauto; try discriminate.
        -- intros _. exists rest. split; [|exact F6]. rewrite <- F5.
           unfold chosen_body, isSomeSse. rewrite Hsse, Hr. reflexivity.
        -- intros _ _ Hnr. rewrite finish_headers_clen. cbn [set_clen h_clen].
           rewrite (F6 Hnr), app_nil_r in F5. simpl in F5. rewrite <- F5. reflexivity.
        -- intros _. apply finish_headers_ctype_some.
      * destruct (i_stream i) as [s|] eqn:Hs.
        -- (* a response stream, inside try/finally *)
           destruct (send_ok fa 0) eqn:S0.
           ++ destruct (stream_loop (match k_kind s with KFile => true | KIter => false end)
                          (k_chunks s) (raises_b s) fa 1) as [[[ev r] rd] n] eqn:E.
              destruct (stream_loop_spec _ _ _ _ _ _ _ _ _ E) as (Hall & Hrd & rest & Hsb & Hrest).
              assert (Hclose : forall rd', rd' = rd ->
                        close_ok i rd' (if k_has_close s then 1 else 0) = true).
              { intros rd' ->. unfold close_ok, stream_has_close. rewrite Hs.
                replace (Nat.ltb 0 rd) with true by (symmetry; apply Nat.ltb_lt; exact Hrd).
                destruct (k_has_close s); reflexivity. }
              assert (Hchosen : chosen_body true i = body_bytes ev ++ rest).
              { unfold chosen_body, isSomeSse. rewrite Hsse, Hr, Hs. cbn [andb]. exact Hsb. }
              assert (Hns : non_streamed true i = false).
              { unfold non_streamed. rewrite Hr, Hs. cbn [isSomeS negb]. apply andb_false_r. }
              assert (Hfin : forall o', ao_reads o' = rd -> ao_closes o' = (if k_has_close s then 1 else 0)%nat ->
                        (ao_raised o' = true /\ ao_events o' = AStart code (finish_headers (headers0 i) (Some default_media_type)) :: ev
                         \/ ao_raised o' = false /\ r = false /\
                            ao_events o' = AStart code (finish_headers (headers0 i) (Some default_media_type)) :: ev ++ [ABody [] false]) ->
                        oracle_asgi i o' = []).
              { intros o' Hrd' Hcl' Hcases.
                apply (oracle_asgi_from_facts i o' (finish_headers (headers0 i) (Some default_media_type)));
                  rewrite ?Hbl', ?Htl', ?Hns; try discriminate.
                - unfold events_ok. destruct Hcases as [[-> ->] | (-> & _ & ->)]; cbn [negb];
                    rewrite Hcode, Z.eqb_refl; cbn [andb];
                    [apply bodies_ok_all_more | apply bodies_ok_complete]; exact Hall.
                - left. unfold start_headers. destruct Hcases as [[_ ->] | (_ & _ & ->)]; reflexivity.
                - intros _. destruct Hcases as [[-> ->] | (-> & Hr0 & ->)].
                  + exists rest. rewrite body_bytes_cons_start. split; [exact Hchosen|discriminate].
                  + exists []. rewrite body_bytes_cons_start, body_bytes_app, body_bytes_last, !app_nil_r.
                    split; [|auto]. rewrite Hchosen, (Hrest Hr0), app_nil_r. reflexivity.
                - intros _. apply finish_headers_ctype_some.
                - rewrite Hrd', Hcl'. apply Hclose. reflexivity. }
              destruct r.
              ** injection He as <-. apply Hfin; auto.
              ** destruct (send_ok fa n) eqn:Sn; injection He as <-; apply Hfin; auto.
           ++ (* the start event itself could not be sent: the stream is never touched *)
              injection He as <-.
              apply (oracle_asgi_from_facts i _ {| h_clen := None; h_ctype := Some [] |});
                cbn [ao_events ao_raised ao_reads ao_closes]; rewrite ?Hbl', ?Htl'; auto; try discriminate.
              intros _. eexists. split; [reflexivity|discriminate].
        -- (* no body at all: Content-Length: 0 *)
           match type of He with
           | (let '(acc, r) := send_all [?s0; ?x] _ _ in _) = _ =>
             destruct (send_all [s0; x] fa 0) as [acc r] eqn:E
           end.
           injection He as <-.
           destruct (plain_out i code _ [] [] fa acc r Hcode eq_refl E) as (F1 & F2 & F3 & F4 & rest & F5 & F6).
           cbn [ao_events ao_raised ao_reads ao_closes] in *.
           eapply oracle_asgi_from_facts; cbn [ao_events ao_raised ao_reads ao_closes];
             rewrite ?Hbl', ?Htl'; eauto; try discriminate.
           ++ intros _. exists rest. split; [|exact F6]. rewrite <- F5.
              unfold chosen_body, isSomeSse. rewrite Hsse, Hr, Hs. reflexivity.
           ++ intros _ _ Hnr. rewrite finish_headers_clen. cbn [set_clen h_clen].
              rewrite (F6 Hnr) in F5. rewrite !app_nil_r in F5. change (body_bytes []) with (@nil N) in F5.
              rewrite <- F5. change (blen []) with 0. rewrite dec_0. reflexivity.
           ++ intros _. apply finish_headers_ctype_some.
Qed.

Local Transparent finish_headers dec.

(* ------------------------------------------------------------------ readable corollaries *)

Lemma app_nil_both {A} (a b : list A) : a ++ b = [] -> a = [] /\ b = [].
Proof. destruct a; simpl; [auto|discriminate]. Qed.

Lemma if_nil (b : bool) (k : nat) : (if b then [] else [k]) = [] -> b = true.
Proof. destruct b; [reflexivity|discriminate]. Qed.

(* close(): exactly once after streaming began, never otherwise - for every stream script
   (any chunks, end or raise) and every point at which the server's send may fail *)
Theorem close_once_asgi i fa o :
  status_wf (i_status i) = true -> typeless_media i = false ->
  asgi_emit i fa = Some o ->
  close_ok i (ao_reads o) (ao_closes o) = true /\ events_ok i o = true.
Proof.
  intros Hwf Htm He. pose proof (asgi_framing i fa o Hwf Htm He) as H.
  unfold oracle_asgi in H.
  apply app_nil_both in H as [H1 H]. apply app_nil_both in H as [_ H].
  apply app_nil_both in H as [_ H]. apply app_nil_both in H as [_ H7].
  split; [eapply if_nil; eauto | eapply if_nil; eauto].
Qed.

Theorem close_once_wsgi i st :
  status_wf (i_status i) = true -> wsgi_stream_ok i = true -> typeless_media i = false ->
  wsgi_emit true i = Some st ->
  close_ok i (sv_reads (serve (ws_body st))) (sv_closes (serve (ws_body st))) = true.
Proof.
  intros Hwf Hso Htm He. pose proof (wsgi_framing i st Hwf Hso Htm He) as H.
  unfold oracle_wsgi in H.
  repeat (apply app_nil_both in H as [_ H]). eapply if_nil; eauto.
Qed.

(* the two interfaces agree on which responses are bodiless: whatever form the status takes *)
Theorem wsgi_asgi_same_status_class i st o fa :
  status_wf (i_status i) = true ->
  wsgi_emit true i = Some st -> asgi_emit i fa = Some o ->
  exists l c, code_to_http_status (i_status i) = Some l /\ http_status_to_code (i_status i) = Some c /\
              ws_status st = l /\ parse_int (firstn 3 l) = Some (Z.to_N c).
Proof.
  intros Hwf Hw Ha. destruct (status_defined _ Hwf) as (l & c & Hl & Hc & _ & _ & Hp).
  exists l, c. repeat split; auto.
  unfold wsgi_emit in Hw. rewrite Hl, Hc in Hw. destruct (get_body i) as [b len].
  destruct (i_head i || wsgi_in_set true l c wsgi_bodiless).
  - destruct (wsgi_in_set true l c wsgi_typeless).
    + injection Hw as <-. reflexivity.
    + destruct len; [destruct (h_clen (headers0 i))|];
        try destruct (i_head i && negb (wsgi_in_set true l c wsgi_bodiless));
        injection Hw as <-; reflexivity.
  - injection Hw as <-. reflexivity.
Qed.

(* ------------------------------------------------------------------ responses built in steps *)

(* the render cache, when filled, holds the serialization of the CURRENT media *)
Definition cache_inv (s : rstate) : Prop :=
  match rs_rendered s with Some r => rs_media s = Some r | None => True end.

Lemma do_step_inv s st : cache_inv s -> cache_inv (do_step s st).
Proof.
  unfold cache_inv. intro H. destruct st; simpl; auto.
  unfold render_state.
  destruct (rs_text s) eqn:Et; [exact H|]. destruct (rs_data s) eqn:Ed; [exact H|].
  destruct (rs_media s) as [m|] eqn:Em; [|simpl; rewrite Em; exact H].
  destruct (rs_rendered s) as [r|] eqn:Er; simpl.
  - rewrite Er, Em. exact H.
  - reflexivity.
Qed.

Lemma do_step_values s st :
  (rs_text (do_step s st), rs_data (do_step s st), rs_media (do_step s st)) =
  (let '(t, d, m) := (rs_text s, rs_data s, rs_media s) in
   match st with
   | StText v => (v, d, m) | StData v => (t, v, m) | StMedia v => (t, d, v) | _ => (t, d, m)
   end).
Proof.
  destruct st; simpl; try reflexivity.
  unfold render_state. destruct (rs_text s) eqn:Et; [simpl; rewrite Et; reflexivity|].
  destruct (rs_data s) eqn:Ed; [simpl; rewrite Et, Ed; reflexivity|].
  destruct (rs_media s) eqn:Em; [|simpl; rewrite Et, Ed, Em; reflexivity].
  destruct (rs_rendered s); simpl; rewrite ?Et, ?Ed, ?Em; reflexivity.
Qed.

Lemma run_steps_gen : forall l s,
  cache_inv s ->
  cache_inv (fold_left do_step l s) /\
  (rs_text (fold_left do_step l s), rs_data (fold_left do_step l s), rs_media (fold_left do_step l s)) =
  fold_left (fun acc st => let '(t, d, m) := acc in
                           match st with
                           | StText v => (v, d, m) | StData v => (t, v, m) | StMedia v => (t, d, v)
                           | _ => acc end) l (rs_text s, rs_data s, rs_media s).
Proof.
  induction l as [|st tl IH]; intros s Hi; simpl; [auto|].
  destruct (IH (do_step s st) (do_step_inv s st Hi)) as [I V]. split; [exact I|].
  rewrite V. pose proof (do_step_values s st) as D. cbv zeta in D. rewrite D.
  destruct st; reflexivity.
Qed.

(* However assignments and early render_body() calls are interleaved, what the app finally
   renders from are the latest values of text, data and (the serialization of) media: a
   cached rendering of an earlier media never survives a reassignment, and never shadows
   data or text assigned later. *)
Theorem session_values l head status stream clen wrapper :
  let i := input_of_session l head status stream clen wrapper in
  (i_text i, i_data i, i_media i) = latest_values l.
Proof.
  cbv zeta. unfold input_of_session, latest_values, run_steps.
  destruct (run_steps_gen l rs_init I) as [Inv V]. cbn [i_text i_data i_media].
  unfold cache_inv in Inv. cbn [rs_text rs_data rs_media rs_init] in V. rewrite <- V.
  destruct (rs_media (fold_left do_step l rs_init)) as [m|] eqn:Em; [|reflexivity].
  destruct (rs_rendered (fold_left do_step l rs_init)) as [r|]; [|reflexivity].
  injection Inv as ->. reflexivity.
Qed.

Theorem session_precedence l head status stream clen wrapper :
  render_body (input_of_session l head status stream clen wrapper) =
  (let '(t, d, m) := latest_values l in
   match t with Some x => Some x | None => match d with Some x => Some x | None => m end end).
Proof.
  pose proof (session_values l head status stream clen wrapper) as H. cbv zeta in H.
  remember (input_of_session l head status stream clen wrapper) as i.
  destruct (latest_values l) as [[t d] m]. injection H as H1 H2 H3.
  unfold render_body. rewrite H1, H2, H3. reflexivity.
Qed.

(* close_once for EVERY kind of failure: an Exception, a BaseException or a cancellation, coming
   from the stream (read()/__anext__) or from the server's send (raised, or the task cancelled
   while parked in it), at every point - the `finally` is what makes it true *)
Theorem close_once_all_faults i (fa : option (nat * fault)) o :
  status_wf (i_status i) = true -> typeless_media i = false ->
  asgi_emit_f i fa = Some o ->
  close_ok i (ao_reads o) (ao_closes o) = true /\ events_ok i o = true /\ oracle_asgi i o = [].
Proof.
  intros Hwf Htm He. unfold asgi_emit_f in He.
  destruct (close_once_asgi i _ o Hwf Htm He) as [C E].
  repeat split; auto. exact (asgi_framing i _ o Hwf Htm He).
Qed.

(* ------------------------------------------------------------------ rendering failure + recovery *)

(* after a body-rendering failure the framing clauses hold for what the error handler put
   into the response (in particular Content-Length = bytes of THAT body) *)
Theorem wsgi_framing_recovery i st :
  status_wf (i_status (effective i)) = true -> wsgi_stream_ok (effective i) = true ->
  typeless_media (effective i) = false ->
  wsgi_emit_r true i = Some st -> oracle_wsgi (effective i) (wobs_of st) = [].
Proof. unfold wsgi_emit_r. apply wsgi_framing. Qed.

Theorem asgi_framing_recovery i fa o :
  status_wf (i_status (effective i)) = true -> typeless_media (effective i) = false ->
  asgi_emit_r i fa = Some o -> oracle_asgi (effective i) o = [].
Proof. unfold asgi_emit_r. apply asgi_framing. Qed.

(* the recovered response never streams: the stream of the failed response is not touched *)
Theorem recovery_ignores_stream i : render_fails i = true -> i_stream (effective i) = None.
Proof. unfold effective. intros ->. reflexivity. Qed.

(* SSE and client disconnect: the emitter is abandoned after the event during which the
   disconnect was seen, and the terminating body event (more_body = False) is still sent:
   the event sequence is complete *)
Theorem sse_disconnect_terminated i evs k o :
  status_wf (i_status i) = true -> typeless_media i = false -> is_bodiless i = false ->
  i_sse i = Some evs -> i_disconnect i = Some k ->
  asgi_emit i None = Some o ->
  ao_raised o = false /\
  exists h, ao_events o = AStart (code_of i) h
                          :: map (fun e => ABody e true) (firstn (Nat.max 1 k) evs) ++ [ABody [] false].
Proof.
  intros Hwf Htm Hbl Hs Hk He.
  destruct (status_defined _ Hwf) as (line & code & _ & Hc & _ & Hpos & _).
  unfold asgi_emit in He. rewrite Hc in He.
  assert (Hcode : code_of i = code) by (unfold code_of; rewrite Hc; reflexivity).
  change ((0 <=? code)%Z && mem_N (Z.to_N code) asgi_bodiless) with (in_codes code spec_bodiless) in He.
  unfold is_bodiless in Hbl. rewrite Hcode in Hbl. rewrite Hbl in He.
  unfold sse_effective in He. rewrite Hs, Hk in He.
  cbn [send_all send_ok] in He.
  assert (Hall : forall l' n, send_all l' None n = (l', false)).
  { induction l' as [|e l' IH]; intro n; simpl; [reflexivity|]. rewrite IH. reflexivity. }
  rewrite Hall in He. injection He as <-. cbn [ao_raised ao_events]. rewrite Hcode.
  split; [reflexivity|]. eexists. reflexivity.
Qed.
