(* C05 — property theorems only (each closed by [exact] of a lemma of Proofs.v). *)
From Coq Require Import ZArith NArith List Bool.
From Falcon.lib Require Import PyStr.
From Falcon.gen Require Import ConstsC05.
From Falcon.C05 Require Import Model Spec Proofs.
Import ListNotations.
Open Scope N_scope.

(* The status classes the two apps use are the ones the property names, the WSGI app decides
   by status CODE (fixes/C05-wsgi-bodiless-by-status-code.patch), and the PERF assumption
   _TYPELESS_STATUS_CODES <= _BODILESS_STATUS_CODES holds — re-checked on every run against
   the tables regenerated from the modules. *)
Theorem C05_status_classes :
  wsgi_bodiless = spec_bodiless /\ wsgi_typeless = spec_typeless /\
  asgi_bodiless = spec_bodiless /\ asgi_typeless = spec_typeless /\ wsgi_sets_by_code = true.
Proof.
  exact (conj wsgi_bodiless_spec (conj wsgi_typeless_spec (conj asgi_bodiless_spec
          (conj asgi_typeless_spec wsgi_by_code)))).
Qed.
Print Assumptions C05_status_classes.

Theorem C05_typeless_subset_bodiless :
  forallb (fun c => mem_N c wsgi_bodiless) wsgi_typeless = true /\
  forallb (fun c => mem_N c asgi_bodiless) asgi_typeless = true.
Proof. exact typeless_subset_bodiless. Qed.
Print Assumptions C05_typeless_subset_bodiless.

(* status_line_wellformed: for every legitimate status value (int 100..999, "NNN reason",
   'NNN', http.HTTPStatus) both normalisations are defined, the WSGI status line is
   "NNN reason", and the line and the ASGI integer denote the same code. *)
Theorem C05_status_defined : forall s, status_wf s = true ->
  exists l c, code_to_http_status s = Some l /\ http_status_to_code s = Some c /\
              status_line_wf l = true /\ (0 <= c)%Z /\ parse_int (firstn 3 l) = Some (Z.to_N c).
Proof. exact status_defined. Qed.
Print Assumptions C05_status_defined.

(* wsgi_framing: for every way of filling in a response (any status form, HEAD or not, any
   subset of text/data/media/stream, preset Content-Length/Content-Type, any stream script,
   file wrapper or not) what a conforming server receives satisfies every clause: status line,
   precedence, Content-Length = bytes sent, bodiless => no bytes and the stream untouched,
   Content-Type discipline, close() exactly once.  The one excluded shape is the known
   finding (204/304 whose only body source is resp.media). *)
Theorem C05_wsgi_framing : forall i st,
  status_wf (i_status i) = true -> wsgi_stream_ok i = true -> typeless_media i = false ->
  wsgi_emit true i = Some st -> oracle_wsgi i (wobs_of st) = [].
Proof. exact wsgi_framing. Qed.
Print Assumptions C05_wsgi_framing.

(* FULL statement (without `by_code`) is false of the code as found: 204/304/100/101 given as
   a status line with a non-canonical reason phrase were treated as body-bearing. *)
Theorem C05_wsgi_framing_refuted_before_fix :
  exists i st, status_wf (i_status i) = true /\ wsgi_stream_ok i = true /\
               typeless_media i = false /\ wsgi_emit false i = Some st /\
               oracle_wsgi i (wobs_of st) <> [].
Proof. exact wsgi_framing_refuted_before_fix. Qed.
Print Assumptions C05_wsgi_framing_refuted_before_fix.

(* FULL typeless clause ("204/304 carry no framework-supplied Content-Type") is false of the
   faithful model: rendering resp.media sets the content type (known finding). *)
Theorem C05_typeless_no_ctype_refuted :
  exists i st, status_wf (i_status i) = true /\ wsgi_emit true i = Some st /\
               is_typeless i = true /\ i_ctype i = None /\ h_ctype (ws_headers st) <> None.
Proof. exact typeless_no_ctype_refuted. Qed.
Print Assumptions C05_typeless_no_ctype_refuted.

(* asgi_framing: the same for ASGI, for every response AND every point at which the server's
   send callable may fail: exactly one start event, then body events of which only the last
   has more_body false (none, if the app was interrupted), nothing afterwards; precedence;
   Content-Length = bytes sent for non-streamed bodies; bodiless; Content-Type; close(). *)
Theorem C05_asgi_framing : forall i fa o,
  status_wf (i_status i) = true -> typeless_media i = false ->
  asgi_emit i fa = Some o -> oracle_asgi i o = [].
Proof. exact asgi_framing. Qed.
Print Assumptions C05_asgi_framing.

(* close_once: once streaming has begun close() is called exactly once, whether streaming
   completes, the stream raises or the server's send fails (and never twice, never before). *)
Theorem C05_close_once_asgi : forall i fa o,
  status_wf (i_status i) = true -> typeless_media i = false ->
  asgi_emit i fa = Some o ->
  close_ok i (ao_reads o) (ao_closes o) = true /\ events_ok i o = true.
Proof. exact close_once_asgi. Qed.
Print Assumptions C05_close_once_asgi.

Theorem C05_close_once_wsgi : forall i st,
  status_wf (i_status i) = true -> wsgi_stream_ok i = true -> typeless_media i = false ->
  wsgi_emit true i = Some st ->
  close_ok i (sv_reads (serve (ws_body st))) (sv_closes (serve (ws_body st))) = true.
Proof. exact close_once_wsgi. Qed.
Print Assumptions C05_close_once_wsgi.

(* The status line sent on WSGI and the integer sent on ASGI denote the same code. *)
Theorem C05_wsgi_asgi_same_status : forall i st o fa,
  status_wf (i_status i) = true ->
  wsgi_emit true i = Some st -> asgi_emit i fa = Some o ->
  exists l c, code_to_http_status (i_status i) = Some l /\ http_status_to_code (i_status i) = Some c /\
              ws_status st = l /\ parse_int (firstn 3 l) = Some (Z.to_N c).
Proof. exact wsgi_asgi_same_status_class. Qed.
Print Assumptions C05_wsgi_asgi_same_status.

(* Responses built in several steps (assignments interleaved with early render_body() calls):
   the app finally renders from the LATEST text / data / media, so precedence and
   Content-Length (C05_wsgi_framing / C05_asgi_framing, which hold for every input) refer to
   those; a cached rendering of the media never shadows data or text assigned later and never
   survives a reassignment of media. *)
Theorem C05_session_values : forall l head status stream clen wrapper,
  let i := input_of_session l head status stream clen wrapper in
  (i_text i, i_data i, i_media i) = latest_values l.
Proof. exact session_values. Qed.
Print Assumptions C05_session_values.

Theorem C05_session_precedence : forall l head status stream clen wrapper,
  render_body (input_of_session l head status stream clen wrapper) =
  (let '(t, d, m) := latest_values l in
   match t with Some x => Some x | None => match d with Some x => Some x | None => m end end).
Proof. exact session_precedence. Qed.
Print Assumptions C05_session_precedence.

Example C05_example_render_then_data :
  let l := [StMedia (Some [123; 125]); StRender; StData (Some [100; 97; 116; 97])] in
  exists st, wsgi_emit true (input_of_session l false (SInt 200) None None false) = Some st /\
             ws_body st = WList [[100; 97; 116; 97]] /\ h_clen (ws_headers st) = Some [52].
Proof. eexists. split; [reflexivity|]. vm_compute. auto. Qed.

(* close_once (and the whole framing) for every KIND of failure of the stream or of send:
   Exception, BaseException, asyncio.CancelledError / task cancellation. *)
Theorem C05_close_once_all_faults : forall i (fa : option (nat * fault)) o,
  status_wf (i_status i) = true -> typeless_media i = false ->
  asgi_emit_f i fa = Some o ->
  close_ok i (ao_reads o) (ao_closes o) = true /\ events_ok i o = true /\ oracle_asgi i o = [].
Proof. exact close_once_all_faults. Qed.
Print Assumptions C05_close_once_all_faults.

(* Body rendering fails (unserializable media, no handler for the content type, handler error):
   the framing clauses - in particular Content-Length = bytes sent - hold for what the error
   handler put into the response, on both interfaces; the failed response's stream is ignored. *)
Theorem C05_wsgi_framing_recovery : forall i st,
  status_wf (i_status (effective i)) = true -> wsgi_stream_ok (effective i) = true ->
  typeless_media (effective i) = false ->
  wsgi_emit_r true i = Some st -> oracle_wsgi (effective i) (wobs_of st) = [].
Proof. exact wsgi_framing_recovery. Qed.
Print Assumptions C05_wsgi_framing_recovery.

Theorem C05_asgi_framing_recovery : forall i fa o,
  status_wf (i_status (effective i)) = true -> typeless_media (effective i) = false ->
  asgi_emit_r i fa = Some o -> oracle_asgi (effective i) o = [].
Proof. exact asgi_framing_recovery. Qed.
Print Assumptions C05_asgi_framing_recovery.

Theorem C05_recovery_ignores_stream : forall i,
  render_fails i = true -> i_stream (effective i) = None.
Proof. exact recovery_ignores_stream. Qed.
Print Assumptions C05_recovery_ignores_stream.

(* SSE and client disconnect (http.disconnect delivered through receive() while the emitter
   is still producing): the emitter is abandoned, and the terminating body event with
   more_body = False is still sent - exactly one start, body events of which only the last
   has more_body false. *)
Theorem C05_sse_disconnect_terminated : forall i evs k o,
  status_wf (i_status i) = true -> typeless_media i = false -> is_bodiless i = false ->
  i_sse i = Some evs -> i_disconnect i = Some k ->
  asgi_emit i None = Some o ->
  ao_raised o = false /\
  exists h, ao_events o = AStart (code_of i) h
                          :: map (fun e => ABody e true) (firstn (Nat.max 1 k) evs) ++ [ABody [] false].
Proof. exact sse_disconnect_terminated. Qed.
Print Assumptions C05_sse_disconnect_terminated.

(* ---- non-vacuity *)
Definition ex_stream : stream :=
  {| k_kind := KIter; k_chunks := [Some [97; 98]; Some [99]]; k_raises := Some FCancel; k_has_close := true |}.
Definition ex_input : input :=
  {| i_head := false; i_status := SLine [50; 48; 48; 32; 70; 105; 110; 101]; i_text := None;
     i_data := None; i_media := None; i_stream := Some ex_stream; i_sse := None;
     i_clen := None; i_ctype := None; i_wrapper := false; i_cached := false; i_disconnect := None; i_media_fails := false; i_recovery := rc0 |}.

Example C05_example_stream_send_failure :
  status_wf (i_status ex_input) = true /\ typeless_media ex_input = false /\
  exists o, asgi_emit_f ex_input (Some (2%nat, FCancel)) = Some o /\
            ao_events o = [AStart 200 {| h_clen := None; h_ctype := Some default_media_type |};
                           ABody [97; 98] true] /\
            ao_raised o = true /\ ao_reads o = 2%nat /\ ao_closes o = 1%nat.
Proof. split; [reflexivity|]. split; [reflexivity|]. eexists. split; [reflexivity|]. vm_compute. auto. Qed.

Example C05_example_head_length :
  let i := {| i_head := true; i_status := SEnum 200 [79; 75]; i_text := Some [104; 105];
              i_data := Some [1]; i_media := None; i_stream := Some ex_stream; i_sse := None;
              i_clen := None; i_ctype := None; i_wrapper := true; i_cached := false; i_disconnect := None; i_media_fails := false; i_recovery := rc0 |} in
  status_wf (i_status i) = true /\ wsgi_stream_ok i = true /\ typeless_media i = false /\
  exists st, wsgi_emit true i = Some st /\ ws_body st = WList [] /\
             h_clen (ws_headers st) = Some [50] /\ sv_reads (serve (ws_body st)) = 0%nat.
Proof. cbv zeta. repeat split; try reflexivity. eexists. split; [reflexivity|]. vm_compute. auto. Qed.
