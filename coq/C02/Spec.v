(* C02 — the reference statements: which fallback wins (latest registered of the preferred
   kind), what a resource's method map must contain, and the boolean oracle of the harness. *)
From Coq Require Import ZArith NArith List Bool Lia.
From Falcon.lib Require Import PyStr.
From Falcon.gen Require Import Consts.
From Falcon.C01 Require Import Model Spec.
From Falcon.C02 Require Import Model.
Import ListNotations.
Open Scope N_scope.

(* the resource implements HTTP method m (under the route's suffix) *)
Definition implements (r : resource) (suffix : option str) (m : str) : bool :=
  mem m COMBINED_METHODS && has_callable r (responder_name m suffix).

(* [latest ops k path acc]: walking the registrations in history order, the last one of kind
   k (true = sink, false = static route) that matches the path *)
Fixpoint latest (ops : list aop) (want_sink : bool) (path : str) (acc : option outcome)
  : option outcome :=
  match ops with
  | [] => acc
  | AddSink id p :: tl =>
    latest tl want_sink path
           (if want_sink then match fb_match (FSink id p) path with Some o => Some o | None => acc end
            else acc)
  | AddStatic id s :: tl =>
    latest tl want_sink path
           (if negb want_sink && startswith (sr_prefix s) [47]
            then match fb_match (FStatic id s) path with Some o => Some o | None => acc end
            else acc)
  | AddRoute _ _ _ _ :: tl => latest tl want_sink path acc
  end.

(* no route matched: the most recently added matching fallback of the preferred kind, the
   other kind only if none of the preferred kind matches, else 404 *)
Definition spec_fallback (sbs : bool) (ops : list aop) (path : str) : outcome :=
  match latest ops sbs path None with
  | Some o => o
  | None => match latest ops (negb sbs) path None with Some o => o | None => O404 end
  end.

(* what the method map of a route must answer for method m *)
Definition allowed_of (r : resource) (suffix : option str) : list str :=
  filter (fun m => negb (mem m META_METHODS)) (ssort (map fst (map_methods COMBINED_METHODS r suffix))).

Definition spec_responder (r : resource) (suffix : option str) (m : str) : option responder :=
  if implements r suffix m then Some (RMethod (responder_name m suffix))
  else if str_eqb m s_OPTIONS then Some (ROptions (allowed_of r suffix))
  else if mem m COMBINED_METHODS then
    Some (RNotAllowed (if implements r suffix s_OPTIONS then allowed_of r suffix
                       else allowed_of r suffix ++ [s_OPTIONS]))
  else None.

(* ---- oracle: the observed outcome is the model's *)
Definition value_eqb' := value_eqb.
Fixpoint strs_eqb (a b : list str) : bool :=
  match a, b with
  | [], [] => true
  | x :: a', y :: b' => str_eqb x y && strs_eqb a' b'
  | _, _ => false
  end.
(* kwargs of a sink: a dict whose values are str or None *)
Definition ostr_eqb (a b : option str) : bool :=
  match a, b with
  | None, None => true
  | Some x, Some y => str_eqb x y
  | _, _ => false
  end.
Fixpoint sget (g : sgroups) (k : str) : option (option str) :=
  match g with
  | [] => None
  | (k', v) :: tl => if str_eqb k k' then Some v else sget tl k
  end.
Definition ssub (a b : sgroups) : bool :=
  forallb (fun kv => match sget b (fst kv) with Some v => ostr_eqb v (snd kv) | None => false end) a.
Fixpoint ssame (a b : sgroups) : bool :=
  match a, b with
  | [], [] => true
  | (k, v) :: a', (k', v') :: b' => str_eqb k k' && ostr_eqb v v' && ssame a' b'
  | _, _ => false
  end.
Definition sgroups_eqb (a b : sgroups) : bool := ssame a b || (ssub a b && ssub b a).

Definition outcome_eqb (a b : outcome) : bool :=
  match a, b with
  | ORoute r1 a1 k1, ORoute r2 a2 k2 => N.eqb r1 r2 && str_eqb a1 a2 && params_eqb k1 k2
  | OOptions l1, OOptions l2 => strs_eqb l1 l2
  | O405 l1, O405 l2 => strs_eqb l1 l2
  | O400, O400 => true
  | OSink i1 g1, OSink i2 g2 => N.eqb i1 i2 && sgroups_eqb g1 g2
  | OStatic i1, OStatic i2 => N.eqb i1 i2
  | O404, O404 => true
  | _, _ => false
  end.

Definition dispatch_oracle cinst cmulti (a : app) (method path : str) (obs : outcome) : bool :=
  outcome_eqb obs (get_responder cinst cmulti a method path).
