From Falcon.C02 Require Import Model Spec.
