(* C02 — property theorems only (each closed by [exact] of a lemma from Proofs.v).
   Route lookup is C01's reference walk [dfs] (C01_compile_correct / C01_find_spec_partial tie
   it to the compiled router); [cinst]/[cmulti] are the router's converter table. *)
From Coq Require Import ZArith NArith List Bool.
From Falcon.lib Require Import PyStr.
From Falcon.gen Require Import Consts.
From Falcon.C01 Require Import Model Spec.
From Falcon.C02 Require Import Model Spec Proofs ProofsInv.
Import ListNotations.

(* No route matches: the most recently added matching sink or static route of the kind
   preferred by sink_before_static_route runs, the other kind only if none of the preferred
   kind matches, otherwise 404 — for every registration history (routes, sinks and static
   routes in any interleaving), every method and path.  Sink named groups are the kwargs
   (OSink carries m.groupdict()). *)
Theorem C02_dispatch_fallback_spec : forall cinst cmulti sbs ops method path,
  mem method META_METHODS = false ->
  dfs cinst cmulti (a_roots (build cinst cmulti sbs ops)) path = None ->
  get_responder cinst cmulti (build cinst cmulti sbs ops) method path = spec_fallback sbs ops path.
Proof. exact dispatch_fallback_spec. Qed.
Print Assumptions C02_dispatch_fallback_spec.

(* A route that matches always masks sinks and static routes. *)
Theorem C02_route_masks_fallbacks : forall cinst cmulti a method path rid ps,
  dfs cinst cmulti (a_roots a) path = Some (rid, ps) ->
  match get_responder cinst cmulti a method path with
  | OSink _ _ | OStatic _ | O404 => False
  | _ => True
  end.
Proof. exact route_masks_fallbacks. Qed.
Print Assumptions C02_route_masks_fallbacks.

(* The method map installed for a route, for every resource (any set of attributes), suffix
   and method: the resource's own responder if it implements the method; otherwise the
   automatic OPTIONS responder / a 405 carrying the Allow lists below; None (-> 400) outside
   COMBINED_METHODS. *)
Theorem C02_responder_spec : forall r suffix m,
  mget (set_default_responders (map_methods COMBINED_METHODS r suffix)) m = spec_responder r suffix m.
Proof. exact responder_spec. Qed.
Print Assumptions C02_responder_spec.

(* A matched route yields exactly the outcome of spec_responder for the resource registered
   under the matched route id, with the route's fields as kwargs — for every history. *)
Theorem C02_route_dispatch : forall cinst cmulti sbs ops method path rid ps,
  mem method META_METHODS = false ->
  dfs cinst cmulti (a_roots (build cinst cmulti sbs ops)) path = Some (rid, ps) ->
  exists tpl r suffix, In (AddRoute tpl rid r suffix) ops /\
    get_responder cinst cmulti (build cinst cmulti sbs ops) method path =
    match spec_responder r suffix method with
    | Some (RMethod attr) => ORoute rid attr ps
    | Some (ROptions al) => OOptions al
    | Some (RNotAllowed al) => O405 al
    | None => O400
    end.
Proof. exact route_dispatch_full. Qed.
Print Assumptions C02_route_dispatch.

(* Every id the router can return has a method map: the internal-inconsistency outcome is
   unreachable for every history. *)
Theorem C02_never_broken : forall cinst cmulti sbs ops method path,
  get_responder cinst cmulti (build cinst cmulti sbs ops) method path <> OBroken.
Proof. exact never_broken. Qed.
Print Assumptions C02_never_broken.

(* The automatic OPTIONS responder lists exactly the implemented (non-meta) methods ... *)
Theorem C02_options_allow_exact : forall r suffix x,
  In x (allowed_of r suffix) <-> implements r suffix x = true /\ mem x META_METHODS = false.
Proof. exact allowed_exact. Qed.
Print Assumptions C02_options_allow_exact.

(* ... and a 405 lists exactly those plus OPTIONS — for every resource, i.e. every subset of
   COMBINED_METHODS (the list is regenerated from falcon.constants). *)
Theorem C02_allow_405_exact : forall r suffix m al x,
  spec_responder r suffix m = Some (RNotAllowed al) ->
  (In x al <-> (implements r suffix x = true /\ mem x META_METHODS = false) \/ x = s_OPTIONS).
Proof. exact allow_405_exact. Qed.
Print Assumptions C02_allow_405_exact.

(* A suffixed route only ever reaches on_<method>_<suffix> attributes. *)
Theorem C02_suffix_isolated : forall r c s m a,
  spec_responder r (Some (c :: s)) m = Some (RMethod a) ->
  a = [111; 110; 95]%N ++ lower m ++ 95%N :: c :: s /\ has_callable r a = true.
Proof. exact suffix_isolated. Qed.
Print Assumptions C02_suffix_isolated.

(* Sink kwargs: the sink receives m.groupdict(), i.e. EVERY named group of its prefix pattern —
   groups in optional / alternation parts that did not take part arrive as None (patterns of the
   modelled regular-expression language). *)
Theorem C02_sink_kwargs_complete : forall p path g,
  spat_match p path = Some g -> map fst g = rx_names p.
Proof. exact sink_kwargs_complete. Qed.
Print Assumptions C02_sink_kwargs_complete.

Theorem C02_meta_method_400 : forall cinst cmulti a method path,
  mem method META_METHODS = true -> get_responder cinst cmulti a method path = O400.
Proof. exact meta_method_400. Qed.
Print Assumptions C02_meta_method_400.

Theorem C02_oracle_sound : forall cinst cmulti a method path,
  get_responder cinst cmulti a method path <> OBroken ->
  dispatch_oracle cinst cmulti a method path (get_responder cinst cmulti a method path) = true.
Proof. exact oracle_sound. Qed.
Print Assumptions C02_oracle_sound.

(* A pattern with an optional named group: /api(?:/v(?P<v>\d+))?/(?P<s>[a-z]+) on /api/users *)
Example C02_nonparticipating_group :
  let api := [47; 97; 112; 105]%N in
  let p := RSeq (RLit api)
                (RSeq (ROpt (RSeq (RLit [47; 118]%N) (RNamed [118]%N (RCls CDigit QPlus))))
                      (RSeq (RLit [47]%N) (RNamed [115]%N (RCls CLower QPlus)))) in
  spat_match p [47; 97; 112; 105; 47; 117; 115]%N = Some [([118]%N, None); ([115]%N, Some [117; 115]%N)] /\
  spat_match p [47; 97; 112; 105; 47; 118; 50; 47; 117]%N
  = Some [([118]%N, Some [50]%N); ([115]%N, Some [117]%N)].
Proof. vm_compute. split; reflexivity. Qed.

(* Non-vacuity: two sinks and a static route on one prefix, a route below it; LIFO, order
   flag, masking, 405 and automatic OPTIONS. *)
Example C02_premises_satisfiable :
  let s := [47; 115]%N in                                   (* "/s" *)
  let sx := [47; 115; 47; 120]%N in                         (* "/s/x" *)
  let get := [71; 69; 84]%N in let post := [80; 79; 83; 84]%N in
  let res : resource := [([111; 110; 95; 103; 101; 116]%N, true)] in   (* on_get *)
  let ops := [AddSink 0 (RLit s); AddSink 1 (RLit s);
              AddStatic 2 {| sr_prefix := s; sr_fallback := false |};
              AddRoute sx 0 res None] in
  get_responder std_cinst std_multi (build std_cinst std_multi true ops) get s = OSink 1 [] /\
  get_responder std_cinst std_multi (build std_cinst std_multi false ops) get s = OSink 1 [] /\
  get_responder std_cinst std_multi (build std_cinst std_multi false ops) get [47; 115; 47; 102]%N = OStatic 2 /\
  get_responder std_cinst std_multi (build std_cinst std_multi true ops) get sx
    = ORoute 0 [111; 110; 95; 103; 101; 116]%N [] /\
  get_responder std_cinst std_multi (build std_cinst std_multi true ops) post sx = O405 [get; s_OPTIONS] /\
  get_responder std_cinst std_multi (build std_cinst std_multi true ops) s_OPTIONS sx = OOptions [get].
Proof. vm_compute. repeat split; reflexivity. Qed.
