(* C02 — proofs. *)
From Coq Require Import ZArith NArith List Bool Lia.
From Falcon.lib Require Import PyStr.
From Falcon.gen Require Import Consts.
From Falcon.C01 Require Import Model Spec.
From Falcon.C02 Require Import Model Spec.
Import ListNotations.
Open Scope N_scope.

#[local] Opaque responder_name COMBINED_METHODS META_METHODS.
(* ------------------------------------------------------------------ method maps *)
Lemma mget_app a b k : mget (a ++ b) k = match mget a k with Some v => Some v | None => mget b k end.
Proof.
  induction a as [|[k' v] a IH]; simpl; [reflexivity|]. destruct (str_eqb k k'); auto.
Qed.

Lemma mem_cons x y l : mem x (y :: l) = str_eqb x y || mem x l.
Proof. reflexivity. Qed.

Lemma mget_map_methods ms r s m :
  mget (map_methods ms r s) m =
  if mem m ms && has_callable r (responder_name m s) then Some (RMethod (responder_name m s)) else None.
Proof.
  induction ms as [|m0 ms IH]; [reflexivity|]. simpl map_methods. rewrite mem_cons.
  destruct (str_eqb m m0) eqn:E.
  - apply str_eqb_eq in E. subst m0. simpl orb.
    destruct (has_callable r (responder_name m s)) eqn:H.
    + simpl. rewrite str_eqb_refl. reflexivity.
    + rewrite IH, andb_false_r. reflexivity.
  - simpl orb. destruct (has_callable r (responder_name m0 s)).
    + simpl. rewrite E. exact IH.
    + exact IH.
Qed.

Lemma mget_na mm1 al l m :
  mget (flat_map (fun x => match mget mm1 x with Some _ => [] | None => [(x, RNotAllowed al)] end) l) m =
  if mem m l && match mget mm1 m with Some _ => false | None => true end
  then Some (RNotAllowed al) else None.
Proof.
  induction l as [|x l IH]; [reflexivity|]. simpl flat_map. rewrite mem_cons.
  destruct (str_eqb m x) eqn:E.
  - apply str_eqb_eq in E. subst x. simpl orb. destruct (mget mm1 m) eqn:G.
    + simpl. rewrite IH, andb_false_r. reflexivity.
    + simpl. rewrite str_eqb_refl. reflexivity.
  - simpl orb. destruct (mget mm1 x); simpl; [exact IH | rewrite E; exact IH].
Qed.

Lemma options_combined : mem s_OPTIONS COMBINED_METHODS = true.
Proof. vm_compute. reflexivity. Qed.
Lemma options_not_meta : mem s_OPTIONS META_METHODS = false.
Proof. vm_compute. reflexivity. Qed.

(* the method map installed for a route answers exactly as specified, for every method *)
Theorem responder_spec r suffix m :
  mget (set_default_responders (map_methods COMBINED_METHODS r suffix)) m = spec_responder r suffix m.
Proof.
  unfold set_default_responders, spec_responder, implements.
  set (mm0 := map_methods COMBINED_METHODS r suffix).
  fold (allowed_of r suffix).
  assert (H0 : forall k, mget mm0 k =
            if mem k COMBINED_METHODS && has_callable r (responder_name k suffix)
            then Some (RMethod (responder_name k suffix)) else None)
    by (intro k; apply mget_map_methods).
  rewrite (H0 s_OPTIONS), options_combined. simpl andb.
  destruct (has_callable r (responder_name s_OPTIONS suffix)) eqn:HO.
  - (* the resource has its own on_options *)
    rewrite mget_app, H0.
    destruct (mem m COMBINED_METHODS && has_callable r (responder_name m suffix)) eqn:HI; [reflexivity|].
    rewrite mget_na, H0, HI, andb_true_r.
    destruct (str_eqb m s_OPTIONS) eqn:E.
    + apply str_eqb_eq in E. subst m. rewrite options_combined, HO in HI. discriminate.
    + reflexivity.
  - rewrite mget_app, mget_app, H0.
    destruct (mem m COMBINED_METHODS && has_callable r (responder_name m suffix)) eqn:HI; [reflexivity|].
    simpl mget at 1. destruct (str_eqb m s_OPTIONS) eqn:E; [reflexivity|].
    rewrite mget_na, mget_app, H0, HI. simpl mget. rewrite E, andb_true_r. reflexivity.
Qed.

(* ---- sorted() keeps exactly the elements *)
Lemma In_sinsert x y l : In x (sinsert y l) <-> x = y \/ In x l.
Proof.
  induction l as [|z l IH]; simpl; [intuition congruence|].
  destruct (str_ltb z y); simpl; [rewrite IH|]; intuition congruence.
Qed.
Lemma In_ssort x l : In x (ssort l) <-> In x l.
Proof.
  induction l as [|y l IH]; simpl; [tauto|]. rewrite In_sinsert, IH. intuition congruence.
Qed.

Lemma In_map_methods x ms r s :
  In x (map fst (map_methods ms r s)) <-> In x ms /\ has_callable r (responder_name x s) = true.
Proof.
  induction ms as [|m ms IH]; simpl; [tauto|].
  destruct (has_callable r (responder_name m s)) eqn:H; simpl; rewrite IH.
  - split; [intros [<-|[A B]]; auto | intros [[<-|A] B]; auto].
  - split; [intros [A B]; auto | intros [[<-|A] B]; [congruence | auto]].
Qed.

(* the Allow list of the automatic OPTIONS responder: exactly the implemented methods *)
Theorem allowed_exact r suffix x :
  In x (allowed_of r suffix) <-> implements r suffix x = true /\ mem x META_METHODS = false.
Proof.
  unfold allowed_of, implements. rewrite filter_In, In_ssort, In_map_methods, negb_true_iff,
    andb_true_iff, mem_In. tauto.
Qed.

(* the Allow list of a 405: the implemented methods plus OPTIONS *)
Theorem allow_405_exact r suffix m al x :
  spec_responder r suffix m = Some (RNotAllowed al) ->
  (In x al <-> (implements r suffix x = true /\ mem x META_METHODS = false) \/ x = s_OPTIONS).
Proof.
  unfold spec_responder. destruct (implements r suffix m); [discriminate|].
  destruct (str_eqb m s_OPTIONS); [discriminate|].
  destruct (mem m COMBINED_METHODS); [|discriminate].
  destruct (implements r suffix s_OPTIONS) eqn:IO; intro H; injection H as <-.
  - rewrite allowed_exact. split; [tauto|]. intros [A | ->]; [exact A|].
    split; [exact IO | apply options_not_meta].
  - rewrite in_app_iff, allowed_exact. simpl. intuition congruence.
Qed.

#[local] Transparent responder_name.
(* a suffixed route only ever reaches the suffixed attribute of the resource *)
Theorem suffix_isolated r c s m a :
  spec_responder r (Some (c :: s)) m = Some (RMethod a) ->
  a = [111; 110; 95] ++ lower m ++ 95 :: c :: s /\ has_callable r a = true.
Proof.
  unfold spec_responder, implements.
  destruct (mem m COMBINED_METHODS && has_callable r (responder_name m (Some (c :: s)))) eqn:H.
  - intro E. injection E as <-. apply andb_true_iff in H as [_ H]. split; [reflexivity | exact H].
  - destruct (str_eqb m s_OPTIONS); [discriminate|]. destruct (mem m COMBINED_METHODS); discriminate.
Qed.

(* ------------------------------------------------------------------ the fallback tables *)
Fixpoint first_match (l : list fallback) (path : str) : option outcome :=
  match l with
  | [] => None
  | f :: tl => match fb_match f path with Some o => Some o | None => first_match tl path end
  end.

Lemma scan_first l path :
  scan l path = match first_match l path with Some o => o | None => O404 end.
Proof. induction l as [|f l IH]; simpl; [reflexivity|]. destruct (fb_match f path); auto. Qed.

Lemma first_match_app a b path :
  first_match (a ++ b) path =
  match first_match a path with Some o => Some o | None => first_match b path end.
Proof. induction a as [|f a IH]; simpl; [reflexivity|]. destruct (fb_match f path); auto. Qed.

(* the registrations of one kind, in history order *)
Fixpoint regs (want_sink : bool) (ops : list aop) : list fallback :=
  match ops with
  | [] => []
  | AddSink id p :: tl => if want_sink then FSink id p :: regs want_sink tl else regs want_sink tl
  | AddStatic id s :: tl =>
    if negb want_sink && startswith (sr_prefix s) [47] then FStatic id s :: regs want_sink tl
    else regs want_sink tl
  | AddRoute _ _ _ _ :: tl => regs want_sink tl
  end.

(* head insertion + first-match scan = the latest registration that matches *)
Lemma first_match_one f path : first_match [f] path = fb_match f path.
Proof. simpl. destruct (fb_match f path); reflexivity. Qed.

Lemma latest_regs k path ops : forall acc,
  latest ops k path acc =
  match first_match (rev (regs k ops)) path with Some o => Some o | None => acc end.
Proof.
  induction ops as [|o ops IH]; intro acc; [reflexivity|].
  destruct o as [tpl rid r sfx | id p | id s].
  - apply IH.
  - change (latest (AddSink id p :: ops) k path acc) with
      (latest ops k path (if k then match fb_match (FSink id p) path with Some o => Some o | None => acc end
                          else acc)).
    rewrite IH. change (regs k (AddSink id p :: ops)) with
      (if k then FSink id p :: regs k ops else regs k ops).
    destruct k; [|reflexivity].
    change (rev (FSink id p :: regs true ops)) with (rev (regs true ops) ++ [FSink id p]).
    rewrite first_match_app, first_match_one.
    destruct (first_match (rev (regs true ops)) path); reflexivity.
  - change (latest (AddStatic id s :: ops) k path acc) with
      (latest ops k path (if negb k && startswith (sr_prefix s) [47]
                          then match fb_match (FStatic id s) path with Some o => Some o | None => acc end
                          else acc)).
    rewrite IH. change (regs k (AddStatic id s :: ops)) with
      (if negb k && startswith (sr_prefix s) [47] then FStatic id s :: regs k ops else regs k ops).
    destruct (negb k && startswith (sr_prefix s) [47]); [|reflexivity].
    change (rev (FStatic id s :: regs k ops)) with (rev (regs k ops) ++ [FStatic id s]).
    rewrite first_match_app, first_match_one.
    destruct (first_match (rev (regs k ops)) path); reflexivity.
Qed.

Section App.
Variable cinst : str -> option str -> cres.
Variable cmulti : str -> bool.
Notation app_step := (app_step cinst cmulti).
Notation build := (build cinst cmulti).
Notation get_responder := (get_responder cinst cmulti).

Definition run_from (a : app) (ops : list aop) : app := fold_left (fun a o => fst (app_step a o)) ops a.

Lemma step_tables a o :
  a_sinks (fst (app_step a o)) = rev (regs true [o]) ++ a_sinks a /\
  a_statics (fst (app_step a o)) = rev (regs false [o]) ++ a_statics a /\
  a_sbs (fst (app_step a o)) = a_sbs a.
Proof.
  destruct o as [tpl rid r sfx | id p | id s]; simpl.
  - destruct (negb (startswith tpl [47])); [auto|]. destruct (contains tpl [47; 47]); [auto|].
    destruct (map_http_methods r sfx); [|auto].
    destruct (add_route _ _ _ _ _ _ _) as [roots' [|e]]; auto.
  - auto.
  - destruct (startswith (sr_prefix s) [47]); simpl; auto.
Qed.

Lemma regs_cons k o ops : regs k (o :: ops) = regs k [o] ++ regs k ops.
Proof.
  destruct o as [tpl rid r sfx | id p | id s]; simpl; try reflexivity.
  - destruct k; reflexivity.
  - destruct (negb k && startswith (sr_prefix s) [47]); reflexivity.
Qed.

Lemma run_tables ops : forall a,
  a_sinks (run_from a ops) = rev (regs true ops) ++ a_sinks a /\
  a_statics (run_from a ops) = rev (regs false ops) ++ a_statics a /\
  a_sbs (run_from a ops) = a_sbs a.
Proof.
  induction ops as [|o ops IH]; intro a; [simpl; auto|].
  simpl run_from. destruct (IH (fst (app_step a o))) as (A & B & C).
  destruct (step_tables a o) as (A' & B' & C').
  rewrite A, B, C, A', B', C'. rewrite (regs_cons true o ops), (regs_cons false o ops), !rev_app_distr, !app_assoc.
  auto.
Qed.

(* no route matches: the most recently added matching sink / static route in the configured
   order, else 404 — for every history *)
Theorem dispatch_fallback_spec sbs ops method path :
  mem method META_METHODS = false ->
  dfs cinst cmulti (a_roots (build sbs ops)) path = None ->
  get_responder (build sbs ops) method path = spec_fallback sbs ops path.
Proof.
  intros Hm Hd. unfold Model.get_responder. rewrite Hm, Hd.
  unfold sink_and_static, spec_fallback. rewrite !latest_regs.
  destruct (run_tables ops (app0 sbs)) as (A & B & C). unfold Model.build. fold (run_from (app0 sbs) ops).
  rewrite A, B, C. simpl. rewrite !app_nil_r.
  destruct sbs; simpl; rewrite scan_first, first_match_app;
    destruct (first_match (rev (regs _ ops)) path); try reflexivity;
    destruct (first_match (rev (regs _ ops)) path); reflexivity.
Qed.

(* a matching route masks every sink and static route *)
Theorem route_masks_fallbacks a method path rid ps :
  dfs cinst cmulti (a_roots a) path = Some (rid, ps) ->
  match get_responder a method path with
  | OSink _ _ | OStatic _ | O404 => False
  | _ => True
  end.
Proof.
  intro H. unfold Model.get_responder. destruct (mem method META_METHODS); [exact I|]. rewrite H.
  destruct (maps_get (a_maps a) rid) as [mm|]; [|exact I].
  destruct (mget mm method) as [[attr|al|al]|]; exact I.
Qed.

Theorem meta_method_400 a method path :
  mem method META_METHODS = true -> get_responder a method path = O400.
Proof. intro H. unfold Model.get_responder. rewrite H. reflexivity. Qed.

(* every method map in the app is the completed map of a registered resource *)
Definition maps_from (ops : list aop) (a : app) : Prop :=
  forall rid mm, maps_get (a_maps a) rid = Some mm ->
    exists tpl r suffix, In (AddRoute tpl rid r suffix) ops /\
      mm = set_default_responders (map_methods COMBINED_METHODS r suffix).

Lemma step_maps pre a o : maps_from pre a -> maps_from (pre ++ [o]) (fst (app_step a o)).
Proof.
  intros H rid mm G.
  assert (Hold : maps_get (a_maps a) rid = Some mm ->
                 exists tpl r suffix, In (AddRoute tpl rid r suffix) (pre ++ [o]) /\
                   mm = set_default_responders (map_methods COMBINED_METHODS r suffix)).
  { intro G'. destruct (H rid mm G') as (tpl & r & sfx & I1 & I2). exists tpl, r, sfx.
    split; [apply in_or_app; left; exact I1 | exact I2]. }
  destruct o as [tpl rid' r sfx | id p | id s]; simpl in G.
  - destruct (negb (startswith tpl [47])); [auto|]. destruct (contains tpl [47; 47]); [auto|].
    unfold map_http_methods in G.
    destruct (truthy sfx && match map_methods COMBINED_METHODS r sfx with [] => true | _ :: _ => false end); [auto|].
    destruct (add_route _ _ _ _ _ _ _) as [roots' [|e]]; simpl in G; [|auto].
    destruct (N.eqb rid' rid) eqn:E; [|auto].
    apply N.eqb_eq in E. subst rid'. injection G as <-.
    exists tpl, r, sfx. split; [apply in_or_app; right; left; reflexivity | reflexivity].
  - auto.
  - destruct (negb (startswith (sr_prefix s) [47])); simpl in G; auto.
Qed.

Lemma run_maps ops : forall pre a, maps_from pre a -> maps_from (pre ++ ops) (run_from a ops).
Proof.
  induction ops as [|o ops IH]; intros pre a H; simpl; [rewrite app_nil_r; exact H|].
  replace (pre ++ o :: ops) with ((pre ++ [o]) ++ ops) by (rewrite <- app_assoc; reflexivity).
  apply IH, step_maps, H.
Qed.

(* a matching route answers with the resource's responder for the method, a 405 / automatic
   OPTIONS built from exactly its implemented methods, or 400 for an unknown method *)
Theorem route_dispatch sbs ops method path rid ps :
  mem method META_METHODS = false ->
  dfs cinst cmulti (a_roots (build sbs ops)) path = Some (rid, ps) ->
  get_responder (build sbs ops) method path = OBroken \/
  exists tpl r suffix, In (AddRoute tpl rid r suffix) ops /\
    get_responder (build sbs ops) method path =
    match spec_responder r suffix method with
    | Some (RMethod attr) => ORoute rid attr ps
    | Some (ROptions al) => OOptions al
    | Some (RNotAllowed al) => O405 al
    | None => O400
    end.
Proof.
  intros Hm Hd. unfold Model.get_responder. rewrite Hm, Hd.
  destruct (maps_get (a_maps (build sbs ops)) rid) as [mm|] eqn:G; [|left; reflexivity].
  right. pose proof (run_maps ops [] (app0 sbs)) as H. simpl in H.
  destruct (H (fun _ _ E => ltac:(discriminate E)) rid mm G) as (tpl & r & sfx & I1 & ->).
  exists tpl, r, sfx. split; [exact I1|]. rewrite responder_spec. reflexivity.
Qed.

End App.

(* ------------------------------------------------------------------ oracle *)
Lemma strs_eqb_refl l : strs_eqb l l = true.
Proof. induction l; simpl; [reflexivity|]. rewrite str_eqb_refl. assumption. Qed.

Lemma params_eqb_refl p : params_eqb p p = true.
Proof.
  unfold params_eqb. replace (params_same p p) with true; [reflexivity|].
  induction p as [|[k v] p IH]; simpl; [reflexivity|].
  rewrite str_eqb_refl, <- IH. destruct v; simpl; [rewrite str_eqb_refl | rewrite Z.eqb_refl | rewrite str_eqb_refl]; reflexivity.
Qed.

Lemma sgroups_eqb_refl g : sgroups_eqb g g = true.
Proof.
  unfold sgroups_eqb. replace (ssame g g) with true; [reflexivity|].
  induction g as [|[k v] g IH]; simpl; [reflexivity|].
  rewrite str_eqb_refl, <- IH. destruct v; simpl; [rewrite str_eqb_refl|]; reflexivity.
Qed.

Theorem oracle_sound cinst cmulti a method path :
  get_responder cinst cmulti a method path <> OBroken ->
  dispatch_oracle cinst cmulti a method path (get_responder cinst cmulti a method path) = true.
Proof.
  unfold dispatch_oracle. destruct (get_responder cinst cmulti a method path); intro H; simpl;
    rewrite ?N.eqb_refl, ?str_eqb_refl, ?strs_eqb_refl, ?params_eqb_refl, ?sgroups_eqb_refl; try reflexivity.
  contradiction.
Qed.

(* ------------------------------------------------------------------ sink kwargs are complete *)
Lemma gset_keys e n v : In n (map fst e) -> map fst (gset e n v) = map fst e.
Proof.
  induction e as [|[k x] e IH]; simpl; [contradiction|].
  destruct (str_eqb n k) eqn:E; [reflexivity|]. intros [H|H].
  - subst. rewrite str_eqb_refl in E. discriminate.
  - simpl. rewrite IH; auto.
Qed.

Definition keeps (K : list str) (k : str -> sgroups -> option sgroups) : Prop :=
  forall s e g, map fst e = K -> k s e = Some g -> map fst g = K.

Lemma greedy_keys K c s : forall e k g,
  keeps K k -> map fst e = K -> greedy c s e k = Some g -> map fst g = K.
Proof.
  induction s as [|ch s IH]; intros e k g Hk He H; simpl in H; [eapply Hk; eauto|].
  destruct (cls_ok c ch); [|eapply Hk; eauto].
  destruct (greedy c s e k) eqn:G; [injection H as <-; eapply IH; eauto | eapply Hk; eauto].
Qed.

Lemma rmatch_keys K r : forall s e k g,
  (forall n, In n (rx_names r) -> In n K) ->
  keeps K k -> map fst e = K -> rmatch r s e k = Some g -> map fst g = K.
Proof.
  induction r as [l|c q|n r IH|r IH|a IHa b IHb|a IHa b IHb]; intros s e k g Hn Hk He H; simpl in H.
  - destruct (drop_prefix l s); [eapply Hk; eauto | discriminate].
  - destruct q.
    + destruct s as [|ch s]; [discriminate|]. destruct (cls_ok c ch); [eapply Hk; eauto | discriminate].
    + destruct s as [|ch s]; [discriminate|]. destruct (cls_ok c ch); [|discriminate].
      eapply greedy_keys; eauto.
    + eapply greedy_keys; eauto.
  - eapply IH; [| |exact He|exact H].
    + intros m Hm. apply Hn. simpl. right. exact Hm.
    + intros s' e' g' He' Hg'. eapply Hk; [|exact Hg']. rewrite gset_keys; [exact He'|].
      rewrite He'. apply Hn. simpl. left. reflexivity.
  - destruct (rmatch r s e k) eqn:R.
    + injection H as <-. eapply IH; eauto.
    + eapply Hk; eauto.
  - destruct (rmatch a s e k) eqn:R.
    + injection H as <-. eapply IHa; eauto. intros m Hm. apply Hn. simpl. apply in_or_app. left. exact Hm.
    + eapply IHb; eauto. intros m Hm. apply Hn. simpl. apply in_or_app. right. exact Hm.
  - eapply IHa; [| |exact He|exact H].
    + intros m Hm. apply Hn. simpl. apply in_or_app. left. exact Hm.
    + intros s' e' g' He' Hg'. eapply IHb; eauto. intros m Hm. apply Hn. simpl. apply in_or_app. right. exact Hm.
Qed.

(* the kwargs of a sink are ALL named groups of its pattern (non-participating ones as None) *)
Theorem sink_kwargs_complete p path g :
  spat_match p path = Some g -> map fst g = rx_names p.
Proof.
  unfold spat_match. intro H.
  assert (E : map fst (map (fun n : str => (n, @None str)) (rx_names p)) = rx_names p)
    by (rewrite map_map; simpl; apply map_id).
  eapply rmatch_keys in H; [rewrite H; reflexivity | | | exact E].
  - intros n Hn. exact Hn.
  - intros s e g' He Hg. injection Hg as <-. exact He.
Qed.
