(* C02 — every route id the router can return has a method map in the app. *)
From Coq Require Import ZArith NArith List Bool Lia Arith.
From Falcon.lib Require Import PyStr.
From Falcon.gen Require Import Consts.
From Falcon.C01 Require Import Model Spec ProofsCorrect ProofsWf.
From Falcon.C02 Require Import Model Spec Proofs.
Import ListNotations.

Fixpoint rids_n (n : node) : list N :=
  match n with
  | Node _ x ch => match x with Some r => [r] | None => [] end ++ flat_map rids_n ch
  end.
Definition rids_l (l : list node) : list N := flat_map rids_n l.

Lemma rids_n_eq n :
  rids_n n = match res n with Some r => [r] | None => [] end ++ rids_l (children n).
Proof. destruct n; reflexivity. Qed.

Section Inv.
Variable cinst : str -> option str -> cres.
Variable cmulti : str -> bool.

Lemma dfs_pass_in cls l path ps rid ps' :
  dfs_pass cinst cmulti cls l path ps = Some (rid, ps') ->
  exists m, In m l /\ dfs_n cinst cmulti m cls path ps = Some (rid, ps').
Proof.
  induction l as [|m l IH]; simpl; [discriminate|].
  destruct (dfs_n cinst cmulti m cls path ps) as [r|] eqn:E.
  - intro H. injection H as ->. exists m. auto.
  - intro H. destruct (IH H) as (m' & A & B). exists m'. auto.
Qed.

Lemma dfs_level_in l path ps rid ps' :
  dfs_level cinst cmulti l path ps = Some (rid, ps') ->
  exists m cls, In m l /\ dfs_n cinst cmulti m cls path ps = Some (rid, ps').
Proof.
  unfold dfs_level. intro H.
  destruct (dfs_pass cinst cmulti 0 l path ps) as [r|] eqn:E0.
  - injection H as ->. destruct (dfs_pass_in _ _ _ _ _ _ E0) as (m & A & B). eauto.
  - destruct (dfs_pass cinst cmulti 1 l path ps) as [r|] eqn:E1.
    + injection H as ->. destruct (dfs_pass_in _ _ _ _ _ _ E1) as (m & A & B). eauto.
    + destruct (dfs_pass_in _ _ _ _ _ _ H) as (m & A & B). eauto.
Qed.

Lemma height_in m l : In m l -> (height m <= height_l l)%nat.
Proof.
  induction l as [|x l IH]; simpl; [contradiction|]. intros [->|H]; [lia|]. specialize (IH H). lia.
Qed.

Lemma dfs_n_in k : forall n cls path ps rid ps',
  (height n <= k)%nat -> dfs_n cinst cmulti n cls path ps = Some (rid, ps') -> In rid (rids_n n).
Proof.
  induction k as [|k IH]; intros n cls path ps rid ps' Hh H.
  - destruct n; simpl in Hh; lia.
  - destruct path as [|seg rest]; [rewrite dfs_n_nil in H; discriminate|].
    rewrite dfs_n_cons in H. rewrite rids_n_eq.
    destruct (negb _); [discriminate|].
    destruct (bind_node _ _ _ _ _ _ _) as [[ps1 sw]|]; [|discriminate].
    assert (Hres : match res n with Some r => Some (r, ps1) | None => None end = Some (rid, ps') ->
                   In rid (match res n with Some r => [r] | None => [] end ++ rids_l (children n))).
    { destruct (res n); [|discriminate]. intro E. injection E as -> _. left. reflexivity. }
    destruct sw; [auto|]. destruct rest as [|s2 rest2]; [auto|].
    destruct (dfs_level_in _ _ _ _ _ H) as (m & c & A & B).
    apply in_or_app. right. unfold rids_l. apply in_flat_map. exists m. split; [exact A|].
    eapply IH; [|exact B]. pose proof (height_in m _ A) as Hm.
    destruct n as [r x ch]. simpl children in *. change (height (Node r x ch)) with (S (height_l ch)) in Hh. lia.
Qed.

Lemma dfs_in roots uri rid ps : dfs cinst cmulti roots uri = Some (rid, ps) -> In rid (rids_l roots).
Proof.
  unfold dfs. intro H. destruct (dfs_level_in _ _ _ _ _ H) as (m & c & A & B).
  unfold rids_l. apply in_flat_map. exists m. split; [exact A|]. eapply dfs_n_in; [apply Nat.le_refl | exact B].
Qed.

(* insertion only ever adds the new id *)
Lemma insert_rids atomic rid segs : forall nodes nodes' r x,
  insert cmulti atomic rid segs nodes = (nodes', r) -> In x (rids_l nodes') -> x = rid \/ In x (rids_l nodes).
Proof.
  induction segs as [|seg rest IH]; intros nodes nodes' r x H Hin.
  - simpl in H. injection H as <- _. auto.
  - simpl in H.
    match type of H with ?f nodes = _ => set (scan := f) in * end.
    revert nodes' r H Hin. induction nodes as [|n l IHl]; intros nodes' r H Hin.
    + unfold scan in H.
      destruct (is_complex (parse_seg seg) && has_cmp cmulti (parse_seg seg)); [injection H as <- _; auto|].
      destruct rest as [|s2 rest2].
      * injection H as <- _. simpl in Hin. destruct Hin as [<-|[]]. auto.
      * destruct (has_cmp cmulti (parse_seg seg)); [injection H as <- _; auto|].
        destruct (insert cmulti atomic rid (s2 :: rest2) []) as [ch r0] eqn:I.
        assert (Hch : In x (rids_l ch) -> x = rid \/ In x (rids_l [])) by (apply (IH _ _ _ _ I)).
        destruct r0 as [|e0]; [|destruct atomic]; injection H as <- _; auto;
          unfold rids_l in Hin; simpl in Hin; rewrite app_nil_r in Hin; destruct (Hch Hin) as [?|[]]; auto.
    + unfold scan in H. fold scan in H.
      unfold rids_l in *. simpl flat_map in *.
      destruct (str_eqb seg (raw n)).
      * destruct rest as [|s2 rest2].
        -- injection H as <- _. simpl in Hin. destruct Hin as [<-|Hin]; [auto|].
           right. apply in_or_app. apply in_app_or in Hin as [Hin|Hin]; [left | right; exact Hin].
           rewrite rids_n_eq. apply in_or_app. right. exact Hin.
        -- destruct (has_cmp cmulti (parse_seg (raw n))); [injection H as <- _; auto|].
           destruct (insert cmulti atomic rid (s2 :: rest2) (children n)) as [ch r0] eqn:I.
           injection H as <- _. simpl in Hin. rewrite <- app_assoc in Hin.
           apply in_app_or in Hin as [Hin|Hin].
           ++ right. apply in_or_app. left. rewrite rids_n_eq. apply in_or_app. left. exact Hin.
           ++ apply in_app_or in Hin as [Hin|Hin].
              ** destruct (IH _ _ _ _ I Hin) as [?|Hc]; [auto|]. right. apply in_or_app. left.
                 rewrite rids_n_eq. apply in_or_app. right. exact Hc.
              ** right. apply in_or_app. right. exact Hin.
      * destruct (conflicts (raw n) seg); [injection H as <- _; auto|].
        destruct (scan l) as [tl' r0] eqn:SC. injection H as <- _. simpl in Hin.
        apply in_app_or in Hin as [Hin|Hin]; [right; apply in_or_app; left; exact Hin|].
        destruct (IHl _ _ eq_refl Hin) as [?|Hc]; [auto | right; apply in_or_app; right; exact Hc].
Qed.

Lemma add_route_rids strict atomic roots tpl rid roots' r x :
  add_route cinst cmulti strict atomic roots tpl rid = (roots', r) ->
  In x (rids_l roots') -> x = rid \/ In x (rids_l roots).
Proof.
  unfold add_route. intros H Hin. destruct (has_ws tpl); [injection H as <- _; auto|].
  destruct (validate_segs cinst strict (segs_of tpl) []); [|injection H as <- _; auto].
  eapply insert_rids; eauto.
Qed.

(* the app invariant *)
Definition maps_cover (a : app) : Prop :=
  forall x, In x (rids_l (a_roots a)) -> maps_get (a_maps a) x <> None.

Lemma step_cover a o : maps_cover a -> maps_cover (fst (app_step cinst cmulti a o)).
Proof.
  intros H. destruct o as [tpl rid r sfx | id p | id s]; simpl.
  - destruct (negb (startswith tpl [47%N])); [exact H|]. destruct (contains tpl [47%N; 47%N]); [exact H|].
    destruct (map_http_methods r sfx); [|exact H].
    destruct (add_route cinst cmulti true true (a_roots a) tpl rid) as [roots' [|e]] eqn:A; simpl.
    + intros x Hx. simpl in *. destruct (add_route_rids _ _ _ _ _ _ _ _ A Hx) as [->|Hin].
      * rewrite N.eqb_refl. discriminate.
      * destruct (N.eqb rid x); [discriminate | apply H; exact Hin].
    + intros x Hx. simpl in *. apply H. destruct (add_route_rids _ _ _ _ _ _ _ _ A Hx) as [->|Hin]; [|exact Hin].
      apply (add_route_reject_unchanged cinst cmulti) in A. subst roots'. exact Hx.
  - exact H.
  - destruct (negb (startswith (sr_prefix s) [47%N])); exact H.
Qed.

Lemma build_cover sbs ops : maps_cover (build cinst cmulti sbs ops).
Proof.
  unfold build. assert (H : maps_cover (app0 sbs)) by (intros x []).
  revert H. generalize (app0 sbs). induction ops as [|o ops IH]; intros a H; simpl; [exact H|].
  apply IH, step_cover, H.
Qed.

(* a matched route yields exactly the outcome of spec_responder for the resource registered
   under the matched id *)
Theorem route_dispatch_full sbs ops method path rid ps :
  mem method META_METHODS = false ->
  dfs cinst cmulti (a_roots (build cinst cmulti sbs ops)) path = Some (rid, ps) ->
  exists tpl r suffix, In (AddRoute tpl rid r suffix) ops /\
    get_responder cinst cmulti (build cinst cmulti sbs ops) method path =
    match spec_responder r suffix method with
    | Some (RMethod attr) => ORoute rid attr ps
    | Some (ROptions al) => OOptions al
    | Some (RNotAllowed al) => O405 al
    | None => O400
    end.
Proof.
  intros Hm Hd. destruct (route_dispatch cinst cmulti sbs ops method path rid ps Hm Hd) as [Hb|H]; [|exact H].
  exfalso. unfold get_responder in Hb. rewrite Hm, Hd in Hb.
  pose proof (build_cover sbs ops rid (dfs_in _ _ _ _ Hd)) as Hc.
  destruct (maps_get (a_maps (build cinst cmulti sbs ops)) rid) as [mm|]; [|contradiction].
  destruct (mget mm method) as [[a|al|al]|]; discriminate.
Qed.

Theorem never_broken sbs ops method path :
  get_responder cinst cmulti (build cinst cmulti sbs ops) method path <> OBroken.
Proof.
  unfold get_responder. destruct (mem method META_METHODS); [discriminate|].
  destruct (dfs cinst cmulti (a_roots (build cinst cmulti sbs ops)) path) as [[rid ps]|] eqn:Hd.
  - pose proof (build_cover sbs ops rid (dfs_in _ _ _ _ Hd)) as Hc.
    destruct (maps_get (a_maps (build cinst cmulti sbs ops)) rid) as [mm|]; [|contradiction].
    destruct (mget mm method) as [[a|al|al]|]; discriminate.
  - generalize (sink_and_static (build cinst cmulti sbs ops)). intro l.
    induction l as [|f l IH]; simpl; [discriminate|].
    destruct f as [id p | id s]; simpl.
    + destruct (spat_match p path); [discriminate | exact IH].
    + destruct (static_match s path); [discriminate | exact IH].
Qed.

End Inv.
