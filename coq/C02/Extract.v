From Coq Require Import ZArith NArith List Bool.
From Coq Require Import ExtrOcamlBasic.
From Falcon.lib Require Import Wire PyStr.
From Falcon.C01 Require Import Model Spec.
From Falcon.C02 Require Import Model Spec.
Import ListNotations.
Open Scope Z_scope.

Definition d_cls (v : val) : cls :=
  match dZ v with 0 => CDigit | 1 => CLower | 2 => CNotSlash | _ => CAny end.
Definition d_quant (v : val) : quant :=
  match dZ v with 0 => QOne | 1 => QPlus | _ => QStar end.
(* [0; s] literal  [1; cls; quant]  [2; name; r]  [3; r] optional  [4; a; b] alternation  [5; a; b] sequence *)
Fixpoint d_rx (v : val) : rx :=
  match v with
  | L [I 0; s] => RLit (dstr s)
  | L [I 1; c; q] => RCls (d_cls c) (d_quant q)
  | L [I 2; n; r] => RNamed (dstr n) (d_rx r)
  | L [I 3; r] => ROpt (d_rx r)
  | L [I 4; a; b] => RAlt (d_rx a) (d_rx b)
  | L [I 5; a; b] => RSeq (d_rx a) (d_rx b)
  | _ => RLit []
  end.

Definition d_aop (v : val) : aop :=
  match v with
  | L [I 0; tpl; rid; attrs; suffix] =>
    AddRoute (dstr tpl) (dN rid) (dlist (fun a => (dstr (nth_val 0 a), dbool (nth_val 1 a))) attrs)
             (dopt dstr suffix)
  | L [I 1; id; p] => AddSink (dN id) (d_rx p)
  | L [I 2; id; prefix; fb] => AddStatic (dN id) {| sr_prefix := dstr prefix; sr_fallback := dbool fb |}
  | _ => AddSink 0%N (RLit [])
  end.

Definition v_value (x : value) : val :=
  match x with VStr s => L [I 0; vstr s] | VInt z => L [I 1; I z] | VOther s => L [I 2; vstr s] end.
Definition v_params (p : params) : val := vlist (vpair vstr v_value) p.
Definition v_groups (g : sgroups) : val := vlist (vpair vstr (vopt vstr)) g.

Definition v_outcome (o : outcome) : val :=
  match o with
  | ORoute rid attr kw => L [I 0; vN rid; vstr attr; v_params kw]
  | OOptions al => L [I 1; vlist vstr al]
  | O405 al => L [I 2; vlist vstr al]
  | O400 => L [I 3]
  | OSink id g => L [I 4; vN id; v_groups g]
  | OStatic id => L [I 5; vN id]
  | O404 => L [I 6]
  | OBroken => L [I 7]
  end.

Definition d_value (v : val) : value :=
  match v with
  | L [I 1; I z] => VInt z
  | L [I 2; s] => VOther (dstr s)
  | L [I _; s] => VStr (dstr s)
  | _ => VStr []
  end.
Definition d_outcome (v : val) : outcome :=
  match v with
  | L [I 0; rid; attr; kw] =>
    ORoute (dN rid) (dstr attr) (dlist (fun p => (dstr (nth_val 0 p), d_value (nth_val 1 p))) kw)
  | L [I 1; al] => OOptions (dlist dstr al)
  | L [I 2; al] => O405 (dlist dstr al)
  | L [I 3] => O400
  | L [I 4; id; g] => OSink (dN id) (dlist (fun p => (dstr (nth_val 0 p), dopt dstr (nth_val 1 p))) g)
  | L [I 5; id] => OStatic (dN id)
  | L [I 6] => O404
  | _ => OBroken
  end.

Definition v_ares (r : ares) : val :=
  match r with
  | AOk => I 0 | AErrValue => I 1 | AErrSuffix => I 2
  | AErrRoute _ => I 3
  end.

Fixpoint run_ops (a : app) (ops : list aop) : app * list val :=
  match ops with
  | [] => (a, [])
  | o :: tl =>
    let '(a', r) := app_step std_cinst std_multi a o in
    let '(a'', rs) := run_ops a' tl in
    (a'', v_ares r :: rs)
  end.

(* [0; sbs; ops; queries]: queries are [method; path; observed outcome] *)
Definition run (v : val) : val :=
  match v with
  | L [I 0; sbs; L ops; L qs] =>
    let '(a, rs) := run_ops (app0 (dbool sbs)) (map d_aop ops) in
    L [L rs;
       L (map (fun q =>
                 let m := dstr (nth_val 0 q) in
                 let p := dstr (nth_val 1 q) in
                 L [v_outcome (get_responder std_cinst std_multi a m p);
                    vbool (dispatch_oracle std_cinst std_multi a m p (d_outcome (nth_val 2 q)));
                    v_outcome (match dfs std_cinst std_multi (a_roots a) p with
                               | Some _ => O400
                               | None => spec_fallback (dbool sbs) (map d_aop ops) p
                               end);
                    (* the route the request is dispatched to, if any (meta methods are refused
                       before routing) *)
                    (if mem m Falcon.gen.Consts.META_METHODS then L []
                     else match dfs std_cinst std_multi (a_roots a) p with
                          | Some (rid, _) => L [vN rid]
                          | None => L []
                          end)]) qs)]
  | _ => L [I (-1)]
  end.

Extraction "C02/model.ml" run.
