(* C02 — executable model of request dispatch: falcon/app.py (_get_responder, add_route,
   add_sink, add_static_route, _update_sink_and_static_routes), falcon/routing/util.py
   (map_http_methods, set_default_responders), falcon/responders.py, StaticRoute.match.
   Route lookup is C01's model (the tree of add_route and its depth-first walk). *)
From Coq Require Import ZArith NArith List Bool Lia.
From Falcon.lib Require Import PyStr.
From Falcon.gen Require Import Consts.
From Falcon.C01 Require Import Model Spec.
Import ListNotations.
Open Scope N_scope.

(* ---- resources and method maps (routing/util.py) *)

(* a resource = its attribute names with "is it callable" *)
Definition resource := list (str * bool).

Inductive responder :=
| RMethod (attr : str)              (* the resource's own on_* attribute *)
| ROptions (allowed : list str)     (* responders.create_default_options(allowed) *)
| RNotAllowed (allowed : list str). (* responders.create_method_not_allowed(allowed) *)

Definition method_map := list (str * responder).

Fixpoint mget (m : method_map) (k : str) : option responder :=
  match m with
  | [] => None
  | (k', v) :: tl => if str_eqb k k' then Some v else mget tl k
  end.

Definition truthy (s : option str) : bool := match s with Some (_ :: _) => true | _ => false end.

(* 'on_' + method.lower() [+ '_' + suffix] *)
Definition responder_name (method : str) (suffix : option str) : str :=
  [111; 110; 95] ++ lower method
  ++ match suffix with Some (c :: s) => 95 :: c :: s | _ => [] end.

Fixpoint has_callable (r : resource) (name : str) : bool :=
  match r with
  | [] => false
  | (a, c) :: tl => if str_eqb name a then c else has_callable tl name   (* getattr finds the attribute; callable()? *)
  end.

Fixpoint map_methods (methods : list str) (r : resource) (suffix : option str) : method_map :=
  match methods with
  | [] => []
  | m :: tl =>
    let name := responder_name m suffix in
    if has_callable r name then (m, RMethod name) :: map_methods tl r suffix
    else map_methods tl r suffix
  end.

(* None = SuffixedMethodNotFoundError *)
Definition map_http_methods (r : resource) (suffix : option str) : option method_map :=
  let mm := map_methods COMBINED_METHODS r suffix in
  if truthy suffix && match mm with [] => true | _ => false end then None else Some mm.

(* sorted(): insertion sort on the code-point order of str *)
Fixpoint str_ltb (a b : str) : bool :=
  match a, b with
  | [], [] => false
  | [], _ :: _ => true
  | _ :: _, [] => false
  | x :: a', y :: b' => if x <? y then true else if y <? x then false else str_ltb a' b'
  end.
Fixpoint sinsert (x : str) (l : list str) : list str :=
  match l with
  | [] => [x]
  | y :: tl => if str_ltb y x then y :: sinsert x tl else x :: l
  end.
Fixpoint ssort (l : list str) : list str :=
  match l with [] => [] | x :: tl => sinsert x (ssort tl) end.

Definition s_OPTIONS : str := [79; 80; 84; 73; 79; 78; 83].

Definition set_default_responders (mm : method_map) : method_map :=
  let allowed := filter (fun m => negb (mem m META_METHODS)) (ssort (map fst mm)) in
  let '(mm1, allowed1) :=
    match mget mm s_OPTIONS with
    | Some _ => (mm, allowed)
    | None => (mm ++ [(s_OPTIONS, ROptions allowed)], allowed ++ [s_OPTIONS])
    end in
  mm1 ++ flat_map (fun m => match mget mm1 m with
                            | Some _ => []
                            | None => [(m, RNotAllowed allowed1)]
                            end) COMBINED_METHODS.

(* ---- sinks and static routes *)

(* a sink prefix pattern: re.compile(p).match(path) for p in a small regular-expression
   language — literals, the classes \d [a-z] [^/] . with quantifier one / + / * (greedy),
   named groups, optional groups (?:r)?, alternation (?:a|b), sequence.  The result is
   m.groupdict(): EVERY named group of the pattern, None for those that did not take part. *)
Inductive cls := CDigit | CLower | CNotSlash | CAny.
Inductive quant := QOne | QPlus | QStar.
Inductive rx :=
| RLit (s : str)
| RCls (c : cls) (q : quant)
| RNamed (name : str) (r : rx)
| ROpt (r : rx)
| RAlt (a b : rx)
| RSeq (a b : rx).

Definition cls_ok (c : cls) (ch : N) : bool :=
  match c with
  | CDigit => isdigit ch
  | CLower => (97 <=? ch) && (ch <=? 122)
  | CNotSlash => negb (ch =? 47)
  | CAny => negb (ch =? 10)
  end.

Definition sgroups := list (str * option str).

Fixpoint gset (e : sgroups) (name : str) (v : option str) : sgroups :=
  match e with
  | [] => [(name, v)]
  | (k, x) :: tl => if str_eqb name k then (k, v) :: tl else (k, x) :: gset tl name v
  end.

Fixpoint rx_names (r : rx) : list str :=
  match r with
  | RLit _ | RCls _ _ => []
  | RNamed n r' => n :: rx_names r'
  | ROpt r' => rx_names r'
  | RAlt a b => rx_names a ++ rx_names b
  | RSeq a b => rx_names a ++ rx_names b
  end.

Fixpoint drop_prefix (p s : str) : option str :=
  match p, s with
  | [], _ => Some s
  | x :: p', y :: s' => if x =? y then drop_prefix p' s' else None
  | _ :: _, [] => None
  end.

(* c* greedy with backtracking, then the continuation *)
Fixpoint greedy (c : cls) (s : str) (e : sgroups) (k : str -> sgroups -> option sgroups) {struct s}
  : option sgroups :=
  match s with
  | ch :: s' =>
    if cls_ok c ch then match greedy c s' e k with Some x => Some x | None => k s e end
    else k s e
  | [] => k s e
  end.

(* backtracking matcher in continuation-passing style; first success in Python's order *)
Fixpoint rmatch (r : rx) (s : str) (e : sgroups) (k : str -> sgroups -> option sgroups) {struct r}
  : option sgroups :=
  match r with
  | RLit l => match drop_prefix l s with Some s' => k s' e | None => None end
  | RCls c QOne => match s with ch :: s' => if cls_ok c ch then k s' e else None | [] => None end
  | RCls c QStar => greedy c s e k
  | RCls c QPlus =>
    match s with ch :: s' => if cls_ok c ch then greedy c s' e k else None | [] => None end
  | RNamed n r' =>
    rmatch r' s e (fun s' e' => k s' (gset e' n (Some (firstn (length s - length s') s))))
  | ROpt r' => match rmatch r' s e k with Some x => Some x | None => k s e end
  | RAlt a b => match rmatch a s e k with Some x => Some x | None => rmatch b s e k end
  | RSeq a b => rmatch a s e (fun s' e' => rmatch b s' e' k)
  end.

Definition spat_match (p : rx) (path : str) : option sgroups :=
  rmatch p path (map (fun n => (n, None)) (rx_names p)) (fun _ e => Some e).

(* StaticRoute: prefix as given, has fallback_filename *)
Record sroute := { sr_prefix : str; sr_fallback : bool }.
Definition ends_slash (s : str) : bool :=
  match unsnoc s with Some (_, l) => l =? 47 | None => false end.
Definition norm_prefix (p : str) : str := if ends_slash p then p else p ++ [47].
Definition all_but_last (s : str) : str := match unsnoc s with Some (a, _) => a | None => [] end.
Definition static_match (s : sroute) (path : str) : bool :=
  let p := norm_prefix (sr_prefix s) in
  startswith path p || (sr_fallback s && str_eqb path (all_but_last p)).

Inductive fallback :=
| FSink (id : N) (p : rx)
| FStatic (id : N) (s : sroute).

(* ---- the app *)
Record app := { a_roots : list node;                 (* the router's tree (C01) *)
                a_maps : list (N * method_map);      (* node.method_map by route id *)
                a_sinks : list fallback;             (* self._sinks (head = latest) *)
                a_statics : list fallback;           (* self._static_routes *)
                a_sbs : bool }.                      (* sink_before_static_route *)

Definition app0 (sbs : bool) : app :=
  {| a_roots := []; a_maps := []; a_sinks := []; a_statics := []; a_sbs := sbs |}.

Inductive aop :=
| AddRoute (tpl : str) (rid : N) (r : resource) (suffix : option str)
| AddSink (id : N) (p : rx)
| AddStatic (id : N) (s : sroute).

Inductive ares := AOk | AErrValue | AErrSuffix | AErrRoute (e : err).

Fixpoint contains_dslash (s : str) : bool :=
  match s with
  | 47 :: ((47 :: _) as tl) => true
  | _ :: tl => contains_dslash tl
  | [] => false
  end.

Section App.
Variable cinst : str -> option str -> cres.
Variable cmulti : str -> bool.

Definition app_step (a : app) (o : aop) : app * ares :=
  match o with
  | AddRoute tpl rid r suffix =>
    (* App.add_route: template checks, then router.add_route: method map, then the tree *)
    if negb (startswith tpl [47]) then (a, AErrValue)
    else if contains (tpl) [47; 47] then (a, AErrValue)
    else
      match map_http_methods r suffix with
      | None => (a, AErrSuffix)
      | Some mm =>
        let mm' := set_default_responders mm in
        let '(roots', x) := add_route cinst cmulti true true (a_roots a) tpl rid in
        match x with
        | IOk => ({| a_roots := roots'; a_maps := (rid, mm') :: a_maps a; a_sinks := a_sinks a;
                     a_statics := a_statics a; a_sbs := a_sbs a |}, AOk)
        | IErr e => ({| a_roots := roots'; a_maps := a_maps a; a_sinks := a_sinks a;
                        a_statics := a_statics a; a_sbs := a_sbs a |}, AErrRoute e)
        end
      end
  | AddSink id p =>
    ({| a_roots := a_roots a; a_maps := a_maps a; a_sinks := FSink id p :: a_sinks a;
        a_statics := a_statics a; a_sbs := a_sbs a |}, AOk)
  | AddStatic id s =>
    if negb (startswith (sr_prefix s) [47]) then (a, AErrValue)
    else ({| a_roots := a_roots a; a_maps := a_maps a; a_sinks := a_sinks a;
             a_statics := FStatic id s :: a_statics a; a_sbs := a_sbs a |}, AOk)
  end.

Definition build (sbs : bool) (ops : list aop) : app :=
  fold_left (fun a o => fst (app_step a o)) ops (app0 sbs).

(* _update_sink_and_static_routes *)
Definition sink_and_static (a : app) : list fallback :=
  if a_sbs a then a_sinks a ++ a_statics a else a_statics a ++ a_sinks a.

Inductive outcome :=
| ORoute (rid : N) (attr : str) (kw : params)   (* the resource's responder runs with kwargs *)
| OOptions (allowed : list str)                 (* default OPTIONS responder: 200 + Allow *)
| O405 (allowed : list str)                     (* HTTPMethodNotAllowed(allowed) *)
| O400                                          (* meta method / method outside COMBINED_METHODS *)
| OSink (id : N) (kw : sgroups)                  (* the sink runs with m.groupdict() as kwargs *)
| OStatic (id : N)
| O404
| OBroken.                                      (* a matched route without a method map: unreachable *)

Definition fb_match (f : fallback) (path : str) : option outcome :=
  match f with
  | FSink id p => match spat_match p path with Some g => Some (OSink id g) | None => None end
  | FStatic id s => if static_match s path then Some (OStatic id) else None
  end.

Fixpoint scan (l : list fallback) (path : str) : outcome :=
  match l with
  | [] => O404
  | f :: tl => match fb_match f path with Some o => o | None => scan tl path end
  end.

Fixpoint maps_get (l : list (N * method_map)) (rid : N) : option method_map :=
  match l with
  | [] => None
  | (k, v) :: tl => if N.eqb k rid then Some v else maps_get tl rid
  end.

(* App.__call__ up to the responder: meta methods are refused before routing; then
   _get_responder *)
Definition get_responder (a : app) (method path : str) : outcome :=
  if mem method META_METHODS then O400
  else
    match dfs cinst cmulti (a_roots a) path with
    | Some (rid, ps) =>
      match maps_get (a_maps a) rid with
      | None => OBroken
      | Some mm =>
        match mget mm method with
        | Some (RMethod attr) => ORoute rid attr ps
        | Some (ROptions al) => OOptions al
        | Some (RNotAllowed al) => O405 al
        | None => O400                                  (* KeyError -> bad_request *)
        end
      end
    | None => scan (sink_and_static a) path
    end.

End App.

(* executable converter table of a default router, as far as C01 models it *)
Definition std_cinst (cn : str) (arg : option str) : cres :=
  match arg with
  | Some _ => CFail
  | None =>
    if str_eqb cn [112; 97; 116; 104] then COk CPath
    else if str_eqb cn [105; 110; 116] then COk (CInt None None None)
    else CUnknown
  end.
Definition std_multi (cn : str) : bool := str_eqb cn [112; 97; 116; 104].
