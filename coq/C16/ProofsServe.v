(* C16 — the responder as a whole *)
From Coq Require Import ZArith NArith List Bool Lia.
From Falcon.lib Require Import PyStr.
From Falcon.C16 Require Import Model Spec ProofsRange ProofsPath.
Import ListNotations.
Open Scope Z_scope.

Definition file_of (r : response) : option str :=
  match r with
  | R304 f | R200 f _ | R206 f _ _ _ | R416 f _ => Some f
  | _ => None
  end.

Definition has_fb (rt : route) : bool := match r_fallback rt with Some _ => true | None => false end.

(* which file the responder opens for a request that passes the sanitiser *)
Definition opened_file (rt : route) (files : fs) (fp : str) : option (str * (Z * mtime)) :=
  match fs_get files fp with
  | Some v => Some (fp, v)
  | None => match r_fallback rt with
            | Some fb => match fs_get files fb with Some v => Some (fb, v) | None => None end
            | None => None
            end
  end.

(* what is answered once a file has been opened: dates first, then the range *)
Definition answer (file : str) (size : Z) (mt : mtime) (ims : ims_hdr) (rng : range_hdr) : response :=
  match ims with
  | IInvalid => R400
  | _ =>
    if not_modified mt (ims_time ims) then R304 file
    else match rng with
         | RInvalid => R400
         | _ => resp_of file (set_range size (range_arg rng))
         end
  end.

(* the order of evaluation: sanitise -> open / fallback -> dates -> range *)
Lemma serve_unfold rt files path ims rng :
  serve rt files false path ims rng =
  match sanitize (length (r_prefix rt)) (has_fb rt) (r_dir rt) path with
  | None => R404
  | Some fp =>
    match opened_file rt files fp with
    | None => R404
    | Some (file, (size, mt)) => answer file size mt ims rng
    end
  end.
Proof.
  unfold serve, opened_file, has_fb, answer, not_modified. cbn [negb].
  destruct (sanitize _ _ _ _) as [fp|]; [|reflexivity].
  destruct (fs_get files fp) as [[sz mt]|].
  - destruct ims as [| |t]; try reflexivity; cbn [ims_time];
      (match goal with |- context [if ?b then _ else _] => destruct b end; [reflexivity|]);
      destruct rng; try reflexivity; cbn [range_arg]; destruct (set_range _ _); reflexivity.
  - destruct (r_fallback rt) as [fb|]; [|reflexivity].
    destruct (fs_get files fb) as [[sz mt]|]; [|reflexivity].
    destruct ims as [| |t]; try reflexivity; cbn [ims_time];
      (match goal with |- context [if ?b then _ else _] => destruct b end; [reflexivity|]);
      destruct rng; try reflexivity; cbn [range_arg]; destruct (set_range _ _); reflexivity.
Qed.

Lemma file_of_resp_of f r : file_of (resp_of f r) = Some f.
Proof. destruct r; reflexivity. Qed.

Lemma file_of_answer file size mt ims rng f :
  file_of (answer file size mt ims rng) = Some f -> f = file.
Proof.
  unfold answer. destruct ims as [| |t]; try discriminate;
    (destruct (not_modified mt _); [intros [= <-]; reflexivity|]);
    destruct rng; try discriminate; rewrite file_of_resp_of; intros [= <-]; reflexivity.
Qed.

(* the only files ever opened: inside the directory, or the configured fallback *)
Theorem serve_opens_inside rt files opt path ims rng f :
  file_of (serve rt files opt path ims rng) = Some f ->
  may_open (r_dir rt) (r_fallback rt) f = true.
Proof.
  destruct opt; [discriminate|]. rewrite serve_unfold.
  destruct (sanitize _ _ _ _) as [fp|] eqn:S; [|discriminate].
  pose proof (static_containment _ _ _ _ _ S) as IN.
  unfold opened_file. unfold may_open.
  destruct (fs_get files fp) as [[sz mt]|].
  - intro H. apply file_of_answer in H. subst f. rewrite IN. reflexivity.
  - destruct (r_fallback rt) as [fb|]; [|discriminate].
    destruct (fs_get files fb) as [[sz mt]|]; [|discriminate].
    intro H. apply file_of_answer in H. subst f. rewrite str_eqb_refl. apply orb_true_r.
Qed.

(* the candidate path itself is always inside the directory, whatever exists on disk *)
Theorem candidate_inside rt path fp :
  sanitize (length (r_prefix rt)) (has_fb rt) (r_dir rt) path = Some fp -> inside (r_dir rt) fp = true.
Proof. apply static_containment. Qed.

(* ANYTHING ELSE IS A 404, WHATEVER HEADERS THE REQUEST CARRIES: a path the sanitiser rejects, or
   whose candidate (and fallback) cannot be opened, is answered 404 for every If-Modified-Since
   (absent, valid, malformed) and every Range (absent, valid, other unit, malformed): the
   headers are not evaluated before a file has been opened *)
Theorem rejected_is_404_whatever_headers rt files path :
  sanitize (length (r_prefix rt)) (has_fb rt) (r_dir rt) path = None ->
  forall ims rng, serve rt files false path ims rng = R404.
Proof. intros H ims rng. rewrite serve_unfold, H. reflexivity. Qed.

Theorem missing_is_404_whatever_headers rt files path fp :
  sanitize (length (r_prefix rt)) (has_fb rt) (r_dir rt) path = Some fp ->
  opened_file rt files fp = None ->
  forall ims rng, serve rt files false path ims rng = R404.
Proof. intros S O ims rng. rewrite serve_unfold, S, O. reflexivity. Qed.

(* conversely a 404 never depends on the headers: it is decided by the path and the files *)
Theorem not_found_independent_of_headers rt files path ims rng ims' rng' :
  serve rt files false path ims rng = R404 -> serve rt files false path ims' rng' = R404.
Proof.
  rewrite !serve_unfold. destruct (sanitize _ _ _ _) as [fp|]; [|reflexivity].
  destruct (opened_file rt files fp) as [[f [sz mt]]|]; [|reflexivity].
  unfold answer. destruct ims as [| |t]; try discriminate;
    (destruct (not_modified mt _); [discriminate|]);
    destruct rng; try discriminate; destruct (set_range _ _); discriminate.
Qed.

Theorem rejected_is_404 rt files path ims rng :
  sanitize (length (r_prefix rt)) (has_fb rt) (r_dir rt) path = None ->
  serve rt files false path ims rng = R404.
Proof. intro H. apply rejected_is_404_whatever_headers. exact H. Qed.

(* for a file that is opened, the headers are evaluated in this order: a malformed
   If-Modified-Since is a 400; else not-modified is a 304; else a malformed Range is a 400;
   else the RFC 9110 expectation for the size and the parsed Range *)
Theorem serve_response_ok rt files path ims rng r f size mtime fp :
  rng_ok rng = true -> 0 <= size ->
  sanitize (length (r_prefix rt)) (has_fb rt) (r_dir rt) path = Some fp ->
  opened_file rt files fp = Some (f, (size, mtime)) ->
  serve rt files false path ims rng = r ->
  (ims = IInvalid /\ r = R400) \/
  (exists t, ims = IDate t /\ mtime_sec mtime <= t /\ r = R304 f) \/
  (ims <> IInvalid /\ rng = RInvalid /\ r = R400) \/
  (ims <> IInvalid /\ file_of r = Some f /\ response_ok size rng r = true).
Proof.
  intros OK Hs S O H. rewrite serve_unfold, S, O in H. unfold answer, not_modified in H.
  destruct ims as [| |t]; cbn [ims_time] in H.
  - right. right. destruct rng; subst r;
      try (right; split; [discriminate | split; [apply file_of_resp_of | apply response_ok_sound; assumption]]).
    left. repeat split; discriminate || reflexivity.
  - left. split; [reflexivity | symmetry; exact H].
  - destruct (Z.leb_spec (mtime_sec mtime) t).
    + right. left. exists t. repeat split; [assumption | symmetry; exact H].
    + right. right. destruct rng; subst r;
        try (right; split; [discriminate | split; [apply file_of_resp_of | apply response_ok_sound; assumption]]).
      left. repeat split; discriminate || reflexivity.
Qed.

(* 304 exactly when If-Modified-Since is a date and the file is not newer (whole seconds) *)
Theorem not_modified_iff rt files path ims rng fp f size mtime :
  sanitize (length (r_prefix rt)) (has_fb rt) (r_dir rt) path = Some fp ->
  opened_file rt files fp = Some (f, (size, mtime)) ->
  (serve rt files false path ims rng = R304 f <-> exists t, ims = IDate t /\ mtime_sec mtime <= t).
Proof.
  intros S O. rewrite serve_unfold, S, O. unfold answer, not_modified. split.
  - destruct ims as [| |t]; cbn [ims_time].
    + destruct rng; try discriminate; destruct (set_range _ _); discriminate.
    + discriminate.
    + destruct (Z.leb_spec (mtime_sec mtime) t); [intros _; exists t; split; [reflexivity | assumption]|].
      destruct rng; try discriminate; destruct (set_range _ _); discriminate.
  - intros (t & -> & L). cbn [ims_time]. destruct (Z.leb_spec (mtime_sec mtime) t); [reflexivity | lia].
Qed.

(* ... stated with the oracle the harness evaluates *)
Theorem not_modified_oracle rt files path ims rng fp f size mtime :
  sanitize (length (r_prefix rt)) (has_fb rt) (r_dir rt) path = Some fp ->
  opened_file rt files fp = Some (f, (size, mtime)) ->
  (serve rt files false path ims rng = R304 f <-> not_modified mtime (ims_time ims) = true).
Proof.
  intros S O. rewrite (not_modified_iff _ _ _ _ rng _ _ _ _ S O). unfold not_modified. split.
  - intros (t & -> & L). apply Z.leb_le. exact L.
  - destruct ims as [| |t]; try discriminate. cbn [ims_time]. intro L. exists t.
    split; [reflexivity | apply Z.leb_le; exact L].
Qed.

(* a malformed If-Modified-Since on a file that is opened: 400 (evaluated before the range) *)
Theorem malformed_date_is_400 rt files path rng fp f size mtime :
  sanitize (length (r_prefix rt)) (has_fb rt) (r_dir rt) path = Some fp ->
  opened_file rt files fp = Some (f, (size, mtime)) ->
  serve rt files false path IInvalid rng = R400.
Proof. intros S O. rewrite serve_unfold, S, O. reflexivity. Qed.

(* a range unit other than "bytes" is ignored *)
Theorem other_unit_ignored rt files opt path ims :
  serve rt files opt path ims ROther = serve rt files opt path ims RAbsent.
Proof. reflexivity. Qed.

(* OPTIONS never touches the file system *)
Theorem options_opens_nothing rt files path ims rng :
  file_of (serve rt files true path ims rng) = None.
Proof. reflexivity. Qed.

(* ================= headers of a served file, the fallback branch ================= *)
Open Scope N_scope.

Lemma last_in {A} (l : list A) d : l <> [] -> In (last l d) l.
Proof.
  induction l as [|x l IH]; intro H; [contradiction|].
  destruct l as [|y l']; [left; reflexivity|]. right. apply IH. discriminate.
Qed.

Lemma join_last sep (l : list str) : l <> [] -> exists pre, join_chr sep l = pre ++ last l [].
Proof.
  induction l as [|x l IH]; intro H; [contradiction|].
  destruct l as [|y l'].
  - exists []. reflexivity.
  - destruct (IH ltac:(discriminate)) as [pre E].
    exists (x ++ sep :: pre).
    change (join_chr sep (x :: y :: l')) with (x ++ sep :: join_chr sep (y :: l')).
    rewrite E. change (last (x :: y :: l') []) with (last (y :: l') []).
    rewrite <- app_assoc. reflexivity.
Qed.

(* os.path.basename: a suffix of the path without any '/' *)
Theorem basename_no_slash p : ~ In SLASH (basename p).
Proof.
  unfold basename. eapply split_chr_no_sep. apply last_in. apply split_chr_nonempty.
Qed.

Theorem basename_suffix p : exists pre, p = pre ++ basename p.
Proof.
  unfold basename. destruct (join_last SLASH (split_chr SLASH p) (split_chr_nonempty _ _)) as [pre E].
  rewrite join_split_chr in E. exists pre. exact E.
Qed.

Lemma join_snoc sep (l : list str) e : l <> [] -> join_chr sep (l ++ [e]) = join_chr sep l ++ sep :: e.
Proof.
  induction l as [|x l IH]; intro H; [contradiction|].
  destruct l as [|y l'].
  - reflexivity.
  - change ((x :: y :: l') ++ [e]) with (x :: (y :: l') ++ [e]).
    change (join_chr sep (x :: (y :: l') ++ [e])) with (x ++ sep :: join_chr sep ((y :: l') ++ [e])).
    rewrite IH by discriminate.
    change (join_chr sep (x :: y :: l')) with (x ++ sep :: join_chr sep (y :: l')).
    rewrite <- app_assoc. reflexivity.
Qed.

(* os.path.splitext(p)[1]: empty, or ".e" -- a suffix of the base name with no further dot *)
Theorem splitext_shape p :
  splitext_ext p = [] \/
  exists pre e, splitext_ext p = DOT :: e /\ basename p = pre ++ DOT :: e /\ pre <> [] /\
                ~ In DOT e /\ ~ In SLASH e.
Proof.
  unfold splitext_ext.
  destruct (rev (split_chr DOT (basename p))) as [|e front] eqn:R; [left; reflexivity|].
  destruct front as [|f front']; [left; reflexivity|].
  destruct (existsb nonempty (f :: front')) eqn:NE; [|left; reflexivity].
  right. exists (join_chr DOT (rev (f :: front'))), e. split; [reflexivity|].
  assert (SP : split_chr DOT (basename p) = rev (f :: front') ++ [e]).
  { rewrite <- (rev_involutive (split_chr DOT (basename p))), R. reflexivity. }
  assert (NR : rev (f :: front') <> []).
  { intro E. apply (f_equal (@length _)) in E. rewrite rev_length in E. discriminate. }
  split.
  - rewrite <- (join_split_chr DOT (basename p)) at 1. rewrite SP. apply join_snoc. exact NR.
  - split.
    + (* some component before the last dot is non-empty, so the joined prefix is *)
      apply existsb_exists in NE as (c & Hc & Nc).
      intro E. assert (IN : In c (rev (f :: front'))) by (apply in_rev in Hc || apply -> in_rev; exact Hc).
      pose proof (contains_join DOT c _ IN) as CJ. rewrite E in CJ.
      destruct c; [discriminate|]. cbn in CJ. discriminate.
    + assert (IE : In e (split_chr DOT (basename p))) by (rewrite SP; apply in_or_app; right; left; reflexivity).
      split; [eapply split_chr_no_sep; exact IE|].
      intro S. apply (basename_no_slash p). eapply split_chr_sub; eassumption.
Qed.

(* exact-match lookup with a default *)
Theorem content_type_default types f :
  types_get types (splitext_ext f) = None -> content_type_of types f = s_octet_stream.
Proof. unfold content_type_of. intros ->. reflexivity. Qed.

Theorem disposition_iff rt f n :
  disposition_of rt f = Some n <-> r_downloadable rt = true /\ n = basename f.
Proof.
  unfold disposition_of. destruct (r_downloadable rt); split.
  - intros [= <-]. split; reflexivity.
  - intros [_ ->]. reflexivity.
  - discriminate.
  - intros [E _]. discriminate.
Qed.

(* the headers are those of the file that is served: of the fallback when it is served *)
Theorem served_headers_of_file rt types r :
  served_headers rt types r =
  match r with
  | R200 _ _ | R206 _ _ _ _ =>
    match file_of r with
    | Some f => Some (content_type_of types f, disposition_of rt f)
    | None => None
    end
  | _ => None
  end.
Proof. destruct r; reflexivity. Qed.

(* THE FALLBACK BRANCH.  For a request that passes the sanitiser (candidate fp): the fallback
   file is the one opened exactly when the candidate is not a regular file and a fallback is
   configured (and exists); a path the sanitiser rejects is a 404 even with a fallback
   (rejected_is_404).  The empty remainder ("/static/" and, through match, "/static") passes
   the sanitiser only with a fallback and its candidate "dir/." is never a regular file. *)
Theorem fallback_opened_iff rt files fp fb v :
  r_fallback rt = Some fb ->
  (opened_file rt files fp = Some (fb, v) /\ fs_get files fp = None <->
   fs_get files fp = None /\ fs_get files fb = Some v).
Proof.
  intro FB. unfold opened_file. rewrite FB. split.
  - intros [O N]. rewrite N in O. destruct (fs_get files fb) as [w|]; [|discriminate].
    injection O as <-. split; [exact N | reflexivity].
  - intros [N E]. rewrite N, E. split; reflexivity.
Qed.

Theorem no_fallback_configured rt files fp :
  r_fallback rt = None -> opened_file rt files fp = match fs_get files fp with Some v => Some (fp, v) | None => None end.
Proof. intro FB. unfold opened_file. rewrite FB. destruct (fs_get files fp); reflexivity. Qed.

Theorem candidate_preferred rt files fp v :
  fs_get files fp = Some v -> opened_file rt files fp = Some (fp, v).
Proof. intro E. unfold opened_file. rewrite E. reflexivity. Qed.

(* at the level of responses: a served file is the candidate (which then exists) or the
   configured fallback (and then the candidate does not exist) *)
Theorem served_file_is_candidate_or_fallback rt files path ims rng f :
  file_of (serve rt files false path ims rng) = Some f ->
  exists fp, sanitize (length (r_prefix rt)) (has_fb rt) (r_dir rt) path = Some fp /\
    ((f = fp /\ fs_get files fp <> None) \/ (r_fallback rt = Some f /\ fs_get files fp = None)).
Proof.
  rewrite serve_unfold. destruct (sanitize _ _ _ _) as [fp|] eqn:S; [|discriminate].
  intro H. exists fp. split; [reflexivity|].
  assert (OF : exists v, opened_file rt files fp = Some (f, v)).
  { destruct (opened_file rt files fp) as [[f0 [sz mt]]|]; [|discriminate].
    exists (sz, mt). f_equal. f_equal. symmetry. eapply file_of_answer. exact H. }
  destruct OF as [v OF]. unfold opened_file in OF.
  destruct (fs_get files fp) as [w|] eqn:G.
  - injection OF as <- <-. left. split; [reflexivity | discriminate].
  - destruct (r_fallback rt) as [fb|]; [|discriminate].
    destruct (fs_get files fb); [|discriminate]. injection OF as <- <-. right. split; reflexivity.
Qed.

(* the empty remainder: accepted by the sanitiser iff a fallback is configured, and its
   candidate is the directory itself *)
Theorem empty_remainder rt :
  sanitize (length (r_prefix rt)) (has_fb rt) (r_dir rt) (r_prefix rt) =
  if has_fb rt && negb (contains (dir_slash (r_dir rt) ++ dot) dotdot)
               && startswith (dir_slash (r_dir rt) ++ dot) (r_dir rt)
  then Some (dir_slash (r_dir rt) ++ dot) else None.
Proof.
  unfold sanitize. rewrite skipn_all. cbn [nonempty orb negb].
  destruct (has_fb rt); [|reflexivity]. cbn.
  destruct (contains (dir_slash (r_dir rt) ++ dot) dotdot); [reflexivity|].
  destruct (startswith (dir_slash (r_dir rt) ++ dot) (r_dir rt)); reflexivity.
Qed.

(* ================= truncation of the modification time ================= *)
Open Scope Z_scope.
Ltac Zify.zify_post_hook ::= Z.div_mod_to_equations.

(* the sub-second part of the modification time never matters: not modified since t iff the
   file was last modified before second t+1 began *)
Theorem mtime_truncation m t : 0 < snd m -> (mtime_sec m <= t <-> fst m < (t + 1) * snd m).
Proof. unfold mtime_sec. destruct m as [n d]. cbn [fst snd]. intro H. nia. Qed.

(* Last-Modified is never later than the modification time, and less than a second earlier *)
Theorem last_modified_bounds m : 0 < snd m ->
  last_modified m * snd m <= fst m < (last_modified m + 1) * snd m.
Proof. unfold last_modified, mtime_sec. destruct m as [n d]. cbn [fst snd]. intro H. nia. Qed.

(* the code as found rounded to the microsecond first: 1600000000.9999996 became second
   1600000001, so If-Modified-Since = 1600000000 (the file's own second) answered 200 *)
Theorem mtime_as_found_refuted :
  exists m t, 0 < snd m /\ mtime_sec m <= t /\ ~ (mtime_sec_as_found m <= t).
Proof.
  exists (16000000009999996, 10000000), 1600000000. vm_compute.
  split; [reflexivity|]. split; [discriminate|]. intro H. apply H. reflexivity.
Qed.
