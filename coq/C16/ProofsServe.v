(* C16 — the responder as a whole *)
From Coq Require Import ZArith NArith List Bool Lia.
From Falcon.lib Require Import PyStr.
From Falcon.C16 Require Import Model Spec ProofsRange ProofsPath.
Import ListNotations.
Open Scope Z_scope.

Definition file_of (r : response) : option str :=
  match r with
  | R304 f | R200 f _ | R206 f _ _ _ | R416 f _ => Some f
  | _ => None
  end.

Definition has_fb (rt : route) : bool := match r_fallback rt with Some _ => true | None => false end.

(* which file the responder opens for a request that passes the sanitiser *)
Definition opened_file (rt : route) (files : fs) (fp : str) : option (str * (Z * Z)) :=
  match fs_get files fp with
  | Some v => Some (fp, v)
  | None => match r_fallback rt with
            | Some fb => match fs_get files fb with Some v => Some (fb, v) | None => None end
            | None => None
            end
  end.

Lemma serve_unfold rt files path ims rng :
  serve rt files false path ims rng =
  match sanitize (length (r_prefix rt)) (has_fb rt) (r_dir rt) path with
  | None => R404
  | Some fp =>
    match opened_file rt files fp with
    | None => R404
    | Some (file, (size, mtime)) =>
      if match ims with Some t => mtime <=? t | None => false end then R304 file
      else match rng with
           | RInvalid => R400
           | _ => resp_of file (set_range size (range_arg rng))
           end
    end
  end.
Proof.
  unfold serve, opened_file, has_fb. cbn [negb].
  destruct (sanitize _ _ _ _) as [fp|]; [|reflexivity].
  destruct (fs_get files fp) as [[sz mt]|].
  - destruct (match ims with Some t => mt <=? t | None => false end); [reflexivity|].
    destruct rng; try reflexivity; cbn [range_arg]; destruct (set_range _ _); reflexivity.
  - destruct (r_fallback rt) as [fb|]; [|reflexivity].
    destruct (fs_get files fb) as [[sz mt]|]; [|reflexivity].
    destruct (match ims with Some t => mt <=? t | None => false end); [reflexivity|].
    destruct rng; try reflexivity; cbn [range_arg]; destruct (set_range _ _); reflexivity.
Qed.

Lemma file_of_resp_of f r : file_of (resp_of f r) = Some f.
Proof. destruct r; reflexivity. Qed.

(* the only files ever opened: inside the directory, or the configured fallback *)
Theorem serve_opens_inside rt files opt path ims rng f :
  file_of (serve rt files opt path ims rng) = Some f ->
  may_open (r_dir rt) (r_fallback rt) f = true.
Proof.
  destruct opt; [discriminate|]. rewrite serve_unfold.
  destruct (sanitize _ _ _ _) as [fp|] eqn:S; [|discriminate].
  pose proof (static_containment _ _ _ _ _ S) as IN.
  unfold opened_file. unfold may_open.
  destruct (fs_get files fp) as [[sz mt]|].
  - intro H. assert (f = fp) as ->; [|rewrite IN; reflexivity].
    destruct (match ims with Some t => mt <=? t | None => false end); [injection H as <-; reflexivity|].
    destruct rng; try discriminate; rewrite file_of_resp_of in H; injection H as <-; reflexivity.
  - destruct (r_fallback rt) as [fb|]; [|discriminate].
    destruct (fs_get files fb) as [[sz mt]|]; [|discriminate].
    intro H. assert (f = fb) as ->; [|rewrite str_eqb_refl; apply orb_true_r].
    destruct (match ims with Some t => mt <=? t | None => false end); [injection H as <-; reflexivity|].
    destruct rng; try discriminate; rewrite file_of_resp_of in H; injection H as <-; reflexivity.
Qed.

(* the candidate path itself is always inside the directory, whatever exists on disk *)
Theorem candidate_inside rt path fp :
  sanitize (length (r_prefix rt)) (has_fb rt) (r_dir rt) path = Some fp -> inside (r_dir rt) fp = true.
Proof. apply static_containment. Qed.

(* anything the sanitiser rejects is a 404 and opens nothing *)
Theorem rejected_is_404 rt files path ims rng :
  sanitize (length (r_prefix rt)) (has_fb rt) (r_dir rt) path = None ->
  serve rt files false path ims rng = R404.
Proof. intro H. rewrite serve_unfold, H. reflexivity. Qed.

(* a served file obeys the RFC 9110 expectation for its size and the parsed Range *)
Theorem serve_response_ok rt files path ims rng r f size mtime fp :
  rng_ok rng = true -> 0 <= size ->
  sanitize (length (r_prefix rt)) (has_fb rt) (r_dir rt) path = Some fp ->
  opened_file rt files fp = Some (f, (size, mtime)) ->
  serve rt files false path ims rng = r ->
  (exists t, ims = Some t /\ mtime <= t /\ r = R304 f) \/
  (rng = RInvalid /\ r = R400) \/
  (file_of r = Some f /\ response_ok size rng r = true).
Proof.
  intros OK Hs S O H. rewrite serve_unfold, S, O in H.
  destruct ims as [t|].
  - destruct (Z.leb_spec mtime t).
    + left. exists t. repeat split; [assumption | symmetry; exact H].
    + right. destruct rng; subst r; try (right; split; [apply file_of_resp_of | apply response_ok_sound; assumption]).
      left. split; reflexivity.
  - right. destruct rng; subst r; try (right; split; [apply file_of_resp_of | apply response_ok_sound; assumption]).
    left. split; reflexivity.
Qed.

(* 304 only when the file is not newer than If-Modified-Since; it carries no body *)
Theorem not_modified_iff rt files path ims rng fp f size mtime :
  sanitize (length (r_prefix rt)) (has_fb rt) (r_dir rt) path = Some fp ->
  opened_file rt files fp = Some (f, (size, mtime)) ->
  (serve rt files false path ims rng = R304 f <-> exists t, ims = Some t /\ mtime <= t).
Proof.
  intros S O. rewrite serve_unfold, S, O. split.
  - destruct ims as [t|].
    + destruct (Z.leb_spec mtime t); [intros _; exists t; split; [reflexivity | assumption]|].
      destruct rng; try discriminate; destruct (set_range _ _); discriminate.
    + destruct rng; try discriminate; destruct (set_range _ _); discriminate.
  - intros (t & -> & L). destruct (Z.leb_spec mtime t); [reflexivity | lia].
Qed.

(* ... stated with the oracle the harness evaluates *)
Theorem not_modified_oracle rt files path ims rng fp f size mtime :
  sanitize (length (r_prefix rt)) (has_fb rt) (r_dir rt) path = Some fp ->
  opened_file rt files fp = Some (f, (size, mtime)) ->
  (serve rt files false path ims rng = R304 f <-> not_modified mtime ims = true).
Proof.
  intros S O. rewrite (not_modified_iff _ _ _ _ rng _ _ _ _ S O). unfold not_modified. split.
  - intros (t & -> & L). apply Z.leb_le. exact L.
  - destruct ims as [t|]; [|discriminate]. intro L. exists t. split; [reflexivity | apply Z.leb_le; exact L].
Qed.

(* a range unit other than "bytes" is ignored *)
Theorem other_unit_ignored rt files opt path ims :
  serve rt files opt path ims ROther = serve rt files opt path ims RAbsent.
Proof. reflexivity. Qed.

(* OPTIONS never touches the file system *)
Theorem options_opens_nothing rt files path ims rng :
  file_of (serve rt files true path ims rng) = None.
Proof. reflexivity. Qed.
