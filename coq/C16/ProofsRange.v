(* C16 — range arithmetic of _set_range against RFC 9110, _BoundedFile.read *)
From Coq Require Import ZArith NArith List Bool Lia.
From Falcon.lib Require Import PyStr.
From Falcon.C16 Require Import Model Spec.
Import ListNotations.
Open Scope Z_scope.

Ltac zb :=
  repeat match goal with
  | |- context [?a =? ?b] => destruct (Z.eqb_spec a b)
  | |- context [?a <? ?b] => destruct (Z.ltb_spec a b)
  | |- context [?a <=? ?b] => destruct (Z.leb_spec a b)
  | |- context [?a >=? ?b] => destruct (Z.geb_spec a b)
  | H : context [?a =? ?b] |- _ => destruct (Z.eqb_spec a b)
  | H : context [?a <? ?b] |- _ => destruct (Z.ltb_spec a b)
  | H : context [?a <=? ?b] |- _ => destruct (Z.leb_spec a b)
  | H : context [?a >=? ?b] |- _ => destruct (Z.geb_spec a b)
  end; cbn [andb orb negb] in *.

(* _set_range computes exactly the RFC 9110 resolution of a valid single range *)
Theorem set_range_rfc size r :
  0 < size -> spec_valid r = true ->
  set_range size (Some (encode r)) =
  match rfc_resolve size r with
  | Some (s, e) => Slice s (e - s + 1) (s, e, size)
  | None => Unsat size
  end.
Proof.
  intros Hs V. destruct r as [a b|a|n]; unfold set_range, encode, rfc_resolve, spec_valid in *.
  - zb; try lia; try discriminate; try reflexivity.
  - zb; try lia; try discriminate; try reflexivity; f_equal; lia.
  - zb; try lia; try discriminate.
    destruct (Z.max_spec (- n) (- size)) as [[? ->] | [? ->]];
    destruct (Z.max_spec 0 (size - n)) as [[? ->] | [? ->]]; try lia;
    f_equal; try lia; f_equal; try lia; f_equal; lia.
Qed.

(* a satisfiable range is served as the exact slice: 0 <= s <= e < size, length e-s+1,
   seek position s, Content-Range (s, e, size), with (s, e) the RFC resolution *)
Theorem range_slice_exact size r seek n s e sz :
  0 < size -> spec_valid r = true ->
  set_range size (Some (encode r)) = Slice seek n (s, e, sz) ->
  rfc_resolve size r = Some (s, e) /\ 0 <= s <= e /\ e < size /\ n = e - s + 1 /\ seek = s /\ sz = size.
Proof.
  intros Hs V H. rewrite (set_range_rfc size r Hs V) in H.
  destruct (rfc_resolve size r) as [[s0 e0]|] eqn:R; [|discriminate].
  injection H as <- <- <- <- <-. split; [reflexivity|].
  destruct r as [a b|a|m]; unfold rfc_resolve, spec_valid in *; zb; try discriminate;
    injection R as <- <-; lia.
Qed.

(* 416 exactly when the first byte position is at or beyond the end of the file *)
Theorem range_unsat_iff size r :
  0 < size -> spec_valid r = true ->
  (set_range size (Some (encode r)) = Unsat size <->
   match r with FromTo a _ | From a => size <= a | Suffix _ => False end).
Proof.
  intros Hs V. rewrite (set_range_rfc size r Hs V).
  destruct r as [a b|a|m]; unfold rfc_resolve; zb; split; intro HH; try lia; try discriminate;
    try reflexivity; try contradiction.
Qed.

(* a zero-byte file ignores Range and is served whole *)
Theorem empty_file_ignores_range rr : set_range 0 rr = Whole 0.
Proof. destruct rr as [[a b]|]; reflexivity. Qed.

Theorem no_range_whole size : set_range size None = Whole size.
Proof. reflexivity. Qed.

Lemma decode_encode r : spec_valid r = true -> decode (fst (encode r)) (snd (encode r)) = Some r.
Proof.
  destruct r as [a b|a|n]; unfold decode, encode, spec_valid; cbn [fst snd]; intro V; zb;
    try lia; try discriminate; try reflexivity.
  f_equal. f_equal. lia.
Qed.

Lemma decode_valid a b r : decode a b = Some r -> spec_valid r = true /\ encode r = (a, b).
Proof.
  unfold decode. intro H. zb; try discriminate; injection H as <-; unfold spec_valid, encode; zb;
    try lia; split; try reflexivity; try (f_equal; lia).
Qed.

Definition rng_ok (rng : range_hdr) : bool :=
  match rng with RBytes a b => match decode a b with Some _ => true | None => false end | _ => true end.

Definition resp_of (file : str) (r : ranged) : response :=
  match r with Whole n => R200 file n | Slice s n cr => R206 file s n cr | Unsat sz => R416 file sz end.

Definition range_arg (rng : range_hdr) : option (Z * Z) :=
  match rng with RBytes a b => Some (a, b) | _ => None end.

(* the oracle accepts what the model answers for every file size and every Range outcome *)
Theorem response_ok_sound file size rng :
  0 <= size -> rng_ok rng = true ->
  response_ok size rng (resp_of file (set_range size (range_arg rng))) = true.
Proof.
  intros Hs OK. unfold response_ok, expect.
  destruct rng as [| | |a b]; cbn [range_arg]; try (cbn; apply Z.eqb_refl).
  destruct (Z.eqb_spec size 0) as [->|NZ]; [cbn; reflexivity|].
  unfold rng_ok in OK. destruct (decode a b) as [r|] eqn:D; [|discriminate].
  destruct (decode_valid _ _ _ D) as [V E]. rewrite <- E.
  rewrite (set_range_rfc size r ltac:(lia) V).
  destruct (rfc_resolve size r) as [[s e]|]; cbn [resp_of].
  - rewrite !Z.eqb_refl. reflexivity.
  - apply Z.eqb_refl.
Qed.

(* ---- _BoundedFile: any sequence of reads yields a prefix of the permitted slice, never
   more than [length] bytes in total *)
Fixpoint bf_run (sizes : list (option Z)) (st : list N * Z) : list N * (list N * Z) :=
  match sizes with
  | [] => ([], st)
  | s :: tl => let '(d, st1) := bf_read s st in
               let '(ds, st2) := bf_run tl st1 in (d ++ ds, st2)
  end.

Lemma firstn_firstn_app {A} (l : list A) a b :
  firstn a l ++ firstn b (skipn a l) = firstn (a + b) l.
Proof.
  revert l. induction a as [|a IH]; intros l; [reflexivity|].
  destruct l as [|x l]; [cbn; rewrite firstn_nil; reflexivity|].
  cbn. rewrite IH. reflexivity.
Qed.

Lemma skipn_add {A} (l : list A) a b : skipn b (skipn a l) = skipn (a + b) l.
Proof.
  revert l. induction a as [|a IH]; intros l; [reflexivity|].
  destruct l as [|x l]; [cbn; rewrite skipn_nil; reflexivity|]. cbn. apply IH.
Qed.

Theorem bounded_file_prefix : forall sizes rest remaining out rest' remaining',
  0 <= remaining ->
  bf_run sizes (rest, remaining) = (out, (rest', remaining')) ->
  exists k, out = firstn k rest /\ rest' = skipn k rest /\ (Z.of_nat k <= remaining)%Z /\
            remaining' = remaining - Z.of_nat (length out) /\ 0 <= remaining'.
Proof.
  induction sizes as [|s tl IH]; intros rest remaining out rest' remaining' Hr H.
  - injection H as <- <- <-. exists 0%nat. cbn. repeat split; try lia.
  - cbn [bf_run] in H. destruct (bf_read s (rest, remaining)) as [d [r1 m1]] eqn:B.
    destruct (bf_run tl (r1, m1)) as [ds [r2 m2]] eqn:R. injection H as <- <- <-.
    unfold bf_read in B.
    set (n := match s with None => remaining | Some s0 => if s0 <? 0 then remaining else Z.min s0 remaining end) in *.
    assert (Hn : n <= remaining /\ (0 <= n \/ True)).
    { unfold n. destruct s as [s0|]; [destruct (Z.ltb_spec s0 0)|]; lia. }
    injection B as <- <- <-.
    assert (L : Z.of_nat (length (firstn (Z.to_nat n) rest)) <= Z.max 0 n).
    { rewrite firstn_length. lia. }
    assert (M0 : 0 <= remaining - Z.of_nat (length (firstn (Z.to_nat n) rest))) by lia.
    destruct (IH _ _ _ _ _ M0 R) as (k & E1 & E2 & E3 & E4 & E5).
    exists (Nat.min (Z.to_nat n) (length rest) + k)%nat.
    assert (F : firstn (Z.to_nat n) rest = firstn (Nat.min (Z.to_nat n) (length rest)) rest).
    { destruct (Nat.le_ge_cases (Z.to_nat n) (length rest)).
      - rewrite Nat.min_l by assumption. reflexivity.
      - rewrite Nat.min_r by assumption. rewrite !firstn_all2 by lia. reflexivity. }
    assert (S : skipn (Z.to_nat n) rest = skipn (Nat.min (Z.to_nat n) (length rest)) rest).
    { destruct (Nat.le_ge_cases (Z.to_nat n) (length rest)).
      - rewrite Nat.min_l by assumption. reflexivity.
      - rewrite Nat.min_r by assumption. rewrite !skipn_all2 by lia. reflexivity. }
    split; [rewrite E1, F, S; apply firstn_firstn_app|].
    split; [rewrite E2, S; apply skipn_add|].
    rewrite app_length. rewrite firstn_length in *. repeat split; lia.
Qed.
