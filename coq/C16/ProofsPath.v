(* C16 — containment: every candidate path of the sanitiser is lexically inside the directory *)
From Coq Require Import ZArith NArith List Bool Lia.
From Falcon.lib Require Import PyStr.
From Falcon.gen Require Import ConstsC16.
From Falcon.C16 Require Import Model Spec.
Import ListNotations.
Open Scope N_scope.

Lemma skipn_app_len_ {A} (a b : list A) : skipn (length a) (a ++ b) = b.
Proof. induction a; simpl; [reflexivity | assumption]. Qed.

(* ---- substring test *)
Lemma startswith_refl s : startswith s s = true.
Proof. apply startswith_app. exists []. rewrite app_nil_r. reflexivity. Qed.

Lemma startswith_app_l s p r : startswith s p = true -> startswith (s ++ r) p = true.
Proof.
  intro H. apply startswith_app in H as [t ->]. apply startswith_app. exists (t ++ r).
  rewrite app_assoc. reflexivity.
Qed.

Lemma startswith_self_app d n : startswith (d ++ n) d = true.
Proof. apply startswith_app. exists n. reflexivity. Qed.

Lemma contains_app_r a b p : contains b p = true -> contains (a ++ b) p = true.
Proof.
  intro H. induction a as [|x a IH]; [exact H|].
  cbn [app contains]. rewrite IH. apply orb_true_r.
Qed.

Lemma contains_app_l a b p : contains a p = true -> contains (a ++ b) p = true.
Proof.
  revert b. induction a as [|x a IH]; intros b H.
  - cbn [contains] in H. rewrite orb_false_r in H.
    destruct p; [destruct b; reflexivity | discriminate].
  - cbn [app contains] in *. apply orb_true_iff in H as [H | H].
    + change (x :: a ++ b) with ((x :: a) ++ b). rewrite (startswith_app_l _ _ _ H). reflexivity.
    + rewrite (IH b H). apply orb_true_r.
Qed.

Lemma contains_refl s : contains s s = true.
Proof. destruct s; cbn [contains]; rewrite startswith_refl; reflexivity. Qed.

Lemma contains_join sep c comps : In c comps -> contains (join_chr sep comps) c = true.
Proof.
  induction comps as [|x tl IH]; intro H; [contradiction|].
  destruct tl as [|y tl'].
  - destruct H as [-> | []]. cbn. apply contains_refl.
  - change (join_chr sep (x :: y :: tl')) with (x ++ sep :: join_chr sep (y :: tl')).
    destruct H as [-> | H].
    + apply contains_app_l. apply contains_refl.
    + apply contains_app_r. change (sep :: join_chr sep (y :: tl')) with ([sep] ++ join_chr sep (y :: tl')).
      apply contains_app_r. apply IH. exact H.
Qed.

(* ---- split / join *)
Lemma split_chr_no_sep sep : forall s c, In c (split_chr sep s) -> ~ In sep c.
Proof.
  induction s as [|x tl IH]; intros c H.
  - cbn in H. destruct H as [<- | []]. intros [].
  - cbn [split_chr] in H. destruct (N.eqb_spec x sep).
    + destruct H as [<- | H]; [intros [] | apply IH; exact H].
    + pose proof (split_chr_nonempty sep tl) as NE.
      destruct (split_chr sep tl) as [|h t] eqn:S; [contradiction|].
      destruct H as [<- | H].
      * intros [E | E]; [congruence | apply (IH h); [left; reflexivity | exact E]].
      * apply IH. right. exact H.
Qed.

Lemma split_chr_sub sep : forall s c x, In c (split_chr sep s) -> In x c -> In x s.
Proof.
  induction s as [|y tl IH]; intros c x H Hx.
  - cbn in H. destruct H as [<- | []]. destruct Hx.
  - cbn [split_chr] in H. destruct (N.eqb_spec y sep).
    + destruct H as [<- | H]; [destruct Hx | right; eapply IH; eassumption].
    + pose proof (split_chr_nonempty sep tl) as NE.
      destruct (split_chr sep tl) as [|h t] eqn:S; [contradiction|].
      destruct H as [<- | H].
      * destruct Hx as [<- | Hx]; [left; reflexivity | right; apply (IH h); [left; reflexivity | exact Hx]].
      * right. apply (IH c); [right; exact H | exact Hx].
Qed.

Lemma split_nosep sep x : ~ In sep x -> split_chr sep x = [x].
Proof.
  induction x as [|a x IH]; intro H; [reflexivity|].
  cbn [split_chr]. destruct (N.eqb_spec a sep); [exfalso; apply H; left; assumption|].
  rewrite IH; [reflexivity|]. intro E. apply H. right. exact E.
Qed.

Lemma split_app_sep sep x r : ~ In sep x -> split_chr sep (x ++ sep :: r) = x :: split_chr sep r.
Proof.
  induction x as [|a x IH]; intro H.
  - cbn [app split_chr]. rewrite N.eqb_refl. reflexivity.
  - cbn [app split_chr]. destruct (N.eqb_spec a sep); [exfalso; apply H; left; assumption|].
    rewrite IH; [reflexivity|]. intro E. apply H. right. exact E.
Qed.

Lemma split_join sep comps :
  comps <> [] -> Forall (fun c => ~ In sep c) comps -> split_chr sep (join_chr sep comps) = comps.
Proof.
  induction comps as [|x tl IH]; intros NE F; [contradiction|].
  inversion F as [|? ? Fx Ftl]; subst.
  destruct tl as [|y tl'].
  - cbn. apply split_nosep. exact Fx.
  - change (join_chr sep (x :: y :: tl')) with (x ++ sep :: join_chr sep (y :: tl')).
    rewrite split_app_sep by exact Fx. rewrite IH; [reflexivity | discriminate | exact Ftl].
Qed.

(* ---- normpath *)
Lemma np_fold_in is : forall comps acc c,
  In c (np_fold is comps acc) ->
  In c acc \/ (In c comps /\ c <> [] /\ c <> dot).
Proof.
  induction comps as [|x tl IH]; intros acc c H; [left; exact H|].
  cbn [np_fold] in H.
  destruct (str_eqb x []) eqn:E1; cbn [orb] in H.
  - destruct (IH _ _ H) as [A | (A & B)]; [left; exact A | right; split; [right; exact A | exact B]].
  - destruct (str_eqb x dot) eqn:E2.
    + destruct (IH _ _ H) as [A | (A & B)]; [left; exact A | right; split; [right; exact A | exact B]].
    + apply str_eqb_neq in E1, E2.
      match type of H with context [if ?b then _ else _] => destruct b end.
      * destruct (IH _ _ H) as [[<- | A] | (A & B)].
        -- right. split; [left; reflexivity | split; assumption].
        -- left. exact A.
        -- right. split; [right; exact A | exact B].
      * destruct acc as [|h r].
        -- destruct (IH _ _ H) as [[] | (A & B)]. right. split; [right; exact A | exact B].
        -- destruct (IH _ _ H) as [A | (A & B)]; [left; right; exact A|].
           right. split; [right; exact A | exact B].
Qed.

(* the shape of a normalised path that does not start with a slash *)
Lemma normpath_shape p :
  startswith (normpath p) [SLASH] = false ->
  normpath p = dot \/
  exists comps, comps <> [] /\ normpath p = join_chr SLASH comps /\
    Forall (fun c => In c (split_chr SLASH p) /\ c <> [] /\ c <> dot) comps.
Proof.
  unfold normpath. destruct p as [|x p']; [left; reflexivity|].
  set (p := x :: p') in *. intro H.
  destruct (initial_slashes p) as [|k] eqn:K.
  - cbn [Nat.eqb negb repeat app] in *.
    set (comps := rev (np_fold false (split_chr SLASH p) [])) in *.
    destruct (join_chr SLASH comps) as [|y r] eqn:J; [left; reflexivity|].
    right. exists comps. split; [|split; [symmetry; exact J|]].
    + intro E. rewrite E in J. discriminate.
    + apply Forall_forall. intros c Hc. unfold comps in Hc. apply in_rev in Hc.
      destruct (np_fold_in _ _ _ _ Hc) as [[] | A]. exact A.
  - exfalso. cbn [Nat.eqb negb repeat app] in H.
    match type of H with startswith ?s _ = false =>
      assert (T : startswith s [SLASH] = true) by (apply startswith_app; eexists; reflexivity) end.
    rewrite T in H. discriminate.
Qed.

(* ---- tables regenerated from the code *)
Lemma slash_prefix_disallowed n :
  existsb (startswith n) static_disallowed_prefixes = false -> startswith n [SLASH] = false.
Proof.
  intro H. destruct (startswith n [SLASH]) eqn:E; [|reflexivity].
  assert (In [SLASH] static_disallowed_prefixes) by (vm_compute; tauto).
  rewrite (proj2 (existsb_exists _ _)) in H; [discriminate|]. exists [SLASH]. split; assumption.
Qed.

Lemma nul_disallowed : in_ranges 0 static_disallowed_ranges = true.
Proof. vm_compute. reflexivity. Qed.

Lemma no_disallowed_no_nul s : has_disallowed s = false -> ~ In 0 s.
Proof.
  intros H I. unfold has_disallowed in H.
  rewrite (proj2 (existsb_exists _ _)) in H; [discriminate|]. exists 0. split; [exact I | apply nul_disallowed].
Qed.

Lemma char_in_false c s : char_in c s = false -> ~ In c s.
Proof. intros H I. apply char_in_In in I. congruence. Qed.

Lemma not_in_char_in c s : ~ In c s -> char_in c s = false.
Proof. intro H. destruct (char_in c s) eqn:E; [apply char_in_In in E; contradiction | reflexivity]. Qed.

Lemma pjoin_rel a b : startswith b [SLASH] = false -> pjoin a b = dir_slash a ++ b.
Proof. intro H. unfold pjoin. rewrite H. reflexivity. Qed.

(* ---- the theorem: for EVERY request path, a path that passes the sanitiser is
   dir/name1/.../namek with plain names (or "dir/.") *)
Theorem static_containment plen fb dir path f :
  sanitize plen fb dir path = Some f -> inside dir f = true.
Proof.
  unfold sanitize. set (wp := skipn plen path).
  destruct (negb (nonempty wp || fb) || negb (str_eqb (rstrip_set dot (strip_ws wp)) wp)
            || has_disallowed wp || char_in 92 wp || contains wp [SLASH; SLASH]
            || (static_max_len <? N.of_nat (length wp))) eqn:C; [discriminate|].
  repeat (apply orb_false_iff in C; destruct C as [C ?]).
  destruct (existsb (startswith (normpath wp)) static_disallowed_prefixes) eqn:P; [discriminate|].
  apply slash_prefix_disallowed in P.
  rewrite (pjoin_rel _ _ P).
  destruct (contains (dir_slash dir ++ normpath wp) dotdot) eqn:DD; [discriminate|].
  cbn [orb]. destruct (negb (startswith (dir_slash dir ++ normpath wp) dir)); [discriminate|].
  intros [= <-]. unfold inside.
  rewrite startswith_self_app, skipn_app_len_. cbn [andb].
  destruct (normpath_shape wp P) as [E | (comps & NE & E & F)]; rewrite E in *; [reflexivity|].
  apply orb_true_iff. right.
  assert (NS : Forall (fun c => ~ In SLASH c) comps).
  { apply Forall_forall. intros c Hc. rewrite Forall_forall in F. destruct (F c Hc) as (I & _).
    eapply split_chr_no_sep. exact I. }
  rewrite (split_join SLASH comps NE NS).
  apply forallb_forall. intros c Hc. rewrite Forall_forall in F, NS.
  destruct (F c Hc) as (I & N1 & N2). unfold plain_nameb.
  assert (nonempty c = true) as -> by (destruct c; [contradiction | reflexivity]).
  assert (str_eqb c dot = false) as -> by (apply str_eqb_neq; exact N2).
  assert (str_eqb c dotdot = false) as ->.
  { apply str_eqb_neq. intros ->.
    rewrite (contains_app_r _ _ _ (contains_join SLASH dotdot comps Hc)) in DD. discriminate. }
  rewrite (not_in_char_in _ _ (NS c Hc)).
  rewrite (not_in_char_in 0 c); [reflexivity|].
  intro Z0. apply (no_disallowed_no_nul wp); [assumption|]. eapply split_chr_sub; eassumption.
Qed.

(* the same, spelled out *)
Definition plain_name (s : str) : Prop :=
  s <> [] /\ s <> dot /\ s <> dotdot /\ ~ In SLASH s /\ ~ In 0 s.

Lemma plain_nameb_spec s : plain_nameb s = true -> plain_name s.
Proof.
  unfold plain_nameb, plain_name. intro H.
  repeat (apply andb_true_iff in H; destruct H as [H ?]).
  repeat split.
  - destruct s; [discriminate | discriminate].
  - apply str_eqb_neq. apply negb_true_iff. assumption.
  - apply str_eqb_neq. apply negb_true_iff. assumption.
  - apply char_in_false. apply negb_true_iff. assumption.
  - apply char_in_false. apply negb_true_iff. assumption.
Qed.

Theorem static_containment_explicit plen fb dir path f :
  sanitize plen fb dir path = Some f ->
  f = dir_slash dir ++ dot \/
  exists segs, segs <> [] /\ Forall plain_name segs /\ f = dir_slash dir ++ join_chr SLASH segs.
Proof.
  intro S. pose proof (static_containment _ _ _ _ _ S) as IN. unfold inside in IN.
  apply andb_true_iff in IN as [SW R]. apply startswith_app in SW as [r ->].
  rewrite skipn_app_len_ in R. apply orb_true_iff in R as [R | R].
  - left. apply str_eqb_eq in R. subst r. reflexivity.
  - right. exists (split_chr SLASH r). split; [apply split_chr_nonempty|]. split.
    + apply Forall_forall. intros c Hc. apply plain_nameb_spec.
      rewrite forallb_forall in R. apply R. exact Hc.
    + rewrite join_split_chr. reflexivity.
Qed.
