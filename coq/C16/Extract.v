From Coq Require Import ZArith NArith List Bool String.
From Coq Require Import ExtrOcamlBasic.
From Falcon.lib Require Import Wire PyStr.
From Falcon.C16 Require Import Model Spec.
Import ListNotations.
Open Scope Z_scope.

Definition d_ims (v : val) : ims_hdr :=
  match v with
  | L [I 1] => IInvalid
  | L [I 2; I t] => IDate t
  | _ => IAbsent
  end.

Definition d_rng (v : val) : range_hdr :=
  match v with
  | L [I 0] => RAbsent
  | L [I 1] => RInvalid
  | L [I 2] => ROther
  | L [I 3; I a; I b] => RBytes a b
  | _ => RAbsent
  end.

Definition v_rng (r : range_hdr) : val :=
  match r with
  | RAbsent => L [I 0] | RInvalid => L [I 1] | ROther => L [I 2]
  | RBytes a b => L [I 3; I a; I b]
  end.

Definition v_cr (cr : Z * Z * Z) : val :=
  let '(a, b, c) := cr in L [I a; I b; I c].

Definition v_resp (r : response) : val :=
  match r with
  | R404 => L [I 404]
  | ROptions => L [I 0]
  | R400 => L [I 400]
  | R304 f => L [I 304; vstr f]
  | R200 f n => L [I 200; vstr f; I n]
  | R206 f s n cr => L [I 206; vstr f; I s; I n; v_cr cr]
  | R416 f sz => L [I 416; vstr f; I sz]
  end.

Definition d_fs (v : val) : fs :=
  dlist (fun e => (dstr (nth_val 0 e), (dZ (nth_val 1 e), (dZ (nth_val 2 e), dZ (nth_val 3 e))))) v.

Definition d_route (v : val) : route :=
  {| r_prefix := dstr (nth_val 0 v); r_dir := dstr (nth_val 1 v);
     r_fallback := dopt dstr (nth_val 2 v); r_downloadable := dbool (nth_val 3 v) |}.

Definition d_resp (v : val) : response :=
  match v with
  | L [I 200; f; I n] => R200 (dstr f) n
  | L [I 206; f; I s; I n; L [I a; I b; I c]] => R206 (dstr f) s n (a, b, c)
  | L [I 416; f; I sz] => R416 (dstr f) sz
  | L [I 304; f] => R304 (dstr f)
  | L [I 400] => R400
  | L [I 0] => ROptions
  | _ => R404
  end.

Definition v_expected (e : expected) : val :=
  match e with
  | Full n => L [I 0; I n]
  | Partial a b c => L [I 1; I a; I b; I c]
  | Unsatisfiable n => L [I 2; I n]
  end.

(* ops: 6 may_open dir fallback path; 7 response_ok size rng observed-response (+ expectation);
        0 normpath; 1 sanitize (prefix, has_fallback, dir, path) + match; 2 serve;
        3 parse_range; 4 set_range; 5 strip test *)
Definition run (v : val) : val :=
  match v with
  | L [I 0; p] => vstr (normpath (dstr p))
  | L [I 1; prefix; fb; dir; path] =>
    L [vbool (sr_match (dstr prefix) (dbool fb) (dstr path));
       vopt vstr (sanitize (List.length (dstr prefix)) (dbool fb) (dstr dir) (dstr path))]
  | L [I 2; rt; files; opt; path; ims; rng] =>
    v_resp (serve (d_route rt) (d_fs files) (dbool opt) (dstr path) (d_ims ims) (d_rng rng))
  | L [I 9; rt; files; opt; path; ims; rng; types] =>
    let r := serve (d_route rt) (d_fs files) (dbool opt) (dstr path) (d_ims ims) (d_rng rng) in
    L [v_resp r;
       vopt (fun p => L [vstr (fst p); vopt vstr (snd p)])
            (served_headers (d_route rt)
               (dlist (fun e => (dstr (nth_val 0 e), dstr (nth_val 1 e))) types) r)]
  | L [I 10; p] => L [vstr (basename (dstr p)); vstr (splitext_ext (dstr p))]
  | L [I 11; rt; types; f] =>
    L [vstr (content_type_of (dlist (fun e => (dstr (nth_val 0 e), dstr (nth_val 1 e))) types) (dstr f));
       vopt vstr (disposition_of (d_route rt) (dstr f))]
  | L [I 3; value] => vopt v_rng (parse_range (dstr value))
  | L [I 4; size; rr] =>
    match set_range (dZ size) (dopt (fun p => (dZ (nth_val 0 p), dZ (nth_val 1 p))) rr) with
    | Whole n => L [I 0; I n]
    | Slice s n cr => L [I 1; I s; I n; v_cr cr]
    | Unsat sz => L [I 2; I sz]
    end
  | L [I 5; s] => vstr (rstrip_set dot (strip_ws (dstr s)))
  | L [I 6; dir; fb; p] => vbool (may_open (dstr dir) (dopt dstr fb) (dstr p))
  | L [I 7; size; rng; r] =>
    L [vbool (response_ok (dZ size) (d_rng rng) (d_resp r)); v_expected (expect (dZ size) (d_rng rng))]
  | L [I 8; num; den; ims] =>
    L [vbool (not_modified (dZ num, dZ den) (dopt dZ ims)); I (last_modified (dZ num, dZ den));
       I (mtime_sec_as_found (dZ num, dZ den))]
  | _ => L [I (-1)]
  end.

Extraction "C16/model.ml" run.
