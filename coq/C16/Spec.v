(* C16 — the property: containment of every candidate path, and RFC 9110 resolution of a
   single byte range.  Boolean, so that the harness can evaluate it on the implementation's
   observations (opened paths; status / Content-Range / Content-Length). *)
From Coq Require Import ZArith NArith List Bool.
From Falcon.lib Require Import PyStr.
From Falcon.gen Require Import ConstsC16.
From Falcon.C16 Require Import Model.
Import ListNotations.

(* a plain file or directory name: not empty, not "." or "..", no '/', no NUL *)
Definition plain_nameb (s : str) : bool :=
  nonempty s && negb (str_eqb s dot) && negb (str_eqb s dotdot)
  && negb (char_in SLASH s) && negb (char_in 0%N s).

(* [p] is lexically inside directory [dir]: dir/name1/.../namek (k >= 1) with plain names,
   or the directory itself spelled "dir/." (opening it fails: it is not a regular file) *)
Definition inside (dir p : str) : bool :=
  let d := dir_slash dir in
  startswith p d
  && (let rel := skipn (length d) p in
      str_eqb rel dot || forallb plain_nameb (split_chr SLASH rel)).

(* the only files a static route may open *)
Definition may_open (dir : str) (fallback : option str) (p : str) : bool :=
  inside dir p || match fallback with Some fb => str_eqb p fb | None => false end.

Open Scope Z_scope.

(* a single byte-range-spec of RFC 9110 14.1.2 *)
Inductive range_spec := FromTo (a b : Z) | From (a : Z) | Suffix (n : Z).

Definition spec_valid (r : range_spec) : bool :=
  match r with
  | FromTo a b => (0 <=? a) && (a <=? b)
  | From a => 0 <=? a
  | Suffix n => 0 <? n
  end.

(* falcon's (first, last) tuple for it: Request.range *)
Definition encode (r : range_spec) : Z * Z :=
  match r with FromTo a b => (a, b) | From a => (a, -1) | Suffix n => (- n, -1) end.

Definition decode (first last : Z) : option range_spec :=
  if (0 <=? first) && (first <=? last) then Some (FromTo first last)
  else if (0 <=? first) && (last =? -1) then Some (From first)
  else if (first <? 0) && (last =? -1) then Some (Suffix (- first))
  else None.

(* RFC 9110: first and last byte position actually served out of [size] > 0 bytes, None =
   unsatisfiable *)
Definition rfc_resolve (size : Z) (r : range_spec) : option (Z * Z) :=
  match r with
  | FromTo a b => if a <? size then Some (a, Z.min b (size - 1)) else None
  | From a => if a <? size then Some (a, size - 1) else None
  | Suffix n => Some (Z.max 0 (size - n), size - 1)
  end.

(* what a response to a request for a file of [size] bytes must look like
   (status, Content-Range as (start, end, size) or unsatisfied-range size, Content-Length) *)
Inductive expected :=
| Full (length : Z)                       (* 200, whole file *)
| Partial (s e size : Z)                  (* 206, bytes s-e/size, length e-s+1 *)
| Unsatisfiable (size : Z).               (* 416, bytes */size *)

Definition expect (size : Z) (rng : range_hdr) : expected :=
  match rng with
  | RBytes first last =>
    if size =? 0 then Full 0
    else match decode first last with
         | Some r => match rfc_resolve size r with
                     | Some (s, e) => Partial s e size
                     | None => Unsatisfiable size
                     end
         | None => Full size     (* not produced by Request.range *)
         end
  | _ => Full size
  end.

(* oracle on an observed response for a served file *)
Definition response_ok (size : Z) (rng : range_hdr) (r : response) : bool :=
  match expect size rng, r with
  | Full n, R200 _ m => n =? m
  | Partial s e sz, R206 _ seek n (s', e', sz') =>
    (s =? s') && (e =? e') && (sz =? sz') && (seek =? s) && (n =? e - s + 1)
  | Unsatisfiable sz, R416 _ sz' => sz =? sz'
  | _, _ => false
  end.

(* the conditional: 304 exactly when the file is not newer than If-Modified-Since (seconds) *)
Definition not_modified (m : mtime) (ims : option Z) : bool :=
  match ims with Some t => mtime_sec m <=? t | None => false end.

(* Last-Modified of a served file: its modification time truncated to the second *)
Definition last_modified (m : mtime) : Z := mtime_sec m.
