(* C16 — executable model of falcon/routing/static.py: StaticRoute.match / __call__ (path
   sanitiser, file selection, 304 decision), _set_range, _BoundedFile.read; and of the
   Range-header reading of falcon/request.py (Request.range / range_unit) on plain decimal
   offsets.  Strings are lists of code points.  POSIX only (os.path = posixpath). *)
From Coq Require Import ZArith NArith List Bool.
From Falcon.lib Require Import PyStr.
From Falcon.gen Require Import ConstsC16.
Import ListNotations.
Open Scope N_scope.

Definition SLASH : N := 47.
Definition dot : str := [46].
Definition dotdot : str := [46; 46].

Definition in_ranges (c : N) (rs : list (N * N)) : bool :=
  existsb (fun r => (fst r <=? c) && (c <=? snd r)) rs.

(* _DISALLOWED_CHARS_PATTERN.search(s) *)
Definition has_disallowed (s : str) : bool :=
  existsb (fun c => in_ranges c static_disallowed_ranges) s.

(* s.strip() *)
Definition is_space (c : N) : bool := in_ranges c py_space_ranges.
Fixpoint lstrip_ws (s : str) : str :=
  match s with
  | c :: tl => if is_space c then lstrip_ws tl else s
  | [] => []
  end.
Definition rstrip_ws (s : str) : str := rev (lstrip_ws (rev s)).
Definition strip_ws (s : str) : str := rstrip_ws (lstrip_ws s).

Definition nonempty {A} (l : list A) : bool := match l with [] => false | _ => true end.

Definition ends_with_slash (s : str) : bool :=
  match rev s with c :: _ => N.eqb c SLASH | [] => false end.

(* posixpath.normpath *)
Fixpoint np_fold (initial_slashes : bool) (comps : list str) (acc : list str) : list str :=
  match comps with
  | [] => acc
  | c :: tl =>
    if str_eqb c [] || str_eqb c dot then np_fold initial_slashes tl acc
    else if negb (str_eqb c dotdot)
            || (negb initial_slashes && negb (nonempty acc))
            || (match acc with h :: _ => str_eqb h dotdot | [] => false end)
    then np_fold initial_slashes tl (c :: acc)
    else match acc with
         | _ :: r => np_fold initial_slashes tl r
         | [] => np_fold initial_slashes tl []
         end
  end.

Definition initial_slashes (p : str) : nat :=
  if startswith p [SLASH] then
    if startswith p [SLASH; SLASH] && negb (startswith p [SLASH; SLASH; SLASH]) then 2%nat
    else 1%nat
  else 0%nat.

Definition normpath (p : str) : str :=
  match p with
  | [] => dot
  | _ =>
    let k := initial_slashes p in
    let comps := rev (np_fold (negb (Nat.eqb k 0)) (split_chr SLASH p) []) in
    let res := repeat SLASH k ++ join_chr SLASH comps in
    match res with [] => dot | _ => res end
  end.

(* posixpath.join(a, b) *)
Definition dir_slash (a : str) : str :=
  if negb (nonempty a) || ends_with_slash a then a else a ++ [SLASH].
Definition pjoin (a b : str) : str :=
  if startswith b [SLASH] then b else dir_slash a ++ b.

(* StaticRoute.match *)
Definition sr_match (prefix : str) (has_fallback : bool) (path : str) : bool :=
  startswith path prefix
  || (has_fallback && str_eqb path (removelast prefix)).

(* the sanitiser of StaticRoute.__call__: None = HTTPNotFound, Some f = the path handed to
   io.open.  [prefix_len] = len(self._prefix) (req.path[len(prefix):]) *)
Definition sanitize (prefix_len : nat) (has_fallback : bool) (dir path : str) : option str :=
  let wp := skipn prefix_len path in
  if negb (nonempty wp || has_fallback)
     || negb (str_eqb (rstrip_set dot (strip_ws wp)) wp)
     || has_disallowed wp
     || char_in 92 wp
     || contains wp [SLASH; SLASH]
     || (static_max_len <? N.of_nat (length wp))
  then None
  else
    let normalized := normpath wp in
    if existsb (startswith normalized) static_disallowed_prefixes then None
    else
      let file_path := pjoin dir normalized in
      if contains file_path dotdot || negb (startswith file_path dir) then None
      else Some file_path.

(* ------------------------------------------------------------------ ranges *)
Open Scope Z_scope.

Inductive ranged :=
| Whole (length : Z)                                  (* stream, length, None *)
| Slice (seek : Z) (length : Z) (cr : Z * Z * Z)      (* offset served from, length, (start,end,size) *)
| Unsat (size : Z).                                   (* HTTPRangeNotSatisfiable(size) *)

(* _set_range(fh, st, req_range) *)
Definition set_range (size : Z) (req_range : option (Z * Z)) : ranged :=
  match req_range with
  | None => Whole size
  | Some (start, end_) =>
    if size =? 0 then Whole 0
    else if (start <? 0) && (end_ =? -1) then
      let start := Z.max start (- size) in
      Slice (size + start) (- start) (size + start, size - 1, size)
    else if start >=? size then Unsat size
    else if end_ =? -1 then Slice start (size - start) (start, size - 1, size)
    else let e := Z.min end_ (size - 1) in Slice start (e - start + 1) (start, e, size)
  end.

(* _BoundedFile.read(size) over the rest of the file *)
Definition bf_read (size : option Z) (st : list N * Z) : list N * (list N * Z) :=
  let '(rest, remaining) := st in
  let n := match size with
           | None => remaining
           | Some s => if s <? 0 then remaining else Z.min s remaining
           end in
  let data := firstn (Z.to_nat n) rest in
  (data, (skipn (Z.to_nat n) rest, remaining - Z.of_nat (length data))).

(* Request.range_unit / Request.range on "unit=first-last" with plain decimal offsets.
   The harness parses the header with the real Request and passes the outcome in this form
   (and cross-checks [parse_range] below on the plain-decimal domain). *)
Inductive range_hdr :=
| RAbsent                 (* no Range header *)
| RInvalid                (* range_unit or range raises HTTPInvalidHeader (400) *)
| ROther                  (* a unit other than "bytes": ignored *)
| RBytes (first last : Z).

Fixpoint digits_val (acc : Z) (s : str) : option Z :=
  match s with
  | [] => Some acc
  | c :: tl => if isdigit c then digits_val (acc * 10 + Z.of_N (c - 48)) tl else None
  end.
Definition plain_int (s : str) : option Z :=
  match s with [] => None | _ => digits_val 0 s end.

Definition s_bytes : str := [98; 121; 116; 101; 115]%N.   (* "bytes" *)

(* value of the Range header -> range_hdr, None when an offset is not plain decimal *)
Definition parse_range (value : str) : option range_hdr :=
  let '(unit, found, rng) := partition_chr 61 value in
  if negb found then Some RInvalid
  else if char_in 44 rng then
    (if str_eqb unit s_bytes then Some RInvalid else Some ROther)
  else if negb (str_eqb unit s_bytes) then Some ROther
  else
    let '(first, sep, last) := partition_chr 45 rng in
    if negb sep then Some RInvalid
    else match first, last with
         | [], [] => Some RInvalid
         | _ :: _, _ :: _ =>
           match plain_int first, plain_int last with
           | Some a, Some b => if b <? a then Some RInvalid else Some (RBytes a b)
           | _, _ => None
           end
         | _ :: _, [] =>
           match plain_int first with Some a => Some (RBytes a (-1)) | None => None end
         | [], _ :: _ =>
           match plain_int last with
           | Some b => if - b >=? 0 then Some RInvalid else Some (RBytes (- b) (-1))
           | None => None
           end
         end.

(* ------------------------------------------------------------------ the responder *)
(* The modification time the responder reads, os.fstat(...).st_mtime: a float, given here as the
   exact rational it denotes (numerator, denominator > 0).  HTTP dates have a resolution of one
   second: Last-Modified is the time TRUNCATED to the second (floor; times are non-negative),
   int(st.st_mtime) in the repaired code. *)
Definition mtime := (Z * Z)%type.
Definition mtime_sec (m : mtime) : Z := fst m / snd m.

(* the code as found: datetime.fromtimestamp(st.st_mtime, utc).replace(microsecond=0).
   fromtimestamp rounds the float to the nearest microsecond (ties to even) BEFORE the
   microseconds are dropped, so x.9999996 is carried over to x+1. *)
Definition round_half_even (num den : Z) : Z :=
  let fl := (2 * num + den) / (2 * den) in
  if ((2 * num + den) mod (2 * den) =? 0) && Z.odd fl then fl - 1 else fl.
Definition mtime_sec_as_found (m : mtime) : Z :=
  round_half_even (fst m * 1000000) (snd m) / 1000000.

(* file system as seen by io.open/os.fstat: regular files only, (path, size, st_mtime) *)
Definition fs := list (str * (Z * mtime)).
Fixpoint fs_get (f : fs) (p : str) : option (Z * mtime) :=
  match f with
  | [] => None
  | (q, v) :: tl => if str_eqb p q then Some v else fs_get tl p
  end.

Inductive response :=
| R404
| ROptions
| R400
| R304 (file : str)
| R200 (file : str) (length : Z)
| R206 (file : str) (seek length : Z) (cr : Z * Z * Z)
| R416 (file : str) (size : Z).

Record route := { r_prefix : str; r_dir : str; r_fallback : option str; r_downloadable : bool }.

(* If-Modified-Since as Request.if_modified_since reads it: absent, not an HTTP date
   (HTTPInvalidHeader, 400), or a date (seconds) *)
Inductive ims_hdr := IAbsent | IInvalid | IDate (t : Z).
Definition ims_time (i : ims_hdr) : option Z := match i with IDate t => Some t | _ => None end.

(* StaticRoute.__call__ in its order of evaluation:
   OPTIONS -> sanitise the path (404) -> open the candidate, else the fallback (404) ->
   Last-Modified, req.if_modified_since (400 if malformed), 304 ->
   req.range_unit / req.range (400 if malformed) -> _set_range (200 / 206 / 416).
   The request headers are not looked at before a file has been opened. *)
Definition serve (rt : route) (files : fs) (is_options : bool) (path : str)
           (ims : ims_hdr) (rng : range_hdr) : response :=
  if is_options then ROptions
  else
    match sanitize (length (r_prefix rt)) (match r_fallback rt with Some _ => true | None => false end) (r_dir rt) path with
    | None => R404
    | Some fp =>
      let opened :=
        match fs_get files fp with
        | Some v => Some (fp, v)
        | None =>
          match r_fallback rt with
          | Some fb => match fs_get files fb with Some v => Some (fb, v) | None => None end
          | None => None
          end
        end in
      match opened with
      | None => R404
      | Some (file, (size, mt)) =>
        match ims with
        | IInvalid => R400
        | _ =>
        if match ims_time ims with Some t => mtime_sec mt <=? t | None => false end then R304 file
        else
          match rng with
          | RInvalid => R400
          | _ =>
            let rr := match rng with RBytes a b => Some (a, b) | _ => None end in
            match set_range size rr with
            | Whole n => R200 file n
            | Slice s n cr => R206 file s n cr
            | Unsat sz => R416 file sz
            end
          end
        end
      end
    end.

(* ------------------------------------------------------------------ headers of a served file *)
Open Scope N_scope.

(* os.path.basename(p): what follows the last '/' *)
Definition basename (p : str) : str := last (split_chr SLASH p) [].

(* os.path.splitext(p)[1]: from the last '.' of the base name, unless only dots precede it
   (leading dots do not start an extension: ".bashrc", "..a") *)
Definition DOT : N := 46.
Definition splitext_ext (p : str) : str :=
  match rev (split_chr DOT (basename p)) with
  | e :: ((_ :: _) as front) => if existsb nonempty front then DOT :: e else []
  | _ => []
  end.

Definition s_octet_stream : str :=   (* "application/octet-stream" *)
  [97; 112; 112; 108; 105; 99; 97; 116; 105; 111; 110; 47; 111; 99; 116; 101; 116; 45; 115; 116;
   114; 101; 97; 109].

(* resp.options.static_media_types.get(suffix, 'application/octet-stream'): exact-match lookup *)
Fixpoint types_get (types : list (str * str)) (suffix : str) : option str :=
  match types with
  | [] => None
  | (k, v) :: tl => if str_eqb suffix k then Some v else types_get tl suffix
  end.

Definition content_type_of (types : list (str * str)) (file : str) : str :=
  match types_get types (splitext_ext file) with Some t => t | None => s_octet_stream end.

(* resp.downloadable_as = os.path.basename(file_path) when the route is downloadable; the
   Content-Disposition text itself is produced by falcon.response_helpers (property C15) *)
Definition disposition_of (rt : route) (file : str) : option str :=
  if r_downloadable rt then Some (basename file) else None.

(* the headers set for a 200/206 response: they are derived from the file that is actually
   served, i.e. from the fallback's name when the fallback is served *)
Definition served_headers (rt : route) (types : list (str * str)) (r : response)
  : option (str * option str) :=
  match r with
  | R200 f _ | R206 f _ _ _ => Some (content_type_of types f, disposition_of rt f)
  | _ => None
  end.
