From Coq Require Import ZArith NArith List Bool.
From Falcon.C16 Require Import Model Spec Proofs.
