(* C16 — property theorems only (closed by [exact]; Print Assumptions after each). *)
From Coq Require Import ZArith NArith List Bool Lia.
From Falcon.lib Require Import PyStr.
From Falcon.C16 Require Import Model Spec ProofsRange ProofsPath ProofsServe.
Import ListNotations.

(* Containment, for EVERY request path (any string of code points), prefix length, directory
   and fallback flag: whatever passes the sanitiser of StaticRoute.__call__ and is handed to
   io.open is lexically inside the directory (the oracle [inside] the harness evaluates on
   every path the real code opened) ... *)
Theorem C16_static_containment : forall plen fb dir path f,
  sanitize plen fb dir path = Some f -> inside dir f = true.
Proof. exact static_containment. Qed.
Print Assumptions C16_static_containment.

(* ... i.e. dir/name1/.../namek with plain names (non-empty, not "." or "..", no '/', no NUL),
   or the directory itself spelled "dir/." (not a regular file: 404 or the fallback) *)
Theorem C16_static_containment_explicit : forall plen fb dir path f,
  sanitize plen fb dir path = Some f ->
  f = dir_slash dir ++ dot \/
  exists segs, segs <> [] /\ Forall plain_name segs /\ f = dir_slash dir ++ join_chr SLASH segs.
Proof. exact static_containment_explicit. Qed.
Print Assumptions C16_static_containment_explicit.

(* the only files the responder ever opens are inside the directory or the fallback file *)
Theorem C16_serve_opens_inside : forall rt files opt path ims rng f,
  file_of (serve rt files opt path ims rng) = Some f ->
  may_open (r_dir rt) (r_fallback rt) f = true.
Proof. exact serve_opens_inside. Qed.
Print Assumptions C16_serve_opens_inside.

(* anything else is a 404 *)
Theorem C16_rejected_is_404 : forall rt files path ims rng,
  sanitize (length (r_prefix rt)) (has_fb rt) (r_dir rt) path = None ->
  serve rt files false path ims rng = R404.
Proof. exact rejected_is_404. Qed.
Print Assumptions C16_rejected_is_404.

(* ORDER OF EVALUATION: sanitise -> open / fallback -> dates -> range.  "Anything else is a 404"
   holds whatever headers the request carries: If-Modified-Since absent / a date / malformed,
   Range absent / valid / other unit / malformed -- the headers are not evaluated before a file
   has been opened *)
Theorem C16_rejected_is_404_whatever_headers : forall rt files path,
  sanitize (length (r_prefix rt)) (has_fb rt) (r_dir rt) path = None ->
  forall ims rng, serve rt files false path ims rng = R404.
Proof. exact rejected_is_404_whatever_headers. Qed.
Print Assumptions C16_rejected_is_404_whatever_headers.

Theorem C16_missing_is_404_whatever_headers : forall rt files path fp,
  sanitize (length (r_prefix rt)) (has_fb rt) (r_dir rt) path = Some fp ->
  opened_file rt files fp = None ->
  forall ims rng, serve rt files false path ims rng = R404.
Proof. exact missing_is_404_whatever_headers. Qed.
Print Assumptions C16_missing_is_404_whatever_headers.

Theorem C16_not_found_independent_of_headers : forall rt files path ims rng ims' rng',
  serve rt files false path ims rng = R404 -> serve rt files false path ims' rng' = R404.
Proof. exact not_found_independent_of_headers. Qed.
Print Assumptions C16_not_found_independent_of_headers.

(* a malformed If-Modified-Since on a file that IS opened keeps its documented outcome *)
Theorem C16_malformed_date_is_400 : forall rt files path rng fp f size mtime,
  sanitize (length (r_prefix rt)) (has_fb rt) (r_dir rt) path = Some fp ->
  opened_file rt files fp = Some (f, (size, mtime)) ->
  serve rt files false path IInvalid rng = R400.
Proof. exact malformed_date_is_400. Qed.
Print Assumptions C16_malformed_date_is_400.

Theorem C16_options_opens_nothing : forall rt files path ims rng,
  file_of (serve rt files true path ims rng) = None.
Proof. exact options_opens_nothing. Qed.
Print Assumptions C16_options_opens_nothing.

Open Scope Z_scope.

(* _set_range is the RFC 9110 resolution of a valid single byte range, for every size > 0 *)
Theorem C16_set_range_rfc : forall size r,
  0 < size -> spec_valid r = true ->
  set_range size (Some (encode r)) =
  match rfc_resolve size r with
  | Some (s, e) => Slice s (e - s + 1) (s, e, size)
  | None => Unsat size
  end.
Proof. exact set_range_rfc. Qed.
Print Assumptions C16_set_range_rfc.

Theorem C16_range_slice_exact : forall size r seek n s e sz,
  0 < size -> spec_valid r = true ->
  set_range size (Some (encode r)) = Slice seek n (s, e, sz) ->
  rfc_resolve size r = Some (s, e) /\ 0 <= s <= e /\ e < size /\ n = e - s + 1 /\ seek = s /\ sz = size.
Proof. exact range_slice_exact. Qed.
Print Assumptions C16_range_slice_exact.

Theorem C16_range_unsat_iff : forall size r,
  0 < size -> spec_valid r = true ->
  (set_range size (Some (encode r)) = Unsat size <->
   match r with FromTo a _ | From a => size <= a | Suffix _ => False end).
Proof. exact range_unsat_iff. Qed.
Print Assumptions C16_range_unsat_iff.

Theorem C16_empty_file_ignores_range : forall rr, set_range 0 rr = Whole 0.
Proof. exact empty_file_ignores_range. Qed.
Print Assumptions C16_empty_file_ignores_range.

Theorem C16_other_unit_ignored : forall rt files opt path ims,
  serve rt files opt path ims ROther = serve rt files opt path ims RAbsent.
Proof. exact other_unit_ignored. Qed.
Print Assumptions C16_other_unit_ignored.

(* _BoundedFile: any sequence of reads returns a prefix of the permitted slice *)
Theorem C16_bounded_file_prefix : forall sizes rest remaining out rest' remaining',
  0 <= remaining ->
  bf_run sizes (rest, remaining) = (out, (rest', remaining')) ->
  exists k, out = firstn k rest /\ rest' = skipn k rest /\ (Z.of_nat k <= remaining)%Z /\
            remaining' = remaining - Z.of_nat (length out) /\ 0 <= remaining'.
Proof. exact bounded_file_prefix. Qed.
Print Assumptions C16_bounded_file_prefix.

(* a served file: 304 (not newer than If-Modified-Since), 400 (malformed Range), or the RFC
   expectation for its size: 200 whole / 206 exact slice with Content-Range / 416 with size *)
Theorem C16_serve_response_ok : forall rt files path ims rng r f size mtime fp,
  rng_ok rng = true -> 0 <= size ->
  sanitize (length (r_prefix rt)) (has_fb rt) (r_dir rt) path = Some fp ->
  opened_file rt files fp = Some (f, (size, mtime)) ->
  serve rt files false path ims rng = r ->
  (ims = IInvalid /\ r = R400) \/
  (exists t, ims = IDate t /\ mtime_sec mtime <= t /\ r = R304 f) \/
  (ims <> IInvalid /\ rng = RInvalid /\ r = R400) \/
  (ims <> IInvalid /\ file_of r = Some f /\ response_ok size rng r = true).
Proof. exact serve_response_ok. Qed.
Print Assumptions C16_serve_response_ok.

Theorem C16_not_modified_iff : forall rt files path ims rng fp f size mtime,
  sanitize (length (r_prefix rt)) (has_fb rt) (r_dir rt) path = Some fp ->
  opened_file rt files fp = Some (f, (size, mtime)) ->
  (serve rt files false path ims rng = R304 f <-> exists t, ims = IDate t /\ mtime_sec mtime <= t).
Proof. exact not_modified_iff. Qed.
Print Assumptions C16_not_modified_iff.

Theorem C16_not_modified_oracle : forall rt files path ims rng fp f size mtime,
  sanitize (length (r_prefix rt)) (has_fb rt) (r_dir rt) path = Some fp ->
  opened_file rt files fp = Some (f, (size, mtime)) ->
  (serve rt files false path ims rng = R304 f <-> not_modified mtime (ims_time ims) = true).
Proof. exact not_modified_oracle. Qed.
Print Assumptions C16_not_modified_oracle.

(* the modification time is a rational (the exact value of the float st_mtime); only its whole
   seconds count: not modified since t iff last modified before second t+1 began *)
Theorem C16_mtime_truncation : forall m t,
  0 < snd m -> (mtime_sec m <= t <-> fst m < (t + 1) * snd m).
Proof. exact mtime_truncation. Qed.
Print Assumptions C16_mtime_truncation.

Theorem C16_last_modified_bounds : forall m, 0 < snd m ->
  last_modified m * snd m <= fst m < (last_modified m + 1) * snd m.
Proof. exact last_modified_bounds. Qed.
Print Assumptions C16_last_modified_bounds.

(* as found (fromtimestamp(float).replace(microsecond=0): rounds to the microsecond first) *)
Theorem C16_mtime_refuted_before_fix :
  exists m t, 0 < snd m /\ mtime_sec m <= t /\ ~ (mtime_sec_as_found m <= t).
Proof. exact mtime_as_found_refuted. Qed.
Print Assumptions C16_mtime_refuted_before_fix.

(* the oracle evaluated on the implementation accepts the model for every size and Range *)
Theorem C16_response_ok_sound : forall file size rng,
  0 <= size -> rng_ok rng = true ->
  response_ok size rng (resp_of file (set_range size (range_arg rng))) = true.
Proof. exact response_ok_sound. Qed.
Print Assumptions C16_response_ok_sound.

(* ---- headers of a served file *)
Theorem C16_basename_no_slash : forall p, ~ In SLASH (basename p).
Proof. exact basename_no_slash. Qed.
Print Assumptions C16_basename_no_slash.

Theorem C16_basename_suffix : forall p, exists pre, p = pre ++ basename p.
Proof. exact basename_suffix. Qed.
Print Assumptions C16_basename_suffix.

(* the extension used for the Content-Type lookup is empty or ".e": a proper suffix of the base
   name, after its last dot *)
Theorem C16_splitext_shape : forall p,
  splitext_ext p = [] \/
  exists pre e, splitext_ext p = DOT :: e /\ basename p = pre ++ DOT :: e /\ pre <> [] /\
                ~ In DOT e /\ ~ In SLASH e.
Proof. exact splitext_shape. Qed.
Print Assumptions C16_splitext_shape.

Theorem C16_content_type_default : forall types f,
  types_get types (splitext_ext f) = None -> content_type_of types f = s_octet_stream.
Proof. exact content_type_default. Qed.
Print Assumptions C16_content_type_default.

(* Content-Disposition exactly for downloadable routes, naming the served file *)
Theorem C16_disposition_iff : forall rt f n,
  disposition_of rt f = Some n <-> r_downloadable rt = true /\ n = basename f.
Proof. exact disposition_iff. Qed.
Print Assumptions C16_disposition_iff.

(* headers are derived from the file that is actually served (the fallback's name when the
   fallback is served), and only 200/206 responses carry them *)
Theorem C16_served_headers_of_file : forall rt types r,
  served_headers rt types r =
  match r with
  | R200 _ _ | R206 _ _ _ _ =>
    match file_of r with
    | Some f => Some (content_type_of types f, disposition_of rt f)
    | None => None
    end
  | _ => None
  end.
Proof. exact served_headers_of_file. Qed.
Print Assumptions C16_served_headers_of_file.

(* ---- the fallback branch: served exactly when the sanitised candidate is not a regular file
   and a fallback is configured; a REJECTED path is a 404 even with a fallback
   (C16_rejected_is_404) *)
Theorem C16_fallback_opened_iff : forall rt files fp fb v,
  r_fallback rt = Some fb ->
  (opened_file rt files fp = Some (fb, v) /\ fs_get files fp = None <->
   fs_get files fp = None /\ fs_get files fb = Some v).
Proof. exact fallback_opened_iff. Qed.
Print Assumptions C16_fallback_opened_iff.

Theorem C16_candidate_preferred : forall rt files fp v,
  fs_get files fp = Some v -> opened_file rt files fp = Some (fp, v).
Proof. exact candidate_preferred. Qed.
Print Assumptions C16_candidate_preferred.

Theorem C16_no_fallback_configured : forall rt files fp,
  r_fallback rt = None ->
  opened_file rt files fp = match fs_get files fp with Some v => Some (fp, v) | None => None end.
Proof. exact no_fallback_configured. Qed.
Print Assumptions C16_no_fallback_configured.

Theorem C16_served_file_is_candidate_or_fallback : forall rt files path ims rng f,
  file_of (serve rt files false path ims rng) = Some f ->
  exists fp, sanitize (length (r_prefix rt)) (has_fb rt) (r_dir rt) path = Some fp /\
    ((f = fp /\ fs_get files fp <> None) \/ (r_fallback rt = Some f /\ fs_get files fp = None)).
Proof. exact served_file_is_candidate_or_fallback. Qed.
Print Assumptions C16_served_file_is_candidate_or_fallback.

(* the bare prefix ("/static/", and "/static" through match): accepted only with a fallback;
   its candidate is the directory itself, never a regular file, so the fallback is served *)
Theorem C16_empty_remainder : forall rt,
  sanitize (length (r_prefix rt)) (has_fb rt) (r_dir rt) (r_prefix rt) =
  if has_fb rt && negb (contains (dir_slash (r_dir rt) ++ dot) dotdot)
               && startswith (dir_slash (r_dir rt) ++ dot) (r_dir rt)
  then Some (dir_slash (r_dir rt) ++ dot) else None.
Proof. exact empty_remainder. Qed.
Print Assumptions C16_empty_remainder.

(* ---- non-vacuity *)
Definition d_srv : str := [47; 115; 114; 118]%N.                 (* "/srv" *)
Definition p_static_sub_a : str :=                                 (* "/static/sub/./a" *)
  [47; 115; 116; 97; 116; 105; 99; 47; 115; 117; 98; 47; 46; 47; 97]%N.
Definition p_static_up : str :=                                    (* "/static/sub/../../x" *)
  [47; 115; 116; 97; 116; 105; 99; 47; 115; 117; 98; 47; 46; 46; 47; 46; 46; 47; 120]%N.

Example C16_sanitize_examples :
  sanitize 8 false d_srv p_static_sub_a = Some [47; 115; 114; 118; 47; 115; 117; 98; 47; 97]%N  (* /srv/sub/a *)
  /\ sanitize 8 false d_srv p_static_up = None.
Proof. vm_compute. split; reflexivity. Qed.

Example C16_range_examples :
  set_range 9 (Some (encode (FromTo 2 100))) = Slice 2 7 (2, 8, 9)
  /\ set_range 9 (Some (encode (Suffix 100))) = Slice 0 9 (0, 8, 9)
  /\ set_range 9 (Some (encode (From 9))) = Unsat 9.
Proof. vm_compute. repeat split; reflexivity. Qed.

Example C16_header_examples :
  splitext_ext [47; 97; 46; 116; 97; 114; 46; 103; 122]%N = [46; 103; 122]%N      (* "/a.tar.gz" -> ".gz" *)
  /\ splitext_ext [120; 47; 46; 98; 97; 115; 104; 114; 99]%N = []                (* "x/.bashrc" -> "" *)
  /\ basename [120; 47; 46; 98]%N = [46; 98]%N.                                   (* "x/.b" -> ".b" *)
Proof. vm_compute. repeat split; reflexivity. Qed.

(* the length cap is on the RAW remainder of the request path, before normalisation: 255 x "./"
   + "ab" (512 characters) is served as /srv/ab, one more "./" (514) or "./"x255 + "abc" (513) is
   rejected although it normalises to a 2- or 3-character name *)
Definition dot_slashes (k : nat) : str := concat (repeat [46; 47]%N k).
Definition p_static : str := [47; 115; 116; 97; 116; 105; 99; 47]%N.            (* "/static/" *)

Example C16_length_cap_on_raw_remainder :
  length (dot_slashes 255 ++ [97; 98]%N) = 512%nat
  /\ sanitize 8 false d_srv (p_static ++ dot_slashes 255 ++ [97; 98]%N) = Some [47; 115; 114; 118; 47; 97; 98]%N
  /\ sanitize 8 false d_srv (p_static ++ dot_slashes 255 ++ [97; 98; 99]%N) = None
  /\ sanitize 8 false d_srv (p_static ++ dot_slashes 256 ++ [97; 98]%N) = None
  /\ normpath (dot_slashes 256 ++ [97; 98]%N) = [97; 98]%N.
Proof. vm_compute. repeat split; reflexivity. Qed.
