(* C15 — executable model of the cookie VALUE text: what falcon emits for the name=value pair of a
   Set-Cookie line (SimpleCookie.value_encode -> http.cookies._quote; Morsel.OutputString) and how
   falcon reads a value back from a Cookie header (request_helpers._parse_cookie_header: strip, the
   hoisted guard, http.cookies._unquote - CPython 3.12.1's search loop over _OctalPatt / _QuotePatt).
   The tables (_LegalChars, _UnescapedChars, _Translator) are regenerated from the live module on
   every run (coq/gen/ConstsC15.v), the whitespace table of str.strip from ConstsC09.v. *)
From Coq Require Import ZArith NArith List Bool.
From Falcon.lib Require Import PyStr.
From Falcon.gen Require Import Consts ConstsC09 ConstsC15.
Import ListNotations.
Local Open Scope N_scope.

Definition dquote : N := 34.
Definition bslash : N := 92.

(* _is_legal_key = re.compile('[%s]+' % re.escape(_LegalChars)).fullmatch *)
Definition is_legal_key (s : str) : bool :=
  match s with [] => false | _ => forallb (fun c => char_in c cookie_LegalChars) s end.

Fixpoint tr_lookup (c : N) (t : list (N * list N)) : option (list N) :=
  match t with
  | [] => None
  | (k, v) :: tl => if c =? k then Some v else tr_lookup c tl
  end.

(* str.translate(_Translator), one character *)
Definition translate_char (c : N) : str :=
  match tr_lookup c cookie_Translator with Some t => t | None => [c] end.

(* http.cookies._quote *)
Definition quote (s : str) : str :=
  if is_legal_key s then s else dquote :: flat_map translate_char s ++ [dquote].

(* the value part of Morsel.OutputString for a cookie stored by set_cookie(name, value) *)
Definition emitted_value (v : str) : str := quote v.

(* set_cookie accepts exactly the ASCII-encodable values (_is_ascii_encodable: s.encode('ascii')) *)
Definition settable (v : str) : bool := forallb (fun c => c <? 128) v.

Definition is_oct03 (c : N) : bool := (48 <=? c) && (c <=? 51).
Definition is_oct07 (c : N) : bool := (48 <=? c) && (c <=? 55).

(* the body of the while loop of _unquote: the leftmost of _OctalPatt (backslash, [0-3][0-7][0-7])
   and _QuotePatt (backslash, any character but a newline) decides; an octal match wins a tie; a
   backslash that starts neither (last character, or before a newline) is literal text *)
Fixpoint unq_scan (s : str) : str :=
  match s with
  | [] => []
  | c :: r =>
    if c =? bslash then
      match r with
      | [] => [bslash]
      | d :: r1 =>
        if d =? 10 then bslash :: unq_scan r
        else
          match r1 with
          | e :: f :: r3 =>
            if is_oct03 d && is_oct07 e && is_oct07 f
            then (64 * (d - 48) + 8 * (e - 48) + (f - 48)) :: unq_scan r3
            else d :: unq_scan r1
          | _ => d :: unq_scan r1
          end
      end
    else c :: unq_scan r
  end.

(* http.cookies._unquote *)
Definition unquote (s : str) : str :=
  if (length s <? 2)%nat then s
  else if negb (hd 0 s =? dquote) || negb (last s 0 =? dquote) then s
  else unq_scan (removelast (tl s)).

(* _parse_cookie_header on the text after '=' of one cookie-pair: value.strip(), then
   `if len(value) >= 2 and value[0] == DQUOTE and value[-1] == DQUOTE: value = _unquote(value)` *)
Definition parse_cookie_value (raw : str) : str :=
  let value := strip_set str_ws_latin1 raw in
  if (2 <=? length value)%nat && (hd 0 value =? dquote) && (last value 0 =? dquote)
  then unquote value else value.

(* oracle for the echo clause: the request API returned [got] for a cookie written as [v] *)
Definition echo_ok (v got : str) : bool := str_eqb got v.

(* Oracle for one echo observation: the cookie was written as [v], the Set-Cookie line carried
   [coded] after name=, the request API returned [got] when that pair came back in a Cookie
   header.  Failed clauses: 1 the value read is not the value written (the property); 2 the emitted
   text is not _quote v; 3 the value read is not what the modelled reader makes of the emitted text. *)
Definition echo_oracle (v coded got : str) : list N :=
  (if str_eqb got v then [] else [1]) ++
  (if str_eqb coded (emitted_value v) then [] else [2]) ++
  (if str_eqb got (parse_cookie_value coded) then [] else [3]).
