From Coq Require Import ZArith NArith List Bool String.
From Coq Require Import ExtrOcamlBasic.
From Falcon.lib Require Import Wire PyStr.
From Falcon.C15 Require Import Model Spec CookieText.
Import ListNotations.
Open Scope Z_scope.

Definition d_pv (v : val) : pv :=
  match v with
  | L [I 0; s] => VStr (dstr s)
  | L [I _; z] => VInt (dZ z)
  | _ => VStr []
  end.

Definition d_prop (v : val) : prop :=
  nth (dnat v)
      [P_cache_control; P_content_location; P_content_length; P_content_range; P_content_type;
       P_downloadable_as; P_viewable_as; P_etag; P_expires; P_last_modified; P_location;
       P_retry_after; P_vary; P_accept_ranges] P_content_type.

Definition d_propval (v : val) : propval :=
  match v with
  | L [I 0; s] => PS (dstr s)
  | L [I 1; z] => PI (dZ z)
  | L [I 2; l] => PL (dlist dstr l)
  | L [I 3; l] => PR (dlist d_pv l)
  | L [I 4; t] => PD (dstr t)
  | L [I 5; s; n] => PF (dstr s) (dstr n)
  | _ => PS []
  end.

Definition d_pair (v : val) : str * str := (dstr (nth_val 0 v), dstr (nth_val 1 v)).

Definition d_hreflang (v : val) : str + list str :=
  match v with
  | L [I 0; s] => inl (dstr s)
  | L [I _; l] => inr (dlist dstr l)
  | _ => inl []
  end.

Definition d_link (v : val) : link_args :=
  {| l_target := dstr (nth_val 0 v); l_rel := dstr (nth_val 1 v);
     l_title := dopt dstr (nth_val 2 v); l_title_star := dopt d_pair (nth_val 3 v);
     l_anchor := dopt dstr (nth_val 4 v); l_hreflang := dopt d_hreflang (nth_val 5 v);
     l_type_hint := dopt dstr (nth_val 6 v); l_crossorigin := dopt dstr (nth_val 7 v);
     l_ext := dopt (dlist d_pair) (nth_val 8 v) |}.

Definition d_maxage (v : val) : maxage :=
  match v with
  | L [I 0; z] => MInt (dZ z)
  | L [I 1; n; d] => MFloat (dZ n) (dZ d)
  | L [I _; s] => MStr (dstr s)
  | _ => MInt 0
  end.

Definition d_cookie (v : val) : cookie_args :=
  {| ca_name := dstr (nth_val 0 v); ca_value := dstr (nth_val 1 v);
     ca_expires := dopt dstr (nth_val 2 v); ca_max_age := dopt d_maxage (nth_val 3 v);
     ca_domain := dopt dstr (nth_val 4 v); ca_path := dopt dstr (nth_val 5 v);
     ca_secure := dopt dbool (nth_val 6 v); ca_http_only := dbool (nth_val 7 v);
     ca_same_site := dopt dstr (nth_val 8 v); ca_partitioned := dbool (nth_val 9 v) |}.

Definition d_op (v : val) : op :=
  match v with
  | L [I 0; n] => Get (dstr n)
  | L [I 1; n; x] => SetH (dstr n) (d_pv x)
  | L [I 2; n; x] => Append (dstr n) (d_pv x)
  | L [I 3; n] => Delete (dstr n)
  | L [I 4; l] => SetMany (dlist (fun p => (dstr (nth_val 0 p), d_pv (nth_val 1 p))) l)
  | L [I 5; p] => PropGet (d_prop p)
  | L [I 6; p; x] => PropSet (d_prop p) (dopt d_propval x)
  | L [I 7; p] => PropDel (d_prop p)
  | L [I 8; a] => AppendLink (d_link a)
  | L [I 9; a] => SetCookie (d_cookie a)
  | L [I 10; n; ss; d; p] => UnsetCookie (dstr n) (dstr ss) (dopt dstr d) (dopt dstr p)
  | L [I 11] => HeadersCopy
  | L [I 12; mt] => EmitW (dopt dstr mt)
  | L [I 13; mt] => EmitA (dopt dstr mt)
  | _ => HeadersCopy
  end.

Definition v_err (e : err) : val :=
  I (match e with
     | HeaderNotSupported => 0 | EKeyError => 1 | EValueError => 2 | EIndexError => 3
     | EUnicodeEncode => 4 | ECookieError => 5 | ETypeError => 6
     end).

Definition v_expv (e : expv) : val :=
  match e with ExpText s => L [I 0; vstr s] | ExpDelta z => L [I 1; I z] end.

Definition v_morsel (m : morsel) : val :=
  L [vstr (m_value m); vopt v_expv (m_expires m); vopt I (m_maxage m); vopt vstr (m_domain m);
     vopt vstr (m_path m); vbool (m_secure m); vbool (m_httponly m); vopt vstr (m_samesite m);
     vbool (m_partitioned m)].

Definition d_expv (v : val) : expv :=
  match v with
  | L [I 0; s] => ExpText (dstr s)
  | L [I _; z] => ExpDelta (dZ z)
  | _ => ExpText []
  end.

Definition d_morsel (v : val) : morsel :=
  {| m_value := dstr (nth_val 0 v); m_expires := dopt d_expv (nth_val 1 v);
     m_maxage := dopt dZ (nth_val 2 v); m_domain := dopt dstr (nth_val 3 v);
     m_path := dopt dstr (nth_val 4 v); m_secure := dbool (nth_val 5 v);
     m_httponly := dbool (nth_val 6 v); m_samesite := dopt dstr (nth_val 7 v);
     m_partitioned := dbool (nth_val 8 v) |}.

Definition v_item (i : item) : val :=
  match i with
  | IPlain n v => L [I 0; vstr n; vstr v]
  | ICookie n k m => L [I 1; vstr n; vstr k; v_morsel m]
  end.

Definition d_item (v : val) : item :=
  match v with
  | L [I 0; n; x] => IPlain (dstr n) (dstr x)
  | L [I _; n; k; m] => ICookie (dstr n) (dstr k) (d_morsel m)
  | _ => IPlain [] []
  end.

Definition v_headers (h : headers) : val := vlist (vpair vstr vstr) h.

Definition v_obs (o : obs) : val :=
  match o with
  | ONone => L [I 0]
  | OVal x => L [I 1; vopt vstr x]
  | OErr e => L [I 2; v_err e]
  | OHeaders h => L [I 3; v_headers h]
  | OItems l => L [I 4; vlist v_item l]
  end.

Definition v_res (r : res str) : val :=
  match r with Ok s => L [I 1; vstr s] | Err e => L [I 0; v_err e] end.

(* ops: 0 run an operation sequence; 1 uri encoder; 2 uri oracle; 3 content-disposition
   oracle; 4 cookie attribute oracle; 5 expired oracle; 6 emission oracle;
   7 transform (one property value); 8 the case-insensitive map spec read at some names;
   9 taken_as_escaped (the documented exception region of the check-escaped encoders);
   10 cookie emission-order oracle; 11 http.cookies._quote; 12 _unquote; 13 the value reader of
   _parse_cookie_header; 14 echo oracle *)
Definition run (v : val) : val :=
  match v with
  | L [I 0; f; sd; ops] =>
    let '(s, obs) := run_ops (dbool f) (dbool sd) init (dlist d_op ops) in
    L [vlist v_obs obs; v_headers (hdrs s); v_headers (extra s);
       vlist (fun p => L [vstr (fst p); v_morsel (snd p)]) (cookies s)]
  | L [I 1; isv; chk; s] => v_res (uri_encoder (dbool isv) (dbool chk) (dstr s))
  | L [I 2; isv; chk; s; out] => vbool (uri_out_ok (dbool isv) (dbool chk) (dstr s) (dstr out))
  | L [I 3; dt; value; out] => vbool (cd_out_ok (dstr dt) (dstr value) (dstr out))
  | L [I 4; sd; a; m] => vbool (cookie_attrs_ok (dbool sd) (d_cookie a) (d_morsel m))
  | L [I 5; m] => vbool (expired (d_morsel m))
  | L [I 6; ex; n; items] =>
    vlist vN (emit_oracle (dlist d_pair ex) (dnat n) (dlist d_item items))
  | L [I 7; f; p; x] => v_res (transform (dbool f) (d_prop p) (d_propval x))
  | L [I 8; f; ops; names] =>
    let m := spec_run (dbool f) (dlist d_op ops) in
    vlist (fun n => vopt vstr (m (lower (dstr n)))) (match names with L l => l | _ => [] end)
  | L [I 10; k; before; name; after] =>
    vbool (cookie_order_ok (dN k) (dlist dstr before) (dstr name) (dlist dstr after))
  | L [I 11; v] => vstr (quote (dstr v))
  | L [I 12; s] => vstr (unquote (dstr s))
  | L [I 13; s] => vstr (parse_cookie_value (dstr s))
  | L [I 14; v; coded; got] => vlist vN (echo_oracle (dstr v) (dstr coded) (dstr got))
  | L [I 9; isv; chk; s] => vbool (taken_as_escaped (dbool isv) (dbool chk) (dstr s))
  | _ => L [I (-1)]
  end.

Extraction "C15/model.ml" run.
