(* C15 — the reference objects: a case-insensitive map (as a total function on lower-cased
   names), the cookie attribute decision table, the emission oracle, and independent
   decoders (percent-decoding, quoted-string) for the URI-bearing helpers. *)
From Coq Require Import ZArith NArith List Bool String.
From Falcon.lib Require Import PyStr.
From Falcon.gen Require Import Consts ConstsC15.
From Falcon.C15 Require Import Model.
Import ListNotations.
Open Scope N_scope.

(* ---- 1. the case-insensitive map *)
Definition smap := str -> option str.
Definition sempty : smap := fun _ => None.
Definition supd (m : smap) (k v : str) : smap := fun k' => if str_eqb k' k then Some v else m k'.
Definition srem (m : smap) (k : str) : smap := fun k' => if str_eqb k' k then None else m k'.
Definition sappend (m : smap) (k v : str) : smap :=
  match m k with Some old => supd m k (old ++ comma_sp ++ v) | None => supd m k v end.
Definition is_sc (n : str) : bool := str_eqb (lower n) s_set_cookie.

Fixpoint spec_many (m : smap) (l : list (str * pv)) : smap :=
  match l with
  | [] => m
  | (n, v) :: tl => if is_sc n then m else spec_many (supd m (lower n) (pystr v)) tl
  end.

Definition spec_step (fixed : bool) (m : smap) (o : op) : smap :=
  match o with
  | SetH n v => if is_sc n then m else supd m (lower n) (pystr v)
  | Append n v => if is_sc n then m else sappend m (lower n) (pystr v)
  | Delete n => if is_sc n then m else srem m (lower n)
  | SetMany l => spec_many m l
  | PropSet p None => srem m (pname p)
  | PropSet p (Some v) => match transform fixed p v with Ok t => supd m (pname p) t | Err _ => m end
  | PropDel p => srem m (pname p)
  | AppendLink a => match link_value a with Ok v => sappend m s_link v | Err _ => m end
  | EmitW mt | EmitA mt =>
    match mt with
    | Some t => match m s_content_type with None => supd m s_content_type t | Some _ => m end
    | None => m
    end
  | Get _ | PropGet _ | SetCookie _ | UnsetCookie _ _ _ _ | HeadersCopy => m
  end.

Definition spec_run (fixed : bool) (ops : list op) : smap :=
  fold_left (spec_step fixed) ops sempty.

(* ---- 2. the cookie decision table: the Morsel a successful set_cookie call must leave *)
Definition expected_morsel (secure_default : bool) (a : cookie_args) (ma : option Z) : morsel :=
  {| m_value := ca_value a;
     m_expires := option_map ExpText (ca_expires a);
     m_maxage := ma;
     m_domain := truthy (ca_domain a);
     m_path := truthy (ca_path a);
     m_secure := match ca_secure a with None => secure_default | Some b => b end;
     m_httponly := ca_http_only a;
     m_samesite := option_map (fun s => capitalize (lower s)) (truthy (ca_same_site a));
     m_partitioned := ca_partitioned a |}.

(* requested max-age: every non-None argument, converted by int() *)
Definition requested_maxage (a : cookie_args) : option (option Z) :=   (* None = int() raises *)
  match ca_max_age a with
  | None => Some None
  | Some x => match maxage_int x with Some z => Some (Some z) | None => None end
  end.

Definition opt_eqb {A} (eqb : A -> A -> bool) (a b : option A) : bool :=
  match a, b with
  | None, None => true
  | Some x, Some y => eqb x y
  | _, _ => false
  end.
Definition expv_eqb (a b : expv) : bool :=
  match a, b with
  | ExpText x, ExpText y => str_eqb x y
  | ExpDelta x, ExpDelta y => Z.eqb x y
  | _, _ => false
  end.
Definition morsel_eqb (a b : morsel) : bool :=
  str_eqb (m_value a) (m_value b) && opt_eqb expv_eqb (m_expires a) (m_expires b)
  && opt_eqb Z.eqb (m_maxage a) (m_maxage b) && opt_eqb str_eqb (m_domain a) (m_domain b)
  && opt_eqb str_eqb (m_path a) (m_path b) && Bool.eqb (m_secure a) (m_secure b)
  && Bool.eqb (m_httponly a) (m_httponly b) && opt_eqb str_eqb (m_samesite a) (m_samesite b)
  && Bool.eqb (m_partitioned a) (m_partitioned b).

(* oracle on an observed cookie line (parsed by the harness into a morsel) after a
   successful set_cookie call *)
Definition cookie_attrs_ok (secure_default : bool) (a : cookie_args) (observed : morsel) : bool :=
  match requested_maxage a with
  | Some ma => morsel_eqb observed (expected_morsel secure_default a ma)
  | None => false
  end.

(* an unset cookie: empty value, Expires in the past, and no Max-Age (which would take
   precedence over Expires, RFC 6265 section 5.3) *)
Definition expired (m : morsel) : bool :=
  match m_value m with [] => true | _ => false end &&
  match m_expires m with Some (ExpDelta z) => Z.ltb z 0 | _ => false end &&
  match m_maxage m with None => true | Some z => Z.leb z 0 end.

(* ---- 3. emission *)
Definition item_name (i : item) : str := match i with IPlain n _ => n | ICookie n _ _ => n end.
Definition count_name (k : str) (l : list item) : nat :=
  List.length (filter (fun i => str_eqb (item_name i) k) l).
Definition has_plain (k v : str) (l : list item) : bool :=
  existsb (fun i => match i with IPlain n x => str_eqb n k && str_eqb x v | _ => false end) l.
Definition is_lower (s : str) : bool := str_eqb (lower s) s.

(* which clauses fail for an emitted list, given what the case-insensitive map holds
   ([expected], keys lower-case) and how many cookie lines are due *)
Definition emit_oracle (expected : list (str * str)) (n_cookie_lines : nat) (items : list item)
  : list N :=
  (if forallb (fun kv => Nat.eqb (count_name (fst kv) items) 1 && has_plain (fst kv) (snd kv) items)
              expected then [] else [1]) ++
  (if forallb (fun i => str_eqb (item_name i) s_set_cookie
                        || existsb (fun kv => str_eqb (fst kv) (item_name i)) expected) items
   then [] else [2]) ++
  (if forallb (fun i => is_lower (item_name i)) items then [] else [3]) ++
  (if Nat.eqb (count_name s_set_cookie items) n_cookie_lines then [] else [4]).

(* ---- 4. independent decoders *)
Definition hexval (c : N) : N :=
  if (48 <=? c) && (c <=? 57) then c - 48
  else if (65 <=? c) && (c <=? 70) then c - 55
  else c - 87.

(* RFC 3986 percent-decoding of an ASCII string to octets *)
Fixpoint pct_decode (s : str) : list N :=
  match s with
  | [] => []
  | c :: tl =>
    if c =? pct then
      match tl with
      | a :: b :: tl' =>
        if is_hex a && is_hex b then (16 * hexval a + hexval b) :: pct_decode tl'
        else c :: pct_decode tl
      | _ => c :: pct_decode tl
      end
    else c :: pct_decode tl
  end.

(* RFC 9110 quoted-string, after the opening DQUOTE: (content, rest after the closing DQUOTE) *)
Fixpoint qs_parse (s : str) : option (str * str) :=
  match s with
  | [] => None
  | c :: tl =>
    if c =? dq then Some ([], tl)
    else if c =? bsl then
      match tl with
      | d :: tl' => match qs_parse tl' with Some (x, r) => Some (d :: x, r) | None => None end
      | [] => None
      end
    else match qs_parse tl with Some (x, r) => Some (c :: x, r) | None => None end
  end.

(* the strings uri_encode deliberately leaves alone because they look escaped already *)
Definition taken_as_escaped (is_value check : bool) (s : str) : bool :=
  check && negb (forallb (fun c => char_in c (allowed_chars is_value)) s)
  && forallb (fun c => char_in c (allowed_chars is_value ++ [pct])) s && looks_escaped s.

(* oracle: [out] is what the implementation emitted for the URI-bearing value [s] *)
Definition opt_list_eqb (a : option (list N)) (b : list N) : bool :=
  match a with Some x => str_eqb x b | None => false end.
Definition uri_out_ok (is_value check : bool) (s out : str) : bool :=
  is_ascii out && (taken_as_escaped is_value check s || opt_list_eqb (utf8 s) (pct_decode out)).

(* oracle: Content-Disposition emitted for [value] *)
Definition cd_out_ok (dtype value out : str) : bool :=
  is_ascii out &&
  let pre := dtype ++ s_filename_q in
  if startswith out pre then
    let r := skipn (List.length pre) out in
    if is_ascii value then
      match r with
      | c :: r' => (c =? dq) && match qs_parse r' with
                                | Some (x, []) => str_eqb x value
                                | _ => false
                                end
      | [] => false
      end
    else
      (* token ; filename*=UTF-8''ext-value *)
      let '(tok, found, ev) :=
        (fix cut (s : str) (acc : str) : str * bool * str :=
           match s with
           | [] => (rev acc, false, [])
           | c :: tl => if startswith s s_filename_star
                        then (rev acc, true, skipn (List.length s_filename_star) s)
                        else cut tl (c :: acc)
           end) r [] in
      found && forallb (fun c => char_in c filename_safe_chars || (c =? underscore)) tok
      && match tok with [] => false | _ => true end
      && opt_list_eqb (utf8 value) (pct_decode ev)
      && forallb (fun c => char_in c uri_UNRESERVED || (c =? pct)) ev
  else false.

(* ---- 5. emission order of the jar cookies: a cookie that is set again moves to the end of the
   Set-Cookie block (set_cookie drops the old Morsel first), an unset one keeps its place *)
Definition order_after_set (before : list str) (name : str) : list str :=
  filter (fun k => negb (str_eqb name k)) before ++ [name].
Definition order_after_unset (before : list str) (name : str) : list str :=
  if mem name before then before else before ++ [name].
(* oracle on the cookie names read from two consecutive emitted lists around one successful call:
   kind 0 = set_cookie, 1 = unset_cookie *)
Fixpoint strs_eqb (a b : list str) : bool :=
  match a, b with
  | [], [] => true
  | x :: a', y :: b' => str_eqb x y && strs_eqb a' b'
  | _, _ => false
  end.
Definition cookie_order_ok (kind : N) (before : list str) (name : str) (after : list str) : bool :=
  strs_eqb after
    (if kind =? 0 then order_after_set before name else order_after_unset before name).
(* the jar cookie keys of an emitted list, in order *)
Definition cookie_keys (l : list item) : list str :=
  flat_map (fun i => match i with ICookie _ k _ => [k] | IPlain _ _ => [] end) l.
