(* C15 — lemmas live in ProofsMap / ProofsCookie / ProofsUri; this file re-exports them. *)
From Falcon.C15 Require Export ProofsMap ProofsCookie ProofsUri ProofsOrder ProofsCookieText.
