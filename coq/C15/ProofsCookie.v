(* C15 — cookies: the attribute decision table and expiry of unset cookies. *)
From Coq Require Import ZArith NArith List Bool String Lia.
From Falcon.lib Require Import PyStr.
From Falcon.gen Require Import Consts ConstsC15.
From Falcon.C15 Require Import Model Spec.
Import ListNotations.
Local Arguments str_eqb : simpl never.

Lemma cget_cset_same c k m : cget (cset c k m) k = Some m.
Proof.
  induction c as [|[k0 m0] tl IH]; simpl.
  - rewrite str_eqb_refl. reflexivity.
  - destruct (str_eqb k k0) eqn:E; simpl; rewrite E; [reflexivity | exact IH].
Qed.

Lemma cget_cset_other c k m k' : k' <> k -> cget (cset c k m) k' = cget c k'.
Proof.
  intro Hne. apply str_eqb_neq in Hne.
  induction c as [|[k0 m0] tl IH]; simpl.
  - rewrite Hne. reflexivity.
  - destruct (str_eqb k k0) eqn:E; simpl.
    + apply str_eqb_eq in E. subst k0. rewrite Hne. reflexivity.
    + destruct (str_eqb k' k0); [reflexivity | exact IH].
Qed.

Lemma cget_cdel_same c k : cget (cdel c k) k = None.
Proof.
  induction c as [|[k0 m0] tl IH]; simpl; [reflexivity|].
  destruct (str_eqb k k0) eqn:E; simpl; [exact IH | rewrite E; exact IH].
Qed.

Lemma cget_cdel_other c k k' : k' <> k -> cget (cdel c k) k' = cget c k'.
Proof.
  intro Hne. apply str_eqb_neq in Hne.
  induction c as [|[k0 m0] tl IH]; simpl; [reflexivity|].
  destruct (str_eqb k k0) eqn:E; simpl.
  - apply str_eqb_eq in E. subst k0. rewrite Hne. exact IH.
  - destruct (str_eqb k' k0); [reflexivity | exact IH].
Qed.

(* Every cookie written carries exactly the requested attributes (Secure defaulting from the
   option), whatever the jar held before. *)
Theorem cookie_attrs_exact sd c a c' :
  set_cookie true sd c a = (c', None) ->
  exists ma, requested_maxage a = Some ma /\
             cget c' (ca_name a) = Some (expected_morsel sd a ma).
Proof.
  unfold set_cookie, requested_maxage, expected_morsel.
  destruct (negb (is_ascii (ca_name a))); [discriminate|].
  destruct (negb (is_ascii (ca_value a))); [discriminate|].
  destruct (negb (legal_cookie_name (ca_name a))); [discriminate|].
  rewrite cget_cdel_same.
  destruct (ca_max_age a) as [x|]; [destruct (maxage_int x) as [z|]; [|discriminate]|];
    destruct (ca_expires a); destruct (truthy (ca_domain a)); destruct (truthy (ca_path a));
    destruct (ca_secure a) as [[|]|]; destruct sd; destruct (ca_http_only a);
    (destruct (truthy (ca_same_site a)) as [ss|];
     [destruct (negb (mem (lower ss) samesite_values)); [discriminate|]|]);
    destruct (ca_partitioned a); intro H; injection H as <-;
    eexists; (split; [reflexivity|]); rewrite cget_cset_same; reflexivity.
Qed.

(* ... and leaves every other cookie alone *)
Theorem set_cookie_frame f sd c a k :
  k <> ca_name a -> cget (fst (set_cookie f sd c a)) k = cget c k.
Proof.
  intro Hne. unfold set_cookie.
  assert (H0 : cget (if f then cdel c (ca_name a) else c) k = cget c k)
    by (destruct f; [apply cget_cdel_other; exact Hne | reflexivity]).
  repeat match goal with
         | |- context [if ?b then _ else _] => destruct b
         | |- context [match ?x with Some _ => _ | None => _ end] => destruct x
         end; simpl; try reflexivity; try exact H0;
    try (rewrite cget_cset_other by exact Hne; try reflexivity; try exact H0;
         apply cget_cdel_other; exact Hne).
Qed.

Lemma morsel_eqb_refl m : morsel_eqb m m = true.
Proof.
  unfold morsel_eqb.
  assert (S : forall o, opt_eqb str_eqb o o = true)
    by (intros [x|]; simpl; [apply str_eqb_refl|reflexivity]).
  assert (Z : forall o, opt_eqb Z.eqb o o = true)
    by (intros [x|]; simpl; [apply Z.eqb_refl|reflexivity]).
  assert (E : forall o, opt_eqb expv_eqb o o = true).
  { intros [[x|x]|]; simpl; [apply str_eqb_refl|apply Z.eqb_refl|reflexivity]. }
  rewrite str_eqb_refl, E, Z, !S, !Bool.eqb_reflx. reflexivity.
Qed.

(* the oracle applied to observed cookie lines accepts the model *)
Theorem cookie_oracle_sound sd c a c' m :
  set_cookie true sd c a = (c', None) -> cget c' (ca_name a) = Some m ->
  cookie_attrs_ok sd a m = true.
Proof.
  intros H G. destruct (cookie_attrs_exact sd c a c' H) as [ma [R E]].
  rewrite G in E. injection E as ->. unfold cookie_attrs_ok. rewrite R. apply morsel_eqb_refl.
Qed.

(* the code as found: a second set_cookie on the same name inherits the first call's
   attributes (SimpleCookie reuses the Morsel) *)
Definition stale_jar : jar :=
  [(lit "a", w_maxage (w_domain (w_secure blank true) (Some (lit "x.com"))) (Some 100%Z))].
Definition plain_args (ma : option maxage) : cookie_args :=
  {| ca_name := lit "a"; ca_value := lit "2"; ca_expires := None; ca_max_age := ma;
     ca_domain := None; ca_path := None; ca_secure := Some false; ca_http_only := false;
     ca_same_site := None; ca_partitioned := false |}.

Theorem cookie_attrs_exact_refuted_before_fix :
  exists sd c a c', set_cookie false sd c a = (c', None) /\
    ~ (exists ma, requested_maxage a = Some ma /\
                  cget c' (ca_name a) = Some (expected_morsel sd a ma)).
Proof.
  exists true, stale_jar, (plain_args None). eexists. split; [vm_compute; reflexivity|].
  intros [ma [R E]]. vm_compute in R. injection R as <-. vm_compute in E. discriminate E.
Qed.

(* the code as found: max_age=0 is dropped by the truthiness test *)
Theorem cookie_maxage_zero_refuted_before_fix :
  exists sd c a c', set_cookie false sd c a = (c', None) /\
    ~ (exists ma, requested_maxage a = Some ma /\
                  cget c' (ca_name a) = Some (expected_morsel sd a ma)).
Proof.
  exists true, [], (plain_args (Some (MInt 0))). eexists. split; [vm_compute; reflexivity|].
  intros [ma [R E]]. vm_compute in R. injection R as <-. vm_compute in E. discriminate E.
Qed.

(* An unset cookie is expired: empty value, Expires in the past and no Max-Age. *)
Theorem unset_cookie_expired c n ss d p c' :
  unset_cookie true c n ss d p = (c', None) ->
  exists m, cget c' n = Some m /\ expired m = true.
Proof.
  unfold unset_cookie. destruct (negb (legal_cookie_name n)); [discriminate|].
  intro H. injection H as <-. eexists. split; [apply cget_cset_same|].
  destruct (truthy d); destruct (truthy p); reflexivity.
Qed.

Theorem unset_cookie_frame f c n ss d p k :
  k <> n -> cget (fst (unset_cookie f c n ss d p)) k = cget c k.
Proof.
  intro Hne. unfold unset_cookie. destruct (negb (legal_cookie_name n)); simpl; [reflexivity|].
  apply cget_cset_other. exact Hne.
Qed.

Theorem unset_cookie_expired_refuted_before_fix :
  exists c n ss d p c', unset_cookie false c n ss d p = (c', None) /\
    ~ (exists m, cget c' n = Some m /\ expired m = true).
Proof.
  exists stale_jar, (lit "a"), (lit "Lax"), None, None. eexists.
  split; [vm_compute; reflexivity|].
  intros [m [G E]]. vm_compute in G. injection G as <-. vm_compute in E. discriminate E.
Qed.

(* documented exceptions only: set_cookie raises KeyError or ValueError, nothing else *)
Theorem set_cookie_documented_errors f sd c a c' e :
  set_cookie f sd c a = (c', Some e) -> e = EKeyError \/ e = EValueError.
Proof.
  unfold set_cookie.
  repeat match goal with
         | |- context [if ?b then _ else _] => destruct b
         | |- context [match ?x with Some _ => _ | None => _ end] => destruct x
         end; intro H; inversion H; auto.
Qed.
