(* C15 — bridge to the proved model of falcon/util/uri.py (coq/C10) and to the proved UTF-8
   library (coq/lib/Utf8.v): C15's local copy of _create_str_encoder IS C10's [encoder], its
   [utf8] is str.encode() of the library, and its octet-level percent decoder is C10's RFC 3986
   reference decoder.  This turns the octet-level (_partial) statements into
   "falcon.util.uri.decode gives the original string back". *)
From Coq Require Import ZArith NArith List Bool Lia ZifyBool ZifyN ZifyNat.
From Falcon.lib Require Import PyStr Utf8.
From Falcon.gen Require Import Consts ConstsC15.
Require Falcon.C10.Model Falcon.C10.Spec Falcon.C10.ProofsTables Falcon.C10.ProofsEncode
        Falcon.C10.ProofsDecode.
From Falcon.C15 Require Import Model Spec ProofsUri.
Import ListNotations.
Local Open Scope N_scope.
Ltac Zify.zify_post_hook ::= Z.div_mod_to_equations.

Module M10 := Falcon.C10.Model.
Module S10 := Falcon.C10.Spec.
Module T10 := Falcon.C10.ProofsTables.
Module E10 := Falcon.C10.ProofsEncode.
Module D10 := Falcon.C10.ProofsDecode.

(* ------------------------------------------------------------------ UTF-8 *)

Lemma utf8_chr_lib c : utf8_chr c = if scalar c then Some (encode_cp c) else None.
Proof.
  unfold utf8_chr, scalar, encode_cp.
  destruct (c <? 128) eqn:H1; [replace ((c <? 55296) || _) with true by lia; reflexivity |].
  destruct (c <? 2048) eqn:H2; [replace ((c <? 55296) || _) with true by lia; reflexivity |].
  destruct (c <? 65536) eqn:H3.
  - destruct ((55296 <=? c) && (c <=? 57343)) eqn:H4.
    + replace ((c <? 55296) || (57343 <? c) && (c <? 1114112)) with false by lia. reflexivity.
    + replace ((c <? 55296) || (57343 <? c) && (c <? 1114112)) with true by lia. reflexivity.
  - destruct (c <? 1114112) eqn:H5.
    + replace ((c <? 55296) || (57343 <? c) && true) with true by lia. reflexivity.
    + replace ((c <? 55296) || (57343 <? c) && false) with false by lia. reflexivity.
Qed.

(* C15's str.encode() is the library's: defined exactly on scalar strings *)
Theorem utf8_lib s : utf8 s = if forallb scalar s then Some (encode s) else None.
Proof.
  induction s as [|c tl IH]; [reflexivity |].
  cbn [utf8 forallb]. rewrite utf8_chr_lib, IH. unfold encode. cbn [flat_map].
  destruct (scalar c); [| reflexivity]. destruct (forallb scalar tl); reflexivity.
Qed.

(* ------------------------------------------------------------------ the encoder *)

Definition to10 (r : res str) : M10.res str :=
  match r with Ok x => M10.Ok x | Err _ => M10.Crash M10.UnicodeEncodeError end.

Lemma forallb_ext' {A} (f g : A -> bool) l : (forall x, f x = g x) -> forallb f l = forallb g l.
Proof. intro H. induction l as [|x l IH]; [reflexivity |]. cbn [forallb]. rewrite H, IH. reflexivity. Qed.

Lemma looks_escaped_10 s : looks_escaped s = M10.escapes_all_valid s.
Proof.
  unfold looks_escaped, M10.escapes_all_valid. apply forallb_ext'. intros t.
  destruct t as [|a [|b r]]; reflexivity.
Qed.

Lemma enc_byte_10 set b : enc_byte set b = M10.encode_char set b.
Proof. reflexivity. Qed.

(* the local copy of _create_str_encoder is the C10 model of it *)
Theorem uri_encoder_is_C10 v chk s : to10 (uri_encoder v chk s) = M10.encoder v chk s.
Proof.
  unfold uri_encoder, M10.encoder. change (M10.allowed_chars v) with (allowed_chars v).
  rewrite !E10.rstrip_nil, <- looks_escaped_10.
  destruct (forallb (fun c => char_in c (allowed_chars v)) s); [reflexivity |].
  change [37] with [pct].
  destruct (chk && forallb (fun c => char_in c (allowed_chars v ++ [pct])) s && looks_escaped s);
    [reflexivity |].
  rewrite utf8_lib. unfold M10.py_encode. destruct (forallb scalar s); reflexivity.
Qed.

Corollary uri_encoder_ok_10 v chk s out :
  uri_encoder v chk s = Ok out -> M10.encoder v chk s = M10.Ok out.
Proof. intro H. rewrite <- uri_encoder_is_C10, H. reflexivity. Qed.

Lemma taken_as_escaped_10 v chk s :
  taken_as_escaped v chk s =
  chk && negb (forallb (fun c => char_in c (allowed_chars v)) s) && S10.fully_escaped v s.
Proof.
  unfold taken_as_escaped. rewrite looks_escaped_10, <- andb_assoc.
  change [pct] with [37]. change (allowed_chars v) with (M10.allowed_chars v).
  rewrite E10.check_conditions_iff. reflexivity.
Qed.

(* ------------------------------------------------------------------ decode gives the original *)

(* falcon.util.uri.decode (all three paths, proved equal to the RFC 3986 reference decoder in
   C10) applied to what the encoder emitted returns the original string.  [plus] (unquote_plus)
   may be true only for the value encoders: '+' is a legal URI character that uri_encode keeps. *)
Theorem uri_encoder_decodes v chk s out plus :
  (plus = true -> v = true) ->
  taken_as_escaped v chk s = false ->
  uri_encoder v chk s = Ok out -> M10.decode out plus = M10.Ok s.
Proof.
  intros Hp T H. pose proof (uri_encoder_ascii _ _ _ _ H) as A.
  assert (Sc : forallb scalar out = true).
  { apply E10.ascii_scalar. apply Forall_forall. intros c Hc. unfold is_ascii in A.
    rewrite forallb_forall in A. specialize (A c Hc). lia. }
  rewrite (D10.decode_is_reference out plus Sc). f_equal.
  apply uri_encoder_ok_10 in H. rewrite taken_as_escaped_10 in T.
  apply E10.encoder_cases in H as [[-> [Al | [Ck F]]] | (Hs & -> & _)].
  - rewrite <- (E10.table_out_allowed v s Al) at 1.
    apply E10.ref_decode_table_out; [exact Hp | exact Sc].
  - subst chk. rewrite F in T. cbn [andb] in T. rewrite andb_true_r in T.
    apply negb_false_iff in T.
    rewrite <- (E10.table_out_allowed v s T) at 1.
    apply E10.ref_decode_table_out; [exact Hp | exact Sc].
  - apply E10.ref_decode_table_out; [exact Hp | exact Hs].
Qed.

(* the octet-level decoder of Spec.v is C10's reference decoder *)
Lemma hexval_10 c : S10.is_hex c = true -> hexval c = S10.hexval c.
Proof.
  unfold S10.is_hex, S10.is_upper_hex, S10.is_digit, hexval, S10.hexval. intro H.
  destruct ((48 <=? c) && (c <=? 57)) eqn:D.
  - replace (c <=? 57) with true by lia. reflexivity.
  - destruct ((65 <=? c) && (c <=? 70)) eqn:U.
    + replace (c <=? 57) with false by lia. replace (c <=? 70) with true by lia. reflexivity.
    + replace (c <=? 57) with false by lia. replace (c <=? 70) with false by lia. reflexivity.
Qed.

Lemma is_hex_10 c : is_hex c = S10.is_hex c.
Proof. unfold is_hex. apply T10.hex_digits_is_rfc. Qed.

Theorem pct_decode_is_reference s : pct_decode s = S10.ref_bytes false s.
Proof.
  induction s as [s IH] using D10.list_len_ind.
  destruct s as [|c tl]; [reflexivity |].
  cbn [pct_decode S10.ref_bytes]. change pct with 37.
  destruct (c =? 37) eqn:E.
  - apply N.eqb_eq in E. subst c. destruct tl as [|a [|b rest]].
    + reflexivity.
    + f_equal. apply IH. cbn [length]. lia.
    + rewrite !is_hex_10. destruct (S10.is_hex a) eqn:Ha; [destruct (S10.is_hex b) eqn:Hb |].
      * cbn [andb]. rewrite (hexval_10 a Ha), (hexval_10 b Hb). f_equal.
        apply IH. cbn [length]. lia.
      * cbn [andb]. f_equal. apply IH. cbn [length]. lia.
      * cbn [andb]. f_equal. apply IH. cbn [length]. lia.
  - cbn [andb]. f_equal. apply IH. cbn [length]. lia.
Qed.

(* so: an ASCII output whose octets are the UTF-8 of [s] is decoded to [s] by uri.decode -
   this is what the oracle [uri_out_ok] (and the ext-value clause of [cd_out_ok]) certifies
   about an observation of the real code *)
Theorem octets_decode s out :
  is_ascii out = true -> utf8 s = Some (pct_decode out) -> M10.decode out false = M10.Ok s.
Proof.
  intros A H. rewrite utf8_lib in H. destruct (forallb scalar s) eqn:Sc; [| discriminate].
  injection H as H.
  assert (F : Forall (fun c => c < 128) out).
  { apply Forall_forall. intros c Hc. unfold is_ascii in A. rewrite forallb_forall in A.
    specialize (A c Hc). lia. }
  rewrite (D10.decode_is_reference out false (E10.ascii_scalar out F)). f_equal.
  unfold S10.ref_decode. rewrite (encode_ascii out F), <- pct_decode_is_reference, <- H.
  apply decode_encode, Sc.
Qed.

Theorem uri_oracle_implies_decode v chk s out :
  uri_out_ok v chk s out = true -> taken_as_escaped v chk s = false ->
  M10.decode out false = M10.Ok s.
Proof.
  unfold uri_out_ok. intros H T. rewrite T in H. cbn [orb] in H.
  apply andb_true_iff in H as [A H]. apply octets_decode; [exact A |].
  unfold opt_list_eqb in H. destruct (utf8 s) as [x|]; [| discriminate].
  apply str_eqb_eq in H. subst x. reflexivity.
Qed.

(* ------------------------------------------------------------------ Link *)

Theorem link_target_shape a out :
  link_value a = Ok out ->
  exists t rest, uri_encode (l_target a) = Ok t /\ out = 60 :: t ++ rest /\
                 startswith rest s_rel = true.
Proof.
  unfold link_value, bind.
  destruct (if contains (l_rel a) [47; 47] then _ else _) as [rel|]; [|discriminate].
  destruct (uri_encode (l_target a)) as [target|] eqn:ET; [|discriminate].
  intro H.
  assert (G : forall x, (exists r, x = 60 :: target ++ s_rel ++ r) ->
              exists t rest, Ok target = Ok t /\ x = 60 :: t ++ rest /\
                             startswith rest s_rel = true).
  { intros x [r ->]. exists target, (s_rel ++ r). split; [reflexivity|]. split; [reflexivity|].
    apply startswith_app. exists r. reflexivity. }
  apply G. clear G ET.
  (* every later stage only appends *)
  assert (EXT : forall (x y : str), (exists r, x = 60 :: target ++ s_rel ++ r) ->
                forall z, (exists r, x ++ z = 60 :: target ++ s_rel ++ r)).
  { intros x y [r ->] z. exists (r ++ z). cbn [app]. rewrite <- !app_assoc. reflexivity. }
  set (v0 := [60] ++ target ++ s_rel ++ rel) in *.
  assert (P0 : exists r, v0 = 60 :: target ++ s_rel ++ r) by (exists rel; reflexivity).
  set (v1 := match l_title a with Some t => v0 ++ s_title ++ [dq] ++ t ++ [dq] | None => v0 end) in *.
  assert (P1 : exists r, v1 = 60 :: target ++ s_rel ++ r)
    by (unfold v1; destruct (l_title a); [apply (EXT v0 [] P0)|exact P0]).
  destruct (match l_title_star a with Some (lang, text) => _ | None => Ok v1 end) as [v2|] eqn:E2;
    [|discriminate].
  assert (P2 : exists r, v2 = 60 :: target ++ s_rel ++ r).
  { destruct (l_title_star a) as [[lang text]|].
    - destruct (uri_encode_value text); [|discriminate]. apply ok_inj in E2; rewrite <- E2. apply (EXT v1 [] P1).
    - apply ok_inj in E2; rewrite <- E2. exact P1. }
  set (v3 := match l_type_hint a with Some t => v2 ++ s_type ++ [dq] ++ t ++ [dq] | None => v2 end) in *.
  assert (P3 : exists r, v3 = 60 :: target ++ s_rel ++ r)
    by (unfold v3; destruct (l_type_hint a); [apply (EXT v2 [] P2)|exact P2]).
  set (v4 := match l_hreflang a with
             | Some (inl s) => v3 ++ semi_sp ++ s_hreflang ++ s
             | Some (inr l) => v3 ++ semi_sp ++ join_str semi_sp (map (fun x => s_hreflang ++ x) l)
             | None => v3 end) in *.
  assert (P4 : exists r, v4 = 60 :: target ++ s_rel ++ r)
    by (unfold v4; destruct (l_hreflang a) as [[s|l]|]; [apply (EXT v3 [] P3)|apply (EXT v3 [] P3)|exact P3]).
  destruct (match l_anchor a with Some an => _ | None => Ok v4 end) as [v5|] eqn:E5; [|discriminate].
  assert (P5 : exists r, v5 = 60 :: target ++ s_rel ++ r).
  { destruct (l_anchor a) as [an|].
    - destruct (uri_encode an); [|discriminate]. apply ok_inj in E5; rewrite <- E5. apply (EXT v4 [] P4).
    - apply ok_inj in E5; rewrite <- E5. exact P4. }
  destruct (match l_crossorigin a with Some co => _ | None => Ok v5 end) as [v6|] eqn:E6; [|discriminate].
  assert (P6 : exists r, v6 = 60 :: target ++ s_rel ++ r).
  { destruct (l_crossorigin a) as [co|].
    - destruct (negb (mem (lower co) crossorigin_values)); [discriminate|].
      destruct (str_eqb (lower co) s_anonymous); apply ok_inj in E6; rewrite <- E6; apply (EXT v5 [] P5).
    - apply ok_inj in E6; rewrite <- E6. exact P5. }
  destruct (l_ext a); apply ok_inj in H; rewrite <- H; [apply (EXT v6 [] P6)|exact P6].
Qed.

(* the target between '<' and '>; rel=' of a Link value is decoded by uri.decode to the target
   that was passed to append_link *)
Theorem link_target_decodes a out :
  taken_as_escaped false true (l_target a) = false -> link_value a = Ok out ->
  exists t rest, out = 60 :: t ++ rest /\ startswith rest s_rel = true /\
                 is_ascii t = true /\ M10.decode t false = M10.Ok (l_target a).
Proof.
  intros T H. destruct (link_target_shape a out H) as (t & rest & Et & -> & Hr).
  exists t, rest. repeat split; [exact Hr | exact (uri_encoder_ascii _ _ _ _ Et) |].
  apply (uri_encoder_decodes false true (l_target a) t false); [discriminate | exact T | exact Et].
Qed.

(* ------------------------------------------------------------------ Content-Disposition:
   RFC 5987 / 8187 ext-value *)

Lemma encode_value_not_taken s : taken_as_escaped true false s = false.
Proof. reflexivity. Qed.

(* filename*=UTF-8''<value-chars>: the value is attr-char / upper-case pct-encoded only
   (RFC 3986 unreserved is a subset of RFC 5987 attr-char) and percent-decoding + UTF-8
   (falcon's own uri.decode, with or without '+' handling) returns the original filename *)
Theorem content_disposition_ext_value_decodes nfkd dt v out plus :
  is_ascii v = false -> format_content_disposition true nfkd dt v = Ok out ->
  exists sf ev, out = dt ++ s_filename_q ++ sf ++ s_filename_star ++ ev /\
                is_ascii sf = true /\ is_ascii ev = true /\
                S10.escaped_ok true (S10.rfc_allowed true) ev = true /\
                M10.decode ev plus = M10.Ok v.
Proof.
  intro A. unfold format_content_disposition. rewrite A. unfold bind.
  destruct (secure_filename nfkd v) as [sf|] eqn:E1; [|discriminate].
  destruct (encode_value v) as [ev|] eqn:E2; [|discriminate].
  intro H. injection H as <-. exists sf, ev. unfold encode_value in E2. repeat split.
  - eapply secure_filename_ascii; exact E1.
  - eapply uri_encoder_ascii; exact E2.
  - apply (E10.encode_alphabet true v ev). apply uri_encoder_ok_10. exact E2.
  - apply (uri_encoder_decodes true false v ev plus); [reflexivity | reflexivity | exact E2].
Qed.

(* ---- the tokenizer of the non-ASCII branch of the oracle *)

Definition cutf : str -> str -> str * bool * str :=
  fix cut (s : str) (acc : str) : str * bool * str :=
    match s with
    | [] => (rev acc, false, [])
    | c :: tl => if startswith s s_filename_star
                 then (rev acc, true, skipn (List.length s_filename_star) s)
                 else cut tl (c :: acc)
    end.

Definition tok_char (c : N) : bool := char_in c filename_safe_chars || (c =? underscore).

Lemma tok_char_not_semicolon c : tok_char c = true -> (c =? 59) = false.
Proof.
  unfold tok_char. intro H. apply orb_true_iff in H as [H | H].
  - assert (S : forallb (fun x => negb (x =? 59)) filename_safe_chars = true) by (vm_compute; reflexivity).
    apply negb_true_iff. exact (char_in_forall c _ _ S H).
  - unfold underscore in H. lia.
Qed.

Lemma cutf_spec sf ev : forall acc,
  forallb tok_char sf = true ->
  cutf (sf ++ s_filename_star ++ ev) acc = (rev acc ++ sf, true, ev).
Proof.
  induction sf as [|c sf IH]; intros acc H.
  - cbn [app]. rewrite app_nil_r.
    change (s_filename_star ++ ev) with (59 :: (List.tl s_filename_star) ++ ev) at 1.
    cbn [cutf].
    change (59 :: List.tl s_filename_star ++ ev) with (s_filename_star ++ ev).
    rewrite startswith_self_app. f_equal.
  - cbn [forallb] in H. apply andb_true_iff in H as [Hc Hsf].
    cbn [app cutf].
    assert (Sw : startswith (c :: sf ++ s_filename_star ++ ev) s_filename_star = false).
    { change s_filename_star with (59 :: List.tl s_filename_star). cbn [startswith].
      rewrite (tok_char_not_semicolon c Hc). reflexivity. }
    rewrite Sw. fold cutf. rewrite (IH (c :: acc) Hsf). cbn [rev]. rewrite <- app_assoc. reflexivity.
Qed.

Lemma secure_filename_tok nfkd v sf :
  secure_filename nfkd v = Ok sf -> nfkd v <> [] ->
  forallb tok_char sf = true /\ sf <> [].
Proof.
  unfold secure_filename. destruct v as [|c0 v0]; [discriminate |]. intros H Hne.
  apply ok_inj in H. subst sf. split.
  - apply forallb_forall. intros c Hc. apply in_map_iff in Hc as [x [Hx _]]. subst c.
    unfold tok_char. destruct (char_in x filename_safe_chars) eqn:E.
    + rewrite E. reflexivity.
    + unfold underscore. rewrite N.eqb_refl. apply orb_true_r.
  - destruct (nfkd (c0 :: v0)) as [|d f] eqn:En; [congruence |].
    destruct (d =? dot); discriminate.
Qed.

Lemma hexd_unreserved d : d < 16 -> char_in (hexd d) uri_UNRESERVED = true.
Proof.
  intro H. rewrite T10.unreserved_is_rfc. unfold hexd, S10.rfc_unreserved, S10.is_alpha, S10.is_digit.
  destruct (d <? 10) eqn:E; lia.
Qed.

Lemma value_chars set bs :
  (forall d, d < 16 -> char_in (hexd d) set = true) -> bytes bs ->
  forallb (fun c => char_in c set || (c =? pct)) (flat_map (enc_byte set) bs) = true.
Proof.
  intros Hh B. induction B as [|b tl Hb _ IH]; [reflexivity |].
  cbn [flat_map]. rewrite forallb_app, IH, andb_true_r. unfold enc_byte.
  destruct (char_in b set) eqn:E.
  - cbn [forallb]. rewrite E. reflexivity.
  - cbn [forallb]. rewrite N.eqb_refl, orb_true_r.
    rewrite (Hh (b / 16)) by lia. rewrite (Hh (b mod 16)) by lia. reflexivity.
Qed.

Lemma encode_value_chars v ev :
  is_ascii v = false -> encode_value v = Ok ev ->
  forallb (fun c => char_in c uri_UNRESERVED || (c =? pct)) ev = true.
Proof.
  unfold encode_value, uri_encoder. cbn [allowed_chars andb]. intros A.
  destruct (forallb (fun c => char_in c uri_UNRESERVED) v) eqn:E1.
  - exfalso. assert (is_ascii v = true); [| congruence].
    eapply all_in_ascii; [apply (allowed_ascii true) | exact E1].
  - destruct (utf8 v) as [bs|] eqn:E3; [| discriminate]. intro H. injection H as <-.
    apply value_chars; [exact hexd_unreserved | eapply utf8_bytes; exact E3].
Qed.

(* The Content-Disposition oracle accepts the model on BOTH branches.  [nfkd v <> []] is the
   contract of unicodedata.normalize on a non-empty string (the oracle input supplied by the
   harness). *)
Theorem cd_oracle_sound nfkd dt v out :
  is_ascii dt = true -> (is_ascii v = false -> nfkd v <> []) ->
  format_content_disposition true nfkd dt v = Ok out -> cd_out_ok dt v out = true.
Proof.
  intros D Hn H. destruct (is_ascii v) eqn:A.
  - exact (cd_oracle_sound_ascii nfkd dt v out D A H).
  - specialize (Hn eq_refl). unfold cd_out_ok.
    rewrite (content_disposition_ascii _ _ _ _ _ D H). cbn [andb].
    unfold format_content_disposition in H. rewrite A in H. unfold bind in H.
    destruct (secure_filename nfkd v) as [sf|] eqn:E1; [| discriminate].
    destruct (encode_value v) as [ev|] eqn:E2; [| discriminate].
    apply ok_inj in H. subst out.
    destruct (secure_filename_tok nfkd v sf E1 Hn) as [Ht Hne].
    rewrite app_assoc. rewrite startswith_self_app, skipn_app_len, A.
    fold cutf. rewrite (cutf_spec sf ev [] Ht). cbn [rev app andb].
    fold tok_char. rewrite Ht. cbn [andb].
    destruct sf as [|c0 sf0]; [congruence |]. cbn [andb].
    rewrite (encode_value_chars v ev A E2), andb_true_r.
    rewrite <- (encode_value_decode_back v ev E2). unfold opt_list_eqb. apply str_eqb_refl.
Qed.

(* and what the oracle certifies about an observation of the real code: the ext-value it found
   is decoded by uri.decode to the filename that was assigned *)
Theorem cd_oracle_implies_decode dt v out :
  is_ascii v = false -> cd_out_ok dt v out = true ->
  exists tok ev, out = dt ++ s_filename_q ++ tok ++ s_filename_star ++ ev /\
                 M10.decode ev false = M10.Ok v.
Proof.
  intros A H. unfold cd_out_ok in H. apply andb_true_iff in H as [Ao H].
  destruct (startswith out (dt ++ s_filename_q)) eqn:Sw; [| discriminate].
  apply startswith_app in Sw as [r ->]. rewrite skipn_app_len, A in H. fold cutf in H.
  assert (C : forall s acc tok ev, cutf s acc = (tok, true, ev) ->
              exists mid, tok = rev acc ++ mid /\ s = mid ++ s_filename_star ++ ev).
  { induction s as [|c tl IH]; intros acc tok ev E; cbn [cutf] in E; [discriminate |].
    destruct (startswith (c :: tl) s_filename_star) eqn:S1.
    - apply startswith_app in S1 as [r' E']. rewrite E' in E |- *. rewrite skipn_app_len in E.
      assert (E1 : tok = rev acc) by congruence. assert (E2 : ev = r') by congruence. subst tok ev.
      exists []. rewrite app_nil_r. split; reflexivity.
    - fold cutf in E. destruct (IH _ _ _ E) as (mid & -> & ->). exists (c :: mid).
      cbn [rev]. rewrite <- app_assoc. split; reflexivity. }
  destruct (cutf r []) as [[tok found] ev] eqn:Ec.
  destruct found; [| discriminate]. cbn [andb] in H.
  destruct (C r [] tok ev Ec) as (mid & -> & ->). cbn [rev app] in *.
  exists mid, ev. split; [rewrite <- app_assoc; reflexivity |].
  repeat (apply andb_true_iff in H as [H ?]).
  apply octets_decode.
  - rewrite !is_ascii_app in Ao. repeat (apply andb_true_iff in Ao as [? Ao]). exact Ao.
  - match goal with X : opt_list_eqb (utf8 v) (pct_decode ev) = true |- _ => rename X into Hd end.
    unfold opt_list_eqb in Hd. destruct (utf8 v) as [x|]; [| discriminate].
    apply str_eqb_eq in Hd. subst x. reflexivity.
Qed.

(* ------------------------------------------------------------------ decode (location_value s) = s *)
Theorem location_decodes_back f s out :
  taken_as_escaped false true s = false ->
  (transform f P_location (PS s) = Ok out \/ transform f P_content_location (PS s) = Ok out) ->
  M10.decode out false = M10.Ok s.
Proof.
  intros T H. destruct (location_is_uri_encode f s) as [E1 E2]. rewrite E1, E2 in H.
  assert (E : uri_encode s = Ok out) by (destruct H; assumption).
  apply (uri_encoder_decodes false true s out false); [discriminate | exact T | exact E].
Qed.
