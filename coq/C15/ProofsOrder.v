(* C15 — emission order of the jar cookies: the Set-Cookie block of the emitted list is the jar in
   insertion order; set_cookie (which drops the existing Morsel first, after the cookie-attribute
   fix) moves a cookie that is set again to the end, unset_cookie keeps its place. *)
From Coq Require Import ZArith NArith List Bool.
From Falcon.lib Require Import PyStr.
From Falcon.gen Require Import Consts ConstsC15.
From Falcon.C15 Require Import Model Spec.
Import ListNotations.
Local Open Scope N_scope.

Lemma strs_eqb_refl l : strs_eqb l l = true.
Proof. induction l as [|x l IH]; [reflexivity |]. cbn [strs_eqb]. rewrite str_eqb_refl, IH. reflexivity. Qed.

Lemma cookie_keys_app a b : cookie_keys (a ++ b) = cookie_keys a ++ cookie_keys b.
Proof. unfold cookie_keys. apply flat_map_app. Qed.

Lemma cookie_keys_plain l : cookie_keys (plain_items l) = [].
Proof. induction l as [|p l IH]; [reflexivity | exact IH]. Qed.

Lemma cookie_keys_cookies c : cookie_keys (cookie_items c) = map fst c.
Proof. induction c as [|p c IH]; [reflexivity |]. cbn. f_equal. exact IH. Qed.

(* both emitters list the jar cookies in jar order (after the plain and the raw lines) *)
Theorem emitted_cookie_order f sd s o s' l :
  (exists mt, o = EmitW mt) \/ (exists mt, o = EmitA mt) ->
  step f sd s o = (s', OItems l) -> cookie_keys l = map fst (cookies s).
Proof.
  intros [[mt ->] | [mt ->]]; cbn [step].
  - intro H. injection H as _ <-.
    rewrite !cookie_keys_app, !cookie_keys_plain, cookie_keys_cookies. reflexivity.
  - destruct (negb (forallb _ (hdrs _))); [discriminate |].
    destruct (negb (forallb _ (extra _))); [discriminate |].
    destruct (negb (forallb _ (cookies _))); [discriminate |].
    intro H. injection H as _ <-.
    rewrite !cookie_keys_app, !cookie_keys_plain, cookie_keys_cookies. reflexivity.
Qed.

Lemma cdel_keys c k : map fst (cdel c k) = filter (fun k' => negb (str_eqb k k')) (map fst c).
Proof.
  induction c as [|[k' m'] c IH]; [reflexivity |].
  cbn [cdel map fst filter]. destruct (str_eqb k k'); cbn [negb]; [exact IH |].
  cbn [map fst]. f_equal. exact IH.
Qed.

Lemma cset_keys_fresh c k m : ~ In k (map fst c) -> map fst (cset c k m) = map fst c ++ [k].
Proof.
  induction c as [|[k' m'] c IH]; intro H; [reflexivity |].
  cbn [cset map fst In] in *. destruct (str_eqb k k') eqn:E.
  - apply str_eqb_eq in E. subst. tauto.
  - cbn [map fst app]. f_equal. apply IH. tauto.
Qed.

Lemma cset_keys_present c k m : In k (map fst c) -> map fst (cset c k m) = map fst c.
Proof.
  induction c as [|[k' m'] c IH]; intro H; [destruct H |].
  cbn [cset map fst In] in *. destruct (str_eqb k k') eqn:E.
  - apply str_eqb_eq in E. subst. reflexivity.
  - cbn [map fst]. f_equal. apply IH. destruct H as [H | H]; [| exact H].
    subst. rewrite str_eqb_refl in E. discriminate.
Qed.

Lemma cdel_not_in c k : ~ In k (map fst (cdel c k)).
Proof.
  rewrite cdel_keys. intro H. apply filter_In in H as [_ H]. rewrite str_eqb_refl in H. discriminate.
Qed.

Lemma set_after_del c k m : map fst (cset (cdel c k) k m) = order_after_set (map fst c) k.
Proof. rewrite cset_keys_fresh by apply cdel_not_in. rewrite cdel_keys. reflexivity. Qed.

(* every way set_cookie (as fixed) can end once it has touched the jar leaves the cookie LAST;
   the only other outcomes are the two early errors, which leave the jar alone (an illegal name was
   never in it) *)
Theorem set_cookie_order sd c a c' e :
  set_cookie true sd c a = (c', e) ->
  map fst c' = order_after_set (map fst c) (ca_name a) \/
  (e <> None /\ map fst c' = filter (fun k => negb (str_eqb (ca_name a) k)) (map fst c)) \/
  (e <> None /\ c' = c).
Proof.
  unfold set_cookie.
  destruct (negb (is_ascii (ca_name a))); [intro H; injection H as <- <-; right; right; split; [discriminate | reflexivity] |].
  destruct (negb (is_ascii (ca_value a))); [intro H; injection H as <- <-; right; right; split; [discriminate | reflexivity] |].
  destruct (negb (legal_cookie_name (ca_name a))).
  { intro H. injection H as <- <-. right. left. split; [discriminate | apply cdel_keys]. }
  match goal with |- context [match ?X with Some m3 => _ | None => _ end = _] => destruct X as [m3|] end.
  - destruct (truthy (ca_same_site a)) as [ss|].
    + destruct (negb (mem (lower ss) samesite_values));
        intro H; injection H as <- <-; left; apply set_after_del.
    + intro H; injection H as <- <-; left; apply set_after_del.
  - intro H; injection H as <- <-; left; apply set_after_del.
Qed.

Corollary set_cookie_moves_to_end sd c a c' :
  set_cookie true sd c a = (c', None) -> map fst c' = order_after_set (map fst c) (ca_name a).
Proof.
  intro H. destruct (set_cookie_order sd c a c' None H) as [E | [[N _] | [N _]]];
    [exact E | congruence | congruence].
Qed.

Theorem unset_cookie_order f c n ss d p c' :
  unset_cookie f c n ss d p = (c', None) -> map fst c' = order_after_unset (map fst c) n.
Proof.
  unfold unset_cookie. destruct (negb (legal_cookie_name n)); [discriminate |].
  intro H. injection H as <-. unfold order_after_unset.
  destruct (mem n (map fst c)) eqn:E.
  - apply cset_keys_present. apply mem_In. exact E.
  - apply cset_keys_fresh. intro Hin. apply mem_In in Hin. congruence.
Qed.

(* the order oracle accepts the model *)
Theorem cookie_order_oracle_sound sd f c a n ss d p c' :
  (set_cookie true sd c a = (c', None) -> cookie_order_ok 0 (map fst c) (ca_name a) (map fst c') = true) /\
  (unset_cookie f c n ss d p = (c', None) -> cookie_order_ok 1 (map fst c) n (map fst c') = true).
Proof.
  split; intro H; unfold cookie_order_ok; cbn [N.eqb].
  - rewrite (set_cookie_moves_to_end _ _ _ _ H). apply strs_eqb_refl.
  - rewrite (unset_cookie_order _ _ _ _ _ _ _ H). apply strs_eqb_refl.
Qed.
