(* C15 — property theorems only.  Each is closed by [exact] of a lemma from Proofs*.v and
   followed by Print Assumptions. *)
From Coq Require Import ZArith NArith List Bool String.
From Falcon.lib Require Import PyStr.
From Falcon.gen Require Import ConstsC15.
From Falcon.C15 Require Import Model Spec CookieText Proofs ProofsBridge.
Import ListNotations.
(* the proved model of falcon/util/uri.py (C10): M10 = Falcon.C10.Model, S10 = Falcon.C10.Spec *)

(* ---- reading back = a case-insensitive map, for every history and every casing *)
Theorem C15_headers_refine_map : forall f sd ops n,
  let s := final f sd ops in
  snd (step f sd s (Get n)) =
    if is_sc n then OErr HeaderNotSupported else OVal (spec_run f ops (lower n)).
Proof. exact headers_refine_map. Qed.
Print Assumptions C15_headers_refine_map.

Theorem C15_prop_read_refines_map : forall f sd ops p,
  snd (step f sd (final f sd ops) (PropGet p)) = OVal (spec_run f ops (pname p)).
Proof. exact prop_read_refines_map. Qed.
Print Assumptions C15_prop_read_refines_map.

Theorem C15_headers_copy_refines_map : forall f sd ops h,
  snd (step f sd (final f sd ops) HeadersCopy) = OHeaders h ->
  forall k, hget h k = spec_run f ops k.
Proof. exact headers_copy_refines_map. Qed.
Print Assumptions C15_headers_copy_refines_map.

Theorem C15_get_case_insensitive : forall f sd s n1 n2,
  lower n1 = lower n2 -> step f sd s (Get n1) = step f sd s (Get n2).
Proof. exact get_case_insensitive. Qed.
Print Assumptions C15_get_case_insensitive.

Theorem C15_set_case_insensitive : forall f sd s n1 n2 v,
  lower n1 = lower n2 -> step f sd s (SetH n1 v) = step f sd s (SetH n2 v).
Proof. exact set_case_insensitive. Qed.
Print Assumptions C15_set_case_insensitive.

(* ---- Set-Cookie can be neither read, overwritten nor deleted through the plain calls *)
Theorem C15_setcookie_guard : forall f sd s n,
  is_sc n = true ->
  step f sd s (Get n) = (s, OErr HeaderNotSupported) /\
  (forall v, step f sd s (SetH n v) = (s, OErr HeaderNotSupported)) /\
  step f sd s (Delete n) = (s, OErr HeaderNotSupported).
Proof. exact setcookie_guard. Qed.
Print Assumptions C15_setcookie_guard.

Theorem C15_setcookie_guard_bulk : forall f sd s l,
  existsb (fun p => is_sc (fst p)) l = true ->
  snd (step f sd s (SetMany l)) = OErr HeaderNotSupported.
Proof. exact setcookie_guard_bulk. Qed.
Print Assumptions C15_setcookie_guard_bulk.

Theorem C15_setcookie_lines_persist : forall f sd s o,
  cookie_op o = false ->
  cookies (fst (step f sd s o)) = cookies s /\
  exists l, extra (fst (step f sd s o)) = extra s ++ l /\
            (forall p, In p l -> exists n v, o = Append n v /\ is_sc n = true /\
                                             p = (s_set_cookie, pystr v)).
Proof. exact setcookie_lines_persist. Qed.
Print Assumptions C15_setcookie_lines_persist.

Theorem C15_setcookie_never_in_dict : forall f sd ops,
  hget (hdrs (final f sd ops)) s_set_cookie = None.
Proof. exact setcookie_never_in_dict. Qed.
Print Assumptions C15_setcookie_never_in_dict.

(* ---- the list handed to the server: each plain header exactly once; one Set-Cookie line
   per raw line and per cookie (WSGI and ASGI emitters) *)
Theorem C15_emit_each_once : forall f sd ops o items k,
  (exists mt, o = EmitW mt \/ o = EmitA mt) ->
  let s := final f sd ops in
  snd (step f sd s o) = OItems items ->
  let s' := fst (step f sd s o) in
  count_name k items =
    if str_eqb s_set_cookie k then (List.length (extra s') + List.length (cookies s'))%nat
    else match hget (hdrs s') k with Some _ => 1%nat | None => 0%nat end.
Proof. exact emit_each_once. Qed.
Print Assumptions C15_emit_each_once.

(* cookie names in the jar are distinct: one line per cookie *)
Theorem C15_one_line_per_cookie : forall f sd ops, wf (final f sd ops).
Proof. exact reachable_wf. Qed.
Print Assumptions C15_one_line_per_cookie.

Theorem C15_emitted_names_lower : forall f sd ops o items,
  (exists mt, o = EmitW mt \/ o = EmitA mt) ->
  snd (step f sd (final f sd ops) o) = OItems items ->
  forall i, In i items -> is_lower (item_name i) = true.
Proof. exact emitted_names_lower. Qed.
Print Assumptions C15_emitted_names_lower.

Theorem C15_emit_oracle_sound : forall s, wf s ->
  emit_oracle (hdrs s) (List.length (extra s) + List.length (cookies s)) (emitted s) = [].
Proof. exact emit_oracle_sound. Qed.
Print Assumptions C15_emit_oracle_sound.

(* ---- cookies *)
Theorem C15_cookie_attrs_exact : forall sd c a c',
  set_cookie true sd c a = (c', None) ->
  exists ma, requested_maxage a = Some ma /\
             cget c' (ca_name a) = Some (expected_morsel sd a ma).
Proof. exact cookie_attrs_exact. Qed.
Print Assumptions C15_cookie_attrs_exact.

Theorem C15_set_cookie_frame : forall f sd c a k,
  k <> ca_name a -> cget (fst (set_cookie f sd c a)) k = cget c k.
Proof. exact set_cookie_frame. Qed.
Print Assumptions C15_set_cookie_frame.

Theorem C15_cookie_oracle_sound : forall sd c a c' m,
  set_cookie true sd c a = (c', None) -> cget c' (ca_name a) = Some m ->
  cookie_attrs_ok sd a m = true.
Proof. exact cookie_oracle_sound. Qed.
Print Assumptions C15_cookie_oracle_sound.

(* as found: attributes of an earlier call on the same name leak into the new cookie *)
Theorem C15_cookie_attrs_exact_refuted_before_fix :
  exists sd c a c', set_cookie false sd c a = (c', None) /\
    ~ (exists ma, requested_maxage a = Some ma /\
                  cget c' (ca_name a) = Some (expected_morsel sd a ma)).
Proof. exact cookie_attrs_exact_refuted_before_fix. Qed.
Print Assumptions C15_cookie_attrs_exact_refuted_before_fix.

(* as found: max_age=0 is dropped by the truthiness test *)
Theorem C15_cookie_maxage_zero_refuted_before_fix :
  exists sd c a c', set_cookie false sd c a = (c', None) /\
    ~ (exists ma, requested_maxage a = Some ma /\
                  cget c' (ca_name a) = Some (expected_morsel sd a ma)).
Proof. exact cookie_maxage_zero_refuted_before_fix. Qed.
Print Assumptions C15_cookie_maxage_zero_refuted_before_fix.

Theorem C15_set_cookie_documented_errors : forall f sd c a c' e,
  set_cookie f sd c a = (c', Some e) -> e = EKeyError \/ e = EValueError.
Proof. exact set_cookie_documented_errors. Qed.
Print Assumptions C15_set_cookie_documented_errors.

Theorem C15_unset_cookie_expired : forall c n ss d p c',
  unset_cookie true c n ss d p = (c', None) ->
  exists m, cget c' n = Some m /\ expired m = true.
Proof. exact unset_cookie_expired. Qed.
Print Assumptions C15_unset_cookie_expired.

Theorem C15_unset_cookie_expired_refuted_before_fix :
  exists c n ss d p c', unset_cookie false c n ss d p = (c', None) /\
    ~ (exists m, cget c' n = Some m /\ expired m = true).
Proof. exact unset_cookie_expired_refuted_before_fix. Qed.
Print Assumptions C15_unset_cookie_expired_refuted_before_fix.

(* ---- emission order of the jar cookies (set_cookie drops an existing Morsel first: a cookie
   that is set again moves to the end of the Set-Cookie block; unset_cookie keeps its place) *)
Theorem C15_emitted_cookie_order : forall f sd s o s' l,
  (exists mt, o = EmitW mt) \/ (exists mt, o = EmitA mt) ->
  step f sd s o = (s', OItems l) -> cookie_keys l = map fst (cookies s).
Proof. exact emitted_cookie_order. Qed.
Print Assumptions C15_emitted_cookie_order.

Theorem C15_set_cookie_order : forall sd c a c' e,
  set_cookie true sd c a = (c', e) ->
  map fst c' = order_after_set (map fst c) (ca_name a) \/
  (e <> None /\ map fst c' = filter (fun k => negb (str_eqb (ca_name a) k)) (map fst c)) \/
  (e <> None /\ c' = c).
Proof. exact set_cookie_order. Qed.
Print Assumptions C15_set_cookie_order.

Theorem C15_unset_cookie_order : forall f c n ss d p c',
  unset_cookie f c n ss d p = (c', None) -> map fst c' = order_after_unset (map fst c) n.
Proof. exact unset_cookie_order. Qed.
Print Assumptions C15_unset_cookie_order.

Theorem C15_cookie_order_oracle_sound : forall sd f c a n ss d p c',
  (set_cookie true sd c a = (c', None) -> cookie_order_ok 0 (map fst c) (ca_name a) (map fst c') = true) /\
  (unset_cookie f c n ss d p = (c', None) -> cookie_order_ok 1 (map fst c) n (map fst c') = true).
Proof. exact cookie_order_oracle_sound. Qed.
Print Assumptions C15_cookie_order_oracle_sound.

(* ---- cookie VALUE text and the echo through the request API.  [quote] / [unquote] model
   http.cookies._quote / _unquote (tables regenerated from the live module), [parse_cookie_value]
   the strip + guard + _unquote of request_helpers._parse_cookie_header. *)

(* the live _Translator table: backslash pair for the double quote and the backslash, identity on
   _UnescapedChars, three octal digits for every other code point below 256 *)
Theorem C15_cookie_translator_table : forall c, translate_char c = tr_spec c.
Proof. exact translate_spec. Qed.
Print Assumptions C15_cookie_translator_table.

Theorem C15_unquote_quote : forall v, unquote (quote v) = v.
Proof. exact unquote_quote. Qed.
Print Assumptions C15_unquote_quote.

(* guard conditions: a value quoted on output has length >= 2 and starts and ends with a double
   quote; a value NOT quoted on output consists of legal characters only, so it contains no double
   quote (set_cookie of a value that itself starts and ends with one is quoted and escaped) *)
Theorem C15_quoted_shape : forall v,
  is_legal_key v = false ->
  exists body, quote v = dquote :: body ++ [dquote] /\ body = flat_map translate_char v /\
               (2 <= List.length (quote v))%nat /\ hd 0%N (quote v) = dquote /\ last (quote v) 0%N = dquote.
Proof. exact quoted_shape. Qed.
Print Assumptions C15_quoted_shape.

Theorem C15_unquoted_shape : forall v,
  is_legal_key v = true ->
  quote v = v /\ v <> [] /\ Forall (fun c => char_in c cookie_LegalChars = true) v.
Proof. exact unquoted_shape. Qed.
Print Assumptions C15_unquoted_shape.

(* the echo: set_cookie accepts exactly the ASCII-encodable values ([settable]); what the request
   API makes of the emitted text is the value that was set (it holds for every string) *)
Theorem C15_cookie_value_echo : forall v,
  settable v = true -> parse_cookie_value (emitted_value v) = v.
Proof. exact cookie_value_echo. Qed.
Print Assumptions C15_cookie_value_echo.

(* the emitted text of a settable value is printable ASCII without ';' and ',' *)
Theorem C15_emitted_value_safe : forall v, settable v = true ->
  Forall (fun x => (32 <= x < 127 /\ x <> 59 /\ x <> 44)%N) (emitted_value v).
Proof. exact emitted_value_safe. Qed.
Print Assumptions C15_emitted_value_safe.

(* ... and at the level of the Cookie header (C09's model of _parse_cookie_header): the pair
   name=emitted_value, sent back as a Cookie header, is read as exactly that name and value *)
Theorem C15_cookie_header_echo : forall name v,
  echo_name name = true -> settable v = true ->
  cookies_read (name ++ 61%N :: emitted_value v) = [(name, [v])].
Proof. exact cookie_header_echo. Qed.
Print Assumptions C15_cookie_header_echo.

Theorem C15_echo_oracle_sound : forall v,
  echo_oracle v (emitted_value v) (parse_cookie_value (emitted_value v)) = [].
Proof. exact echo_oracle_sound. Qed.
Print Assumptions C15_echo_oracle_sound.

(* C:\backup\2024\101 ; a value that itself looks quoted ; controls, ';' and ',' *)
Example C15_cookie_text_nontrivial :
  quote [67; 58; 92; 98; 92; 50; 48; 50; 52; 92; 49; 48; 49]%N =
    [34; 67; 58; 92; 92; 98; 92; 92; 50; 48; 50; 52; 92; 92; 49; 48; 49; 34]%N /\
  quote [34; 120; 34]%N = [34; 92; 34; 120; 92; 34; 34]%N /\
  quote [10; 59; 44; 127; 32]%N = [34; 92; 48; 49; 50; 92; 48; 55; 51; 92; 48; 53; 52; 92; 49; 55; 55; 32; 34]%N /\
  quote [97; 58; 49]%N = [97; 58; 49]%N /\ quote [] = [34; 34]%N /\
  unquote [34; 50; 92; 49; 48; 49; 34]%N = [50; 65]%N /\
  unquote [34; 92; 92; 49; 48; 49; 34]%N = [92; 49; 48; 49]%N /\
  unquote [34; 92; 52; 48; 48; 92; 10; 92; 34]%N = [52; 48; 48; 92; 10; 92]%N.
Proof. vm_compute. repeat split; reflexivity. Qed.

(* ---- URI-bearing helpers: pure ASCII, decoding back to the original with falcon's own
   uri.decode (C10's proved model of it: all three paths = the RFC 3986 reference decoder + UTF-8
   from coq/lib/Utf8.v).  [taken_as_escaped] is the documented exception of encode_check_escaped
   (strings that already look percent-encoded are left alone: resp.location = '/a%41' is emitted
   as is and decodes to '/aA'); it stays an explicit hypothesis. *)
Theorem C15_uri_setters_ascii : forall v chk s out,
  uri_encoder v chk s = Ok out -> is_ascii out = true.
Proof. exact uri_encoder_ascii. Qed.
Print Assumptions C15_uri_setters_ascii.

(* [plus] = unquote_plus; it may be true only for the value encoders ('+' is a legal URI character
   that uri_encode keeps) *)
Theorem C15_uri_setters_decode_back : forall v chk s out plus,
  (plus = true -> v = true) ->
  taken_as_escaped v chk s = false ->
  uri_encoder v chk s = Ok out -> M10.decode out plus = M10.Ok s.
Proof. exact uri_encoder_decodes. Qed.
Print Assumptions C15_uri_setters_decode_back.

(* decode (location_value s) = s *)
Theorem C15_location_decodes_back : forall f s out,
  taken_as_escaped false true s = false ->
  (transform f P_location (PS s) = Ok out \/ transform f P_content_location (PS s) = Ok out) ->
  M10.decode out false = M10.Ok s.
Proof. exact location_decodes_back. Qed.
Print Assumptions C15_location_decodes_back.

(* the octet-level form the oracle checks, and what it certifies about an observation *)
Theorem C15_uri_setters_octets : forall v chk s out,
  taken_as_escaped v chk s = false ->
  uri_encoder v chk s = Ok out -> Some (pct_decode out) = utf8 s.
Proof. exact uri_encoder_decode_back. Qed.
Print Assumptions C15_uri_setters_octets.

Theorem C15_uri_oracle_implies_decode : forall v chk s out,
  uri_out_ok v chk s out = true -> taken_as_escaped v chk s = false ->
  M10.decode out false = M10.Ok s.
Proof. exact uri_oracle_implies_decode. Qed.
Print Assumptions C15_uri_oracle_implies_decode.

(* the local copy of uri._create_str_encoder is C10's model of it; the local str.encode() is the
   UTF-8 library's; the oracle's octet decoder is C10's reference decoder *)
Theorem C15_uri_encoder_is_C10 : forall v chk s, to10 (uri_encoder v chk s) = M10.encoder v chk s.
Proof. exact uri_encoder_is_C10. Qed.
Print Assumptions C15_uri_encoder_is_C10.

Theorem C15_utf8_is_lib : forall s,
  utf8 s = if forallb Falcon.lib.Utf8.scalar s then Some (Falcon.lib.Utf8.encode s) else None.
Proof. exact utf8_lib. Qed.
Print Assumptions C15_utf8_is_lib.

Theorem C15_pct_decode_is_reference : forall s, pct_decode s = S10.ref_bytes false s.
Proof. exact pct_decode_is_reference. Qed.
Print Assumptions C15_pct_decode_is_reference.

Theorem C15_location_is_uri_encode : forall f s,
  transform f P_location (PS s) = uri_encode s /\
  transform f P_content_location (PS s) = uri_encode s.
Proof. exact location_is_uri_encode. Qed.
Print Assumptions C15_location_is_uri_encode.

Theorem C15_uri_oracle_sound : forall v chk s out,
  uri_encoder v chk s = Ok out -> uri_out_ok v chk s out = true.
Proof. exact uri_oracle_sound. Qed.
Print Assumptions C15_uri_oracle_sound.

Theorem C15_link_value_ascii : forall a out,
  link_params_ascii a = true -> link_value a = Ok out -> is_ascii out = true.
Proof. exact link_value_ascii. Qed.
Print Assumptions C15_link_value_ascii.

Theorem C15_link_target_decode_back : forall a out,
  taken_as_escaped false true (l_target a) = false -> link_value a = Ok out ->
  exists t rest, out = 60 :: t ++ rest /\ startswith rest s_rel = true /\
                 is_ascii t = true /\ M10.decode t false = M10.Ok (l_target a).
Proof. exact link_target_decodes. Qed.
Print Assumptions C15_link_target_decode_back.

(* ---- download filenames *)
Theorem C15_content_disposition_ascii : forall f nfkd dt v out,
  is_ascii dt = true -> format_content_disposition f nfkd dt v = Ok out -> is_ascii out = true.
Proof. exact content_disposition_ascii. Qed.
Print Assumptions C15_content_disposition_ascii.

Theorem C15_content_disposition_ascii_roundtrip : forall nfkd dt v,
  is_ascii v = true ->
  exists q, format_content_disposition true nfkd dt v = Ok (dt ++ s_filename_q ++ dq :: q) /\
            qs_parse q = Some (v, []).
Proof. exact content_disposition_ascii_roundtrip. Qed.
Print Assumptions C15_content_disposition_ascii_roundtrip.

(* RFC 5987 / 8187: filename*=UTF-8''value-chars; the value is attr-char / upper-case
   pct-encoded only and decodes (percent-decoding + UTF-8) to the filename that was assigned *)
Theorem C15_content_disposition_ext_value : forall nfkd dt v out plus,
  is_ascii v = false -> format_content_disposition true nfkd dt v = Ok out ->
  exists sf ev, out = dt ++ s_filename_q ++ sf ++ s_filename_star ++ ev /\
                is_ascii sf = true /\ is_ascii ev = true /\
                S10.escaped_ok true (S10.rfc_allowed true) ev = true /\
                M10.decode ev plus = M10.Ok v.
Proof. exact content_disposition_ext_value_decodes. Qed.
Print Assumptions C15_content_disposition_ext_value.

Theorem C15_content_disposition_roundtrip_refuted_before_fix :
  exists nfkd dt v q, is_ascii v = true /\
    format_content_disposition false nfkd dt v = Ok (dt ++ s_filename_q ++ dq :: q) /\
    qs_parse q <> Some (v, []).
Proof. exact content_disposition_roundtrip_refuted_before_fix. Qed.
Print Assumptions C15_content_disposition_roundtrip_refuted_before_fix.

(* the oracle accepts the model on both branches ([nfkd v <> []]: NFKD of a non-empty string is
   non-empty - the contract of the oracle input) ... *)
Theorem C15_cd_oracle_sound : forall nfkd dt v out,
  is_ascii dt = true -> (is_ascii v = false -> nfkd v <> []) ->
  format_content_disposition true nfkd dt v = Ok out -> cd_out_ok dt v out = true.
Proof. exact cd_oracle_sound. Qed.
Print Assumptions C15_cd_oracle_sound.

(* ... and what it certifies about an observed header: the ext-value decodes to the filename *)
Theorem C15_cd_oracle_implies_decode : forall dt v out,
  is_ascii v = false -> cd_out_ok dt v out = true ->
  exists tok ev, out = dt ++ s_filename_q ++ tok ++ s_filename_star ++ ev /\
                 M10.decode ev false = M10.Ok v.
Proof. exact cd_oracle_implies_decode. Qed.
Print Assumptions C15_cd_oracle_implies_decode.

(* ---- non-vacuity: a concrete history that exercises the three stores *)
Example C15_history_nontrivial :
  let ops := [SetH (lit "X-Foo") (VStr (lit "1")); Append (lit "x-FOO") (VStr (lit "2"));
              Append (lit "Set-Cookie") (VStr (lit "raw=1"));
              PropSet P_location (Some (PS (lit "/a b")));
              SetCookie {| ca_name := lit "sid"; ca_value := lit "v"; ca_expires := None;
                           ca_max_age := Some (MInt 0); ca_domain := None; ca_path := None;
                           ca_secure := None; ca_http_only := true; ca_same_site := Some (lit "LAX");
                           ca_partitioned := false |}] in
  let s := final true true ops in
  spec_run true ops (lit "x-foo") = Some (lit "1, 2") /\
  spec_run true ops (lit "location") = Some (lit "/a%20b") /\
  List.length (extra s) = 1%nat /\
  option_map m_maxage (cget (cookies s) (lit "sid")) = Some (Some 0%Z) /\
  option_map m_samesite (cget (cookies s) (lit "sid")) = Some (Some (lit "Lax")) /\
  count_name s_set_cookie (emitted s) = 2%nat.
Proof. vm_compute. repeat split; reflexivity. Qed.

Example C15_decode_back_nontrivial :
  taken_as_escaped false true [233; 32; 37] = false /\
  uri_encode [233; 32; 37] = Ok (lit "%C3%A9%20%25") /\
  M10.decode (lit "%C3%A9%20%25") false = M10.Ok [233; 32; 37] /\
  taken_as_escaped false true (lit "/a%41") = true /\
  M10.decode (lit "/a%41") false = M10.Ok (lit "/aA").
Proof. vm_compute. repeat split; reflexivity. Qed.

(* a non-ASCII download name: e-acute, euro sign, an astral character, a double quote and ".txt";
   the fallback token, the ext-value, and its decoding *)
Example C15_ext_value_nontrivial :
  let v := [233; 8364; 128512; 34; 46; 116; 120; 116]%N in
  let nf := [101; 769; 8364; 128512; 34; 46; 116; 120; 116]%N in
  format_content_disposition true (fun _ => nf) s_attachment v =
    Ok (lit "attachment; filename=e____.txt; filename*=UTF-8''%C3%A9%E2%82%AC%F0%9F%98%80%22.txt") /\
  M10.decode (lit "%C3%A9%E2%82%AC%F0%9F%98%80%22.txt") false = M10.Ok v /\
  cd_out_ok s_attachment v
    (lit "attachment; filename=e____.txt; filename*=UTF-8''%C3%A9%E2%82%AC%F0%9F%98%80%22.txt") = true.
Proof. vm_compute. repeat split; reflexivity. Qed.
