From Coq Require Import ZArith NArith List Bool String.
From Falcon.lib Require Import PyStr.
From Falcon.C15 Require Import Model Spec Proofs.
Import ListNotations.
Theorem C15_tmp : True. Proof. exact I. Qed.
Print Assumptions C15_tmp.
