(* C15 — the three-store discipline: the header dict refines a case-insensitive map, the
   Set-Cookie guards, and what the emitted list contains. *)
From Coq Require Import ZArith NArith List Bool String Lia.
From Falcon.lib Require Import PyStr.
From Falcon.gen Require Import Consts ConstsC15.
From Falcon.C15 Require Import Model Spec.
Import ListNotations.
Local Arguments str_eqb : simpl never.

(* ---- the dict is a map *)
Lemma hget_hset h k v k' :
  hget (hset h k v) k' = if str_eqb k' k then Some v else hget h k'.
Proof.
  induction h as [|[k0 v0] tl IH]; simpl.
  - destruct (str_eqb k' k); reflexivity.
  - destruct (str_eqb k k0) eqn:E; simpl.
    + apply str_eqb_eq in E. subst k0. destruct (str_eqb k' k); reflexivity.
    + destruct (str_eqb k' k0) eqn:E2.
      * apply str_eqb_eq in E2. subst k0.
        rewrite (str_eqb_sym k' k), E. reflexivity.
      * exact IH.
Qed.

Lemma hget_hdel h k k' :
  hget (hdel h k) k' = if str_eqb k' k then None else hget h k'.
Proof.
  induction h as [|[k0 v0] tl IH]; simpl.
  - destruct (str_eqb k' k); reflexivity.
  - destruct (str_eqb k k0) eqn:E; simpl.
    + apply str_eqb_eq in E. subst k0. rewrite IH. destruct (str_eqb k' k); reflexivity.
    + destruct (str_eqb k' k0) eqn:E2.
      * apply str_eqb_eq in E2. subst k0. rewrite (str_eqb_sym k' k), E. reflexivity.
      * exact IH.
Qed.

Definition agree (h : headers) (m : smap) : Prop := forall k, hget h k = m k.

Lemma agree_set h m k v : agree h m -> agree (hset h k v) (supd m k v).
Proof. intros A k'. rewrite hget_hset. unfold supd. rewrite A. reflexivity. Qed.

Lemma agree_del h m k : agree h m -> agree (hdel h k) (srem m k).
Proof. intros A k'. rewrite hget_hdel. unfold srem. rewrite A. reflexivity. Qed.

Lemma agree_many l : forall h m, agree h m ->
  agree (fst (set_many h l)) (spec_many m l).
Proof.
  induction l as [|[n v] tl IH]; intros h m A; simpl; [exact A|].
  unfold is_sc. destruct (str_eqb (lower n) s_set_cookie); [exact A|].
  apply IH. apply agree_set. exact A.
Qed.

Lemma agree_default h m mt : agree h m ->
  agree (default_media h mt)
        (match mt with
         | Some t => match m s_content_type with None => supd m s_content_type t | Some _ => m end
         | None => m
         end).
Proof.
  intros A. destruct mt as [t|]; simpl; [|exact A].
  rewrite (A s_content_type). destruct (m s_content_type); [exact A|].
  apply agree_set. exact A.
Qed.

Lemma step_agree f sd s o m :
  agree (hdrs s) m -> agree (hdrs (fst (step f sd s o))) (spec_step f m o).
Proof.
  intros A. destruct o; simpl; unfold is_sc.
  - destruct (str_eqb (lower n) s_set_cookie); exact A.
  - destruct (str_eqb (lower n) s_set_cookie); simpl; [exact A|]. apply agree_set; exact A.
  - destruct (str_eqb (lower n) s_set_cookie); simpl; [exact A|].
    unfold sappend. rewrite <- (A (lower n)).
    destruct (hget (hdrs s) (lower n)); simpl; apply agree_set; exact A.
  - destruct (str_eqb (lower n) s_set_cookie); simpl; [exact A|]. apply agree_del; exact A.
  - pose proof (agree_many l (hdrs s) m A) as H.
    destruct (set_many (hdrs s) l) as [h e]; simpl in *. exact H.
  - exact A.
  - destruct v as [v|]; simpl.
    + destruct (transform f p v); simpl; [apply agree_set|]; exact A.
    + apply agree_del; exact A.
  - destruct (hget (hdrs s) (pname p)) eqn:E; simpl.
    + apply agree_del; exact A.
    + intro k. unfold srem. destruct (str_eqb k (pname p)) eqn:E2.
      * apply str_eqb_eq in E2. subst k. exact E.
      * apply A.
  - destruct (link_value a); simpl; [|exact A].
    unfold sappend. rewrite <- (A s_link).
    destruct (hget (hdrs s) s_link); simpl; apply agree_set; exact A.
  - destruct (set_cookie f sd (cookies s) a); simpl. exact A.
  - destruct (unset_cookie f (cookies s) name samesite domain path); simpl. exact A.
  - exact A.
  - simpl. apply agree_default. exact A.
  - pose proof (agree_default (hdrs s) m media_type A) as H.
    repeat match goal with |- context [if ?b then _ else _] => destruct b end; simpl; exact H.
Qed.

Lemma run_agree f sd ops : forall s m, agree (hdrs s) m ->
  agree (hdrs (fst (run_ops f sd s ops))) (fold_left (spec_step f) ops m).
Proof.
  induction ops as [|o tl IH]; intros s m A; simpl; [exact A|].
  pose proof (step_agree f sd s o m A) as H.
  destruct (step f sd s o) as [s1 ob] eqn:E1. simpl in H.
  specialize (IH s1 _ H).
  destruct (run_ops f sd s1 tl) as [s2 obs]. simpl in *. exact IH.
Qed.

(* reads = the case-insensitive map, after any history *)
Theorem headers_refine_map f sd ops n :
  let s := final f sd ops in
  snd (step f sd s (Get n)) =
    if is_sc n then OErr HeaderNotSupported else OVal (spec_run f ops (lower n)).
Proof.
  intro s. subst s. unfold final, spec_run.
  pose proof (run_agree f sd ops init sempty (fun k => eq_refl)) as A.
  simpl. unfold is_sc. destruct (str_eqb (lower n) s_set_cookie); simpl; [reflexivity|].
  rewrite A. reflexivity.
Qed.

Theorem prop_read_refines_map f sd ops p :
  snd (step f sd (final f sd ops) (PropGet p)) = OVal (spec_run f ops (pname p)).
Proof.
  unfold final, spec_run.
  pose proof (run_agree f sd ops init sempty (fun k => eq_refl)) as A.
  simpl. rewrite A. reflexivity.
Qed.

(* resp.headers holds exactly the map *)
Theorem headers_copy_refines_map f sd ops h :
  snd (step f sd (final f sd ops) HeadersCopy) = OHeaders h ->
  forall k, hget h k = spec_run f ops k.
Proof.
  unfold final, spec_run. simpl. intros H k. injection H as <-.
  apply (run_agree f sd ops init sempty (fun k => eq_refl)).
Qed.

Theorem get_case_insensitive f sd s n1 n2 :
  lower n1 = lower n2 -> step f sd s (Get n1) = step f sd s (Get n2).
Proof. intro E. simpl. rewrite E. reflexivity. Qed.

Theorem set_case_insensitive f sd s n1 n2 v :
  lower n1 = lower n2 -> step f sd s (SetH n1 v) = step f sd s (SetH n2 v).
Proof. intro E. simpl. rewrite E. reflexivity. Qed.

(* ---- Set-Cookie is out of reach of the plain-header calls *)
Theorem setcookie_guard f sd s n :
  is_sc n = true ->
  step f sd s (Get n) = (s, OErr HeaderNotSupported) /\
  (forall v, step f sd s (SetH n v) = (s, OErr HeaderNotSupported)) /\
  step f sd s (Delete n) = (s, OErr HeaderNotSupported).
Proof. unfold is_sc. intro E. simpl. rewrite E. repeat split. Qed.

Lemma set_many_guard l : forall h, existsb (fun p => is_sc (fst p)) l = true ->
  snd (set_many h l) = Some HeaderNotSupported.
Proof.
  induction l as [|[n v] tl IH]; intros h E; simpl in *; [discriminate|].
  unfold is_sc in *. destruct (str_eqb (lower n) s_set_cookie); simpl in *; [reflexivity|].
  apply IH. exact E.
Qed.

Theorem setcookie_guard_bulk f sd s l :
  existsb (fun p => is_sc (fst p)) l = true ->
  snd (step f sd s (SetMany l)) = OErr HeaderNotSupported.
Proof.
  intro E. simpl. pose proof (set_many_guard l (hdrs s) E) as H.
  destruct (set_many (hdrs s) l) as [h e]. simpl in *. subst e. reflexivity.
Qed.

Definition cookie_op (o : op) : bool :=
  match o with SetCookie _ | UnsetCookie _ _ _ _ => true | _ => false end.

(* no other operation changes the jar, and the raw lines only ever grow (by
   append_header('Set-Cookie', v)) *)
Theorem setcookie_lines_persist f sd s o :
  cookie_op o = false ->
  cookies (fst (step f sd s o)) = cookies s /\
  exists l, extra (fst (step f sd s o)) = extra s ++ l /\
            (forall p, In p l -> exists n v, o = Append n v /\ is_sc n = true /\
                                             p = (s_set_cookie, pystr v)).
Proof.
  intro C. destruct o; try discriminate C; simpl;
    try (split; [reflexivity | exists []; rewrite app_nil_r; split; [reflexivity | intros ? []]]).
  - destruct (str_eqb (lower n) s_set_cookie);
      (split; [reflexivity | exists []; rewrite app_nil_r; split; [reflexivity | intros ? []]]).
  - destruct (str_eqb (lower n) s_set_cookie);
      (split; [reflexivity | exists []; rewrite app_nil_r; split; [reflexivity | intros ? []]]).
  - destruct (str_eqb (lower n) s_set_cookie) eqn:E; simpl.
    + split; [reflexivity|]. exists [(lower n, pystr v)]. split; [reflexivity|].
      intros p [<-|[]]. exists n, v. unfold is_sc. rewrite E.
      apply str_eqb_eq in E. rewrite E. repeat split.
    + destruct (hget (hdrs s) (lower n));
        (split; [reflexivity | exists []; rewrite app_nil_r; split; [reflexivity | intros ? []]]).
  - destruct (str_eqb (lower n) s_set_cookie);
      (split; [reflexivity | exists []; rewrite app_nil_r; split; [reflexivity | intros ? []]]).
  - destruct (set_many (hdrs s) l);
      (split; [reflexivity | exists []; rewrite app_nil_r; split; [reflexivity | intros ? []]]).
  - destruct v as [v|]; [destruct (transform f p v)|];
      (split; [reflexivity | exists []; rewrite app_nil_r; split; [reflexivity | intros ? []]]).
  - destruct (hget (hdrs s) (pname p));
      (split; [reflexivity | exists []; rewrite app_nil_r; split; [reflexivity | intros ? []]]).
  - destruct (link_value a); [destruct (hget (hdrs s) s_link)|];
      (split; [reflexivity | exists []; rewrite app_nil_r; split; [reflexivity | intros ? []]]).
  - repeat match goal with |- context [if ?b then _ else _] => destruct b end;
      (split; [reflexivity | exists []; rewrite app_nil_r; split; [reflexivity | intros ? []]]).
Qed.

(* ---- well-formed states *)
Definition keys (h : headers) : list str := map fst h.

Definition good_key (k : str) : Prop := is_lower k = true /\ k <> s_set_cookie.

Record wf (s : st) : Prop := {
  wf_nodup : NoDup (keys (hdrs s));
  wf_keys : forall k, In k (keys (hdrs s)) -> good_key k;
  wf_extra : forall p, In p (extra s) -> fst p = s_set_cookie;
  wf_jar : NoDup (cookie_names (cookies s)) }.

Lemma keys_hset h k v k' : In k' (keys (hset h k v)) <-> k' = k \/ In k' (keys h).
Proof.
  induction h as [|[k0 v0] tl IH]; simpl.
  - intuition.
  - destruct (str_eqb k k0) eqn:E; simpl.
    + apply str_eqb_eq in E. subst. intuition.
    + rewrite IH. intuition.
Qed.

Lemma nodup_hset h k v : NoDup (keys h) -> NoDup (keys (hset h k v)).
Proof.
  induction h as [|[k0 v0] tl IH]; simpl; intro N.
  - constructor; [intros []|constructor].
  - inversion N as [|? ? Hn Nt]; subst. destruct (str_eqb k k0) eqn:E; simpl.
    + constructor; assumption.
    + constructor; [|apply IH; exact Nt].
      intro H. apply keys_hset in H as [H|H]; [|contradiction].
      subst. rewrite str_eqb_refl in E. discriminate.
Qed.

Lemma keys_hdel h k k' : In k' (keys (hdel h k)) -> In k' (keys h).
Proof.
  induction h as [|[k0 v0] tl IH]; simpl; [tauto|].
  destruct (str_eqb k k0); simpl; intuition.
Qed.

Lemma nodup_hdel h k : NoDup (keys h) -> NoDup (keys (hdel h k)).
Proof.
  induction h as [|[k0 v0] tl IH]; simpl; intro N; [constructor|].
  inversion N as [|? ? Hn Nt]; subst. destruct (str_eqb k k0); simpl; [apply IH; exact Nt|].
  constructor; [|apply IH; exact Nt]. intro H. apply keys_hdel in H. contradiction.
Qed.

Lemma good_lower n : str_eqb (lower n) s_set_cookie = false -> good_key (lower n).
Proof.
  intro E. split.
  - unfold is_lower. rewrite lower_idem. apply str_eqb_refl.
  - intro H. rewrite H, str_eqb_refl in E. discriminate.
Qed.

Lemma good_pname p : good_key (pname p).
Proof. destruct p; split; try (vm_compute; reflexivity); vm_compute; discriminate. Qed.
Lemma good_link : good_key s_link.
Proof. split; [vm_compute; reflexivity | vm_compute; discriminate]. Qed.
Lemma good_ct : good_key s_content_type.
Proof. split; [vm_compute; reflexivity | vm_compute; discriminate]. Qed.

Lemma wf_hset s k v : wf s -> good_key k -> wf (w_hdrs s (hset (hdrs s) k v)).
Proof.
  intros [N K E J] G. constructor; simpl; try assumption.
  - apply nodup_hset; exact N.
  - intros k' H. apply keys_hset in H as [->|H]; [exact G | apply K; exact H].
Qed.

Lemma wf_hdel s k : wf s -> wf (w_hdrs s (hdel (hdrs s) k)).
Proof.
  intros [N K E J]. constructor; simpl; try assumption.
  - apply nodup_hdel; exact N.
  - intros k' H. apply K. eapply keys_hdel; exact H.
Qed.

Lemma wf_many l : forall s, wf s -> wf (w_hdrs s (fst (set_many (hdrs s) l))).
Proof.
  induction l as [|[n v] tl IH]; intros s W; simpl.
  - destruct s; exact W.
  - destruct (str_eqb (lower n) s_set_cookie) eqn:E; simpl; [destruct s; exact W|].
    pose proof (wf_hset s (lower n) (pystr v) W (good_lower n E)) as W1.
    specialize (IH _ W1). simpl in IH. exact IH.
Qed.

Lemma wf_default s mt : wf s -> wf (w_hdrs s (default_media (hdrs s) mt)).
Proof.
  intro W. destruct mt as [t|]; simpl; [|destruct s; exact W].
  destruct (hget (hdrs s) s_content_type); [destruct s; exact W|].
  apply wf_hset; [exact W | exact good_ct].
Qed.

(* jar names stay distinct *)
Lemma names_cset c k m k' : In k' (cookie_names (cset c k m)) <-> k' = k \/ In k' (cookie_names c).
Proof.
  induction c as [|[k0 m0] tl IH]; simpl.
  - intuition.
  - destruct (str_eqb k k0) eqn:E; simpl.
    + apply str_eqb_eq in E. subst. intuition.
    + rewrite IH. intuition.
Qed.

Lemma nodup_cset c k m : NoDup (cookie_names c) -> NoDup (cookie_names (cset c k m)).
Proof.
  induction c as [|[k0 m0] tl IH]; simpl; intro N.
  - constructor; [intros []|constructor].
  - inversion N as [|? ? Hn Nt]; subst. destruct (str_eqb k k0) eqn:E; simpl.
    + constructor; assumption.
    + constructor; [|apply IH; exact Nt].
      intro H. apply names_cset in H as [H|H]; [|contradiction].
      subst. rewrite str_eqb_refl in E. discriminate.
Qed.

Lemma names_cdel c k k' : In k' (cookie_names (cdel c k)) -> In k' (cookie_names c).
Proof.
  induction c as [|[k0 m0] tl IH]; simpl; [tauto|].
  destruct (str_eqb k k0); simpl; intuition.
Qed.

Lemma nodup_cdel c k : NoDup (cookie_names c) -> NoDup (cookie_names (cdel c k)).
Proof.
  induction c as [|[k0 m0] tl IH]; simpl; intro N; [constructor|].
  inversion N as [|? ? Hn Nt]; subst. destruct (str_eqb k k0); simpl; [apply IH; exact Nt|].
  constructor; [|apply IH; exact Nt]. intro H. apply names_cdel in H. contradiction.
Qed.

Lemma nodup_set_cookie f sd c a :
  NoDup (cookie_names c) -> NoDup (cookie_names (fst (set_cookie f sd c a))).
Proof.
  intro N. unfold set_cookie.
  assert (N0 : NoDup (cookie_names (if f then cdel c (ca_name a) else c)))
    by (destruct f; [apply nodup_cdel|]; exact N).
  repeat match goal with
         | |- context [if ?b then _ else _] => destruct b
         | |- context [match ?x with Some _ => _ | None => _ end] => destruct x
         end; simpl; try assumption; try (apply nodup_cset; assumption).
Qed.

Lemma nodup_unset_cookie f c n ss d p :
  NoDup (cookie_names c) -> NoDup (cookie_names (fst (unset_cookie f c n ss d p))).
Proof.
  intro N. unfold unset_cookie.
  destruct (negb (legal_cookie_name n)); simpl; [exact N|]. apply nodup_cset. exact N.
Qed.

Lemma step_wf f sd s o : wf s -> wf (fst (step f sd s o)).
Proof.
  intro W. destruct o; simpl.
  - destruct (str_eqb (lower n) s_set_cookie); exact W.
  - destruct (str_eqb (lower n) s_set_cookie) eqn:E; simpl; [exact W|].
    apply wf_hset; [exact W | apply good_lower; exact E].
  - destruct (str_eqb (lower n) s_set_cookie) eqn:E; simpl.
    + destruct W as [N K X J]. constructor; simpl; try assumption.
      intros p H. apply in_app_or in H as [H|[<-|[]]]; [apply X; exact H|].
      simpl. apply str_eqb_eq. exact E.
    + destruct (hget (hdrs s) (lower n)); simpl;
        (apply wf_hset; [exact W | apply good_lower; exact E]).
  - destruct (str_eqb (lower n) s_set_cookie); simpl; [exact W|]. apply wf_hdel; exact W.
  - pose proof (wf_many l s W) as H. destruct (set_many (hdrs s) l). simpl in *. exact H.
  - exact W.
  - destruct v as [v|]; simpl.
    + destruct (transform f p v); simpl; [|exact W]. apply wf_hset; [exact W|apply good_pname].
    + apply wf_hdel; exact W.
  - destruct (hget (hdrs s) (pname p)); simpl; [apply wf_hdel|]; exact W.
  - destruct (link_value a); simpl; [|exact W].
    destruct (hget (hdrs s) s_link); simpl; (apply wf_hset; [exact W|exact good_link]).
  - pose proof (nodup_set_cookie f sd (cookies s) a (wf_jar s W)) as H.
    destruct (set_cookie f sd (cookies s) a). simpl in *.
    destruct W as [N K X J]. constructor; simpl; assumption.
  - pose proof (nodup_unset_cookie f (cookies s) name samesite domain path (wf_jar s W)) as H.
    destruct (unset_cookie f (cookies s) name samesite domain path). simpl in *.
    destruct W as [N K X J]. constructor; simpl; assumption.
  - exact W.
  - apply wf_default; exact W.
  - pose proof (wf_default s media_type W) as H.
    repeat match goal with |- context [if ?b then _ else _] => destruct b end; simpl; exact H.
Qed.

Lemma run_wf f sd ops : forall s, wf s -> wf (fst (run_ops f sd s ops)).
Proof.
  induction ops as [|o tl IH]; intros s W; simpl; [exact W|].
  pose proof (step_wf f sd s o W) as H.
  destruct (step f sd s o) as [s1 ob]. simpl in H. specialize (IH s1 H).
  destruct (run_ops f sd s1 tl). simpl in *. exact IH.
Qed.

Lemma wf_init : wf init.
Proof. constructor; simpl; [constructor | intros ? [] | intros ? [] | constructor]. Qed.

Theorem reachable_wf f sd ops : wf (final f sd ops).
Proof. apply run_wf. exact wf_init. Qed.

Lemma hget_some_in h k v : hget h k = Some v -> In k (keys h).
Proof.
  induction h as [|[k0 v0] tl IH]; cbn [hget keys map fst]; intro E; [discriminate|].
  destruct (str_eqb k k0) eqn:E2.
  - apply str_eqb_eq in E2. left. symmetry. exact E2.
  - right. apply IH. exact E.
Qed.

(* the dict never holds a Set-Cookie entry *)
Theorem setcookie_never_in_dict f sd ops : hget (hdrs (final f sd ops)) s_set_cookie = None.
Proof.
  pose proof (reachable_wf f sd ops) as [N K _ _].
  destruct (hget (hdrs (final f sd ops)) s_set_cookie) eqn:E; [|reflexivity].
  exfalso. assert (H : In s_set_cookie (keys (hdrs (final f sd ops))))
    by (eapply hget_some_in; exact E).
  destruct (K _ H) as [_ Hne]. apply Hne. reflexivity.
Qed.

(* ---- emission *)
Lemma count_app k a b : count_name k (a ++ b) = (count_name k a + count_name k b)%nat.
Proof. unfold count_name. rewrite filter_app, app_length. reflexivity. Qed.

Lemma count_plain_absent k h : ~ In k (keys h) -> count_name k (plain_items h) = 0%nat.
Proof.
  induction h as [|[k0 v0] tl IH]; simpl; intro H; [reflexivity|].
  unfold count_name in *. simpl. destruct (str_eqb k0 k) eqn:E.
  - apply str_eqb_eq in E. subst. exfalso. apply H. left. reflexivity.
  - apply IH. intro H2. apply H. right. exact H2.
Qed.

Lemma hget_absent k h : ~ In k (keys h) -> hget h k = None.
Proof.
  induction h as [|[k0 v0] tl IH]; simpl; intro H; [reflexivity|].
  destruct (str_eqb k k0) eqn:E.
  - apply str_eqb_eq in E. subst. exfalso. apply H. left. reflexivity.
  - apply IH. intro H2. apply H. right. exact H2.
Qed.

Lemma count_plain_nodup k h : NoDup (keys h) ->
  count_name k (plain_items h) = match hget h k with Some _ => 1%nat | None => 0%nat end.
Proof.
  induction h as [|[k0 v0] tl IH]; simpl; intro N; [reflexivity|].
  inversion N as [|? ? Hn Nt]; subst. unfold count_name in *. simpl.
  rewrite (str_eqb_sym k0 k). destruct (str_eqb k k0) eqn:E.
  - apply str_eqb_eq in E. subst. simpl. f_equal. apply (count_plain_absent k0 tl Hn).
  - apply IH. exact Nt.
Qed.

Lemma count_all_sc k (e : list (str * str)) :
  (forall p, In p e -> fst p = s_set_cookie) ->
  count_name k (plain_items e) = if str_eqb s_set_cookie k then List.length e else 0%nat.
Proof.
  induction e as [|[n v] tl IH]; simpl; intro H.
  - destruct (str_eqb s_set_cookie k); reflexivity.
  - unfold count_name in *. cbn [plain_items map filter item_name fst snd].
    pose proof (H (n, v) (or_introl eq_refl)) as Hn. cbn [fst] in Hn. subst n.
    specialize (IH (fun p Hp => H p (or_intror Hp))).
    destruct (str_eqb s_set_cookie k); cbn [List.length]; rewrite IH; reflexivity.
Qed.

Lemma count_cookies k c :
  count_name k (cookie_items c) = if str_eqb s_set_cookie k then List.length c else 0%nat.
Proof.
  induction c as [|[n m] tl IH]; simpl.
  - destruct (str_eqb s_set_cookie k); reflexivity.
  - unfold count_name in *. simpl. destruct (str_eqb s_set_cookie k); simpl; rewrite IH; reflexivity.
Qed.

Definition emitted (s : st) : list item :=
  plain_items (hdrs s) ++ plain_items (extra s) ++ cookie_items (cookies s).

Lemma emit_count s k : wf s ->
  count_name k (emitted s) =
    if str_eqb s_set_cookie k then (List.length (extra s) + List.length (cookies s))%nat
    else match hget (hdrs s) k with Some _ => 1%nat | None => 0%nat end.
Proof.
  intros [N K X J]. unfold emitted. rewrite !count_app.
  rewrite (count_plain_nodup k _ N), (count_all_sc k _ X), count_cookies.
  destruct (str_eqb s_set_cookie k) eqn:E.
  - apply str_eqb_eq in E. subst k.
    rewrite hget_absent; [reflexivity|]. intro H. destruct (K _ H) as [_ Hne]. apply Hne. reflexivity.
  - destruct (hget (hdrs s) k); lia.
Qed.

(* what both emitters hand to the server, when they do not raise *)
Lemma emit_shape f sd s o items :
  (exists mt, o = EmitW mt \/ o = EmitA mt) ->
  snd (step f sd s o) = OItems items -> items = emitted (fst (step f sd s o)).
Proof.
  intros [mt [-> | ->]] H; simpl in *.
  - injection H as <-. reflexivity.
  - repeat match goal with H : context [if ?b then _ else _] |- _ => destruct b end;
      simpl in *; try discriminate H. injection H as <-. reflexivity.
Qed.

(* each plain header exactly once, one Set-Cookie line per raw line and per cookie *)
Theorem emit_each_once f sd ops o items k :
  (exists mt, o = EmitW mt \/ o = EmitA mt) ->
  let s := final f sd ops in
  snd (step f sd s o) = OItems items ->
  let s' := fst (step f sd s o) in
  count_name k items =
    if str_eqb s_set_cookie k then (List.length (extra s') + List.length (cookies s'))%nat
    else match hget (hdrs s') k with Some _ => 1%nat | None => 0%nat end.
Proof.
  intros Ho s H s'. rewrite (emit_shape f sd s o items Ho H).
  apply emit_count. apply step_wf. apply reachable_wf.
Qed.

Lemma has_plain_in k v h : In (k, v) h -> has_plain k v (plain_items h) = true.
Proof.
  intro H. unfold has_plain. apply existsb_exists. exists (IPlain k v). split.
  - unfold plain_items. apply in_map_iff. exists (k, v). split; [reflexivity|exact H].
  - rewrite !str_eqb_refl. reflexivity.
Qed.

Lemma has_plain_app k v a b : has_plain k v a = true -> has_plain k v (a ++ b) = true.
Proof. unfold has_plain. rewrite existsb_app. intros ->. reflexivity. Qed.

Lemma hget_in_nodup h k v : NoDup (keys h) -> In (k, v) h -> hget h k = Some v.
Proof.
  induction h as [|[k0 v0] tl IH]; simpl; intros N H; [contradiction|].
  inversion N as [|? ? Hn Nt]; subst. destruct H as [H|H].
  - injection H as -> ->. rewrite str_eqb_refl. reflexivity.
  - destruct (str_eqb k k0) eqn:E; [|apply IH; assumption].
    apply str_eqb_eq in E. subst. exfalso. apply Hn.
    change k0 with (fst (k0, v)). apply in_map. exact H.
Qed.

(* the oracle the harness applies to the implementation's emitted list accepts the model *)
Theorem emit_oracle_sound s : wf s ->
  emit_oracle (hdrs s) (List.length (extra s) + List.length (cookies s)) (emitted s) = [].
Proof.
  intro W. pose proof W as [N K X J]. unfold emit_oracle.
  assert (C1 : forallb (fun kv => Nat.eqb (count_name (fst kv) (emitted s)) 1
                                  && has_plain (fst kv) (snd kv) (emitted s)) (hdrs s) = true).
  { apply forallb_forall. intros [k v] H. simpl.
    assert (Hk : In k (keys (hdrs s))) by (change k with (fst (k, v)); apply in_map; exact H).
    destruct (K _ Hk) as [_ Hne].
    rewrite (emit_count s k W).
    assert (E : str_eqb s_set_cookie k = false)
      by (apply str_eqb_neq; intro; apply Hne; symmetry; assumption).
    rewrite E, (hget_in_nodup _ _ _ N H). simpl.
    unfold emitted. apply has_plain_app. apply has_plain_in. exact H. }
  assert (C2 : forallb (fun i => str_eqb (item_name i) s_set_cookie
                                 || existsb (fun kv => str_eqb (fst kv) (item_name i)) (hdrs s))
                       (emitted s) = true).
  { apply forallb_forall. intros i H. unfold emitted in H.
    apply in_app_or in H as [H|H]; [|apply in_app_or in H as [H|H]].
    - unfold plain_items in H. apply in_map_iff in H as [[k v] [<- H]]. simpl.
      apply orb_true_iff. right. apply existsb_exists. exists (k, v). split; [exact H|].
      apply str_eqb_refl.
    - unfold plain_items in H. apply in_map_iff in H as [[k v] [<- H]]. simpl.
      rewrite (X _ H : k = s_set_cookie). rewrite str_eqb_refl. reflexivity.
    - unfold cookie_items in H. apply in_map_iff in H as [[k v] [<- H]].
      apply orb_true_iff. left. apply str_eqb_eq. reflexivity. }
  assert (C3 : forallb (fun i => is_lower (item_name i)) (emitted s) = true).
  { apply forallb_forall. intros i H. unfold emitted in H.
    apply in_app_or in H as [H|H]; [|apply in_app_or in H as [H|H]].
    - unfold plain_items in H. apply in_map_iff in H as [[k v] [<- H]]. simpl.
      apply (K k). change k with (fst (k, v)). apply in_map. exact H.
    - unfold plain_items in H. apply in_map_iff in H as [[k v] [<- H]]. simpl.
      rewrite (X _ H : k = s_set_cookie). vm_compute. reflexivity.
    - unfold cookie_items in H. apply in_map_iff in H as [[k v] [<- H]]. simpl.
      vm_compute. reflexivity. }
  rewrite C1, C2, C3. rewrite (emit_count s s_set_cookie W), str_eqb_refl, Nat.eqb_refl.
  reflexivity.
Qed.

(* every emitted name is lower-case (what ASGI requires) *)
Theorem emitted_names_lower f sd ops o items :
  (exists mt, o = EmitW mt \/ o = EmitA mt) ->
  snd (step f sd (final f sd ops) o) = OItems items ->
  forall i, In i items -> is_lower (item_name i) = true.
Proof.
  intros Ho H i Hi. rewrite (emit_shape _ _ _ _ _ Ho H) in Hi.
  pose proof (emit_oracle_sound _ (step_wf f sd _ o (reachable_wf f sd ops))) as S.
  unfold emit_oracle in S.
  destruct (forallb (fun i => is_lower (item_name i)) (emitted (fst (step f sd (final f sd ops) o)))) eqn:E.
  - rewrite forallb_forall in E. apply E. exact Hi.
  - exfalso. repeat match goal with H : context [if ?b then _ else _] |- _ => destruct b end;
      simpl in S; discriminate S.
Qed.
