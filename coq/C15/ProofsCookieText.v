(* C15 — a cookie value written by set_cookie is read back unchanged by the request API:
   _unquote (_quote v) = v, with the guard conditions of _parse_cookie_header. *)
From Coq Require Import ZArith NArith List Bool Lia ZifyBool ZifyN ZifyNat.
From Falcon.lib Require Import PyStr.
From Falcon.gen Require Import Consts ConstsC09 ConstsC15.
From Falcon.C15 Require Import CookieText.
Import ListNotations.
Local Open Scope N_scope.
Ltac Zify.zify_post_hook ::= Z.div_mod_to_equations.

(* ---- the live _Translator table is: identity on _UnescapedChars, backslash-pair for DQUOTE and the
   backslash, three octal digits for every other code point below 256, nothing above *)
Definition tr_spec (c : N) : str :=
  if (c =? dquote) || (c =? bslash) then [bslash; c]
  else if char_in c cookie_UnescapedChars then [c]
  else if c <? 256 then [bslash; 48 + c / 64; 48 + (c / 8) mod 8; 48 + c mod 8]
  else [c].

Definition N_range (n : nat) : list N := map N.of_nat (seq 0 n).

Lemma in_N_range c n : c < N.of_nat n -> In c (N_range n).
Proof.
  intro H. unfold N_range. replace c with (N.of_nat (N.to_nat c)) by lia.
  apply in_map. apply in_seq. lia.
Qed.

Lemma table_checked :
  forallb (fun c => str_eqb (translate_char c) (tr_spec c)) (N_range 256) = true.
Proof. vm_compute. reflexivity. Qed.

Lemma table_keys_small : forallb (fun kv => fst kv <? 256) cookie_Translator = true.
Proof. vm_compute. reflexivity. Qed.

Lemma tr_lookup_big c t : forallb (fun kv => fst kv <? 256) t = true -> 256 <= c -> tr_lookup c t = None.
Proof.
  induction t as [|[k v] t IH]; intros H Hc; [reflexivity |].
  cbn [forallb fst] in H. apply andb_true_iff in H as [Hk Ht]. cbn [tr_lookup].
  replace (c =? k) with false by lia. apply IH; assumption.
Qed.

Lemma unescaped_small : forallb (fun c => c <? 128) cookie_UnescapedChars = true.
Proof. vm_compute. reflexivity. Qed.

Lemma char_in_small c set : forallb (fun x => x <? 128) set = true -> 128 <= c -> char_in c set = false.
Proof.
  intros H Hc. destruct (char_in c set) eqn:E; [| reflexivity].
  apply char_in_In in E. rewrite forallb_forall in H. specialize (H c E). lia.
Qed.

Theorem translate_spec c : translate_char c = tr_spec c.
Proof.
  destruct (c <? 256) eqn:E.
  - pose proof table_checked as T. rewrite forallb_forall in T.
    apply str_eqb_eq. apply T. apply in_N_range. cbn. lia.
  - unfold translate_char, tr_spec. rewrite (tr_lookup_big c _ table_keys_small) by lia.
    unfold dquote, bslash. replace ((c =? 34) || (c =? 92)) with false by lia.
    rewrite (char_in_small c _ unescaped_small) by lia. rewrite E. reflexivity.
Qed.

(* the escape characters are not themselves in _UnescapedChars, and every legal character is *)
Lemma unescaped_not_special :
  char_in dquote cookie_UnescapedChars = false /\ char_in bslash cookie_UnescapedChars = false.
Proof. vm_compute. split; reflexivity. Qed.

Lemma legal_not_dquote : char_in dquote cookie_LegalChars = false.
Proof. vm_compute. reflexivity. Qed.

Lemma legal_not_ws : forallb (fun c => negb (char_in c str_ws_latin1)) cookie_LegalChars = true.
Proof. vm_compute. reflexivity. Qed.

(* ---- one character *)
Lemma unq_scan_plain c tail : (c =? bslash) = false -> unq_scan (c :: tail) = c :: unq_scan tail.
Proof. intro H. cbn [unq_scan]. rewrite H. reflexivity. Qed.

Lemma unq_scan_pair d tail :
  (d =? 10) = false -> is_oct03 d = false -> unq_scan (bslash :: d :: tail) = d :: unq_scan tail.
Proof.
  intros H1 H2. cbn [unq_scan]. unfold bslash at 1. rewrite N.eqb_refl, H1.
  destruct tail as [|e [|f r3]]; try reflexivity. rewrite H2. reflexivity.
Qed.

Lemma unq_scan_octal d e f tail :
  is_oct03 d = true -> is_oct07 e = true -> is_oct07 f = true ->
  unq_scan (bslash :: d :: e :: f :: tail) = (64 * (d - 48) + 8 * (e - 48) + (f - 48)) :: unq_scan tail.
Proof.
  intros H1 H2 H3. cbn [unq_scan]. unfold bslash at 1. rewrite N.eqb_refl.
  replace (d =? 10) with false by (unfold is_oct03 in H1; lia). rewrite H1, H2, H3. reflexivity.
Qed.

Lemma unq_scan_translated c tail : unq_scan (translate_char c ++ tail) = c :: unq_scan tail.
Proof.
  rewrite translate_spec. unfold tr_spec.
  destruct ((c =? dquote) || (c =? bslash)) eqn:S.
  - cbn [app]. apply unq_scan_pair; unfold dquote, bslash, is_oct03 in *; lia.
  - destruct (char_in c cookie_UnescapedChars) eqn:U.
    + cbn [app]. apply unq_scan_plain. apply orb_false_iff in S. tauto.
    + destruct (c <? 256) eqn:L.
      * cbn [app]. rewrite unq_scan_octal; unfold is_oct03, is_oct07; try lia. f_equal. lia.
      * cbn [app]. apply unq_scan_plain. apply orb_false_iff in S. tauto.
Qed.

Theorem unq_scan_quote_body v : unq_scan (flat_map translate_char v) = v.
Proof.
  induction v as [|c v IH]; [reflexivity |].
  cbn [flat_map]. rewrite unq_scan_translated, IH. reflexivity.
Qed.

(* ---- shape of the emitted text: the guard conditions *)
Lemma last_app_single {A} (l : list A) x d : last (l ++ [x]) d = x.
Proof. induction l as [|y l IH]; [reflexivity |]. cbn [app]. destruct (l ++ [x]) eqn:E; [destruct l; discriminate | exact IH]. Qed.

Lemma removelast_app_single {A} (l : list A) x : removelast (l ++ [x]) = l.
Proof. apply removelast_last. Qed.

(* a value that is quoted on output has length >= 2 and starts and ends with a DQUOTE *)
Theorem quoted_shape v :
  is_legal_key v = false ->
  exists body, quote v = dquote :: body ++ [dquote] /\ body = flat_map translate_char v /\
               (2 <= length (quote v))%nat /\ hd 0 (quote v) = dquote /\ last (quote v) 0 = dquote.
Proof.
  intro H. unfold quote. rewrite H. exists (flat_map translate_char v).
  split; [reflexivity |]. split; [reflexivity |]. split; [| split].
  - cbn [length]. rewrite app_length. cbn. lia.
  - reflexivity.
  - change (dquote :: flat_map translate_char v ++ [dquote])
      with ((dquote :: flat_map translate_char v) ++ [dquote]). apply last_app_single.
Qed.

(* a value that is NOT quoted on output contains no DQUOTE at all (so it never starts and ends with
   one), and no whitespace that strip() would remove *)
Theorem unquoted_shape v :
  is_legal_key v = true ->
  quote v = v /\ v <> [] /\ Forall (fun c => char_in c cookie_LegalChars = true) v.
Proof.
  intro H. unfold quote. rewrite H. split; [reflexivity |].
  unfold is_legal_key in H. destruct v as [|c v]; [discriminate |]. split; [discriminate |].
  apply Forall_forall. intros x Hx. rewrite forallb_forall in H. exact (H x Hx).
Qed.

Lemma legal_hd_not_dquote v :
  Forall (fun c => char_in c cookie_LegalChars = true) v -> v <> [] -> (hd 0 v =? dquote) = false.
Proof.
  intros F Hne. destruct v as [|c v]; [congruence |]. cbn [hd]. inversion F; subst.
  destruct (c =? dquote) eqn:E; [| reflexivity]. apply N.eqb_eq in E. subst.
  pose proof legal_not_dquote. congruence.
Qed.

(* ---- _unquote inverts _quote, for EVERY string *)
Theorem unquote_quote v : unquote (quote v) = v.
Proof.
  destruct (is_legal_key v) eqn:L.
  - destruct (unquoted_shape v L) as (Eq & Hne & F). rewrite Eq. unfold unquote.
    destruct (length v <? 2)%nat; [reflexivity |].
    rewrite (legal_hd_not_dquote v F Hne). reflexivity.
  - destruct (quoted_shape v L) as (body & Eq & Eb & Hl & Hh & Hla). unfold unquote.
    replace (length (quote v) <? 2)%nat with false by lia.
    rewrite Hh, Hla, N.eqb_refl. cbn [negb orb]. rewrite Eq. cbn [tl].
    rewrite removelast_app_single, Eb. apply unq_scan_quote_body.
Qed.

(* ---- strip() leaves the emitted text alone *)
Lemma lstrip_hd_keep set c tl : char_in c set = false -> lstrip_set set (c :: tl) = c :: tl.
Proof. intro H. cbn [lstrip_set]. rewrite H. reflexivity. Qed.

Lemma strip_keep set s :
  s = [] \/ (char_in (hd 0 s) set = false /\ char_in (last s 0) set = false) ->
  strip_set set s = s.
Proof.
  intros [-> | [Hh Hl]]; [reflexivity |].
  destruct s as [|c tl]; [reflexivity |]. cbn [hd] in Hh.
  unfold strip_set. rewrite (lstrip_hd_keep set c tl Hh). unfold rstrip_set.
  assert (E : exists x pre, c :: tl = pre ++ [x]).
  { destruct (@exists_last _ (c :: tl)) as (pre & x & E); [discriminate |]. exists x, pre. exact E. }
  destruct E as (x & pre & E). rewrite E in *. rewrite last_app_single in Hl.
  rewrite rev_app_distr. cbn [rev app]. rewrite (lstrip_hd_keep set x (rev pre) Hl).
  cbn [rev]. rewrite rev_involutive. reflexivity.
Qed.

Lemma dquote_not_ws : char_in dquote str_ws_latin1 = false.
Proof. vm_compute. reflexivity. Qed.

Lemma legal_char_not_ws c : char_in c cookie_LegalChars = true -> char_in c str_ws_latin1 = false.
Proof.
  intro H. pose proof legal_not_ws as T. rewrite forallb_forall in T.
  apply char_in_In in H. apply negb_true_iff. exact (T c H).
Qed.

Lemma Forall_last {A} (P : A -> Prop) l d : l <> [] -> Forall P l -> P (last l d).
Proof.
  intros Hne F. destruct (@exists_last _ l Hne) as (pre & x & ->).
  rewrite last_app_single. apply Forall_app in F as [_ F]. inversion F; assumption.
Qed.

Theorem strip_emitted v : strip_set str_ws_latin1 (emitted_value v) = emitted_value v.
Proof.
  unfold emitted_value. apply strip_keep. right.
  destruct (is_legal_key v) eqn:L.
  - destruct (unquoted_shape v L) as (Eq & Hne & F). rewrite Eq. split.
    + destruct v as [|c v]; [congruence |]. inversion F; subst. apply legal_char_not_ws. assumption.
    + apply legal_char_not_ws. apply (Forall_last (fun c => char_in c cookie_LegalChars = true) v 0 Hne F).
  - destruct (quoted_shape v L) as (body & _ & _ & _ & Hh & Hl). rewrite Hh, Hl.
    split; apply dquote_not_ws.
Qed.

(* ---- the echo: what the request API reads from the emitted text is the value that was set.
   It holds for every string; set_cookie accepts exactly the [settable] (ASCII) ones. *)
Theorem cookie_value_echo_all v : parse_cookie_value (emitted_value v) = v.
Proof.
  unfold parse_cookie_value. rewrite strip_emitted. unfold emitted_value.
  destruct ((2 <=? length (quote v))%nat && (hd 0 (quote v) =? dquote) && (last (quote v) 0 =? dquote)) eqn:G.
  - apply unquote_quote.
  - (* the guard is off: the text was not quoted *)
    destruct (is_legal_key v) eqn:L.
    + apply (unquoted_shape v L).
    + destruct (quoted_shape v L) as (body & _ & _ & Hl & Hh & Hla).
      rewrite Hh, Hla, N.eqb_refl in G. replace (2 <=? length (quote v))%nat with true in G by lia.
      discriminate.
Qed.

Theorem cookie_value_echo v : settable v = true -> parse_cookie_value (emitted_value v) = v.
Proof. intros _. apply cookie_value_echo_all. Qed.

(* the emitted text of a settable value is printable ASCII without ';' ',' or whitespace other
   than the space inside quotes: it survives the Cookie header's split(';') and partition('=') *)
Lemma translate_char_safe c : c < 128 ->
  Forall (fun x => 32 <= x < 127 /\ x <> 59 /\ x <> 44) (translate_char c).
Proof.
  intro H. assert (T : forallb (fun c => forallb (fun x => (32 <=? x) && (x <? 127) && negb (x =? 59) && negb (x =? 44))
                                                  (translate_char c)) (N_range 128) = true)
    by (vm_compute; reflexivity).
  rewrite forallb_forall in T. specialize (T c (in_N_range c 128 ltac:(cbn; lia))).
  apply Forall_forall. intros x Hx. rewrite forallb_forall in T. specialize (T x Hx). lia.
Qed.

Theorem emitted_value_safe v : settable v = true ->
  Forall (fun x => 32 <= x < 127 /\ x <> 59 /\ x <> 44) (emitted_value v).
Proof.
  intro S. unfold settable in S. unfold emitted_value, quote.
  assert (B : Forall (fun x => 32 <= x < 127 /\ x <> 59 /\ x <> 44) (flat_map translate_char v)).
  { induction v as [|c v IH]; [constructor |]. cbn [forallb] in S. apply andb_true_iff in S as [Sc Sv].
    cbn [flat_map]. apply Forall_app. split; [apply translate_char_safe; lia | apply IH, Sv]. }
  destruct (is_legal_key v) eqn:L.
  - assert (E : flat_map translate_char v = v); [| rewrite <- E; exact B].
    destruct (unquoted_shape v L) as (_ & _ & F). clear B S L.
    induction F as [|c v Hc F IH]; [reflexivity |]. cbn [flat_map]. rewrite IH.
    rewrite translate_spec. unfold tr_spec.
    assert (U : forallb (fun c => char_in c cookie_UnescapedChars && negb (c =? dquote) && negb (c =? bslash))
                        cookie_LegalChars = true) by (vm_compute; reflexivity).
    rewrite forallb_forall in U. apply char_in_In in Hc. specialize (U c Hc).
    apply andb_true_iff in U as [U U3]. apply andb_true_iff in U as [U1 U2].
    replace ((c =? dquote) || (c =? bslash)) with false by lia. rewrite U1. reflexivity.
  - constructor; [unfold dquote; lia |]. apply Forall_app. split; [exact B |].
    constructor; [unfold dquote; lia | constructor].
Qed.

(* the oracle accepts the model *)
Theorem echo_oracle_sound v :
  echo_oracle v (emitted_value v) (parse_cookie_value (emitted_value v)) = [].
Proof. unfold echo_oracle. rewrite cookie_value_echo_all, !str_eqb_refl. reflexivity. Qed.

(* and conversely: clause 1 of the oracle is the property itself *)
Theorem echo_oracle_clause1 v coded got : ~ In 1 (echo_oracle v coded got) -> got = v.
Proof.
  unfold echo_oracle. destruct (str_eqb got v) eqn:E; [intros _; apply str_eqb_eq, E |].
  intro H. exfalso. apply H. left. reflexivity.
Qed.

(* ------------------------------------------------------------------ at the level of the Cookie
   header: C09's model of request_helpers._parse_cookie_header (the one compared with the real
   parser by the C09 check), with its symbolic _unquote replaced by the model above *)
(* not extracted: Falcon.C09.Model and Falcon.C15.Model cannot be extracted monolithically together;
   the C09 check ties parse_cookie_header to the real parser *)
(* the whole Cookie header: C09's model of request_helpers._parse_cookie_header (split(';'),
   partition('='), strip, name checks, the guard), its symbolic _unquote evaluated by [unquote] *)
Require Falcon.C09.Model.
Module M09 := Falcon.C09.Model.

Definition eval_cval (c : M09.cval) : str :=
  match c with M09.Raw s => s | M09.Unq s => unquote s end.

Definition cookies_read (h : str) : list (str * list str) :=
  map (fun p => (fst p, map eval_cval (snd p))) (M09.parse_cookie_header true h).

(* names set_cookie accepts that are also RFC 6265 tokens for the request parser *)
Definition echo_name (n : str) : bool :=
  is_legal_key n && forallb (fun c => negb (char_in c cookie_name_reserved)) n.

Lemma split_chr_nosep sep s : ~ In sep s -> split_chr sep s = [s].
Proof.
  induction s as [|c s IH]; intro H; [reflexivity |].
  cbn [split_chr]. cbn [In] in H. replace (c =? sep) with false by lia.
  rewrite IH by tauto. reflexivity.
Qed.

Lemma partition_chr_app sep a b : ~ In sep a -> partition_chr sep (a ++ sep :: b) = (a, true, b).
Proof.
  induction a as [|c a IH]; intro H.
  - cbn [app partition_chr]. rewrite N.eqb_refl. reflexivity.
  - cbn [app partition_chr]. cbn [In] in H. replace (c =? sep) with false by lia.
    rewrite IH by tauto. reflexivity.
Qed.

Lemma legal_no_sep : forallb (fun c => negb (c =? 59) && negb (c =? 61)) cookie_LegalChars = true.
Proof. vm_compute. reflexivity. Qed.

Theorem cookie_header_echo name v :
  echo_name name = true -> settable v = true ->
  cookies_read (name ++ 61 :: emitted_value v) = [(name, [v])].
Proof.
  intros Hn Sv. unfold echo_name in Hn. apply andb_true_iff in Hn as [Hl Hr].
  destruct (unquoted_shape name Hl) as (_ & Hne & F).
  pose proof (emitted_value_safe v Sv) as Safe.
  assert (Nsep : forall c, c = 59 \/ c = 61 -> ~ In c name).
  { intros c Hc Hin. rewrite Forall_forall in F. specialize (F c Hin). apply char_in_In in F.
    pose proof legal_no_sep as T. rewrite forallb_forall in T. specialize (T c F). lia. }
  assert (N59 : ~ In 59 (name ++ 61 :: emitted_value v)).
  { intro Hin. apply in_app_or in Hin as [Hin | [Hin | Hin]].
    - exact (Nsep 59 (or_introl eq_refl) Hin).
    - lia.
    - rewrite Forall_forall in Safe. specialize (Safe 59 Hin). lia. }
  unfold cookies_read, M09.parse_cookie_header, M09.semicolon.
  rewrite (split_chr_nosep 59 _ N59). cbn [fold_left]. unfold M09.cookie_token, M09.eq_c.
  rewrite (partition_chr_app 61 name (emitted_value v) (Nsep 61 (or_intror eq_refl))).
  assert (Sn : M09.strip_ws name = name).
  { unfold M09.strip_ws. apply strip_keep. right. split.
    - destruct name as [|c name]; [congruence |]. inversion F; subst. apply legal_char_not_ws. assumption.
    - apply legal_char_not_ws. apply (Forall_last (fun c => char_in c cookie_LegalChars = true) name 0 Hne F). }
  rewrite Sn. change (M09.strip_ws (emitted_value v)) with (strip_set str_ws_latin1 (emitted_value v)).
  rewrite strip_emitted.
  assert (Ne : M09.nonempty name = true) by (destruct name; [congruence | reflexivity]).
  rewrite Ne. cbn [negb].
  assert (Res : existsb (fun c => char_in c cookie_name_reserved) name = false).
  { destruct (existsb _ name) eqn:E; [| reflexivity]. apply existsb_exists in E as (c & Hc & Hin).
    rewrite forallb_forall in Hr. specialize (Hr c Hc). rewrite Hin in Hr. discriminate. }
  rewrite Res.
  pose proof (cookie_value_echo_all v) as Echo. unfold parse_cookie_value in Echo.
  rewrite strip_emitted in Echo. change M09.dq with dquote.
  destruct ((2 <=? length (emitted_value v))%nat && (hd 0 (emitted_value v) =? dquote)
            && (last (emitted_value v) 0 =? dquote)); cbn [M09.cookie_add map fst snd eval_cval];
    rewrite Echo; reflexivity.
Qed.
