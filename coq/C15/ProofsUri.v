(* C15 — the URI-bearing helpers: pure ASCII output that decodes back to the original
   (at the octet level), Content-Disposition quoting. *)
From Coq Require Import ZArith NArith List Bool String Lia ZifyBool ZifyN.
From Falcon.lib Require Import PyStr.
From Falcon.gen Require Import Consts ConstsC15.
From Falcon.C15 Require Import Model Spec.
Import ListNotations.
Open Scope N_scope.
Local Arguments str_eqb : simpl never.
Ltac Zify.zify_post_hook ::= Z.div_mod_to_equations.

Lemma ok_inj {A} (a b : A) : @Ok A a = Ok b -> a = b.
Proof. intro H. injection H as ->. reflexivity. Qed.

(* ---- facts about the character tables (re-checked whenever Consts changes) *)
Lemma allowed_ascii v : forallb (fun c => c <? 128) (allowed_chars v) = true.
Proof. destruct v; vm_compute; reflexivity. Qed.
Lemma pct_not_allowed v : char_in pct (allowed_chars v) = false.
Proof. destruct v; vm_compute; reflexivity. Qed.
Lemma hex_digits_ascii : forallb (fun c => c <? 128) uri_HEX_DIGITS = true.
Proof. vm_compute; reflexivity. Qed.

Lemma char_in_forall c set (P : N -> bool) :
  forallb P set = true -> char_in c set = true -> P c = true.
Proof.
  intros F H. apply char_in_In in H. rewrite forallb_forall in F. apply F. exact H.
Qed.

Lemma all_in_ascii set s :
  forallb (fun c => c <? 128) set = true ->
  forallb (fun c => char_in c set) s = true -> is_ascii s = true.
Proof.
  intros A F. unfold is_ascii. apply forallb_forall. intros c Hc.
  rewrite forallb_forall in F. apply (char_in_forall c set _ A). apply F. exact Hc.
Qed.

Lemma is_ascii_app a b : is_ascii (a ++ b) = is_ascii a && is_ascii b.
Proof. unfold is_ascii. apply forallb_app. Qed.

Lemma utf8_ascii s : is_ascii s = true -> utf8 s = Some s.
Proof.
  induction s as [|c tl IH]; cbn [is_ascii forallb utf8]; intro H; [reflexivity|].
  apply andb_true_iff in H as [H1 H2]. unfold utf8_chr. rewrite H1.
  fold (is_ascii tl) in H2. rewrite (IH H2). reflexivity.
Qed.

(* ---- percent-decoding *)
Lemma pct_decode_plain c tl : (c =? pct) = false -> pct_decode (c :: tl) = c :: pct_decode tl.
Proof. intro H. cbn [pct_decode]. rewrite H. reflexivity. Qed.

Lemma pct_decode_hex a b tl : is_hex a = true -> is_hex b = true ->
  pct_decode (pct :: a :: b :: tl) = (16 * hexval a + hexval b) :: pct_decode tl.
Proof. intros Ha Hb. cbn [pct_decode]. rewrite N.eqb_refl, Ha, Hb. reflexivity. Qed.

Lemma pct_decode_free s : char_in pct s = false -> pct_decode s = s.
Proof.
  induction s as [|c tl IH]; intro H; [reflexivity|].
  unfold char_in in H. cbn [existsb] in H. apply orb_false_iff in H as [H1 H2].
  rewrite pct_decode_plain by (rewrite N.eqb_sym; exact H1).
  f_equal. apply IH. exact H2.
Qed.

Lemma all_in_no_pct set s :
  char_in pct set = false -> forallb (fun c => char_in c set) s = true -> char_in pct s = false.
Proof.
  intros P F. destruct (char_in pct s) eqn:E; [|reflexivity].
  apply char_in_In in E. rewrite forallb_forall in F. rewrite (F _ E) in P. discriminate.
Qed.

Lemma hexd_ok d : d < 16 -> is_hex (hexd d) = true /\ hexval (hexd d) = d /\ (hexd d <? 128) = true.
Proof.
  intro H.
  assert (C : d = 0 \/ d = 1 \/ d = 2 \/ d = 3 \/ d = 4 \/ d = 5 \/ d = 6 \/ d = 7 \/ d = 8 \/
              d = 9 \/ d = 10 \/ d = 11 \/ d = 12 \/ d = 13 \/ d = 14 \/ d = 15) by lia.
  repeat (destruct C as [-> | C]; [vm_compute; repeat split; reflexivity|]).
  subst. vm_compute. repeat split; reflexivity.
Qed.

Definition bytes (l : list N) : Prop := Forall (fun b => b < 256) l.

Lemma some_inj {A} (a b : A) : Some a = Some b -> a = b.
Proof. intro H. injection H as ->. reflexivity. Qed.

Lemma utf8_chr_bytes c l : utf8_chr c = Some l -> bytes l.
Proof.
  unfold utf8_chr, bytes.
  destruct (c <? 128) eqn:E1;
    [intro H; apply some_inj in H; subst l; constructor; [lia|constructor]|].
  destruct (c <? 2048) eqn:E2;
    [intro H; apply some_inj in H; subst l; constructor; [lia|constructor; [lia|constructor]]|].
  destruct (c <? 65536) eqn:E3.
  - destruct ((55296 <=? c) && (c <=? 57343)); [discriminate|].
    intro H; apply some_inj in H; subst l.
    constructor; [lia|constructor; [lia|constructor; [lia|constructor]]].
  - destruct (c <? 1114112) eqn:E4; [|discriminate].
    intro H; apply some_inj in H; subst l.
    constructor; [lia|constructor; [lia|constructor; [lia|constructor; [lia|constructor]]]].
Qed.

Lemma utf8_bytes s l : utf8 s = Some l -> bytes l.
Proof.
  revert l. induction s as [|c tl IH]; cbn [utf8]; intros l H.
  - injection H as <-. constructor.
  - destruct (utf8_chr c) as [a|] eqn:Ea; [|discriminate].
    destruct (utf8 tl) as [b|] eqn:Eb; [|discriminate].
    injection H as <-. apply Forall_app. split; [eapply utf8_chr_bytes; exact Ea | apply IH; reflexivity].
Qed.

Lemma decode_encoded set bs :
  char_in pct set = false -> bytes bs -> pct_decode (flat_map (enc_byte set) bs) = bs.
Proof.
  intros P B. induction B as [|b tl Hb _ IH]; [reflexivity|].
  cbn [flat_map]. unfold enc_byte at 1. destruct (char_in b set) eqn:E.
  - cbn [app]. rewrite pct_decode_plain; [rewrite IH; reflexivity|].
    destruct (b =? pct) eqn:E2; [|reflexivity]. apply N.eqb_eq in E2. subst. congruence.
  - cbn [app].
    assert (H1 : b / 16 < 16) by lia. assert (H2 : b mod 16 < 16) by lia.
    destruct (hexd_ok _ H1) as (A1 & A2 & _). destruct (hexd_ok _ H2) as (B1 & B2 & _).
    rewrite pct_decode_hex by assumption. rewrite A2, B2, IH. f_equal. lia.
Qed.

Lemma encoded_ascii set bs :
  forallb (fun c => c <? 128) set = true -> bytes bs ->
  is_ascii (flat_map (enc_byte set) bs) = true.
Proof.
  intros A B. induction B as [|b tl Hb _ IH]; [reflexivity|].
  cbn [flat_map]. rewrite is_ascii_app, IH, andb_true_r. unfold enc_byte.
  destruct (char_in b set) eqn:E.
  - unfold is_ascii. cbn [forallb]. rewrite (char_in_forall b set _ A E). reflexivity.
  - assert (H1 : b / 16 < 16) by lia. assert (H2 : b mod 16 < 16) by lia.
    destruct (hexd_ok _ H1) as (_ & _ & A3). destruct (hexd_ok _ H2) as (_ & _ & B3).
    unfold is_ascii. cbn [forallb]. rewrite A3, B3. reflexivity.
Qed.

(* ---- the encoders: pure ASCII out *)
Theorem uri_encoder_ascii v chk s out :
  uri_encoder v chk s = Ok out -> is_ascii out = true.
Proof.
  unfold uri_encoder.
  destruct (forallb (fun c => char_in c (allowed_chars v)) s) eqn:E1.
  - intro H. injection H as <-. eapply all_in_ascii; [apply allowed_ascii | exact E1].
  - destruct (chk && forallb (fun c => char_in c (allowed_chars v ++ [pct])) s && looks_escaped s) eqn:E2.
    + intro H. injection H as <-. apply andb_true_iff in E2 as [E2 _].
      apply andb_true_iff in E2 as [_ E2].
      eapply all_in_ascii; [|exact E2]. rewrite forallb_app, allowed_ascii. reflexivity.
    + destruct (utf8 s) as [bs|] eqn:E3; [|discriminate]. intro H. injection H as <-.
      apply encoded_ascii; [apply allowed_ascii | eapply utf8_bytes; exact E3].
Qed.

(* ... that decodes back to the UTF-8 octets of the original, unless the value was taken as
   already escaped (documented behaviour of encode_check_escaped) *)
Theorem uri_encoder_decode_back v chk s out :
  taken_as_escaped v chk s = false ->
  uri_encoder v chk s = Ok out -> Some (pct_decode out) = utf8 s.
Proof.
  unfold uri_encoder, taken_as_escaped. intro T.
  destruct (forallb (fun c => char_in c (allowed_chars v)) s) eqn:E1.
  - intro H. injection H as <-.
    rewrite pct_decode_free by (eapply all_in_no_pct; [apply pct_not_allowed | exact E1]).
    symmetry. apply utf8_ascii. eapply all_in_ascii; [apply allowed_ascii | exact E1].
  - cbn [negb] in T. rewrite andb_true_r in T.
    replace (chk && forallb (fun c => char_in c (allowed_chars v ++ [pct])) s && looks_escaped s)
      with false by (symmetry; exact T).
    destruct (utf8 s) as [bs|] eqn:E3; [|discriminate]. intro H. injection H as <-.
    f_equal. apply decode_encoded; [apply pct_not_allowed | eapply utf8_bytes; exact E3].
Qed.

(* encode_value (no escape check) always decodes back *)
Theorem encode_value_decode_back s out :
  encode_value s = Ok out -> Some (pct_decode out) = utf8 s.
Proof. apply uri_encoder_decode_back. reflexivity. Qed.

Theorem uri_oracle_sound v chk s out :
  uri_encoder v chk s = Ok out -> uri_out_ok v chk s out = true.
Proof.
  intro H. unfold uri_out_ok. rewrite (uri_encoder_ascii _ _ _ _ H). cbn [andb].
  destruct (taken_as_escaped v chk s) eqn:T; [reflexivity|]. cbn [orb].
  rewrite <- (uri_encoder_decode_back _ _ _ _ T H). unfold opt_list_eqb. apply str_eqb_refl.
Qed.

(* Location / Content-Location are those encoders *)
Theorem location_is_uri_encode f s :
  transform f P_location (PS s) = uri_encode s /\
  transform f P_content_location (PS s) = uri_encode s.
Proof. split; reflexivity. Qed.

(* ---- Content-Disposition *)
Lemma qs_roundtrip v r : qs_parse (qs_escape v ++ dq :: r) = Some (v, r).
Proof.
  induction v as [|c tl IH]; cbn [qs_escape flat_map app].
  - cbn [qs_parse]. rewrite N.eqb_refl. reflexivity.
  - fold (qs_escape tl). destruct ((c =? bsl) || (c =? dq)) eqn:E.
    + cbn [app qs_parse]. change (bsl =? dq) with false. rewrite N.eqb_refl. cbn [app].
      rewrite IH. reflexivity.
    + apply orb_false_iff in E as [E1 E2]. cbn [app qs_parse]. rewrite E1, E2, IH. reflexivity.
Qed.

Lemma qs_escape_ascii v : is_ascii v = true -> is_ascii (qs_escape v) = true.
Proof.
  induction v as [|c tl IH]; cbn [qs_escape flat_map]; intro H; [reflexivity|].
  fold (qs_escape tl). unfold is_ascii in H. cbn [forallb] in H.
  apply andb_true_iff in H as [H1 H2]. rewrite is_ascii_app, (IH H2), andb_true_r.
  destruct ((c =? bsl) || (c =? dq)); unfold is_ascii; cbn [forallb]; rewrite H1; reflexivity.
Qed.

(* ASCII filename: a quoted-string that reads back as the filename *)
Theorem content_disposition_ascii_roundtrip nfkd dt v :
  is_ascii v = true ->
  exists q, format_content_disposition true nfkd dt v = Ok (dt ++ s_filename_q ++ dq :: q) /\
            qs_parse q = Some (v, []).
Proof.
  intro A. unfold format_content_disposition. rewrite A.
  exists (qs_escape v ++ [dq]). split; [reflexivity | apply qs_roundtrip].
Qed.

Lemma secure_filename_ascii nfkd v out : secure_filename nfkd v = Ok out -> is_ascii out = true.
Proof.
  unfold secure_filename. destruct v as [|c0 v0]; [discriminate|]. intro H.
  apply ok_inj in H. subst out.
  unfold is_ascii. rewrite forallb_forall. intros c Hc. apply in_map_iff in Hc as [x [Hx _]].
  subst c. destruct (char_in x filename_safe_chars) eqn:E; [|reflexivity].
  assert (S : forallb (fun c => c <? 128) filename_safe_chars = true) by (vm_compute; reflexivity).
  exact (char_in_forall x _ _ S E).
Qed.

(* non-ASCII filename: ASCII fallback token + RFC 8187 ext-value decoding to the original *)
Theorem content_disposition_ext_value nfkd dt v out :
  is_ascii v = false -> format_content_disposition true nfkd dt v = Ok out ->
  exists sf ev, out = dt ++ s_filename_q ++ sf ++ s_filename_star ++ ev /\
                is_ascii sf = true /\ is_ascii ev = true /\ Some (pct_decode ev) = utf8 v.
Proof.
  intro A. unfold format_content_disposition. rewrite A. unfold bind.
  destruct (secure_filename nfkd v) as [sf|] eqn:E1; [|discriminate].
  destruct (encode_value v) as [ev|] eqn:E2; [|discriminate].
  intro H. injection H as <-. exists sf, ev. repeat split.
  - eapply secure_filename_ascii; exact E1.
  - eapply uri_encoder_ascii; exact E2.
  - apply encode_value_decode_back; exact E2.
Qed.

Theorem content_disposition_ascii f nfkd dt v out :
  is_ascii dt = true -> format_content_disposition f nfkd dt v = Ok out -> is_ascii out = true.
Proof.
  intros D. unfold format_content_disposition. destruct (is_ascii v) eqn:A.
  - intro H. apply ok_inj in H. subst out. rewrite !is_ascii_app, D.
    destruct f; [rewrite (qs_escape_ascii v A) | rewrite A]; reflexivity.
  - unfold bind. destruct (secure_filename nfkd v) as [sf|] eqn:E1; [|discriminate].
    destruct (encode_value v) as [ev|] eqn:E2; [|discriminate].
    intro H. apply ok_inj in H. subst out. rewrite !is_ascii_app, D.
    rewrite (secure_filename_ascii _ _ _ E1), (uri_encoder_ascii _ _ _ _ E2). reflexivity.
Qed.

(* the code as found: a double quote in an ASCII filename is emitted bare, so the
   quoted-string ends early *)
Theorem content_disposition_roundtrip_refuted_before_fix :
  exists nfkd dt v q, is_ascii v = true /\
    format_content_disposition false nfkd dt v = Ok (dt ++ s_filename_q ++ dq :: q) /\
    qs_parse q <> Some (v, []).
Proof.
  exists (fun s => s), s_attachment, [97; 34; 98], [97; 34; 98; 34].
  split; [reflexivity|]. split; [vm_compute; reflexivity|]. vm_compute. discriminate.
Qed.

Lemma forallb_map {A B} (f : A -> B) (P : B -> bool) l :
  forallb P (map f l) = forallb (fun x => P (f x)) l.
Proof. induction l as [|x tl IH]; cbn [map forallb]; [reflexivity|]. rewrite IH. reflexivity. Qed.

(* ---- Link: pure ASCII given ASCII parameters (the target, title* and anchor may be any
   unicode string) *)
Lemma join_ascii sep l : is_ascii sep = true -> forallb is_ascii l = true ->
  is_ascii (join_str sep l) = true.
Proof.
  intros S. induction l as [|x tl IH]; cbn [join_str forallb]; intro H; [reflexivity|].
  apply andb_true_iff in H as [H1 H2]. destruct tl as [|y tl']; [exact H1|].
  rewrite !is_ascii_app, H1, S, (IH H2). reflexivity.
Qed.

Lemma map_res_ascii l : forall out, map_res uri_encode l = Ok out -> forallb is_ascii out = true.
Proof.
  induction l as [|x tl IH]; cbn [map_res]; intros out H.
  - injection H as <-. reflexivity.
  - unfold bind in H. destruct (uri_encode x) as [y|] eqn:E; [|discriminate].
    destruct (map_res uri_encode tl) as [ys|] eqn:E2; [|discriminate].
    injection H as <-. cbn [forallb]. rewrite (uri_encoder_ascii _ _ _ _ E), (IH _ eq_refl).
    reflexivity.
Qed.

Definition opt_str_ascii (o : option str) : bool :=
  match o with Some s => is_ascii s | None => true end.

Definition link_params_ascii (a : link_args) : bool :=
  (contains (l_rel a) [47; 47] || is_ascii (l_rel a)) && opt_str_ascii (l_title a)
  && match l_title_star a with Some (lang, _) => is_ascii lang | None => true end
  && opt_str_ascii (l_type_hint a)
  && match l_hreflang a with
     | Some (inl s) => is_ascii s
     | Some (inr l) => forallb is_ascii l
     | None => true
     end
  && match l_ext a with
     | Some l => forallb (fun pq => is_ascii (fst pq) && is_ascii (snd pq)) l
     | None => true
     end.

Theorem link_value_ascii a out :
  link_params_ascii a = true -> link_value a = Ok out -> is_ascii out = true.
Proof.
  unfold link_params_ascii. intro P.
  repeat (apply andb_true_iff in P as [P ?]).
  unfold link_value, bind.
  destruct (if contains (l_rel a) [47; 47] then _ else _) as [rel|] eqn:ER; [|discriminate].
  assert (AR : is_ascii rel = true).
  { destruct (contains (l_rel a) [47; 47]).
    - destruct (char_in 32 (l_rel a)).
      + destruct (map_res uri_encode (split_ws (l_rel a))) as [parts|] eqn:EP; [|discriminate].
        apply ok_inj in ER; rewrite <- ER. rewrite !is_ascii_app.
        rewrite (join_ascii [32] parts eq_refl (map_res_ascii _ _ EP)). reflexivity.
      + destruct (uri_encode (l_rel a)) as [r|] eqn:EP; [|discriminate].
        apply ok_inj in ER; rewrite <- ER. rewrite !is_ascii_app, (uri_encoder_ascii _ _ _ _ EP). reflexivity.
    - apply ok_inj in ER; rewrite <- ER. exact P. }
  destruct (uri_encode (l_target a)) as [target|] eqn:ET; [|discriminate].
  pose proof (uri_encoder_ascii _ _ _ _ ET) as AT.
  match goal with |- context [match l_title_star a with _ => _ end] => idtac end.
  set (v0 := [60] ++ target ++ s_rel ++ rel).
  assert (A0 : is_ascii v0 = true) by (unfold v0; rewrite !is_ascii_app, AT, AR; reflexivity).
  set (v1 := match l_title a with Some t => v0 ++ s_title ++ [dq] ++ t ++ [dq] | None => v0 end).
  assert (A1 : is_ascii v1 = true).
  { unfold v1. destruct (l_title a) as [t|]; [|exact A0].
    cbn [opt_str_ascii] in *. rewrite !is_ascii_app, A0.
    match goal with H : is_ascii t = true |- _ => rewrite H end. reflexivity. }
  destruct (match l_title_star a with Some (lang, text) => _ | None => Ok v1 end) as [v2|] eqn:E2;
    [|discriminate].
  assert (A2 : is_ascii v2 = true).
  { destruct (l_title_star a) as [[lang text]|].
    - destruct (uri_encode_value text) as [e|] eqn:EE; [|discriminate]. apply ok_inj in E2; rewrite <- E2.
      rewrite !is_ascii_app, A1, (uri_encoder_ascii _ _ _ _ EE).
      match goal with H : is_ascii lang = true |- _ => rewrite H end. reflexivity.
    - apply ok_inj in E2; rewrite <- E2. exact A1. }
  set (v3 := match l_type_hint a with Some t => v2 ++ s_type ++ [dq] ++ t ++ [dq] | None => v2 end).
  assert (A3 : is_ascii v3 = true).
  { unfold v3. destruct (l_type_hint a) as [t|]; [|exact A2].
    cbn [opt_str_ascii] in *. rewrite !is_ascii_app, A2.
    match goal with H : is_ascii t = true |- _ => rewrite H end. reflexivity. }
  set (v4 := match l_hreflang a with
             | Some (inl s) => v3 ++ semi_sp ++ s_hreflang ++ s
             | Some (inr l) => v3 ++ semi_sp ++ join_str semi_sp (map (fun x => s_hreflang ++ x) l)
             | None => v3 end).
  assert (A4 : is_ascii v4 = true).
  { unfold v4. destruct (l_hreflang a) as [[s|l]|]; [| |exact A3].
    - rewrite !is_ascii_app, A3. match goal with H : is_ascii s = true |- _ => rewrite H end.
      reflexivity.
    - rewrite !is_ascii_app, A3. rewrite join_ascii; [reflexivity|reflexivity|].
      rewrite forallb_map. match goal with H : forallb is_ascii l = true |- _ => rename H into HL end.
      rewrite forallb_forall in HL. apply forallb_forall. intros x Hx.
      rewrite is_ascii_app, (HL x Hx). reflexivity. }
  destruct (match l_anchor a with Some an => _ | None => Ok v4 end) as [v5|] eqn:E5; [|discriminate].
  assert (A5 : is_ascii v5 = true).
  { destruct (l_anchor a) as [an|].
    - destruct (uri_encode an) as [e|] eqn:EE; [|discriminate]. apply ok_inj in E5; rewrite <- E5.
      rewrite !is_ascii_app, A4, (uri_encoder_ascii _ _ _ _ EE). reflexivity.
    - apply ok_inj in E5; rewrite <- E5. exact A4. }
  destruct (match l_crossorigin a with Some co => _ | None => Ok v5 end) as [v6|] eqn:E6; [|discriminate].
  assert (A6 : is_ascii v6 = true).
  { destruct (l_crossorigin a) as [co|].
    - destruct (negb (mem (lower co) crossorigin_values)); [discriminate|].
      destruct (str_eqb (lower co) s_anonymous); apply ok_inj in E6; rewrite <- E6;
        rewrite !is_ascii_app, A5; reflexivity.
    - apply ok_inj in E6; rewrite <- E6. exact A5. }
  destruct (l_ext a) as [l|]; intro HO; apply ok_inj in HO; rewrite <- HO; [|exact A6].
  rewrite !is_ascii_app, A6. rewrite join_ascii; [reflexivity|reflexivity|].
  rewrite forallb_map. match goal with H : forallb _ l = true |- _ => rename H into HL end.
  rewrite forallb_forall in HL. apply forallb_forall. intros x Hx.
  specialize (HL x Hx). apply andb_true_iff in HL as [HL1 HL2].
  destruct x as [p q]. cbn [fst snd] in *. rewrite !is_ascii_app, HL1.
  unfold is_ascii in *. cbn [forallb app]. rewrite HL2. reflexivity.
Qed.

(* the link target inside the value decodes back *)
Theorem link_target_decode_back a out :
  taken_as_escaped false true (l_target a) = false -> link_value a = Ok out ->
  exists t rest, out = 60 :: t ++ rest /\ startswith rest s_rel = true /\
                 Some (pct_decode t) = utf8 (l_target a).
Proof.
  intros T. unfold link_value, bind.
  destruct (if contains (l_rel a) [47; 47] then _ else _) as [rel|]; [|discriminate].
  destruct (uri_encode (l_target a)) as [target|] eqn:ET; [|discriminate].
  pose proof (uri_encoder_decode_back _ _ _ _ T ET) as D.
  intro H.
  assert (G : forall x, (exists r, x = 60 :: target ++ s_rel ++ r) ->
              exists t rest, x = 60 :: t ++ rest /\ startswith rest s_rel = true /\
                             Some (pct_decode t) = utf8 (l_target a)).
  { intros x [r ->]. exists target, (s_rel ++ r). split; [reflexivity|]. split; [|exact D].
    apply startswith_app. exists r. reflexivity. }
  apply G. clear G D T ET.
  (* every later stage only appends *)
  assert (EXT : forall (x y : str), (exists r, x = 60 :: target ++ s_rel ++ r) ->
                forall z, (exists r, x ++ z = 60 :: target ++ s_rel ++ r)).
  { intros x y [r ->] z. exists (r ++ z). cbn [app]. rewrite <- !app_assoc. reflexivity. }
  set (v0 := [60] ++ target ++ s_rel ++ rel) in *.
  assert (P0 : exists r, v0 = 60 :: target ++ s_rel ++ r) by (exists rel; reflexivity).
  set (v1 := match l_title a with Some t => v0 ++ s_title ++ [dq] ++ t ++ [dq] | None => v0 end) in *.
  assert (P1 : exists r, v1 = 60 :: target ++ s_rel ++ r)
    by (unfold v1; destruct (l_title a); [apply (EXT v0 [] P0)|exact P0]).
  destruct (match l_title_star a with Some (lang, text) => _ | None => Ok v1 end) as [v2|] eqn:E2;
    [|discriminate].
  assert (P2 : exists r, v2 = 60 :: target ++ s_rel ++ r).
  { destruct (l_title_star a) as [[lang text]|].
    - destruct (uri_encode_value text); [|discriminate]. apply ok_inj in E2; rewrite <- E2. apply (EXT v1 [] P1).
    - apply ok_inj in E2; rewrite <- E2. exact P1. }
  set (v3 := match l_type_hint a with Some t => v2 ++ s_type ++ [dq] ++ t ++ [dq] | None => v2 end) in *.
  assert (P3 : exists r, v3 = 60 :: target ++ s_rel ++ r)
    by (unfold v3; destruct (l_type_hint a); [apply (EXT v2 [] P2)|exact P2]).
  set (v4 := match l_hreflang a with
             | Some (inl s) => v3 ++ semi_sp ++ s_hreflang ++ s
             | Some (inr l) => v3 ++ semi_sp ++ join_str semi_sp (map (fun x => s_hreflang ++ x) l)
             | None => v3 end) in *.
  assert (P4 : exists r, v4 = 60 :: target ++ s_rel ++ r)
    by (unfold v4; destruct (l_hreflang a) as [[s|l]|]; [apply (EXT v3 [] P3)|apply (EXT v3 [] P3)|exact P3]).
  destruct (match l_anchor a with Some an => _ | None => Ok v4 end) as [v5|] eqn:E5; [|discriminate].
  assert (P5 : exists r, v5 = 60 :: target ++ s_rel ++ r).
  { destruct (l_anchor a) as [an|].
    - destruct (uri_encode an); [|discriminate]. apply ok_inj in E5; rewrite <- E5. apply (EXT v4 [] P4).
    - apply ok_inj in E5; rewrite <- E5. exact P4. }
  destruct (match l_crossorigin a with Some co => _ | None => Ok v5 end) as [v6|] eqn:E6; [|discriminate].
  assert (P6 : exists r, v6 = 60 :: target ++ s_rel ++ r).
  { destruct (l_crossorigin a) as [co|].
    - destruct (negb (mem (lower co) crossorigin_values)); [discriminate|].
      destruct (str_eqb (lower co) s_anonymous); apply ok_inj in E6; rewrite <- E6; apply (EXT v5 [] P5).
    - apply ok_inj in E6; rewrite <- E6. exact P5. }
  destruct (l_ext a); apply ok_inj in H; rewrite <- H; [apply (EXT v6 [] P6)|exact P6].
Qed.

(* ---- the Content-Disposition oracle accepts the model: ASCII branch here, the non-ASCII branch
   (tokenizer + ext-value) and the full statement are in ProofsBridge.v *)
Lemma startswith_self_app p r : startswith (p ++ r) p = true.
Proof. apply startswith_app. exists r. reflexivity. Qed.

Lemma skipn_app_len {A} (p r : list A) : skipn (List.length p) (p ++ r) = r.
Proof. induction p as [|x tl IH]; [reflexivity | exact IH]. Qed.

Theorem cd_oracle_sound_ascii nfkd dt v out :
  is_ascii dt = true -> is_ascii v = true ->
  format_content_disposition true nfkd dt v = Ok out -> cd_out_ok dt v out = true.
Proof.
  intros D A H. unfold cd_out_ok.
  rewrite (content_disposition_ascii _ _ _ _ _ D H). cbn [andb].
  unfold format_content_disposition in H. rewrite A in H. apply ok_inj in H. subst out.
  rewrite app_assoc. rewrite startswith_self_app, skipn_app_len, A.
  cbn [app]. rewrite N.eqb_refl. cbn [andb].
  change (qs_escape v ++ [dq]) with (qs_escape v ++ dq :: []). rewrite qs_roundtrip.
  apply str_eqb_refl.
Qed.
