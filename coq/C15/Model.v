(* C15 — executable model of the header / cookie / link API of falcon.Response
   (falcon/response.py, falcon/response_helpers.py, falcon/asgi/response.py:_asgi_headers)
   and of the URI encoders it uses (falcon/util/uri.py:_create_str_encoder — a minimal local
   copy; the full treatment of uri.py is property C10's).

   Three stores, as in the code: [hdrs] = Response._headers (insertion-ordered dict keyed by
   the lower-cased name), [extra] = Response._extra_headers, [cookies] = Response._cookies
   (SimpleCookie: insertion-ordered dict name -> Morsel).

   [fixed] selects the repaired code (fixes/C15-*.patch); [fixed := false] is the code as
   found, kept for the *_refuted_before_fix theorems. *)
From Coq Require Import ZArith NArith List Bool String.
From Falcon.lib Require Import PyStr.
From Falcon.gen Require Import Consts ConstsC15.
Import ListNotations.
Open Scope N_scope.

(* ---- exceptions are values *)
Inductive err :=
| HeaderNotSupported   (* falcon.errors.HeaderNotSupported (a ValueError), documented *)
| EKeyError | EValueError      (* documented for set_cookie *)
| EIndexError | EUnicodeEncode | ECookieError | ETypeError.   (* anything else *)

Inductive res (A : Type) := Ok (a : A) | Err (e : err).
Arguments Ok {A} a.
Arguments Err {A} e.

Definition bind {A B} (r : res A) (f : A -> res B) : res B :=
  match r with Ok a => f a | Err e => Err e end.

(* ---- the header dict *)
Definition headers := list (str * str).

Fixpoint hget (h : headers) (k : str) : option str :=
  match h with
  | [] => None
  | (k', v) :: tl => if str_eqb k k' then Some v else hget tl k
  end.

(* dict[k] = v : an existing key keeps its position *)
Fixpoint hset (h : headers) (k v : str) : headers :=
  match h with
  | [] => [(k, v)]
  | (k', v') :: tl => if str_eqb k k' then (k', v) :: tl else (k', v') :: hset tl k v
  end.

Fixpoint hdel (h : headers) (k : str) : headers :=
  match h with
  | [] => []
  | (k', v') :: tl => if str_eqb k k' then hdel tl k else (k', v') :: hdel tl k
  end.

(* ---- Python values given as header values: str(value) *)
Inductive pv := VStr (s : str) | VInt (z : Z).

Fixpoint dec_digits (fuel : nat) (n : N) (acc : str) : str :=
  match fuel with
  | O => acc
  | S f => let acc' := (48 + n mod 10) :: acc in
           if n / 10 =? 0 then acc' else dec_digits f (n / 10) acc'
  end.
Definition dec_of_N (n : N) : str := dec_digits (S (N.to_nat (N.log2 n))) n [].
Definition dec_of_Z (z : Z) : str :=
  match z with
  | Z0 => [48]
  | Zpos p => dec_of_N (Npos p)
  | Zneg p => 45 :: dec_of_N (Npos p)
  end.
Definition pystr (v : pv) : str := match v with VStr s => s | VInt z => dec_of_Z z end.

Definition is_ascii (s : str) : bool := forallb (fun c => c <? 128) s.
Definition is_latin1 (s : str) : bool := forallb (fun c => c <? 256) s.

(* ---- str.encode() = UTF-8, strict (lone surrogates raise UnicodeEncodeError) *)
Definition utf8_chr (c : N) : option (list N) :=
  if c <? 128 then Some [c]
  else if c <? 2048 then Some [192 + c / 64; 128 + c mod 64]
  else if c <? 65536 then
    if (55296 <=? c) && (c <=? 57343) then None
    else Some [224 + c / 4096; 128 + (c / 64) mod 64; 128 + c mod 64]
  else if c <? 1114112 then
    Some [240 + c / 262144; 128 + (c / 4096) mod 64; 128 + (c / 64) mod 64; 128 + c mod 64]
  else None.

Fixpoint utf8 (s : str) : option (list N) :=
  match s with
  | [] => Some []
  | c :: tl => match utf8_chr c, utf8 tl with
               | Some a, Some b => Some (a ++ b)
               | _, _ => None
               end
  end.

(* ---- falcon/util/uri.py:_create_str_encoder *)
Definition pct : N := 37.
Definition hexd (d : N) : N := if d <? 10 then 48 + d else 55 + d.   (* '%02X' *)
Definition enc_byte (allowed : str) (b : N) : str :=
  if char_in b allowed then [b] else [pct; hexd (b / 16); hexd (b mod 16)].

Definition is_hex (c : N) : bool := char_in c uri_HEX_DIGITS.

(* the for/else over uri.split('%')[1:] *)
Definition looks_escaped (s : str) : bool :=
  forallb (fun t => match t with a :: b :: _ => is_hex a && is_hex b | _ => false end)
          (tl (split_chr pct s)).

Definition allowed_chars (is_value : bool) : str :=
  if is_value then uri_UNRESERVED else uri_ALL_ALLOWED.

Definition uri_encoder (is_value check : bool) (s : str) : res str :=
  let allowed := allowed_chars is_value in
  if forallb (fun c => char_in c allowed) s then Ok s            (* not uri.rstrip(allowed) *)
  else if check && forallb (fun c => char_in c (allowed ++ [pct])) s && looks_escaped s
  then Ok s
  else match utf8 s with
       | None => Err EUnicodeEncode
       | Some bs => Ok (flat_map (enc_byte allowed) bs)
       end.

Definition uri_encode := uri_encoder false true.          (* response.py: uri_encode *)
Definition uri_encode_value := uri_encoder true true.     (* response.py: uri_encode_value *)
Definition encode_value := uri_encoder true false.        (* response_helpers: uri.encode_value *)

(* ---- response_helpers.py formatters *)
Definition comma_sp : str := [44; 32].
Definition semi_sp : str := [59; 32].

Fixpoint join_str (sep : str) (l : list str) : str :=
  match l with
  | [] => []
  | [x] => x
  | x :: tl => x ++ sep ++ join_str sep tl
  end.

Definition dq : N := 34.
Definition bsl : N := 92.

Definition format_etag (v : str) : res str :=
  match rev v with
  | [] => Err EIndexError                       (* value[-1] on '' *)
  | c :: _ => if c =? dq then Ok v else Ok (dq :: v ++ [dq])
  end.

Definition s_bytes : str := Eval vm_compute in lit "bytes".

Definition format_range (l : list pv) : res str :=
  let fmt u a b c := u ++ [32] ++ pystr a ++ [45] ++ pystr b ++ [47] ++ pystr c in
  match l with
  | [a; b; c; u] => Ok (fmt (pystr u) a b c)
  | a :: b :: c :: _ => Ok (fmt s_bytes a b c)
  | _ => Err EIndexError
  end.

(* value.replace('\\', '\\\\').replace('"', '\\"') *)
Definition qs_escape (s : str) : str :=
  flat_map (fun c => if (c =? bsl) || (c =? dq) then [bsl; c] else [c]) s.

(* falcon/util/misc.py:secure_filename; [nfkd] = unicodedata.normalize('NFKD', .) oracle *)
Definition underscore : N := 95.
Definition dot : N := 46.
Definition secure_filename (nfkd : str -> str) (filename : str) : res str :=
  match filename with
  | [] => Err EValueError
  | _ =>
    let f := nfkd filename in
    let f1 := match f with c :: tl => if c =? dot then underscore :: tl else f | [] => f end in
    Ok (map (fun c => if char_in c filename_safe_chars then c else underscore) f1)
  end.

Definition s_filename_q : str := Eval vm_compute in lit "; filename=".
Definition s_filename_star : str := Eval vm_compute in lit "; filename*=UTF-8''".

Definition format_content_disposition (fixed : bool) (nfkd : str -> str) (dtype value : str)
  : res str :=
  if is_ascii value then
    Ok (dtype ++ s_filename_q ++ [dq] ++ (if fixed then qs_escape value else value) ++ [dq])
  else
    bind (secure_filename nfkd value) (fun sf =>
    bind (encode_value value) (fun ev =>
    Ok (dtype ++ s_filename_q ++ sf ++ s_filename_star ++ ev))).

(* ---- typed header properties (response_helpers._header_property) *)
Inductive prop :=
| P_cache_control | P_content_location | P_content_length | P_content_range | P_content_type
| P_downloadable_as | P_viewable_as | P_etag | P_expires | P_last_modified | P_location
| P_retry_after | P_vary | P_accept_ranges.

Definition pname (p : prop) : str :=
  match p with
  | P_cache_control => hp_cache_control | P_content_location => hp_content_location
  | P_content_length => hp_content_length | P_content_range => hp_content_range
  | P_content_type => hp_content_type | P_downloadable_as => hp_downloadable_as
  | P_viewable_as => hp_viewable_as | P_etag => hp_etag | P_expires => hp_expires
  | P_last_modified => hp_last_modified | P_location => hp_location
  | P_retry_after => hp_retry_after | P_vary => hp_vary | P_accept_ranges => hp_accept_ranges
  end.

(* what is assigned to a property: a str, an int, a list of str, a range tuple, a datetime
   (carried as the text dt_to_http returns for it: oracle), a filename with its NFKD form
   (oracle) *)
Inductive propval :=
| PS (s : str) | PI (z : Z) | PL (l : list str) | PR (l : list pv) | PD (text : str)
| PF (s nfkd : str).

Definition s_attachment : str := Eval vm_compute in lit "attachment".
Definition s_inline : str := Eval vm_compute in lit "inline".

Definition transform (fixed : bool) (p : prop) (v : propval) : res str :=
  match p, v with
  | (P_content_length | P_content_type | P_retry_after | P_accept_ranges), PS s => Ok s
  | (P_content_length | P_content_type | P_retry_after | P_accept_ranges), PI z => Ok (dec_of_Z z)
  | (P_cache_control | P_vary), PL l => Ok (join_str comma_sp l)
  | (P_cache_control | P_vary), PS s => Ok (join_str comma_sp (map (fun c => [c]) s))
  | (P_content_location | P_location), PS s => uri_encode s
  | P_content_range, PR l => format_range l
  | P_downloadable_as, PF s n => format_content_disposition fixed (fun _ => n) s_attachment s
  | P_viewable_as, PF s n => format_content_disposition fixed (fun _ => n) s_inline s
  | P_etag, PS s => format_etag s
  | (P_expires | P_last_modified), PD t => Ok t
  | _, _ => Err ETypeError
  end.

(* ---- append_link *)
Record link_args := {
  l_target : str; l_rel : str; l_title : option str; l_title_star : option (str * str);
  l_anchor : option str; l_hreflang : option (str + list str); l_type_hint : option str;
  l_crossorigin : option str; l_ext : option (list (str * str)) }.

Definition ws_chars : str := [9; 10; 11; 12; 13; 28; 29; 30; 31; 32].

(* str.split() *)
Fixpoint split_ws_aux (s : str) (cur : str) : list str :=
  match s with
  | [] => match cur with [] => [] | _ => [rev cur] end
  | c :: tl => if char_in c ws_chars
               then match cur with [] => split_ws_aux tl [] | _ => rev cur :: split_ws_aux tl [] end
               else split_ws_aux tl (c :: cur)
  end.
Definition split_ws (s : str) : list str := split_ws_aux s [].

Fixpoint map_res {A B} (f : A -> res B) (l : list A) : res (list B) :=
  match l with
  | [] => Ok []
  | x :: tl => bind (f x) (fun y => bind (map_res f tl) (fun ys => Ok (y :: ys)))
  end.

Definition s_link : str := Eval vm_compute in lit "link".
Definition s_rel : str := Eval vm_compute in lit ">; rel=".
Definition s_title : str := Eval vm_compute in lit "; title=".
Definition s_title_star : str := Eval vm_compute in lit "; title*=UTF-8'".
Definition s_type : str := Eval vm_compute in lit "; type=".
Definition s_hreflang : str := Eval vm_compute in lit "hreflang=".
Definition s_anchor : str := Eval vm_compute in lit "; anchor=".
Definition s_crossorigin : str := Eval vm_compute in lit "; crossorigin".
Definition s_anonymous : str := Eval vm_compute in lit "anonymous".
Definition s_eq_use_credentials : str := Eval vm_compute in lit "=""use-credentials""".

Definition link_value (a : link_args) : res str :=
  bind (if contains (l_rel a) [47; 47] then
          if char_in 32 (l_rel a)
          then bind (map_res uri_encode (split_ws (l_rel a)))
                    (fun parts => Ok ([dq] ++ join_str [32] parts ++ [dq]))
          else bind (uri_encode (l_rel a)) (fun r => Ok ([dq] ++ r ++ [dq]))
        else Ok (l_rel a)) (fun rel =>
  bind (uri_encode (l_target a)) (fun target =>
  let v0 := [60] ++ target ++ s_rel ++ rel in
  let v1 := match l_title a with Some t => v0 ++ s_title ++ [dq] ++ t ++ [dq] | None => v0 end in
  bind (match l_title_star a with
        | Some (lang, text) =>
          bind (uri_encode_value text) (fun e => Ok (v1 ++ s_title_star ++ lang ++ [39] ++ e))
        | None => Ok v1
        end) (fun v2 =>
  let v3 := match l_type_hint a with Some t => v2 ++ s_type ++ [dq] ++ t ++ [dq] | None => v2 end in
  let v4 := match l_hreflang a with
            | Some (inl s) => v3 ++ semi_sp ++ s_hreflang ++ s
            | Some (inr l) => v3 ++ semi_sp ++ join_str semi_sp (map (fun x => s_hreflang ++ x) l)
            | None => v3
            end in
  bind (match l_anchor a with
        | Some an => bind (uri_encode an) (fun e => Ok (v4 ++ s_anchor ++ [dq] ++ e ++ [dq]))
        | None => Ok v4
        end) (fun v5 =>
  bind (match l_crossorigin a with
        | Some co =>
          let co := lower co in
          if negb (mem co crossorigin_values) then Err EValueError
          else if str_eqb co s_anonymous then Ok (v5 ++ s_crossorigin)
          else Ok (v5 ++ s_crossorigin ++ s_eq_use_credentials)
        | None => Ok v5
        end) (fun v6 =>
  match l_ext a with
  | Some l => Ok (v6 ++ semi_sp ++ join_str semi_sp (map (fun pq => fst pq ++ [61] ++ snd pq) l))
  | None => Ok v6
  end))))).

(* ---- cookies *)
Inductive expv := ExpText (s : str)     (* strftime text (oracle) *)
                | ExpDelta (z : Z).     (* int: rendered by http.cookies as now + z *)

Record morsel := {
  m_value : str; m_expires : option expv; m_maxage : option Z; m_domain : option str;
  m_path : option str; m_secure : bool; m_httponly : bool; m_samesite : option str;
  m_partitioned : bool }.

Definition blank : morsel :=
  {| m_value := []; m_expires := None; m_maxage := None; m_domain := None; m_path := None;
     m_secure := false; m_httponly := false; m_samesite := None; m_partitioned := false |}.

Definition w_value (m : morsel) v := {| m_value := v; m_expires := m_expires m; m_maxage := m_maxage m; m_domain := m_domain m; m_path := m_path m; m_secure := m_secure m; m_httponly := m_httponly m; m_samesite := m_samesite m; m_partitioned := m_partitioned m |}.
Definition w_expires (m : morsel) v := {| m_value := m_value m; m_expires := v; m_maxage := m_maxage m; m_domain := m_domain m; m_path := m_path m; m_secure := m_secure m; m_httponly := m_httponly m; m_samesite := m_samesite m; m_partitioned := m_partitioned m |}.
Definition w_maxage (m : morsel) v := {| m_value := m_value m; m_expires := m_expires m; m_maxage := v; m_domain := m_domain m; m_path := m_path m; m_secure := m_secure m; m_httponly := m_httponly m; m_samesite := m_samesite m; m_partitioned := m_partitioned m |}.
Definition w_domain (m : morsel) v := {| m_value := m_value m; m_expires := m_expires m; m_maxage := m_maxage m; m_domain := v; m_path := m_path m; m_secure := m_secure m; m_httponly := m_httponly m; m_samesite := m_samesite m; m_partitioned := m_partitioned m |}.
Definition w_path (m : morsel) v := {| m_value := m_value m; m_expires := m_expires m; m_maxage := m_maxage m; m_domain := m_domain m; m_path := v; m_secure := m_secure m; m_httponly := m_httponly m; m_samesite := m_samesite m; m_partitioned := m_partitioned m |}.
Definition w_secure (m : morsel) v := {| m_value := m_value m; m_expires := m_expires m; m_maxage := m_maxage m; m_domain := m_domain m; m_path := m_path m; m_secure := v; m_httponly := m_httponly m; m_samesite := m_samesite m; m_partitioned := m_partitioned m |}.
Definition w_httponly (m : morsel) v := {| m_value := m_value m; m_expires := m_expires m; m_maxage := m_maxage m; m_domain := m_domain m; m_path := m_path m; m_secure := m_secure m; m_httponly := v; m_samesite := m_samesite m; m_partitioned := m_partitioned m |}.
Definition w_samesite (m : morsel) v := {| m_value := m_value m; m_expires := m_expires m; m_maxage := m_maxage m; m_domain := m_domain m; m_path := m_path m; m_secure := m_secure m; m_httponly := m_httponly m; m_samesite := v; m_partitioned := m_partitioned m |}.
Definition w_partitioned (m : morsel) v := {| m_value := m_value m; m_expires := m_expires m; m_maxage := m_maxage m; m_domain := m_domain m; m_path := m_path m; m_secure := m_secure m; m_httponly := m_httponly m; m_samesite := m_samesite m; m_partitioned := v |}.

Definition jar := list (str * morsel).

Fixpoint cget (c : jar) (k : str) : option morsel :=
  match c with
  | [] => None
  | (k', m) :: tl => if str_eqb k k' then Some m else cget tl k
  end.
Fixpoint cset (c : jar) (k : str) (m : morsel) : jar :=
  match c with
  | [] => [(k, m)]
  | (k', m') :: tl => if str_eqb k k' then (k', m) :: tl else (k', m') :: cset tl k m
  end.
Fixpoint cdel (c : jar) (k : str) : jar :=
  match c with
  | [] => []
  | (k', m') :: tl => if str_eqb k k' then cdel tl k else (k', m') :: cdel tl k
  end.

(* http.cookies.Morsel.set: reserved attribute names and illegal characters -> CookieError *)
Definition legal_cookie_name (n : str) : bool :=
  negb (mem (lower n) cookie_reserved) &&
  match n with [] => false | _ => forallb (fun c => char_in c cookie_LegalChars) n end.

Inductive maxage := MInt (z : Z) | MFloat (num den : Z) | MStr (s : str).

(* int(str) on the ASCII grammar: [ws] [sign] digit ( [_] digit )* [ws] *)
Fixpoint int_digits (s : str) (acc : Z) (prev_digit : bool) : option Z :=
  match s with
  | [] => if prev_digit then Some acc else None
  | c :: tl =>
    if isdigit c then int_digits tl (acc * 10 + Z.of_N (c - 48))%Z true
    else if (c =? underscore) && prev_digit then int_digits tl acc false
    else None
  end.
(* int() strips ASCII whitespace and the non-ASCII spaces (U+0085, U+00A0 in latin-1), but not
   U+001C..U+001F (which str.split()/strip() do treat as whitespace) *)
Definition int_ws : str := [9; 10; 11; 12; 13; 32; 133; 160].
Definition py_int (s : str) : option Z :=
  match strip_set int_ws s with
  | c :: tl => if c =? 45 then option_map Z.opp (int_digits tl 0%Z false)
               else if c =? 43 then int_digits tl 0%Z false
               else int_digits (c :: tl) 0%Z false
  | [] => None
  end.

Definition maxage_truthy (m : maxage) : bool :=
  match m with
  | MInt z => negb (Z.eqb z 0)
  | MFloat n _ => negb (Z.eqb n 0)
  | MStr s => match s with [] => false | _ => true end
  end.
Definition maxage_int (m : maxage) : option Z :=       (* None = ValueError from int() *)
  match m with
  | MInt z => Some z
  | MFloat n d => Some (Z.quot n d)
  | MStr s => py_int s
  end.

Record cookie_args := {
  ca_name : str; ca_value : str; ca_expires : option str; ca_max_age : option maxage;
  ca_domain : option str; ca_path : option str; ca_secure : option bool; ca_http_only : bool;
  ca_same_site : option str; ca_partitioned : bool }.

Definition truthy (o : option str) : option str :=
  match o with Some (c :: s) => Some (c :: s) | _ => None end.

Definition capitalize (s : str) : str :=
  match s with [] => [] | c :: tl => upper_chr c :: lower tl end.

(* Response.set_cookie, statement by statement; an exception leaves the jar as modified so
   far *)
Definition set_cookie (fixed secure_default : bool) (c : jar) (a : cookie_args)
  : jar * option err :=
  let name := ca_name a in
  if negb (is_ascii name) then (c, Some EKeyError) else
  if negb (is_ascii (ca_value a)) then (c, Some EValueError) else
  let c0 := if fixed then cdel c name else c in
  if negb (legal_cookie_name name) then (c0, Some EKeyError) else
  (* SimpleCookie.__setitem__: M = self.get(key, Morsel()); M.set(key, value, coded) *)
  let base := match cget c0 name with Some m => m | None => blank end in
  let m1 := w_value base (ca_value a) in
  let m2 := match ca_expires a with Some t => w_expires m1 (Some (ExpText t)) | None => m1 end in
  let ma_present := match ca_max_age a with
                    | None => false
                    | Some x => if fixed then true else maxage_truthy x
                    end in
  match (if ma_present
         then match ca_max_age a with
              | Some x => match maxage_int x with
                          | Some z => Some (w_maxage m2 (Some z))
                          | None => None
                          end
              | None => Some m2
              end
         else Some m2) with
  | None => (cset c0 name m2, Some EValueError)
  | Some m3 =>
    let m4 := match truthy (ca_domain a) with Some d => w_domain m3 (Some d) | None => m3 end in
    let m5 := match truthy (ca_path a) with Some p => w_path m4 (Some p) | None => m4 end in
    let is_secure := match ca_secure a with None => secure_default | Some b => b end in
    let m6 := if is_secure then w_secure m5 true else m5 in
    let m7 := if ca_http_only a then w_httponly m6 true else m6 in
    match truthy (ca_same_site a) with
    | Some ss =>
      let ss := lower ss in
      if negb (mem ss samesite_values) then (cset c0 name m7, Some EValueError)
      else
        let m8 := w_samesite m7 (Some (capitalize ss)) in
        let m9 := if ca_partitioned a then w_partitioned m8 true else m8 in
        (cset c0 name m9, None)
    | None =>
      let m9 := if ca_partitioned a then w_partitioned m7 true else m7 in
      (cset c0 name m9, None)
    end
  end.

(* Response.unset_cookie *)
Definition unset_cookie (fixed : bool) (c : jar) (name samesite : str) (domain path : option str)
  : jar * option err :=
  if negb (legal_cookie_name name) then (c, Some ECookieError) else
  let base := match cget c name with Some m => m | None => blank end in
  let m1 := w_value base [] in
  let m1' := if fixed then w_maxage m1 None else m1 in
  let m2 := w_expires m1' (Some (ExpDelta (-1))) in
  let m3 := w_samesite m2 (truthy (Some samesite)) in   (* '' = attribute absent *)
  let m4 := match truthy domain with Some d => w_domain m3 (Some d) | None => m3 end in
  let m5 := match truthy path with Some p => w_path m4 (Some p) | None => m4 end in
  (cset c name m5, None).

(* ---- the response state and its operations *)
Record st := { hdrs : headers; extra : list (str * str); cookies : jar }.

Definition init : st := {| hdrs := []; extra := []; cookies := [] |}.
Definition w_hdrs (s : st) (h : headers) : st :=
  {| hdrs := h; extra := extra s; cookies := cookies s |}.

Definition s_set_cookie : str := Eval vm_compute in lit "set-cookie".
Definition s_content_type : str := Eval vm_compute in lit "content-type".

Inductive item := IPlain (n v : str) | ICookie (n key : str) (m : morsel).

Inductive op :=
| Get (n : str)
| SetH (n : str) (v : pv)
| Append (n : str) (v : pv)
| Delete (n : str)
| SetMany (l : list (str * pv))
| PropGet (p : prop)
| PropSet (p : prop) (v : option propval)
| PropDel (p : prop)
| AppendLink (a : link_args)
| SetCookie (a : cookie_args)
| UnsetCookie (name samesite : str) (domain path : option str)
| HeadersCopy                       (* resp.headers *)
| EmitW (media_type : option str)   (* resp._wsgi_headers(media_type) *)
| EmitA (media_type : option str).  (* resp._asgi_headers(media_type) *)

Inductive obs :=
| ONone                      (* returned None *)
| OVal (v : option str)      (* a header value / None *)
| OErr (e : err)
| OHeaders (h : headers)
| OItems (l : list item).

(* set_headers: items applied left to right; a Set-Cookie item raises and leaves the
   earlier ones applied *)
Fixpoint set_many (h : headers) (l : list (str * pv)) : headers * option err :=
  match l with
  | [] => (h, None)
  | (n, v) :: tl =>
    let k := lower n in
    if str_eqb k s_set_cookie then (h, Some HeaderNotSupported)
    else set_many (hset h k (pystr v)) tl
  end.

Definition default_media (h : headers) (mt : option str) : headers :=
  match mt with
  | Some t => match hget h s_content_type with None => hset h s_content_type t | Some _ => h end
  | None => h
  end.

Definition plain_items (l : list (str * str)) : list item := map (fun p => IPlain (fst p) (snd p)) l.
Definition cookie_items (c : jar) : list item := map (fun p => ICookie s_set_cookie (fst p) (snd p)) c.
Definition cookie_names (c : jar) : list str := map fst c.

Definition opt_ascii (o : option str) : bool :=
  match o with Some s => is_ascii s | None => true end.
Definition morsel_ascii (m : morsel) : bool :=
  opt_ascii (m_domain m) && opt_ascii (m_path m) && opt_ascii (m_samesite m).

Definition step (fixed secure_default : bool) (s : st) (o : op) : st * obs :=
  match o with
  | Get n =>
    let k := lower n in
    if str_eqb k s_set_cookie then (s, OErr HeaderNotSupported) else (s, OVal (hget (hdrs s) k))
  | SetH n v =>
    let k := lower n in
    if str_eqb k s_set_cookie then (s, OErr HeaderNotSupported)
    else (w_hdrs s (hset (hdrs s) k (pystr v)), ONone)
  | Delete n =>
    let k := lower n in
    if str_eqb k s_set_cookie then (s, OErr HeaderNotSupported)
    else (w_hdrs s (hdel (hdrs s) k), ONone)
  | Append n v =>
    let k := lower n in
    if str_eqb k s_set_cookie
    then ({| hdrs := hdrs s; extra := extra s ++ [(k, pystr v)]; cookies := cookies s |}, ONone)
    else match hget (hdrs s) k with
         | Some old => (w_hdrs s (hset (hdrs s) k (old ++ comma_sp ++ pystr v)), ONone)
         | None => (w_hdrs s (hset (hdrs s) k (pystr v)), ONone)
         end
  | SetMany l =>
    let '(h, e) := set_many (hdrs s) l in
    (w_hdrs s h, match e with Some x => OErr x | None => ONone end)
  | PropGet p => (s, OVal (hget (hdrs s) (pname p)))
  | PropSet p None => (w_hdrs s (hdel (hdrs s) (pname p)), ONone)
  | PropSet p (Some v) =>
    match transform fixed p v with
    | Ok t => (w_hdrs s (hset (hdrs s) (pname p) t), ONone)
    | Err e => (s, OErr e)
    end
  | PropDel p =>
    match hget (hdrs s) (pname p) with
    | Some _ => (w_hdrs s (hdel (hdrs s) (pname p)), ONone)
    | None => (s, OErr EKeyError)                     (* fdel: del self._headers[name] *)
    end
  | AppendLink a =>
    match link_value a with
    | Ok v => match hget (hdrs s) s_link with
              | Some old => (w_hdrs s (hset (hdrs s) s_link (old ++ comma_sp ++ v)), ONone)
              | None => (w_hdrs s (hset (hdrs s) s_link v), ONone)
              end
    | Err e => (s, OErr e)
    end
  | SetCookie a =>
    let '(c, e) := set_cookie fixed secure_default (cookies s) a in
    ({| hdrs := hdrs s; extra := extra s; cookies := c |},
     match e with Some x => OErr x | None => ONone end)
  | UnsetCookie n ss d p =>
    let '(c, e) := unset_cookie fixed (cookies s) n ss d p in
    ({| hdrs := hdrs s; extra := extra s; cookies := c |},
     match e with Some x => OErr x | None => ONone end)
  | HeadersCopy => (s, OHeaders (hdrs s))
  | EmitW mt =>
    let s' := w_hdrs s (default_media (hdrs s) mt) in
    (s', OItems (plain_items (hdrs s') ++ plain_items (extra s') ++ cookie_items (cookies s')))
  | EmitA mt =>
    let s' := w_hdrs s (default_media (hdrs s) mt) in
    if negb (forallb (fun p => is_latin1 (fst p) && is_latin1 (snd p)) (hdrs s'))
    then (s', OErr EValueError)
    else if negb (forallb (fun p => is_ascii (fst p) && is_ascii (snd p)) (extra s'))
    then (s', OErr EUnicodeEncode)
    else if negb (forallb (fun p => morsel_ascii (snd p)) (cookies s'))
    then (s', OErr EUnicodeEncode)
    else (s', OItems (plain_items (hdrs s') ++ plain_items (extra s') ++ cookie_items (cookies s')))
  end.

Fixpoint run_ops (fixed secure_default : bool) (s : st) (ops : list op) : st * list obs :=
  match ops with
  | [] => (s, [])
  | o :: tl => let '(s1, ob) := step fixed secure_default s o in
               let '(s2, obs) := run_ops fixed secure_default s1 tl in
               (s2, ob :: obs)
  end.

Definition final (fixed sd : bool) (ops : list op) : st := fst (run_ops fixed sd init ops).
