(* C07 — WSGI BoundedStream: invariant over arbitrary operation histories *)
From Coq Require Import ZArith NArith List Bool Lia.
From Falcon.C07 Require Import Model Spec ProofsLib.
Import ListNotations.
Open Scope Z_scope.

(* contract of a bytes-returning method of the scripted wsgi.input for a size n >= 0 *)
Definition TargetOK (target : Z -> src -> bytes * src) : Prop :=
  forall n s d s', 0 <= n -> target n s = (d, s') ->
    s_data s = d ++ s_data s' /\ len d <= n /\ s_pos s' = s_pos s + len d /\
    s_reach s' = Z.max (s_reach s) (s_pos s + n) /\ s_unb s' = s_unb s /\
    (0 < n -> d = [] -> s_data s = []).

Lemma hand_spec out rest n caps s d s' :
  s_data s = out ++ rest -> 0 <= n -> hand out n caps s = (d, s') ->
  d = out /\ s_data s' = rest /\ s_pos s' = s_pos s + len out /\
  s_reach s' = Z.max (s_reach s) (s_pos s + n) /\ s_unb s' = s_unb s.
Proof.
  intros HS Hn H. unfold hand in H. injection H as <- <-. cbn.
  rewrite HS, skipn_app_len. destruct (Z.ltb_spec n 0); [lia|]. repeat split; reflexivity.
Qed.

Lemma src_read_ok : TargetOK src_read.
Proof.
  intros n s d s' Hn H. unfold src_read in H. destruct (Z.ltb_spec n 0); [lia|].
  destruct (s_caps s) as [|c caps].
  - pose proof (hand_spec _ (dropZ n (s_data s)) _ _ _ _ _ (eq_sym (takeZ_dropZ n (s_data s))) Hn H)
      as (-> & E & P & R & U).
    rewrite E. repeat split; try assumption.
    + symmetry. apply takeZ_dropZ.
    + apply len_takeZ_le. exact Hn.
    + intros Hp Hd. eapply takeZ_nil_inv; eassumption.
  - set (m := Z.min n (Z.of_nat (S c))) in *.
    pose proof (hand_spec _ (dropZ m (s_data s)) _ _ _ _ _ (eq_sym (takeZ_dropZ m (s_data s))) Hn H)
      as (-> & E & P & R & U).
    rewrite E. repeat split; try assumption.
    + symmetry. apply takeZ_dropZ.
    + assert (len (takeZ m (s_data s)) <= m) by (apply len_takeZ_le; lia). lia.
    + intros Hp Hd. apply (takeZ_nil_inv m); [lia | exact Hd].
Qed.

Lemma first_line_split l : l = first_line l ++ skipn (line_len l) l.
Proof. unfold first_line. symmetry. apply firstn_skipn. Qed.

Lemma first_line_nil l : first_line l = [] -> l = [].
Proof.
  destruct l as [|c tl]; [reflexivity|]. unfold first_line. simpl.
  destruct (N.eqb c 10); discriminate.
Qed.

Lemma len_first_line l : len (first_line l) <= len l.
Proof.
  unfold first_line, len. rewrite firstn_length. lia.
Qed.

Lemma src_readline_ok : TargetOK src_readline.
Proof.
  intros n s d s' Hn H. unfold src_readline in H. destruct (Z.ltb_spec n 0); [lia|].
  set (t := takeZ n (s_data s)) in *.
  assert (HS : s_data s = first_line t ++ (skipn (line_len t) t ++ dropZ n (s_data s))).
  { rewrite app_assoc, <- first_line_split. symmetry. apply takeZ_dropZ. }
  pose proof (hand_spec _ _ _ _ _ _ _ HS Hn H) as (-> & E & P & R & U).
  rewrite E. repeat split; try assumption.
  - pose proof (len_first_line t). assert (len t <= n) by (apply len_takeZ_le; exact Hn). lia.
  - intros Hp Hd. apply first_line_nil in Hd. eapply takeZ_nil_inv; eassumption.
Qed.

(* ---- the state invariant *)
Definition WInv (cl : Z) (data : bytes) (st : wst) : Prop :=
  let s := w_src st in
  (exists c, data = c ++ s_data s /\ len c = s_pos s) /\
  0 <= w_rem st /\ s_pos s + w_rem st <= cl /\
  (s_pos s + w_rem st = cl \/ (s_data s = [] /\ w_rem st = 0)) /\
  s_reach s <= cl /\ s_unb s = 0.

Definition asks (size : option Z) : bool :=
  match size with None => true | Some n => (n =? -1) || (0 <? n) end.

(* what one operation does, relative to the invariant *)
Definition WPost (cl : Z) (data : bytes) (st : wst) (b : bytes) (st' : wst) : Prop :=
  WInv cl data st' /\
  (exists c, data = c ++ b ++ s_data (w_src st') /\ len c = s_pos (w_src st)) /\
  s_pos (w_src st') = s_pos (w_src st) + len b.

Lemma clamp_range size r : 0 <= r -> size_ok size = true ->
  0 <= clamp size r <= r /\ (forall n, size = Some n -> 0 <= n -> clamp size r <= n) /\
  (asks size = true -> clamp size r = 0 -> r = 0).
Proof.
  intros Hr Hs. unfold clamp, size_ok, asks in *. destruct size as [n|].
  - apply Z.leb_le in Hs.
    destruct (Z.eqb_spec n (-1)); cbn [orb].
    + split; [lia|]. split; [intros m [= <-]; lia | intros; lia].
    + destruct (Z.gtb_spec n r).
      * split; [lia|]. split; [intros m [= <-]; lia | intros; lia].
      * split; [lia|]. split; [intros m [= <-]; lia|].
        intros A B. destruct (Z.ltb_spec 0 n); [lia | discriminate].
  - split; [lia|]. split; [intros n [=] | intros; lia].
Qed.

Lemma read_with_post cl data target size st d st' :
  TargetOK target -> WInv cl data st -> size_ok size = true ->
  w_read_with true target size st = (d, st') ->
  WPost cl data st d st' /\
  (forall n, size = Some n -> 0 <= n -> len d <= n) /\
  (d = [] -> asks size = true -> w_rem st' = 0).
Proof.
  intros TO ((c & HD & HC) & Hr & Hle & Hex & Hreach & Hunb) Hs H.
  unfold w_read_with in H.
  destruct (clamp_range size (w_rem st) Hr Hs) as ((Z0 & Zr) & Zn & Za).
  set (sz := clamp size (w_rem st)) in *.
  destruct (target sz (w_src st)) as [d0 s0] eqn:T.
  injection H as <- <-.
  destruct (TO _ _ _ _ Z0 T) as (S1 & S2 & S3 & S4 & S5 & S6).
  pose proof (len_nonneg d0) as Ld.
  assert (Hsplit : exists c0, data = c0 ++ d0 ++ s_data s0 /\ len c0 = s_pos (w_src st)).
  { exists c. split; [rewrite HD, S1; reflexivity | exact HC]. }
  split; [split; [|split]|split].
  - (* invariant *)
    unfold WInv. cbn [w_src w_rem].
    split. { exists (c ++ d0). split; [rewrite HD, S1, app_assoc; reflexivity | rewrite len_app; lia]. }
    destruct (nonempty d0) eqn:NE.
    + apply nonempty_true in NE. repeat split; try lia.
    + apply nonempty_false in NE. subst d0. rewrite len_nil in *.
      destruct (Z.gtb_spec sz 0).
      * repeat split; try lia. right. split; [|reflexivity].
        cbn [app] in S1. rewrite S1 in S6. apply S6; [lia | reflexivity].
      * repeat split; try lia. destruct Hex as [Hex | [Hex1 Hex2]]; [left; lia|].
        right. split; [|assumption]. cbn [app] in S1. rewrite <- S1. exact Hex1.
  - exact Hsplit.
  - cbn [w_src]. exact S3.
  - intros n E Hn. specialize (Zn n E Hn). lia.
  - intros -> A. cbn [w_rem nonempty]. destruct (Z.gtb_spec sz 0); [reflexivity|].
    apply Za; [exact A | lia].
Qed.

Lemma WPost_trans cl data st b1 st1 b2 st2 :
  WPost cl data st b1 st1 -> WPost cl data st1 b2 st2 -> WPost cl data st (b1 ++ b2) st2.
Proof.
  intros (I1 & (c1 & D1 & L1) & P1) (I2 & (c2 & D2 & L2) & P2).
  split; [exact I2|]. split.
  - exists c1. split; [|exact L1].
    assert (c2 = c1 ++ b1).
    { rewrite D1, (app_assoc c1 b1) in D2.
      apply app_eq_length in D2 as [D2 _]; [symmetry; exact D2|].
      apply len_eq_length. rewrite len_app. lia. }
    subst c2. rewrite D2. rewrite <- !app_assoc. reflexivity.
  - rewrite len_app. lia.
Qed.

Lemma WPost_refl cl data st : WInv cl data st -> WPost cl data st [] st.
Proof.
  intros I. split; [exact I|]. destruct I as ((c & D & L) & _). split.
  - exists c. split; assumption.
  - rewrite len_nil. lia.
Qed.

Lemma readlines_loop_post cl data : forall fuel hint total st ls st',
  WInv cl data st -> w_readlines_loop fuel hint total st = (ls, st') ->
  WPost cl data st (concat ls) st' /\ (fuel <> O -> concat ls = [] -> w_rem st' = 0).
Proof.
  induction fuel as [|f IH]; intros hint total st ls st' I H; cbn [w_readlines_loop] in H.
  - injection H as <- <-. split; [apply WPost_refl; exact I | congruence].
  - destruct (w_readline true None st) as [l st1] eqn:R.
    destruct (read_with_post cl data _ None st l st1 src_readline_ok I eq_refl R) as (P1 & _ & E1).
    destruct (nonempty l) eqn:NE.
    + destruct (match hint with None => false | Some h => (0 <? h) && (h <=? total + len l) end).
      * injection H as <- <-. cbn [concat]. rewrite app_nil_r. split; [exact P1|].
        intros _ C. subst l. discriminate.
      * destruct (w_readlines_loop f hint (total + len l) st1) as [ls2 st2] eqn:L.
        injection H as <- <-. destruct (IH _ _ _ _ _ (proj1 P1) L) as (P2 & _).
        split; [cbn [concat]; eapply WPost_trans; eassumption|].
        intros _ C. cbn [concat] in C. apply app_eq_nil in C as [C _]. subst l. discriminate.
    + injection H as <- <-. apply nonempty_false in NE. subst l. split; [exact P1|].
      intros _ _. apply E1; reflexivity.
Qed.

Lemma exhaust_loop_post cl data chunk : -1 <= chunk -> forall fuel st d st',
  WInv cl data st -> w_exhaust_loop true fuel chunk st = (d, st') -> WPost cl data st d st'.
Proof.
  intros Hc. induction fuel as [|f IH]; intros st d st' I H; cbn [w_exhaust_loop] in H.
  - injection H as <- <-. apply WPost_refl; exact I.
  - destruct (w_read true (Some chunk) st) as [c st1] eqn:R.
    assert (SO : size_ok (Some chunk) = true) by (apply Z.leb_le; exact Hc).
    destruct (read_with_post cl data _ _ st c st1 src_read_ok I SO R) as (P1 & _ & _).
    destruct c as [|x c0]; cbn [nonempty] in H.
    + injection H as <- <-. exact P1.
    + destruct (w_exhaust_loop true f chunk st1) as [cs st2] eqn:L.
      injection H as <- <-. change (x :: c0 ++ cs) with ((x :: c0) ++ cs).
      eapply WPost_trans; [exact P1 | apply IH; [exact (proj1 P1) | exact L]].
Qed.

(* ---- one operation *)
Definition WStepOK cl data (op : wop) (st : wst) (r : wres) (st' : wst) : Prop :=
  WPost cl data st (res_bytes r) st' /\
  sized_ok op (res_bytes r) = true /\
  shape_ok op r (w_eof st') = true /\
  (asks_for_data op = true -> res_bytes r = [] -> w_rem st' = 0).

Lemma sized_ok_of n (d : bytes) : (0 <= n -> len d <= n) -> (n <? 0) || (len d <=? n) = true.
Proof.
  intro H. destruct (Z.ltb_spec n 0); [reflexivity|]. cbn [orb]. apply Z.leb_le. apply H. lia.
Qed.

Lemma wstep_ok cl data op st r st' :
  WInv cl data st -> wop_ok op = true -> wstep true op st = (r, st') ->
  WStepOK cl data op st r st'.
Proof.
  intros I OK H. destruct op as [sz|sz|h| |c|]; cbn [wstep wop_ok] in *.
  - destruct (w_read true sz st) as [d st1] eqn:R. injection H as <- <-.
    destruct (read_with_post cl data _ _ _ _ _ src_read_ok I OK R) as (P & S & E).
    split; [exact P|]. split; [|split; [reflexivity|]].
    + destruct sz as [n|]; [|reflexivity]. cbn [sized_ok res_bytes]. apply sized_ok_of.
      intro. apply (S n); [reflexivity | assumption].
    + intros A B. apply E; [exact B|]. destruct sz; exact A.
  - destruct (w_readline true sz st) as [d st1] eqn:R. injection H as <- <-.
    destruct (read_with_post cl data _ _ _ _ _ src_readline_ok I OK R) as (P & S & E).
    split; [exact P|]. split; [|split; [reflexivity|]].
    + destruct sz as [n|]; [|reflexivity]. cbn [sized_ok res_bytes]. apply sized_ok_of.
      intro. apply (S n); [reflexivity | assumption].
    + intros A B. apply E; [exact B|]. destruct sz; exact A.
  - destruct (w_readlines true h st) as [ls st1] eqn:R. injection H as <- <-.
    unfold w_readlines in R.
    destruct (readlines_loop_post cl data _ _ _ _ _ _ I R) as (P & E).
    split; [exact P|]. split; [reflexivity|]. split; [reflexivity|].
    intros _ B. apply E; [discriminate | exact B].
  - destruct (w_next true st) as [o st1] eqn:R. injection H as <- <-.
    unfold w_next in R. destruct (w_readline true None st) as [l st2] eqn:RL.
    injection R as <- <-.
    destruct (read_with_post cl data _ None _ _ _ src_readline_ok I eq_refl RL) as (P & S & E).
    destruct l as [|x l]; cbn [nonempty res_bytes].
    + split; [exact P|]. split; [reflexivity|]. split; [reflexivity|].
      intros _ _. apply E; reflexivity.
    + split; [exact P|]. split; [reflexivity|]. split; [reflexivity|]. intros _ [=].
  - destruct (w_exhaust true c st) as [d st1] eqn:R. injection H as <- <-.
    unfold w_exhaust in R. apply Z.leb_le in OK.
    pose proof (exhaust_loop_post cl data c OK _ _ _ _ I R) as P.
    split; [exact P|]. split; [reflexivity|]. split; [reflexivity|]. intros [=].
  - injection H as <- <-. split; [apply WPost_refl; exact I|].
    split; [reflexivity|]. split; [cbn; apply eqb_reflx|]. intros [=].
Qed.

(* ---- reading the invariant against the declared body *)
Lemma WInv_pos_le cl data st : WInv cl data st ->
  0 <= s_pos (w_src st) <= len (w_declared cl data) /\ len (w_declared cl data) <= cl.
Proof.
  intros ((c & D & L) & Hr & Hle & _). unfold w_declared. rewrite len_takeZ.
  rewrite D, len_app. pose proof (len_nonneg c). pose proof (len_nonneg (s_data (w_src st))). lia.
Qed.

Lemma WInv_done cl data st : WInv cl data st -> w_rem st = 0 ->
  s_pos (w_src st) = len (w_declared cl data).
Proof.
  intros ((c & D & L) & Hr & Hle & Hex & _) R0. unfold w_declared. rewrite len_takeZ.
  rewrite D, len_app. pose proof (len_nonneg c). pose proof (len_nonneg (s_data (w_src st))).
  destruct Hex as [Hex | [Hex _]]; [lia|]. rewrite Hex. unfold len in *. cbn [length] in *. lia.
Qed.

Lemma WPost_slice cl data st b st' : WPost cl data st b st' ->
  slice_ok (w_declared cl data) (s_pos (w_src st)) b = true.
Proof.
  intros (((c' & D' & L') & Hr & Hle & _) & (c & D & L) & P). unfold w_declared.
  rewrite D, <- L. apply slice_ok_at. lia.
Qed.

Lemma w_check_ok cl data op st r st' :
  WInv cl data st -> WStepOK cl data op st r st' ->
  w_check cl (w_declared cl data) (s_pos (w_src st)) (w_observe op (r, st')) = [].
Proof.
  intros I (P & SZ & SH & EM). pose proof (WPost_slice _ _ _ _ _ P) as SL.
  destruct P as (I' & _ & PP).
  unfold w_check, w_observe. cbn [o_res o_op o_eof o_pos o_reach o_unb fst snd].
  rewrite SL, SZ, SH, <- PP, Z.eqb_refl.
  pose proof I' as (_ & Hr & Hle & _ & Hreach & Hunb).
  replace ((s_reach (w_src st') <=? cl) && (s_unb (w_src st') =? 0)) with true
    by (symmetry; apply andb_true_iff; split; [apply Z.leb_le; lia | apply Z.eqb_eq; lia]).
  pose proof (WInv_pos_le _ _ _ I') as (Pl & Dl).
  assert (E4 : (if w_eof st' then s_pos (w_src st') =? len (w_declared cl data) else true)
               && (if s_pos (w_src st') =? cl then w_eof st' else true) = true).
  { unfold w_eof. apply andb_true_iff. split.
    - destruct (Z.leb_spec (w_rem st') 0); [|reflexivity]. apply Z.eqb_eq.
      apply WInv_done; [exact I' | lia].
    - destruct (Z.eqb_spec (s_pos (w_src st')) cl); [|reflexivity]. apply Z.leb_le. lia. }
  rewrite E4. cbn [app].
  destruct (asks_for_data op) eqn:A; [|reflexivity].
  destruct (res_bytes r) eqn:B; [|reflexivity]. cbn [nonempty negb andb].
  rewrite (WInv_done _ _ _ I' (EM eq_refl eq_refl)), Z.eqb_refl. reflexivity.
Qed.

Lemma WInv_init cl data caps : 0 <= cl -> WInv cl data (w_init cl (src0 data caps)).
Proof.
  intro H. unfold WInv, w_init, src0. cbn.
  split; [exists []; split; reflexivity|]. repeat split; try lia.
Qed.

Lemma w_oracle_from_ok cl data : forall ops st,
  WInv cl data st -> forallb wop_ok ops = true ->
  w_oracle_from cl (w_declared cl data) (s_pos (w_src st)) (w_observes ops (wrun true ops st)) = [].
Proof.
  induction ops as [|op ops IH]; intros st I OK; [reflexivity|].
  cbn [forallb] in OK. apply andb_true_iff in OK as [OK1 OK2].
  cbn [wrun]. destruct (wstep true op st) as [r st1] eqn:S.
  cbn [w_observes w_oracle_from].
  pose proof (wstep_ok _ _ _ _ _ _ I OK1 S) as SO.
  rewrite (w_check_ok _ _ _ _ _ _ I SO). cbn [app].
  destruct SO as ((I1 & _ & PP) & _).
  change (o_res (w_observe op (r, st1))) with r. rewrite <- PP. apply IH; assumption.
Qed.

Theorem w_oracle_sound cl data caps ops :
  0 <= cl -> forallb wop_ok ops = true ->
  w_oracle cl data (w_observes ops (wrun true ops (w_init cl (src0 data caps)))) = [].
Proof.
  intros H OK. unfold w_oracle.
  exact (w_oracle_from_ok cl data ops _ (WInv_init cl data caps H) OK).
Qed.

(* ---- whole histories *)
Lemma wrun_post cl data : forall ops st,
  WInv cl data st -> forallb wop_ok ops = true ->
  WPost cl data st (wbytes (wrun true ops st)) (wend (wrun true ops st) st).
Proof.
  induction ops as [|op ops IH]; intros st I OK.
  - apply WPost_refl. exact I.
  - cbn [forallb] in OK. apply andb_true_iff in OK as [OK1 OK2].
    cbn [wrun]. destruct (wstep true op st) as [r st1] eqn:S.
    destruct (wstep_ok _ _ _ _ _ _ I OK1 S) as (P & _).
    unfold wbytes. cbn [map concat wend fst]. fold (wbytes (wrun true ops st1)).
    eapply WPost_trans; [exact P | apply IH; [exact (proj1 P) | exact OK2]].
Qed.

Section History.
  Variables (cl : Z) (data : bytes) (caps : list nat) (ops : list wop).
  Hypothesis Hcl : 0 <= cl.
  Hypothesis Hops : forallb wop_ok ops = true.
  Let st0 := w_init cl (src0 data caps).
  Let tr := wrun true ops st0.

  Lemma hist_post : WPost cl data st0 (wbytes tr) (wend tr st0).
  Proof. apply wrun_post; [apply WInv_init; exact Hcl | exact Hops]. Qed.

  Lemma hist_data : data = wbytes tr ++ s_data (w_src (wend tr st0)) /\
                    s_pos (w_src (wend tr st0)) = len (wbytes tr).
  Proof.
    destruct hist_post as (_ & (c & D & L) & P). cbn in L, P.
    apply len_zero in L. subst c. split; [exact D | lia].
  Qed.

  Theorem wsgi_prefix : exists rest, w_declared cl data = wbytes tr ++ rest.
  Proof.
    destruct hist_data as (D & P). destruct hist_post as (I & _).
    destruct I as (_ & Hr & Hle & _). rewrite P in Hle.
    exists (takeZ (cl - len (wbytes tr)) (s_data (w_src (wend tr st0)))).
    unfold w_declared.
    transitivity (takeZ cl (wbytes tr ++ s_data (w_src (wend tr st0)))); [f_equal; exact D|].
    rewrite takeZ_app, takeZ_all by lia. reflexivity.
  Qed.

  Theorem wsgi_no_loss : s_pos (w_src (wend tr st0)) = len (wbytes tr).
  Proof. exact (proj2 hist_data). Qed.

  Theorem wsgi_no_overread :
    s_reach (w_src (wend tr st0)) <= cl /\ s_unb (w_src (wend tr st0)) = 0.
  Proof. destruct hist_post as ((_ & _ & _ & _ & R & U) & _). split; assumption. Qed.

  Theorem wsgi_eof_complete : w_eof (wend tr st0) = true -> wbytes tr = w_declared cl data.
  Proof.
    intro E. destruct hist_post as (I & _). destruct wsgi_prefix as [rest PR].
    pose proof I as (_ & Hr & _). unfold w_eof in E. apply Z.leb_le in E.
    pose proof (WInv_done _ _ _ I ltac:(lia)) as Dn. rewrite (proj2 hist_data) in Dn.
    rewrite PR, len_app in Dn. assert (len rest = 0) by lia.
    apply len_zero in H. subst rest. rewrite app_nil_r in PR. symmetry. exact PR.
  Qed.

  Theorem wsgi_eof_when_full : len (wbytes tr) = cl -> w_eof (wend tr st0) = true.
  Proof.
    intro E. destruct hist_post as ((_ & Hr & Hle & _) & _). rewrite (proj2 hist_data) in Hle.
    unfold w_eof. apply Z.leb_le. lia.
  Qed.

  Theorem wsgi_sized_le : forall op n r st',
    (op = WRead (Some n) \/ op = WReadline (Some n)) -> 0 <= n ->
    wstep true op (wend tr st0) = (r, st') -> len (res_bytes r) <= n.
  Proof.
    intros op n r st' Hop Hn S. destruct hist_post as (I & _).
    assert (OK : wop_ok op = true) by (destruct Hop as [-> | ->]; cbn; apply Z.leb_le; lia).
    destruct (wstep_ok _ _ _ _ _ _ I OK S) as (_ & SZ & _).
    destruct Hop as [-> | ->]; cbn [sized_ok] in SZ;
      (destruct (Z.ltb_spec n 0); [lia|]); cbn [orb] in SZ; apply Z.leb_le in SZ; exact SZ.
  Qed.

  (* an empty result of a read that asks for data reports the end of the declared body *)
  Theorem wsgi_empty_means_end : forall op r st',
    wop_ok op = true -> asks_for_data op = true ->
    wstep true op (wend tr st0) = (r, st') -> res_bytes r = [] ->
    wbytes tr = w_declared cl data /\ w_eof st' = true.
  Proof.
    intros op r st' OK A S B. destruct hist_post as (I & _).
    destruct (wstep_ok _ _ _ _ _ _ I OK S) as ((I' & _ & PP) & _ & _ & EM).
    specialize (EM A B). pose proof (WInv_done _ _ _ I' EM) as Dn.
    rewrite PP, B, len_nil, (proj2 hist_data) in Dn.
    destruct wsgi_prefix as [rest PR]. rewrite PR, len_app in Dn.
    assert (len rest = 0) by lia. apply len_zero in H. subst rest. rewrite app_nil_r in PR.
    split; [symmetry; exact PR | unfold w_eof; apply Z.leb_le; lia].
  Qed.
End History.

(* ---- the code as found *)
Definition b_abcd : bytes := [97; 98; 10; 99; 100; 10]%N.   (* "ab\ncd\n" *)

(* readline() deducts the requested (clamped) size: eof is reported after the first line
   and the rest of the declared body is never delivered *)
Theorem wsgi_eof_complete_refuted_before_fix :
  exists cl data caps ops, 0 <= cl /\ forallb wop_ok ops = true /\
    let st0 := w_init cl (src0 data caps) in
    let tr := wrun false ops st0 in
    w_eof (wend tr st0) = true /\ wbytes tr <> w_declared cl data.
Proof.
  exists 6, b_abcd, [], [WReadline None; WRead None]. vm_compute.
  split; [discriminate|]. split; [reflexivity|]. split; [reflexivity | discriminate].
Qed.

(* the same loss with a source that returns fewer bytes than asked for *)
Theorem wsgi_short_read_refuted_before_fix :
  exists cl data caps ops, 0 <= cl /\ forallb wop_ok ops = true /\
    let st0 := w_init cl (src0 data caps) in
    let tr := wrun false ops st0 in
    w_eof (wend tr st0) = true /\ wbytes tr <> w_declared cl data.
Proof.
  exists 6, b_abcd, [0%nat], [WRead None; WRead None]. vm_compute.
  split; [discriminate|]. split; [reflexivity|]. split; [reflexivity | discriminate].
Qed.

(* iteration proxies next(wsgi.input): bytes beyond Content-Length are returned and the
   server stream is asked without a bound *)
Theorem wsgi_no_overread_refuted_before_fix :
  exists cl data caps ops, 0 <= cl /\ forallb wop_ok ops = true /\
    let st0 := w_init cl (src0 data caps) in
    let tr := wrun false ops st0 in
    s_unb (w_src (wend tr st0)) <> 0 /\
    ~ (exists rest, w_declared cl data = wbytes tr ++ rest).
Proof.
  exists 2, b_abcd, [], [WNext]. vm_compute.
  split; [discriminate|]. split; [reflexivity|]. split; [discriminate|].
  intros [rest H]. discriminate H.
Qed.

(* readlines() after the budget is used up passes hint 0 ("no limit") to wsgi.input *)
Theorem wsgi_readlines_refuted_before_fix :
  exists cl data caps ops, 0 <= cl /\ forallb wop_ok ops = true /\
    let st0 := w_init cl (src0 data caps) in
    let tr := wrun false ops st0 in
    ~ (exists rest, w_declared cl data = wbytes tr ++ rest).
Proof.
  exists 3, b_abcd, [], [WRead None; WReadlines None]. vm_compute.
  split; [discriminate|]. split; [reflexivity|].
  intros [rest H]. discriminate H.
Qed.

(* ---- exhaust(): the loop ends because read() returned nothing (fuel is never the reason),
   and leaves the stream at eof *)
Lemma WPost_src_split cl data st b st' :
  WInv cl data st -> WPost cl data st b st' -> s_data (w_src st) = b ++ s_data (w_src st').
Proof.
  intros ((c & D & L) & _) (_ & (c' & D' & L') & _).
  rewrite D in D'. apply app_eq_length in D' as [_ E]; [exact E|].
  apply len_eq_length. lia.
Qed.

Lemma exhaust_loop_done cl data chunk : (chunk = -1 \/ 0 < chunk) -> forall fuel st d st',
  WInv cl data st -> (length (s_data (w_src st)) < fuel)%nat ->
  w_exhaust_loop true fuel chunk st = (d, st') -> w_rem st' = 0.
Proof.
  intros Hc. induction fuel as [|f IH]; intros st d st' I F H; [lia|].
  cbn [w_exhaust_loop] in H.
  destruct (w_read true (Some chunk) st) as [c st1] eqn:R.
  assert (SO : size_ok (Some chunk) = true) by (apply Z.leb_le; lia).
  destruct (read_with_post cl data _ _ st c st1 src_read_ok I SO R) as (P1 & _ & E1).
  destruct c as [|x c0]; cbn [nonempty] in H.
  - injection H as <- <-. apply E1; [reflexivity|]. cbn.
    destruct Hc as [-> | Hc]; [reflexivity|]. destruct (Z.ltb_spec 0 chunk); [|lia].
    apply orb_true_r.
  - destruct (w_exhaust_loop true f chunk st1) as [cs st2] eqn:L. injection H as <- <-.
    apply (IH st1 cs st2 (proj1 P1)); [|exact L].
    pose proof (WPost_src_split _ _ _ _ _ I P1) as SP. rewrite SP in F.
    rewrite app_length in F. cbn [length] in F. lia.
Qed.

Theorem wsgi_exhaust_reaches_eof cl data caps ops chunk r st' :
  0 <= cl -> forallb wop_ok ops = true -> (chunk = -1 \/ 0 < chunk) ->
  let st0 := w_init cl (src0 data caps) in
  wstep true (WExhaust chunk) (wend (wrun true ops st0) st0) = (r, st') -> w_eof st' = true.
Proof.
  intros Hcl Hops Hc st0 S.
  destruct (hist_post cl data caps ops Hcl Hops) as (I & _). fold st0 in I.
  cbn [wstep] in S. destruct (w_exhaust true chunk _) as [d st1] eqn:X. injection S as <- <-.
  unfold w_exhaust in X. unfold w_eof. apply Z.leb_le.
  rewrite (exhaust_loop_done cl data chunk Hc _ _ _ _ I (Nat.lt_succ_diag_r _) X). lia.
Qed.
