(* C07 — ASGI BoundedStream: loop specifications and the state invariant *)
From Coq Require Import ZArith NArith List Bool Lia.
From Falcon.C07 Require Import Model Spec ProofsLib.
Import ListNotations.
Open Scope Z_scope.

(* ---- event scripts *)
Lemma all_disc_wfb ev : all_disc ev = true -> wfb ev = true.
Proof.
  destruct ev as [|e tl]; [reflexivity|]. unfold all_disc. cbn [forallb wfb].
  intro H. apply andb_true_iff in H as [H1 H2]. destruct e; [discriminate | exact H2].
Qed.

Lemma wfb_tail e tl : wfb (e :: tl) = true -> wfb tl = true.
Proof.
  cbn [wfb]. destruct e as [b [|]|]; intro H; [exact H | apply all_disc_wfb; exact H ..].
Qed.

Lemma wfb_last e tl : wfb (e :: tl) = true -> ev_more e = false -> all_disc tl = true.
Proof. cbn [wfb]. destruct e as [b [|]|]; cbn; intros H M; [discriminate | exact H ..]. Qed.

Lemma all_disc_tail e tl : all_disc (e :: tl) = true -> all_disc tl = true.
Proof. unfold all_disc. cbn [forallb]. intro H. apply andb_true_iff in H as [_ H]. exact H. Qed.

Lemma sbody_all_disc ev : all_disc ev = true -> sbody ev = [].
Proof.
  destruct ev as [|e tl]; [reflexivity|]. unfold all_disc. cbn [forallb].
  intro H. apply andb_true_iff in H as [H _]. destruct e; [discriminate | reflexivity].
Qed.

Lemma takeZ_nil {A} n : takeZ n (@nil A) = [].
Proof. reflexivity. Qed.

(* ---- receive() accounting *)
Definition NInv (g : net) (r : Z) : Prop :=
  (disc g = true -> r <= 0) /\ late g = 0 /\ over g = 0 /\
  (forall n, climit g = Some n -> 0 < r -> rcvd g + r <= n) /\ wfb (evs g) = true.

Lemma NInv_le g r r' : NInv g r -> r' <= r -> NInv g r'.
Proof.
  intros (D & L & O & B & W) H. repeat split; try assumption.
  - intro X. specialize (D X). lia.
  - intros n E P. specialize (B n E). lia.
Qed.

Lemma NInv_zero g r : NInv g r -> NInv g 0.
Proof.
  intros (D & L & O & B & W). repeat split; try assumption; try lia.
Qed.

Lemma NInv_recv g r e tl r' :
  NInv g r -> 0 < r -> evs g = e :: tl ->
  (is_disc e = true -> r' <= 0) -> (r' <= 0 \/ r' <= r - len (obody (ev_body e))) ->
  NInv (g_recv g e tl) r'.
Proof.
  intros (D & L & O & B & W) Hr E HD HB. rewrite E in W.
  assert (DF : disc g = false) by (destruct (disc g); [specialize (D eq_refl); lia | reflexivity]).
  unfold NInv, g_recv. cbn [disc late over rcvd climit evs]. rewrite DF. cbn [orb].
  split; [exact HD|]. split; [exact L|]. split; [|split].
  - destruct (climit g) as [n|] eqn:C; [|exact O]. specialize (B n eq_refl Hr).
    destruct (Z.geb_spec (rcvd g) n); [lia | exact O].
  - intros n C P. specialize (B n C Hr). lia.
  - eapply wfb_tail. exact W.
Qed.

Lemma NInv_recv_nil g r : NInv g r -> 0 < r -> evs g = [] -> NInv (g_recv g Disc []) 0.
Proof.
  intros (D & L & O & B & W) Hr E.
  assert (DF : disc g = false) by (destruct (disc g); [specialize (D eq_refl); lia | reflexivity]).
  unfold NInv, g_recv. cbn [disc late over rcvd climit evs]. rewrite DF.
  split; [lia|]. split; [exact L|]. split; [|split; [intros; lia | reflexivity]].
  destruct (climit g) as [n|] eqn:C; [|exact O]. specialize (B n eq_refl Hr).
  destruct (Z.geb_spec (rcvd g) n); [lia | exact O].
Qed.

(* ---- one event absorbed by read()/readall() *)
Lemma absorb_spec e tl r avail acc r' avail' acc' :
  0 < r -> wfb (e :: tl) = true -> absorb true e r avail acc = (r', avail', acc') ->
  acc' ++ takeZ r' (sbody tl) = acc ++ takeZ r (sbody (e :: tl)) /\
  0 <= r' /\ avail' - len acc' = avail - len acc /\
  (is_disc e = true -> r' <= 0) /\ (r' <= 0 \/ r' <= r - len (obody (ev_body e))) /\
  (ev_more e = false -> r' = 0).
Proof.
  intros Hr W H. unfold absorb in H.
  destruct e as [[c|] more|]; cbn [ev_body ev_more is_disc obody sbody] in *.
  - pose proof (len_nonneg c) as Lc. destruct (Z.leb_spec (len c) r).
    + injection H as <- <- <-. rewrite takeZ_app, (takeZ_all r c) by lia. rewrite len_app.
      destruct more.
      * rewrite <- app_assoc. repeat split; try lia; try discriminate; try (right; lia).
      * rewrite takeZ_nil, takeZ_nonpos, !app_nil_r by lia. repeat split; try lia; discriminate.
    + injection H as <- <- <-. rewrite takeZ_app. rewrite (takeZ_nonpos (r - len c)) by lia.
      rewrite len_app, len_takeZ. rewrite !app_nil_r.
      assert (E : (if more then 0 else 0) = 0) by (destruct more; reflexivity). rewrite E.
      rewrite (takeZ_nonpos 0), app_nil_r by lia. repeat split; try lia; discriminate.
  - injection H as <- <- <-. try rewrite len_nil. cbn [app]. destruct more.
    + repeat split; try lia; try discriminate; try (right; unfold len; cbn [length]; lia).
    + rewrite takeZ_nil, takeZ_nonpos by lia. repeat split; try lia; discriminate.
  - injection H as <- <- <-. rewrite takeZ_nil, takeZ_nonpos by lia.
    repeat split; try lia.
Qed.

Ltac fin := repeat split; try lia; try assumption; try reflexivity;
            try (intros; reflexivity); try (intros; assumption);
            try (left; lia); try (right; lia).

Lemma read_loop_spec size : forall ev g r avail acc g' r' avail' acc',
  evs g = ev -> NInv g r -> 0 <= r ->
  read_loop true size ev g r avail acc = (g', r', avail', acc') ->
  acc' ++ takeZ r' (sbody (evs g')) = acc ++ takeZ r (sbody ev) /\
  NInv g' r' /\ 0 <= r' /\ avail' - len acc' = avail - len acc /\
  (r' = 0 \/ size <= avail') /\ (all_disc ev = true -> all_disc (evs g') = true).
Proof.
  induction ev as [|e tl IH]; intros g r avail acc g' r' avail' acc' E N Hr H; cbn [read_loop] in H.
  - destruct (Z.gtb_spec r 0); cbn [andb] in H.
    + destruct (Z.ltb_spec avail size).
      * injection H as <- <- <- <-. cbn [g_recv evs sbody]. rewrite !takeZ_nil.
        split; [reflexivity|]. split; [eapply NInv_recv_nil; eassumption|]. fin.
      * injection H as <- <- <- <-. rewrite E. split; [reflexivity|]. split; [exact N|]. fin.
    + injection H as <- <- <- <-. rewrite E. split; [reflexivity|]. split; [exact N|]. fin.
  - destruct (Z.gtb_spec r 0); cbn [andb] in H.
    + destruct (Z.ltb_spec avail size).
      * destruct (absorb true e r avail acc) as [[r1 avail1] acc1] eqn:A.
        pose proof N as (_ & _ & _ & _ & W). rewrite E in W. assert (Hp : 0 < r) by lia.
        destruct (absorb_spec _ _ _ _ _ _ _ _ Hp W A) as (A1 & A2 & A3 & A4 & A5 & A6).
        destruct (IH (g_recv g e tl) _ _ _ _ _ _ _ eq_refl (NInv_recv _ _ _ _ _ N Hp E A4 A5) A2 H)
          as (I1 & I2 & I3 & I4 & I5 & I6).
        split; [rewrite I1; exact A1|]. split; [exact I2|]. split; [exact I3|].
        split; [lia|]. split; [exact I5|].
        intro AD. apply I6. eapply all_disc_tail. exact AD.
      * injection H as <- <- <- <-. rewrite E. split; [reflexivity|]. split; [exact N|]. fin.
    + injection H as <- <- <- <-. rewrite E. split; [reflexivity|]. split; [exact N|]. fin.
Qed.

Lemma readall_loop_spec : forall ev g r acc g' r' acc',
  evs g = ev -> NInv g r -> 0 <= r ->
  readall_loop ev g r acc = (g', r', acc') ->
  acc' ++ takeZ r' (sbody (evs g')) = acc ++ takeZ r (sbody ev) /\
  NInv g' r' /\ r' = 0 /\ (all_disc ev = true -> all_disc (evs g') = true).
Proof.
  induction ev as [|e tl IH]; intros g r acc g' r' acc' E N Hr H; cbn [readall_loop] in H.
  - destruct (Z.gtb_spec r 0).
    + injection H as <- <- <-. cbn [g_recv evs sbody]. rewrite !takeZ_nil.
      split; [reflexivity|]. split; [eapply NInv_recv_nil; eassumption|]. fin.
    + injection H as <- <- <-. rewrite E. split; [reflexivity|]. split; [exact N|]. fin.
  - destruct (Z.gtb_spec r 0).
    + destruct (absorb true e r 0 acc) as [[r1 avail1] acc1] eqn:A.
      pose proof N as (_ & _ & _ & _ & W). rewrite E in W. assert (Hp : 0 < r) by lia.
      destruct (absorb_spec _ _ _ _ _ _ _ _ Hp W A) as (A1 & A2 & A3 & A4 & A5 & A6).
      destruct (IH (g_recv g e tl) _ _ _ _ _ eq_refl (NInv_recv _ _ _ _ _ N Hp E A4 A5) A2 H)
        as (I1 & I2 & I3 & I4).
      split; [rewrite I1; exact A1|]. split; [exact I2|]. split; [exact I3|].
      intro AD. apply I4. eapply all_disc_tail. exact AD.
    + injection H as <- <- <-. rewrite E. split; [reflexivity|]. split; [exact N|]. fin.
Qed.

Lemma exhaust_loop_spec : forall ev g r p g' r' p',
  evs g = ev -> NInv g r -> 0 <= r ->
  exhaust_loop true ev g r p = (g', r', p') ->
  NInv g' r' /\ r' = 0 /\ p' = p + len (takeZ r (sbody ev)) /\
  (all_disc ev = true -> all_disc (evs g') = true).
Proof.
  induction ev as [|e tl IH]; intros g r p g' r' p' E N Hr H; cbn [exhaust_loop] in H.
  - destruct (Z.gtb_spec r 0).
    + injection H as <- <- <-. cbn [g_recv evs sbody]. rewrite takeZ_nil.
      split; [eapply NInv_recv_nil; eassumption|]. change (len (@nil BinNums.N)) with 0. fin.
    + injection H as <- <- <-. rewrite E, takeZ_nonpos by lia. split; [exact N|].
      change (len (@nil BinNums.N)) with 0. fin.
  - destruct (Z.gtb_spec r 0).
    + destruct e as [b more|].
      * pose proof (len_nonneg (obody b)) as Lb. cbn [andb] in H.
        set (n0 := len (obody b)) in *.
        set (n := if n0 >? r then r else n0) in *.
        assert (Hn : 0 <= n <= r /\ n = len (takeZ r (obody b))).
        { unfold n. rewrite len_takeZ. fold n0. destruct (Z.gtb_spec n0 r); lia. }
        assert (N1 : NInv (g_recv g (Req b more) tl) (if more then r - n else 0)).
        { eapply NInv_recv; try eassumption; cbn [is_disc ev_body]; [discriminate|].
          destruct more; [|left; lia].
          unfold n. fold n0. destruct (Z.gtb_spec n0 r); [left; lia | right; lia]. }
        assert (Hr1 : 0 <= (if more then r - n else 0)) by (destruct more; lia).
        destruct (IH _ _ _ _ _ _ (eq_refl : evs (g_recv g _ tl) = tl) N1 Hr1 H) as (I1 & I2 & I3 & I4).
        split; [exact I1|]. split; [exact I2|]. split; [|intro AD; apply I4; eapply all_disc_tail; exact AD].
        rewrite I3. cbn [sbody]. rewrite takeZ_app, len_app. fold n0.
        destruct Hn as (Hn1 & Hn2). rewrite <- Hn2.
        assert (len (takeZ (if more then r - n else 0) (sbody tl)) =
                len (takeZ (r - n0) (if more then sbody tl else []))); [|lia].
        destruct more.
        -- unfold n. destruct (Z.gtb_spec n0 r); [|reflexivity].
           rewrite !takeZ_nonpos by lia. reflexivity.
        -- rewrite takeZ_nil, takeZ_nonpos by lia. reflexivity.
      * assert (N1 : NInv (g_recv g Disc tl) 0).
        { eapply NInv_recv; try eassumption; cbn [is_disc ev_body]; [lia | left; lia]. }
        destruct (IH _ _ _ _ _ _ (eq_refl : evs (g_recv g _ tl) = tl) N1 ltac:(lia) H) as (I1 & I2 & I3 & I4).
        split; [exact I1|]. split; [exact I2|]. split; [|intro AD; apply I4; eapply all_disc_tail; exact AD].
        rewrite I3. cbn [sbody]. rewrite takeZ_nil, takeZ_nonpos by lia. reflexivity.
    + injection H as <- <- <-. rewrite E, takeZ_nonpos by lia. split; [exact N|].
      change (len (@nil BinNums.N)) with 0. fin.
Qed.

Lemma iter_loop_spec : forall ev g r p y g' r' p',
  evs g = ev -> NInv g r -> 0 <= r ->
  iter_loop ev g r p = (y, g', r', p') ->
  NInv g' r' /\ 0 <= r' /\ (all_disc ev = true -> all_disc (evs g') = true) /\
  match y with
  | Some (c, more) =>
    c ++ takeZ r' (sbody (evs g')) = takeZ r (sbody ev) /\ c <> [] /\ p' = p + len c /\
    (more = false -> all_disc (evs g') = true)
  | None => takeZ r (sbody ev) = [] /\ r' = 0 /\ p' = p
  end.
Proof.
  induction ev as [|e tl IH]; intros g r p y g' r' p' E N Hr H; cbn [iter_loop] in H.
  - destruct (Z.gtb_spec r 0).
    + injection H as <- <- <- <-. cbn [g_recv evs sbody].
      split; [eapply NInv_recv_nil; eassumption|]. fin.
    + injection H as <- <- <- <-. rewrite E. split; [exact N|]. fin.
  - destruct (Z.gtb_spec r 0).
    + pose proof N as (_ & _ & _ & _ & W). rewrite E in W. assert (Hp : 0 < r) by lia.
      destruct (ev_body e) as [[|x c']|] eqn:B.
      * (* empty chunk: not yielded *)
        assert (N1 : NInv (g_recv g e tl) (if ev_more e then r else 0)).
        { eapply NInv_recv; try eassumption; rewrite ?B; cbn [obody].
          - destruct e; [discriminate|]. intros _. cbn. lia.
          - try rewrite len_nil. destruct (ev_more e); [right; unfold len; cbn [length]; lia | left; lia]. }
        assert (Hr1 : 0 <= (if ev_more e then r else 0)) by (destruct (ev_more e); lia).
        destruct (IH (g_recv g e tl) _ _ _ _ _ _ eq_refl N1 Hr1 H) as (I1 & I2 & I3 & I4).
        split; [exact I1|]. split; [exact I2|].
        split; [intro AD; apply I3; eapply all_disc_tail; exact AD|].
        assert (SB : takeZ r (sbody (e :: tl)) = takeZ (if ev_more e then r else 0) (sbody tl)).
        { destruct e as [b more|]; cbn [ev_body] in B; [|discriminate]. subst b.
          cbn [sbody obody ev_more app]. destruct more; [reflexivity|].
          rewrite takeZ_nil, takeZ_nonpos by lia. reflexivity. }
        rewrite SB. exact I4.
      * (* a chunk is yielded *)
        set (c := x :: c') in *.
        destruct e as [b more|]; cbn [ev_body] in B; [|discriminate]. subst b.
        cbn [ev_more] in H. pose proof (len_nonneg c) as Lc.
        assert (Lc1 : 0 < len c) by (unfold c; rewrite len_cons; pose proof (len_nonneg c'); lia).
        assert (TD : more = false -> all_disc tl = true).
        { intro M. subst more. exact W. }
        assert (SBD : more = false -> sbody tl = []).
        { intro M. apply sbody_all_disc. apply TD. exact M. }
        destruct (Z.leb_spec (len c) r).
        -- injection H as <- <- <- <-. cbn [g_recv evs].
           split. { eapply NInv_recv; try eassumption; cbn [is_disc ev_body obody]; [discriminate|right; lia]. }
           split; [lia|]. split; [apply all_disc_tail|].
           cbn [sbody obody]. rewrite takeZ_app, (takeZ_all r c) by lia.
           repeat split; try discriminate; try assumption.
           destruct more; [reflexivity|]. rewrite (SBD eq_refl), !takeZ_nil. reflexivity.
        -- injection H as <- <- <- <-. cbn [g_recv evs].
           change (if r <=? 0 then [] else x :: takeZ (r - 1) c') with (takeZ r c) in *.
           split. { eapply NInv_recv; try eassumption; cbn [is_disc ev_body obody]; [discriminate|left; lia]. }
           split; [lia|]. split; [apply all_disc_tail|].
           cbn [sbody obody]. rewrite takeZ_app. rewrite (takeZ_nonpos (r - len c)) by lia.
           rewrite (takeZ_nonpos 0) by lia.
           split; [reflexivity|]. split.
           { intro X. apply takeZ_nil_inv in X; [|lia]. unfold c in X. discriminate X. }
           split; [rewrite len_takeZ; lia | exact TD].
      * (* no body key *)
        assert (N1 : NInv (g_recv g e tl) (if ev_more e then r else 0)).
        { eapply NInv_recv; try eassumption; rewrite ?B; cbn [obody].
          - destruct e as [b more|]; cbn; intros; [discriminate | lia].
          - try rewrite len_nil. destruct (ev_more e); [right; unfold len; cbn [length]; lia | left; lia]. }
        assert (Hr1 : 0 <= (if ev_more e then r else 0)) by (destruct (ev_more e); lia).
        destruct (IH (g_recv g e tl) _ _ _ _ _ _ eq_refl N1 Hr1 H) as (I1 & I2 & I3 & I4).
        split; [exact I1|]. split; [exact I2|].
        split; [intro AD; apply I3; eapply all_disc_tail; exact AD|].
        assert (SB : takeZ r (sbody (e :: tl)) = takeZ (if ev_more e then r else 0) (sbody tl)).
        { destruct e as [b more|]; cbn [ev_body] in B.
          - subst b. cbn [sbody obody ev_more app]. destruct more; [reflexivity|].
            rewrite takeZ_nil, takeZ_nonpos by lia. reflexivity.
          - cbn [sbody ev_more]. rewrite takeZ_nil, takeZ_nonpos by lia. reflexivity. }
        rewrite SB. exact I4.
    + injection H as <- <- <- <-. rewrite E. split; [exact N|]. fin.
      apply takeZ_nonpos. lia.
Qed.
