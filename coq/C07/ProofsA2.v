(* C07 — ASGI BoundedStream: the state invariant is preserved by every operation *)
From Coq Require Import ZArith NArith List Bool Lia.
From Falcon.C07 Require Import Model Spec ProofsLib ProofsA.
Import ListNotations.
Open Scope Z_scope.

(* D: declared body; c: the part of it consumed so far (returned by reads, or skipped by
   exhaust()), so len c is the cursor *)
Record AInv (D c : bytes) (st : ast) : Prop := {
  ai_rem : 0 <= rem st;
  ai_pre : exists rest, D = c ++ rest;
  ai_open : closed st = false -> D = c ++ buf st ++ takeZ (rem st) (sbody (evs (nt st)));
  ai_tell : pos st = len c;
  ai_net : NInv (nt st) (rem st);
  ai_susp : gsusp (gen st) = true -> buf st = [];
  ai_pend : gen st = GInLoop false -> all_disc (evs (nt st)) = true;
  ai_closed : closed st = true -> buf st = [] /\ rem st = 0 }.

(* what an operation consumes: its returned bytes; a successful exhaust() everything left *)
Definition consumed_after (D c : bytes) (op : aop) (r : ares) : bytes :=
  match op, r with
  | AExhaust, ANone => D
  | _, _ => c ++ ares_bytes r
  end.

Definition AStepOK D c op st r st' : Prop :=
  AInv D (consumed_after D c op r) st' /\
  a_sized_ok op (ares_bytes r) = true /\
  (a_asks_for_data op = true -> r = ABytes [] -> a_eof st' = true) /\
  a_shape_ok (a_observe op (r, st')) = true /\
  gsusp (gen st') = susp_after (gsusp (gen st)) op r.

Lemma eof_dead st : buf st = [] -> rem st = 0 -> a_eof st = true.
Proof. intros B R. unfold a_eof. rewrite B, R. reflexivity. Qed.

Lemma eof_inv st : a_eof st = true -> buf st = [] /\ rem st = 0.
Proof.
  unfold a_eof. intro H. apply andb_true_iff in H as [H1 H2].
  apply Z.eqb_eq in H2. destruct (buf st); [split; [reflexivity | exact H2] | discriminate].
Qed.

Lemma not_eof_open D dl st : AInv D dl st -> a_eof st = false -> closed st = false.
Proof.
  intros I E. destruct (closed st) eqn:C; [|reflexivity].
  destruct (ai_closed _ _ _ I C) as [B R]. rewrite (eof_dead _ B R) in E. discriminate.
Qed.

(* operations that change nothing but, possibly, the generator slot *)
Lemma AInv_same D dl st st' :
  AInv D dl st ->
  buf st' = buf st -> rem st' = rem st -> pos st' = pos st -> closed st' = closed st ->
  nt st' = nt st -> (gsusp (gen st') = true -> gen st' = gen st) ->
  AInv D (dl ++ []) st'.
Proof.
  intros I B R P C N G. rewrite app_nil_r.
  destruct I as [I1 I2 I3 I5 I7 I8 I9 I10].
  constructor.
  - rewrite R. exact I1.
  - exact I2.
  - rewrite C, B, R, N. exact I3.
  - rewrite P. exact I5.
  - rewrite N, R. exact I7.
  - intro S. rewrite B. apply I8. rewrite <- (G S). exact S.
  - intro S. rewrite N. apply I9. rewrite <- G; [exact S | rewrite S; reflexivity].
  - rewrite C, B, R. exact I10.
Qed.

(* ---- readall() *)
Lemma readall_ok D dl st r st' :
  AInv D dl st -> a_readall st = (r, st') ->
  AInv D (dl ++ ares_bytes r) st' /\
  (r = ABytes [] -> a_eof st' = true) /\
  (exists b, r = ABytes b) \/ (r = AErr ENotAllowed /\ closed st' = true /\ st' = st /\
                               AInv D (dl ++ ares_bytes r) st') .
Proof.
  intros I H. unfold a_readall in H.
  destruct (closed st) eqn:C.
  - injection H as <- <-. right. split; [reflexivity|]. split; [exact C|]. split; [reflexivity|].
    apply (AInv_same _ _ st st I); auto.
  - left. destruct (a_eof st) eqn:E.
    + injection H as <- <-. split; [apply (AInv_same _ _ st st I); auto|].
      split; [intros _; exact E | eexists; reflexivity].
    + destruct (readall_loop (evs (nt st)) (nt st) (rem st) (buf st)) as [[g r1] data] eqn:L.
      injection H as <- <-.
      destruct (readall_loop_spec _ _ _ _ _ _ _ eq_refl (ai_net _ _ _ I) (ai_rem _ _ _ I) L)
        as (S1 & S2 & S3 & S4).
      subst r1.
      pose proof (ai_open _ _ _ I C) as DL. rewrite <- S1 in DL.
      split; [|split; [|eexists; reflexivity]].
      * cbn [ares_bytes]. unfold set_core. constructor; cbn [buf rem pos closed gen nt].
        -- lia.
        -- eexists. rewrite DL, app_assoc. reflexivity.
        -- intros _. rewrite DL at 1. rewrite <- app_assoc. reflexivity.
        -- rewrite (ai_tell _ _ _ I), len_app. reflexivity.
        -- exact S2.
        -- reflexivity.
        -- intro G. apply S4. apply (ai_pend _ _ _ I G).
        -- rewrite C. discriminate.
      * intros _. apply eof_dead; reflexivity.
Qed.

Lemma a_sized_nil op : a_sized_ok op [] = true.
Proof.
  destruct op as [[n|]| | | | | | | |]; try reflexivity. unfold a_sized_ok.
  change (len (@nil N)) with 0. apply orb_true_iff. right. apply Z.leb_le. lia.
Qed.

(* ---- read(size) with 0 < size *)
Lemma read_sized_ok D dl st n g r avail joined :
  AInv D dl st -> 0 < n -> gsusp (gen st) = false -> closed st = false ->
  read_loop true n (evs (nt st)) (nt st) (rem st) (len (buf st)) (buf st) = (g, r, avail, joined) ->
  let '(data, rest) := if avail <=? n then (joined, []) else (takeZ n joined, dropZ n joined) in
  AInv D (dl ++ data) (set_core st rest r (pos st + len data) g) /\
  len data <= n /\ (data = [] -> rest = [] /\ r = 0).
Proof.
  intros I Hn G C L.
  destruct (read_loop_spec _ _ _ _ _ _ _ _ _ _ eq_refl (ai_net _ _ _ I) (ai_rem _ _ _ I) L)
    as (S1 & S2 & S3 & S4 & S5 & S6).
  assert (AV : avail = len joined) by lia.
  pose proof (ai_open _ _ _ I C) as DL. rewrite <- S1 in DL.
  assert (K : forall data rest, joined = data ++ rest -> len data <= n ->
              (data = [] -> rest = [] /\ r = 0) ->
              AInv D (dl ++ data) (set_core st rest r (pos st + len data) g) /\
              len data <= n /\ (data = [] -> rest = [] /\ r = 0)).
  { intros data rest J LD EM. split; [|split; assumption].
    unfold set_core. constructor; cbn [buf rem pos closed gen nt].
    - exact S3.
    - eexists. rewrite DL, J, <- !app_assoc. reflexivity.
    - intros _. rewrite DL, J, <- !app_assoc. reflexivity.
    - rewrite (ai_tell _ _ _ I), len_app. reflexivity.
    - exact S2.
    - rewrite G. discriminate.
    - intro GP. apply S6. apply (ai_pend _ _ _ I GP).
    - rewrite C. discriminate. }
  destruct (Z.leb_spec avail n).
  - apply K; [rewrite app_nil_r; reflexivity | lia|].
    intros ->. rewrite len_nil in AV. split; [reflexivity|]. destruct S5; lia.
  - apply K; [symmetry; apply takeZ_dropZ | apply len_takeZ_le; lia|].
    intro T. apply takeZ_nil_inv in T; [|lia]. subst joined. rewrite len_nil in AV. lia.
Qed.

Lemma read_ok D dl sz st r st' :
  AInv D dl st -> gsusp (gen st) && sized_read (ARead sz) = false ->
  a_read true sz st = (r, st') ->
  AInv D (dl ++ ares_bytes r) st' /\
  a_sized_ok (ARead sz) (ares_bytes r) = true /\
  (a_asks_for_data (ARead sz) = true -> r = ABytes [] -> a_eof st' = true) /\
  ((exists b, r = ABytes b) \/ (r = AErr ENotAllowed /\ closed st' = true)) /\
  gen st' = gen st.
Proof.
  intros I DS H. unfold a_read in H.
  assert (RA : a_readall st = (r, st') ->
    AInv D (dl ++ ares_bytes r) st' /\
    (r = ABytes [] -> a_eof st' = true) /\
    ((exists b, r = ABytes b) \/ (r = AErr ENotAllowed /\ closed st' = true)) /\
    gen st' = gen st).
  { intro HA. assert (GE : gen st' = gen st).
    { unfold a_readall in HA. destruct (closed st); [injection HA as <- <-; reflexivity|].
      destruct (a_eof st); [injection HA as <- <-; reflexivity|].
      destruct (readall_loop _ _ _ _) as [[? ?] ?]. injection HA as <- <-. reflexivity. }
    destruct (readall_ok _ _ _ _ _ I HA) as [(A1 & A2 & A3) | (A1 & A2 & A3 & A4)].
    - split; [exact A1|]. split; [exact A2|]. split; [left; exact A3 | exact GE].
    - split; [exact A4|]. split; [rewrite A1; discriminate|]. split; [right; split; assumption | exact GE]. }
  destruct (closed st) eqn:C.
  - injection H as <- <-. split; [apply (AInv_same _ _ st st I); auto|].
    split; [apply a_sized_nil|].
    split; [discriminate|]. split; [right; split; [reflexivity | exact C] | reflexivity].
  - destruct (a_eof st) eqn:E.
    + injection H as <- <-. split; [apply (AInv_same _ _ st st I); auto|].
      split; [apply a_sized_nil|].
      split; [intros _ _; exact E|]. split; [left; eexists; reflexivity | reflexivity].
    + destruct sz as [n|].
      * destruct (Z.eqb_spec n (-1)).
        -- destruct (RA H) as (R1 & R2 & R3 & R4). split; [exact R1|].
           split; [cbn; subst n; reflexivity|]. split; [intros _; exact R2|]. split; assumption.
        -- destruct (Z.leb_spec n 0).
           ++ injection H as <- <-. split; [apply (AInv_same _ _ st st I); auto|].
              split; [apply a_sized_nil|].
              split; [|split; [left; eexists; reflexivity | reflexivity]].
              cbn. destruct (Z.eqb_spec n (-1)); [contradiction|]. destruct (Z.ltb_spec 0 n); [lia|discriminate].
           ++ assert (G : gsusp (gen st) = false).
              { destruct (gsusp (gen st)); [|reflexivity]. cbn in DS.
                destruct (Z.eqb_spec n (-1)); [contradiction|]. destruct (Z.ltb_spec 0 n); [discriminate | lia]. }
              destruct (read_loop true n (evs (nt st)) (nt st) (rem st) (len (buf st)) (buf st))
                as [[[g r1] avail] joined] eqn:L.
              assert (Hn : 0 < n) by lia.
              pose proof (read_sized_ok _ _ _ _ _ _ _ _ I Hn G C L) as K.
              destruct (if avail <=? n then (joined, []) else (takeZ n joined, dropZ n joined))
                as [data rest].
              injection H as <- <-. destruct K as (K1 & K2 & K3). cbn [ares_bytes].
              split; [exact K1|].
              split; [cbn; destruct (n =? -1); cbn; [reflexivity | apply Z.leb_le; lia]|].
              split; [|split; [left; eexists; reflexivity | reflexivity]].
              intros _ [= ->]. destruct (K3 eq_refl) as [-> ->]. apply eof_dead; reflexivity.
      * destruct (RA H) as (R1 & R2 & R3 & R4). split; [exact R1|].
        split; [reflexivity|]. split; [intros _; exact R2|]. split; assumption.
Qed.

(* ---- the generator *)
Lemma resume_ok D dl st r0 r st' :
  0 <= r0 -> NInv (nt st) r0 -> buf st = [] ->
  (closed st = false -> D = dl ++ takeZ r0 (sbody (evs (nt st)))) ->
  (exists rest, D = dl ++ rest) ->
  pos st = len dl -> (closed st = true -> r0 = 0) ->
  a_resume_loop st r0 = (r, st') ->
  AInv D (dl ++ ares_bytes r) st' /\
  ((r = AStop /\ gen st' = GDone) \/ (exists x c m, r = ABytes (x :: c) /\ gen st' = GInLoop m)).
Proof.
  intros H0 HN HB HL HP HT HC H. unfold a_resume_loop in H.
  destruct (iter_loop (evs (nt st)) (nt st) r0 (pos st)) as [[[y g] r'] p'] eqn:L.
  destruct (iter_loop_spec _ _ _ _ _ _ _ _ eq_refl HN H0 L) as (S1 & S2 & S3 & S4).
  destruct y as [[c more]|].
  - injection H as <- <-. destruct S4 as (Y1 & Y2 & Y3 & Y4).
    assert (CO : closed st = false).
    { destruct (closed st); [|reflexivity]. rewrite (HC eq_refl) in Y1.
      rewrite (takeZ_nonpos 0) in Y1 by lia.
      apply app_eq_nil in Y1 as [Y1 _]. contradiction. }
    specialize (HL CO). rewrite <- Y1 in HL.
    split.
    + cbn [ares_bytes]. constructor; cbn [buf rem pos closed gen nt].
      * exact S2.
      * eexists. rewrite HL, <- app_assoc. reflexivity.
      * intros _. rewrite HB. cbn [app]. rewrite HL, <- app_assoc. reflexivity.
      * rewrite Y3, HT, len_app. reflexivity.
      * exact S1.
      * intros _. exact HB.
      * intros [= ->]. apply Y4. reflexivity.
      * rewrite CO. discriminate.
    + right. destruct c as [|x c]; [contradiction|]. exists x, c, more. split; reflexivity.
  - injection H as <- <-. destruct S4 as (Y1 & Y2 & Y3). subst r' p'.
    split; [|left; split; reflexivity].
    cbn [ares_bytes]. rewrite app_nil_r. constructor; cbn [buf rem pos closed gen nt].
    + lia.
    + exact HP.
    + intro CO. rewrite HB. cbn [app]. rewrite (takeZ_nonpos 0), app_nil_r by lia.
      rewrite (HL CO), Y1, app_nil_r. reflexivity.
    + exact HT.
    + exact S1.
    + discriminate.
    + discriminate.
    + intros _. split; [exact HB | reflexivity].
Qed.

Lemma next_ok D dl st r st' :
  AInv D dl st -> a_next st = (r, st') ->
  AInv D (dl ++ ares_bytes r) st' /\
  a_shape_ok (a_observe ANext (r, st')) = true /\
  gsusp (gen st') = susp_after (gsusp (gen st)) ANext r.
Proof.
  intros I H. unfold a_next in H.
  assert (FRESH : (gen st = GNone \/ gen st = GFresh) ->
    (if closed st then (AErr ENotAllowed, set_gen st GDone)
     else if a_eof st then (AStop, set_gen st GDone)
     else if started st then (AErr ENotAllowed, set_gen st GDone)
     else if nonempty (buf st) then
       (ABytes (buf st),
        {| buf := []; rem := rem st; pos := pos st + len (buf st); closed := closed st;
           started := true; gen := GAfterBuf; nt := nt st |})
     else a_resume_loop {| buf := buf st; rem := rem st; pos := pos st; closed := closed st;
                           started := true; gen := gen st; nt := nt st |} (rem st)) = (r, st') ->
    AInv D (dl ++ ares_bytes r) st' /\
    a_shape_ok (a_observe ANext (r, st')) = true /\
    gsusp (gen st') = susp_after (gsusp (gen st)) ANext r).
  { intros GF HH.
    assert (DONE : forall r0, (r0 = AStop \/ r0 = AErr ENotAllowed) ->
      AInv D (dl ++ ares_bytes r0) (set_gen st GDone) /\
      a_shape_ok (a_observe ANext (r0, set_gen st GDone)) = true /\
      gsusp (gen (set_gen st GDone)) = susp_after (gsusp (gen st)) ANext r0).
    { intros r0 R0. split; [|split].
      - replace (ares_bytes r0) with (@nil N) by (destruct R0 as [-> | ->]; reflexivity).
        apply (AInv_same _ _ st _ I); try reflexivity. discriminate.
      - destruct R0 as [-> | ->]; reflexivity.
      - destruct R0 as [-> | ->]; reflexivity. }
    destruct (closed st) eqn:C; [injection HH as <- <-; apply DONE; right; reflexivity|].
    destruct (a_eof st) eqn:E; [injection HH as <- <-; apply DONE; left; reflexivity|].
    destruct (started st) eqn:ST; [injection HH as <- <-; apply DONE; right; reflexivity|].
    pose proof (ai_open _ _ _ I C) as DL.
    destruct (buf st) as [|x b] eqn:B; cbn [nonempty] in HH.
    - assert (RO := resume_ok D dl
        {| buf := []; rem := rem st; pos := pos st; closed := false; started := true;
           gen := gen st; nt := nt st |} (rem st) r st').
      cbn [buf rem pos closed gen nt] in RO.
      destruct RO as (R1 & R2); try assumption.
      + exact (ai_rem _ _ _ I).
      + exact (ai_net _ _ _ I).
      + reflexivity.
      + intros _. exact DL.
      + exact (ai_pre _ _ _ I).
      + exact (ai_tell _ _ _ I).
      + discriminate.
      + split; [exact R1|].
        destruct R2 as [(-> & G2) | (x & c & m & -> & G2)]; rewrite G2; split; reflexivity.
    - injection HH as <- <-. split; [|split; reflexivity].
      cbn [ares_bytes]. constructor; cbn [buf rem pos closed gen nt].
      + exact (ai_rem _ _ _ I).
      + eexists. rewrite DL, <- app_assoc. reflexivity.
      + intros _. rewrite DL, <- app_assoc. reflexivity.
      + rewrite (ai_tell _ _ _ I), len_app. reflexivity.
      + exact (ai_net _ _ _ I).
      + reflexivity.
      + discriminate.
      + discriminate. }
  assert (RES : forall r0, gsusp (gen st) = true ->
    0 <= r0 -> NInv (nt st) r0 ->
    (closed st = false -> D = dl ++ takeZ r0 (sbody (evs (nt st)))) ->
    (closed st = true -> r0 = 0) ->
    a_resume_loop st r0 = (r, st') ->
    AInv D (dl ++ ares_bytes r) st' /\
    a_shape_ok (a_observe ANext (r, st')) = true /\
    gsusp (gen st') = susp_after (gsusp (gen st)) ANext r).
  { intros r0 SU P0 PN PL PC HH.
    destruct (resume_ok D dl st r0 r st' P0 PN (ai_susp _ _ _ I SU) PL
                (ai_pre _ _ _ I) (ai_tell _ _ _ I) PC HH)
      as (R1 & R2).
    split; [exact R1|].
    destruct R2 as [(-> & G2) | (x & c & m & -> & G2)]; rewrite G2; split; reflexivity. }
  destruct (gen st) eqn:G.
  - apply FRESH; [left; reflexivity | exact H].
  - apply FRESH; [right; reflexivity | exact H].
  - apply (RES (rem st)); try reflexivity; try exact H.
    + exact (ai_rem _ _ _ I).
    + exact (ai_net _ _ _ I).
    + intro CO. rewrite (ai_open _ _ _ I CO).
      rewrite (ai_susp _ _ _ I); [reflexivity | rewrite G; reflexivity].
    + intro C. exact (proj2 (ai_closed _ _ _ I C)).
  - assert (BE : buf st = []) by (apply (ai_susp _ _ _ I); rewrite G; reflexivity).
    destruct more.
    + apply (RES (rem st)); try reflexivity; try exact H.
      * exact (ai_rem _ _ _ I).
      * exact (ai_net _ _ _ I).
      * intro CO. rewrite (ai_open _ _ _ I CO), BE. reflexivity.
      * intro C. exact (proj2 (ai_closed _ _ _ I C)).
    + apply (RES 0); try reflexivity; try exact H; try lia.
      * exact (NInv_zero _ _ (ai_net _ _ _ I)).
      * intro CO. rewrite (ai_open _ _ _ I CO), BE.
        rewrite (sbody_all_disc _ (ai_pend _ _ _ I G)), !takeZ_nil. reflexivity.
  - injection H as <- <-. split; [|split; [reflexivity | rewrite G; reflexivity]].
    apply (AInv_same _ _ st st I); auto.
Qed.
