(* C07 — list/arith lemmas shared by the WSGI and ASGI proofs *)
From Coq Require Import ZArith NArith List Bool Lia.
From Falcon.C07 Require Import Model Spec.
Import ListNotations.
Open Scope Z_scope.

Lemma len_nil {A} : len (@nil A) = 0. Proof. reflexivity. Qed.
Lemma len_cons {A} (x : A) l : len (x :: l) = 1 + len l.
Proof. unfold len. simpl length. lia. Qed.
Lemma len_app {A} (a b : list A) : len (a ++ b) = len a + len b.
Proof. unfold len. rewrite app_length. lia. Qed.
Lemma len_nonneg {A} (l : list A) : 0 <= len l.
Proof. unfold len. lia. Qed.
Lemma len_zero {A} (l : list A) : len l = 0 -> l = [].
Proof. destruct l; [reflexivity|]. rewrite len_cons. pose proof (len_nonneg l). lia. Qed.
Lemma nonempty_false {A} (l : list A) : nonempty l = false -> l = [].
Proof. destruct l; [reflexivity | discriminate]. Qed.
Lemma nonempty_true {A} (l : list A) : nonempty l = true -> 0 < len l.
Proof. destruct l; [discriminate|]. intros _. rewrite len_cons. pose proof (len_nonneg l). lia. Qed.

Lemma takeZ_nonpos {A} n (l : list A) : n <= 0 -> takeZ n l = [].
Proof. intro H. destruct l; simpl; [reflexivity|]. destruct (Z.leb_spec n 0); [reflexivity | lia]. Qed.

Lemma takeZ_dropZ {A} n (l : list A) : takeZ n l ++ dropZ n l = l.
Proof.
  revert n. induction l as [|x l IH]; intro n; simpl; [reflexivity|].
  destruct (n <=? 0); simpl; [reflexivity|]. rewrite IH. reflexivity.
Qed.

Lemma takeZ_all {A} n (l : list A) : len l <= n -> takeZ n l = l.
Proof.
  revert n. induction l as [|x l IH]; intros n H; simpl; [reflexivity|].
  rewrite len_cons in H. pose proof (len_nonneg l).
  destruct (Z.leb_spec n 0); [lia|]. rewrite IH; [reflexivity | lia].
Qed.

Lemma len_takeZ {A} n (l : list A) : len (takeZ n l) = Z.max 0 (Z.min n (len l)).
Proof.
  revert n. induction l as [|x l IH]; intros n; simpl.
  - rewrite len_nil. lia.
  - pose proof (len_nonneg l). rewrite len_cons.
    destruct (Z.leb_spec n 0); [rewrite len_nil; lia|].
    rewrite len_cons, IH. lia.
Qed.

Lemma len_takeZ_le {A} n (l : list A) : 0 <= n -> len (takeZ n l) <= n.
Proof. intro H. rewrite len_takeZ. lia. Qed.

Lemma len_takeZ_le_len {A} n (l : list A) : len (takeZ n l) <= len l.
Proof. rewrite len_takeZ. pose proof (len_nonneg l). lia. Qed.

Lemma takeZ_app {A} n (a b : list A) : takeZ n (a ++ b) = takeZ n a ++ takeZ (n - len a) b.
Proof.
  revert n. induction a as [|x a IH]; intros n.
  - replace (n - len (@nil A)) with n by (unfold len; simpl; lia). reflexivity.
  - cbn [app takeZ]. destruct (Z.leb_spec n 0).
    + rewrite takeZ_nonpos; [reflexivity|]. rewrite len_cons. pose proof (len_nonneg a). lia.
    + cbn [app]. rewrite IH. rewrite len_cons.
      replace (n - (1 + len a)) with (n - 1 - len a) by lia. reflexivity.
Qed.

Lemma takeZ_nil_inv {A} n (l : list A) : 0 < n -> takeZ n l = [] -> l = [].
Proof. intros H E. destruct l; [reflexivity|]. simpl in E. destruct (Z.leb_spec n 0); [lia | discriminate]. Qed.

Lemma takeZ_takeZ {A} n m (l : list A) : n <= m -> takeZ n (takeZ m l) = takeZ n l.
Proof.
  revert n m. induction l as [|x l IH]; intros n m H; simpl; [reflexivity|].
  destruct (Z.leb_spec m 0).
  - destruct (Z.leb_spec n 0); [reflexivity | lia].
  - simpl. destruct (Z.leb_spec n 0); [reflexivity|]. rewrite IH; [reflexivity | lia].
Qed.

(* dropping a known prefix *)
Lemma dropZ_app_len {A} (a b : list A) : dropZ (len a) (a ++ b) = b.
Proof.
  induction a as [|x a IH].
  - destruct b; reflexivity.
  - cbn [app dropZ]. rewrite len_cons. pose proof (len_nonneg a).
    destruct (Z.leb_spec (1 + len a) 0); [lia|].
    replace (1 + len a - 1) with (len a) by lia. exact IH.
Qed.

Lemma skipn_app_len {A} (a b : list A) : skipn (length a) (a ++ b) = b.
Proof. induction a; simpl; [reflexivity | assumption]. Qed.

Lemma bytes_eqb_refl b : bytes_eqb b b = true.
Proof. induction b; simpl; [reflexivity|]. rewrite N.eqb_refl. exact IHb. Qed.

Lemma bytes_eqb_eq a b : bytes_eqb a b = true -> a = b.
Proof.
  revert b. induction a as [|x a IH]; intros [|y b]; simpl; intro H; try discriminate; [reflexivity|].
  apply andb_true_iff in H as [H1 H2]. apply N.eqb_eq in H1. f_equal; [assumption | auto].
Qed.

(* the cursor reading: [b] sits at offset [len c] of [takeZ n (c ++ b ++ r)] when it fits *)
Lemma slice_ok_at n (c b r : bytes) :
  len c + len b <= n -> slice_ok (takeZ n (c ++ b ++ r)) (len c) b = true.
Proof.
  intro H. unfold slice_ok.
  pose proof (len_nonneg c). pose proof (len_nonneg b). pose proof (len_nonneg r).
  rewrite !takeZ_app. rewrite (takeZ_all n c) by lia. rewrite (takeZ_all (n - len c) b) by lia.
  rewrite dropZ_app_len. rewrite !len_app.
  apply andb_true_iff. split.
  - apply Z.leb_le. pose proof (len_nonneg (takeZ (n - len c - len b) r)). lia.
  - rewrite takeZ_app. rewrite takeZ_all by lia. replace (len b - len b) with 0 by lia.
    rewrite takeZ_nonpos by lia. rewrite app_nil_r. apply bytes_eqb_refl.
Qed.

Lemma app_eq_length {A} (a b x y : list A) :
  a ++ x = b ++ y -> length a = length b -> a = b /\ x = y.
Proof.
  revert b. induction a as [|h a IH]; intros [|k b] E L; simpl in *; try discriminate.
  - split; [reflexivity | exact E].
  - injection E as -> E. injection L as L. destruct (IH b E L) as [-> ->]. split; reflexivity.
Qed.

Lemma len_eq_length {A B} (a : list A) (b : list B) : len a = len b -> length a = length b.
Proof. unfold len. lia. Qed.
