(* C07 — ASGI BoundedStream: theorems over whole histories, and the code as found *)
From Coq Require Import ZArith NArith List Bool Lia.
From Falcon.C07 Require Import Model Spec ProofsLib ProofsA ProofsA2 ProofsA3.
Import ListNotations.
Open Scope Z_scope.

Fixpoint lives (live : bool) (ops : list aop) : bool :=
  match ops with [] => live | op :: tl => lives (a_live_after live op) tl end.
Fixpoint noexs (noex : bool) (ops : list aop) : bool :=
  match ops with [] => noex | op :: tl => noexs (a_noex_after noex op) tl end.

Lemma lives_keep ops : forallb keeps_data ops = true -> lives true ops = true.
Proof.
  induction ops as [|op ops IH]; [reflexivity|]. cbn [forallb lives]. intro H.
  apply andb_true_iff in H as [H1 H2]. destruct op; try discriminate; apply IH; exact H2.
Qed.

Lemma noexs_keep ops : forallb not_exhaust ops = true -> noexs true ops = true.
Proof.
  induction ops as [|op ops IH]; [reflexivity|]. cbn [forallb noexs]. intro H.
  apply andb_true_iff in H as [H1 H2]. destruct op; try discriminate; apply IH; exact H2.
Qed.

Lemma arun_inv D : forall ops dl live noex st,
  AInv D dl live noex st -> disciplined ops st = true ->
  AInv D (dl ++ abytes (arun true ops st)) (lives live ops) (noexs noex ops)
       (aend (arun true ops st) st).
Proof.
  induction ops as [|op ops IH]; intros dl live noex st I DS.
  - cbn. rewrite app_nil_r. exact I.
  - cbn [disciplined] in DS. apply andb_true_iff in DS as [DS1 DS2].
    apply negb_true_iff in DS1.
    cbn [arun]. destruct (astep true op st) as [r st1] eqn:S. cbn [snd] in DS2.
    destruct (astep_ok _ _ _ _ _ _ _ _ I DS1 S) as (I1 & _).
    unfold abytes. cbn [map concat aend fst lives noexs]. fold (abytes (arun true ops st1)).
    rewrite app_assoc. apply IH; assumption.
Qed.

Section History.
  Variables (first : option (option bytes * bool)) (cl : option Z) (events : list event).
  Variable ops : list aop.
  Hypothesis Hwf : wfb (first_events first ++ events) = true.
  Hypothesis Hcl : forall n, cl = Some n -> 0 <= n.
  Let st0 := a_init true first cl events.
  Hypothesis Hdis : disciplined ops st0 = true.
  Let tr := arun true ops st0.
  Let D := a_declared first cl events.

  Lemma hist_inv : AInv D (abytes tr) (lives true ops) (noexs true ops) (aend tr st0).
  Proof.
    destruct (AInv_init first cl events Hwf Hcl) as (I & _).
    exact (arun_inv _ ops [] true true st0 I Hdis).
  Qed.

  Theorem asgi_prefix : exists rest, D = abytes tr ++ rest.
  Proof. exact (ai_pre _ _ _ _ _ hist_inv). Qed.

  Theorem asgi_tell_exact :
    forallb not_exhaust ops = true -> pos (aend tr st0) = len (abytes tr).
  Proof. intro H. apply (ai_tell _ _ _ _ _ hist_inv). apply noexs_keep. exact H. Qed.

  Theorem asgi_tell_ge : len (abytes tr) <= pos (aend tr st0).
  Proof. exact (ai_tell_le _ _ _ _ _ hist_inv). Qed.

  Theorem asgi_eof_complete :
    forallb keeps_data ops = true -> a_eof (aend tr st0) = true -> abytes tr = D.
  Proof.
    intros H E. pose proof (ai_live _ _ _ _ _ hist_inv (lives_keep _ H)) as DL.
    destruct (eof_inv _ E) as [B R].
    rewrite B, R, (takeZ_nonpos 0), !app_nil_r in DL by lia. symmetry. exact DL.
  Qed.

  Theorem asgi_disconnect_terminates : late (nt (aend tr st0)) = 0.
  Proof. destruct (ai_net _ _ _ _ _ hist_inv) as (_ & L & _). exact L. Qed.

  Theorem asgi_no_receive_beyond_content_length : over (nt (aend tr st0)) = 0.
  Proof. destruct (ai_net _ _ _ _ _ hist_inv) as (_ & _ & O & _). exact O. Qed.

  Theorem asgi_sized_le : forall n r st',
    0 < n -> gsusp (gen (aend tr st0)) = false ->
    astep true (ARead (Some n)) (aend tr st0) = (r, st') -> len (ares_bytes r) <= n.
  Proof.
    intros n r st' Hn G S.
    assert (DS : gsusp (gen (aend tr st0)) && sized_read (ARead (Some n)) = false)
      by (rewrite G; reflexivity).
    destruct (astep_ok _ _ _ _ _ _ _ _ hist_inv DS S) as (_ & SZ & _).
    unfold a_sized_ok in SZ. destruct (Z.eqb_spec n (-1)); [lia|]. cbn [orb] in SZ.
    apply Z.leb_le in SZ. lia.
  Qed.

  (* an empty read that asked for data reports the end of the stream *)
  Theorem asgi_empty_means_eof : forall op st',
    a_asks_for_data op = true -> gsusp (gen (aend tr st0)) && sized_read op = false ->
    astep true op (aend tr st0) = (ABytes [], st') -> a_eof st' = true.
  Proof.
    intros op st' A DS S.
    destruct (astep_ok _ _ _ _ _ _ _ _ hist_inv DS S) as (_ & _ & EM & _).
    exact (EM A eq_refl).
  Qed.
End History.

(* the declared body when a Content-Length is given *)
Lemma a_declared_cl first n events :
  a_declared first (Some n) events = takeZ n (sbody (first_events first ++ events)).
Proof. reflexivity. Qed.

(* ---- the code as found *)
Definition ev_ab : option (option bytes * bool) := Some (Some [97; 98]%N, true).

(* tell() starts at the length of the first chunk: it is 2 before anything is read and 6
   after four bytes have been returned *)
Theorem asgi_tell_exact_refuted_before_fix :
  exists first cl events ops,
    wfb (first_events first ++ events) = true /\ (forall n, cl = Some n -> 0 <= n) /\
    forallb not_exhaust ops = true /\
    let st0 := a_init false first cl events in
    let tr := arun false ops st0 in
    pos st0 <> 0 /\ pos (aend tr st0) <> len (abytes tr).
Proof.
  exists ev_ab, (Some 4), [Req (Some [99; 100]%N) false], [ARead (Some 4)].
  split; [reflexivity|]. split; [intros n [= <-]; lia|]. split; [reflexivity|].
  vm_compute. split; discriminate.
Qed.

(* an oversized chunk truncated to the budget is not counted as available: read(3) returns
   the whole 10-byte budget *)
Theorem asgi_sized_le_refuted_before_fix :
  exists first cl events n r st',
    wfb (first_events first ++ events) = true /\ 0 < n /\
    astep false (ARead (Some n)) (a_init false first cl events) = (r, st') /\
    n < len (ares_bytes r).
Proof.
  exists None, (Some 10), [Req (Some (repeat 120%N 20)) false], 3.
  eexists. eexists. split; [reflexivity|]. split; [lia|]. split; [vm_compute; reflexivity|].
  vm_compute. reflexivity.
Qed.
