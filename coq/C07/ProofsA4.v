(* C07 — ASGI BoundedStream: theorems over whole histories, and the code as found *)
From Coq Require Import ZArith NArith List Bool Lia.
From Falcon.C07 Require Import Model Spec ProofsLib ProofsA ProofsA2 ProofsA3.
Import ListNotations.
Open Scope Z_scope.

(* the consumed part of the declared body a history ends with *)
Fixpoint consumed_run (D c : bytes) (ops : list aop) (tr : list (ares * ast)) : bytes :=
  match ops, tr with
  | op :: ops', (r, _) :: tr' => consumed_run D (consumed_after D c op r) ops' tr'
  | _, _ => c
  end.

Lemma cursor_consumed' D dl op r : cursor_after D (len dl) op r = len (consumed_after D dl op r).
Proof.
  unfold cursor_after, consumed_after.
  destruct op; try (rewrite len_app; reflexivity).
  destruct r; try (rewrite len_app; reflexivity). reflexivity.
Qed.

Lemma len_consumed_run D : forall ops tr c,
  len (consumed_run D c ops tr) = acursor D (len c) ops tr.
Proof.
  induction ops as [|op ops IH]; intros tr c; [reflexivity|].
  destruct tr as [|[r st] tr]; [reflexivity|]. cbn [consumed_run acursor].
  rewrite IH, cursor_consumed'. reflexivity.
Qed.

Lemma arun_length f : forall ops st, length (arun f ops st) = length ops.
Proof.
  induction ops as [|op ops IH]; intros st; [reflexivity|].
  cbn [arun]. destruct (astep f op st). cbn [length]. rewrite IH. reflexivity.
Qed.

Lemma acursor_no_exhaust D : forall ops tr p,
  length tr = length ops -> forallb not_exhaust ops = true ->
  acursor D p ops tr = p + len (abytes tr).
Proof.
  induction ops as [|op ops IH]; intros tr p L H.
  - destruct tr; [|discriminate]. unfold abytes. cbn. lia.
  - destruct tr as [|[r st] tr]; [discriminate|]. injection L as L.
    cbn [forallb] in H. apply andb_true_iff in H as [H1 H2].
    cbn [acursor]. rewrite (IH _ _ L H2). unfold abytes. cbn [map concat fst].
    rewrite len_app. unfold cursor_after. destruct op; try lia. discriminate.
Qed.

Lemma arun_inv D : forall ops c st,
  AInv D c st -> disciplined ops st = true ->
  AInv D (consumed_run D c ops (arun true ops st)) (aend (arun true ops st) st).
Proof.
  induction ops as [|op ops IH]; intros c st I DS.
  - exact I.
  - cbn [disciplined] in DS. apply andb_true_iff in DS as [DS1 DS2].
    apply negb_true_iff in DS1.
    cbn [arun]. destruct (astep true op st) as [r st1] eqn:S. cbn [snd] in DS2.
    destruct (astep_ok _ _ _ _ _ _ I DS1 S) as (I1 & _).
    cbn [consumed_run aend]. apply IH; assumption.
Qed.

(* the bytes returned, in call order, are a prefix of what was consumed *)
Lemma consumed_run_bytes D : forall ops c st,
  AInv D c st -> disciplined ops st = true ->
  exists s, consumed_run D c ops (arun true ops st) = c ++ abytes (arun true ops st) ++ s.
Proof.
  induction ops as [|op ops IH]; intros c st I DS.
  - exists []. unfold abytes. cbn. rewrite app_nil_r. reflexivity.
  - pose proof (arun_inv D (op :: ops) c st I DS) as IF.
    cbn [disciplined] in DS. apply andb_true_iff in DS as [DS1 DS2].
    apply negb_true_iff in DS1.
    cbn [arun] in *. destruct (astep true op st) as [r st1] eqn:S. cbn [snd] in DS2.
    destruct (astep_ok _ _ _ _ _ _ I DS1 S) as (I1 & _).
    cbn [consumed_run aend] in *. unfold abytes. cbn [map concat fst]. fold (abytes (arun true ops st1)).
    destruct (IH _ _ I1 DS2) as [s E].
    assert (GEN : consumed_after D c op r = c ++ ares_bytes r ->
                  exists s0, consumed_run D (consumed_after D c op r) ops (arun true ops st1)
                             = c ++ (ares_bytes r ++ abytes (arun true ops st1)) ++ s0).
    { intro CA. exists s. rewrite E, CA, <- !app_assoc. reflexivity. }
    unfold consumed_after in *. destruct op; try (apply GEN; reflexivity).
    destruct r; try (apply GEN; reflexivity).
    (* a successful exhaust(): everything is consumed, nothing more can be returned *)
    cbn [ares_bytes app]. destruct (ai_pre _ _ _ IF) as [rest PR]. rewrite E in PR.
    rewrite <- (app_nil_r D) in PR at 1. rewrite <- !app_assoc in PR. apply app_inv_head in PR.
    symmetry in PR. apply app_eq_nil in PR as [A1 PR]. apply app_eq_nil in PR as [A2 _].
    rewrite E, A1, A2, !app_nil_r. destruct (ai_pre _ _ _ I) as [rest0 P0].
    exists rest0. cbn [app]. exact P0.
Qed.

Lemma eof_stays : forall ops st,
  a_eof st = true -> abytes (arun true ops st) = [] /\ a_eof (aend (arun true ops st) st) = true.
Proof.
  induction ops as [|op ops IH]; intros st E; [split; [reflexivity | exact E]|].
  cbn [arun]. destruct (astep true op st) as [r st1] eqn:S.
  destruct (eof_no_bytes _ _ _ _ E S) as [B E1]. destruct (IH st1 E1) as [B2 E2].
  unfold abytes in *. cbn [map concat fst aend]. rewrite B, B2. split; [reflexivity | exact E2].
Qed.

Section History.
  Variables (first : option (option bytes * bool)) (cl : option Z) (events : list event).
  Variable ops : list aop.
  Hypothesis Hwf : wfb (first_events first ++ events) = true.
  Hypothesis Hcl : forall n, cl = Some n -> 0 <= n.
  Let st0 := a_init true first cl events.
  Hypothesis Hdis : disciplined ops st0 = true.
  Let tr := arun true ops st0.
  Let D := a_declared first cl events.

  Lemma hist_inv : AInv D (consumed_run D [] ops tr) (aend tr st0).
  Proof.
    destruct (AInv_init first cl events Hwf Hcl) as (I & _).
    exact (arun_inv _ ops [] st0 I Hdis).
  Qed.

  (* returned bytes, in call order, are a prefix of the declared body: ALL histories *)
  Theorem asgi_prefix : exists rest, D = abytes tr ++ rest.
  Proof.
    destruct (AInv_init first cl events Hwf Hcl) as (I & _).
    destruct (consumed_run_bytes D ops [] st0 I Hdis) as [s E].
    destruct (ai_pre _ _ _ hist_inv) as [rest PR]. unfold tr in PR. rewrite E in PR.
    cbn [app] in PR. exists (s ++ rest). rewrite PR, <- app_assoc. reflexivity.
  Qed.

  (* tell() is the cursor: bytes returned plus bytes skipped by exhaust(): ALL histories *)
  Theorem asgi_tell_cursor : pos (aend tr st0) = acursor D 0 ops tr.
  Proof. rewrite (ai_tell _ _ _ hist_inv), len_consumed_run. reflexivity. Qed.

  (* ... in particular the number of bytes returned when exhaust() was not used *)
  Theorem asgi_tell_exact :
    forallb not_exhaust ops = true -> pos (aend tr st0) = len (abytes tr).
  Proof.
    intro H. rewrite asgi_tell_cursor, acursor_no_exhaust; [lia | apply arun_length | exact H].
  Qed.

  (* and it never exceeds the declared body *)
  Theorem asgi_tell_le_declared : len (abytes tr) <= pos (aend tr st0) <= len D.
  Proof.
    destruct (AInv_init first cl events Hwf Hcl) as (I & _).
    destruct (consumed_run_bytes D ops [] st0 I Hdis) as [s E].
    destruct (ai_pre _ _ _ hist_inv) as [rest PR].
    rewrite (ai_tell _ _ _ hist_inv). split.
    - unfold tr. rewrite E. cbn [app]. rewrite len_app. pose proof (len_nonneg s). lia.
    - rewrite PR at 2. rewrite len_app. pose proof (len_nonneg rest). lia.
  Qed.

  (* eof on an open stream means the cursor is at the end of the declared body: everything
     was returned or explicitly skipped by exhaust(): ALL histories *)
  Theorem asgi_eof_cursor :
    a_eof (aend tr st0) = true -> closed (aend tr st0) = false ->
    consumed_run D [] ops tr = D /\ pos (aend tr st0) = len D.
  Proof.
    intros E C. pose proof (ai_open _ _ _ hist_inv C) as DL.
    destruct (eof_inv _ E) as [B R].
    rewrite B, R, (takeZ_nonpos 0), !app_nil_r in DL by lia.
    split; [symmetry; exact DL|]. rewrite (ai_tell _ _ _ hist_inv), <- DL. reflexivity.
  Qed.

  (* ... hence, when nothing was skipped, the whole declared body was returned *)
  Theorem asgi_eof_complete :
    forallb not_exhaust ops = true ->
    a_eof (aend tr st0) = true -> closed (aend tr st0) = false -> abytes tr = D.
  Proof.
    intros NX E C. destruct (asgi_eof_cursor E C) as [_ P]. rewrite (asgi_tell_exact NX) in P.
    destruct asgi_prefix as [rest PR]. rewrite PR, len_app in P.
    assert (len rest = 0) by lia. apply len_zero in H. subst rest. rewrite app_nil_r in PR.
    symmetry. exact PR.
  Qed.

  (* once eof is reported, whatever is done next returns nothing and eof stays reported
     (this is what eof means after close(), too) *)

  Theorem asgi_disconnect_terminates : late (nt (aend tr st0)) = 0.
  Proof. destruct (ai_net _ _ _ hist_inv) as (_ & L & _). exact L. Qed.

  Theorem asgi_no_receive_beyond_content_length : over (nt (aend tr st0)) = 0.
  Proof. destruct (ai_net _ _ _ hist_inv) as (_ & _ & O & _). exact O. Qed.

  Theorem asgi_sized_le : forall n r st',
    0 < n -> gsusp (gen (aend tr st0)) = false ->
    astep true (ARead (Some n)) (aend tr st0) = (r, st') -> len (ares_bytes r) <= n.
  Proof.
    intros n r st' Hn G S.
    assert (DS : gsusp (gen (aend tr st0)) && sized_read (ARead (Some n)) = false)
      by (rewrite G; reflexivity).
    destruct (astep_ok _ _ _ _ _ _ hist_inv DS S) as (_ & SZ & _).
    unfold a_sized_ok in SZ. destruct (Z.eqb_spec n (-1)); [lia|]. cbn [orb] in SZ.
    apply Z.leb_le in SZ. lia.
  Qed.

  (* an empty read that asked for data reports the end of the stream *)
  Theorem asgi_empty_means_eof : forall op st',
    a_asks_for_data op = true -> gsusp (gen (aend tr st0)) && sized_read op = false ->
    astep true op (aend tr st0) = (ABytes [], st') -> a_eof st' = true.
  Proof.
    intros op st' A DS S.
    destruct (astep_ok _ _ _ _ _ _ hist_inv DS S) as (_ & _ & EM & _).
    exact (EM A eq_refl).
  Qed.

  (* exhaust() on an open stream moves the cursor to the end and reports eof;
     close() reports eof and closed, and leaves tell() where it was *)
  Theorem asgi_exhaust_to_end : forall r st',
    closed (aend tr st0) = false ->
    astep true AExhaust (aend tr st0) = (r, st') ->
    r = ANone /\ pos st' = len D /\ a_eof st' = true /\ closed st' = false.
  Proof.
    intros r st' C S. cbn [astep] in S. unfold a_exhaust in S. rewrite C in S.
    destruct (exhaust_loop _ _ _ _ _) as [[g r1] p] eqn:L. injection S as <- <-.
    pose proof hist_inv as I.
    assert (S2 : astep true AExhaust (aend tr st0) = (ANone, set_core (aend tr st0) [] 0 p g)).
    { cbn [astep]. unfold a_exhaust. rewrite C, L. reflexivity. }
    assert (DS : gsusp (gen (aend tr st0)) && sized_read AExhaust = false) by apply andb_false_r.
    destruct (astep_ok _ _ _ _ _ _ I DS S2) as (I1 & _).
    split; [reflexivity|]. split; [exact (ai_tell _ _ _ I1)|]. split; [reflexivity | exact C].
  Qed.

  Theorem asgi_close_semantics :
    let st := aend tr st0 in
    closed (a_close st) = true /\ a_eof (a_close st) = true /\ pos (a_close st) = pos st.
  Proof. cbv zeta. unfold a_close. destruct (closed (aend tr st0)) eqn:C.
    - destruct (ai_closed _ _ _ hist_inv C) as [B R]. repeat split; [exact C | apply eof_dead; assumption].
    - repeat split.
  Qed.
End History.

(* the declared body when a Content-Length is given *)
Lemma a_declared_cl first n events :
  a_declared first (Some n) events = takeZ n (sbody (first_events first ++ events)).
Proof. reflexivity. Qed.

(* ---- the code as found *)
Definition ev_ab : option (option bytes * bool) := Some (Some [97; 98]%N, true).

(* tell() starts at the length of the first chunk: it is 2 before anything is read and 6
   after four bytes have been returned *)
Theorem asgi_tell_exact_refuted_before_fix :
  exists first cl events ops,
    wfb (first_events first ++ events) = true /\ (forall n, cl = Some n -> 0 <= n) /\
    forallb not_exhaust ops = true /\
    let st0 := a_init false first cl events in
    let tr := arun false ops st0 in
    pos st0 <> 0 /\ pos (aend tr st0) <> len (abytes tr).
Proof.
  exists ev_ab, (Some 4), [Req (Some [99; 100]%N) false], [ARead (Some 4)].
  split; [reflexivity|]. split; [intros n [= <-]; lia|]. split; [reflexivity|].
  vm_compute. split; discriminate.
Qed.

(* an oversized chunk truncated to the budget is not counted as available: read(3) returns
   the whole 10-byte budget *)
Theorem asgi_sized_le_refuted_before_fix :
  exists first cl events n r st',
    wfb (first_events first ++ events) = true /\ 0 < n /\
    astep false (ARead (Some n)) (a_init false first cl events) = (r, st') /\
    n < len (ares_bytes r).
Proof.
  exists None, (Some 10), [Req (Some (repeat 120%N 20)) false], 3.
  eexists. eexists. split; [reflexivity|]. split; [lia|]. split; [vm_compute; reflexivity|].
  vm_compute. reflexivity.
Qed.

(* exhaust() as found: the discarded look-ahead buffer is not counted (tell() stays 2 although
   the 4-byte body is over and eof is reported) ... *)
Theorem asgi_exhaust_tell_refuted_before_fix :
  exists first cl events ops,
    wfb (first_events first ++ events) = true /\ (forall n, cl = Some n -> 0 <= n) /\
    let st0 := a_init false first cl events in
    let tr := arun false ops st0 in
    a_eof (aend tr st0) = true /\ closed (aend tr st0) = false /\
    pos (aend tr st0) <> len (a_declared first cl events).
Proof.
  exists None, (Some 4), [Req (Some [97; 98; 99; 100]%N) false], [ARead (Some 2); AExhaust].
  split; [reflexivity|]. split; [intros n [= <-]; lia|]. vm_compute.
  split; [reflexivity|]. split; [reflexivity | discriminate].
Qed.

(* ... and an oversized chunk is counted in full (tell() is 8 for a 4-byte declared body) *)
Theorem asgi_exhaust_oversized_refuted_before_fix :
  exists first cl events ops,
    wfb (first_events first ++ events) = true /\ (forall n, cl = Some n -> 0 <= n) /\
    let st0 := a_init false first cl events in
    let tr := arun false ops st0 in
    len (a_declared first cl events) < pos (aend tr st0).
Proof.
  exists None, (Some 4), [Req (Some (repeat 120%N 8)) false], [AExhaust].
  split; [reflexivity|]. split; [intros n [= <-]; lia|]. vm_compute. reflexivity.
Qed.
