(* C07 — the lazy stream wrappers of the request objects *)
From Coq Require Import ZArith NArith List Bool Lia.
From Falcon.C07 Require Import Model Spec ProofsLib ProofsW ProofsA ProofsA2 ProofsA3 ProofsA4.
Import ListNotations.
Open Scope Z_scope.

(* ================= WSGI: req.stream / req.bounded_stream ================= *)

(* --- what a bounded operation does to the shared source, whatever state the budget is in
   (raw reads through req.stream may have moved the source meanwhile) *)
Definition WLite (st : wst) (b : bytes) (st' : wst) : Prop :=
  s_data (w_src st) = b ++ s_data (w_src st') /\
  s_pos (w_src st') = s_pos (w_src st) + len b /\
  0 <= w_rem st' /\ w_rem st' + len b <= w_rem st.

Lemma WLite_refl st : 0 <= w_rem st -> WLite st [] st.
Proof. intro H. unfold WLite. cbn [app]. change (len (@nil N)) with 0. repeat split; lia. Qed.

Lemma WLite_trans st b1 st1 b2 st2 : WLite st b1 st1 -> WLite st1 b2 st2 -> WLite st (b1 ++ b2) st2.
Proof.
  intros (A1 & A2 & A3 & A4) (B1 & B2 & B3 & B4). unfold WLite.
  rewrite A1, B1, <- app_assoc, len_app. repeat split; lia.
Qed.

Lemma read_with_lite target size st d st' :
  TargetOK target -> 0 <= w_rem st -> size_ok size = true ->
  w_read_with true target size st = (d, st') -> WLite st d st'.
Proof.
  intros TO Hr Hs H. unfold w_read_with in H.
  destruct (clamp_range size (w_rem st) Hr Hs) as ((Z0 & Zr) & _ & _).
  set (sz := clamp size (w_rem st)) in *.
  destruct (target sz (w_src st)) as [d0 s0] eqn:T. injection H as <- <-.
  destruct (TO _ _ _ _ Z0 T) as (S1 & S2 & S3 & _). pose proof (len_nonneg d0).
  unfold WLite. cbn [w_src w_rem]. split; [exact S1|]. split; [exact S3|].
  destruct (nonempty d0) eqn:NE.
  - split; lia.
  - apply nonempty_false in NE. subst d0. change (len (@nil N)) with 0 in *.
    destruct (Z.gtb_spec sz 0); split; lia.
Qed.

Lemma readlines_loop_lite : forall fuel hint total st ls st',
  0 <= w_rem st -> w_readlines_loop fuel hint total st = (ls, st') -> WLite st (concat ls) st'.
Proof.
  induction fuel as [|f IH]; intros hint total st ls st' Hr H; cbn [w_readlines_loop] in H.
  - injection H as <- <-. apply WLite_refl. exact Hr.
  - destruct (w_readline true None st) as [l st1] eqn:R.
    pose proof (read_with_lite _ None st l st1 src_readline_ok Hr eq_refl R) as P1.
    destruct l as [|x l0]; cbn [nonempty] in H.
    + injection H as <- <-. exact P1.
    + set (l := x :: l0) in *.
      destruct (match hint with None => false | Some h => (0 <? h) && (h <=? total + len l) end).
      * injection H as <- <-. cbn [concat]. rewrite app_nil_r. exact P1.
      * destruct (w_readlines_loop f hint (total + len l) st1) as [ls2 st2] eqn:L.
        injection H as <- <-. cbn [concat]. eapply WLite_trans; [exact P1|].
        apply (IH _ _ _ _ _ (proj1 (proj2 (proj2 P1))) L).
Qed.

Lemma exhaust_loop_lite chunk : -1 <= chunk -> forall fuel st d st',
  0 <= w_rem st -> w_exhaust_loop true fuel chunk st = (d, st') -> WLite st d st'.
Proof.
  intros Hc. induction fuel as [|f IH]; intros st d st' Hr H; cbn [w_exhaust_loop] in H.
  - injection H as <- <-. apply WLite_refl. exact Hr.
  - destruct (w_read true (Some chunk) st) as [c st1] eqn:R.
    assert (SO : size_ok (Some chunk) = true) by (apply Z.leb_le; exact Hc).
    pose proof (read_with_lite _ _ st c st1 src_read_ok Hr SO R) as P1.
    destruct c as [|x c0]; cbn [nonempty] in H.
    + injection H as <- <-. exact P1.
    + destruct (w_exhaust_loop true f chunk st1) as [cs st2] eqn:L. injection H as <- <-.
      change (x :: c0 ++ cs) with ((x :: c0) ++ cs).
      eapply WLite_trans; [exact P1 | apply IH; [exact (proj1 (proj2 (proj2 P1))) | exact L]].
Qed.

Lemma wstep_lite op st r st' :
  0 <= w_rem st -> wop_ok op = true -> wstep true op st = (r, st') -> WLite st (res_bytes r) st'.
Proof.
  intros Hr OK H. destruct op as [sz|sz|h| |c|]; cbn [wstep wop_ok] in *.
  - destruct (w_read true sz st) as [d st1] eqn:R. injection H as <- <-.
    exact (read_with_lite _ _ _ _ _ src_read_ok Hr OK R).
  - destruct (w_readline true sz st) as [d st1] eqn:R. injection H as <- <-.
    exact (read_with_lite _ _ _ _ _ src_readline_ok Hr OK R).
  - destruct (w_readlines true h st) as [ls st1] eqn:R. injection H as <- <-.
    exact (readlines_loop_lite _ _ _ _ _ _ Hr R).
  - destruct (w_next true st) as [o st1] eqn:R. injection H as <- <-.
    unfold w_next in R. destruct (w_readline true None st) as [l st2] eqn:RL. injection R as <- <-.
    pose proof (read_with_lite _ None _ _ _ src_readline_ok Hr eq_refl RL) as P.
    destruct l; exact P.
  - destruct (w_exhaust true c st) as [d st1] eqn:R. injection H as <- <-.
    apply Z.leb_le in OK. exact (exhaust_loop_lite c OK _ _ _ _ Hr R).
  - injection H as <- <-. apply WLite_refl. exact Hr.
Qed.

(* raw reads through req.stream: any size, negative = everything / the whole line *)
Lemma hand_split out rest n caps s d s' :
  s_data s = out ++ rest -> hand out n caps s = (d, s') ->
  s_data s = d ++ s_data s' /\ s_pos s' = s_pos s + len d.
Proof.
  intros HS H. unfold hand in H. injection H as <- <-. cbn [s_data s_pos].
  rewrite HS, skipn_app_len. split; reflexivity.
Qed.

Lemma src_read_split n s d s' :
  src_read n s = (d, s') -> s_data s = d ++ s_data s' /\ s_pos s' = s_pos s + len d.
Proof.
  unfold src_read. destruct (n <? 0).
  - apply hand_split with (rest := []). rewrite app_nil_r. reflexivity.
  - destruct (s_caps s) as [|c caps].
    + apply hand_split with (rest := dropZ n (s_data s)). symmetry. apply takeZ_dropZ.
    + apply hand_split with (rest := dropZ (Z.min n (Z.of_nat (S c))) (s_data s)).
      symmetry. apply takeZ_dropZ.
Qed.

Lemma src_readline_split n s d s' :
  src_readline n s = (d, s') -> s_data s = d ++ s_data s' /\ s_pos s' = s_pos s + len d.
Proof.
  unfold src_readline. destruct (n <? 0).
  - apply hand_split with (rest := skipn (line_len (s_data s)) (s_data s)). apply first_line_split.
  - set (t := takeZ n (s_data s)).
    apply hand_split with (rest := skipn (line_len t) t ++ dropZ n (s_data s)).
    rewrite app_assoc, <- first_line_split. symmetry. apply takeZ_dropZ.
Qed.

Definition qop_ok (op : qop) : bool :=
  match op with QBounded o => wop_ok o | _ => true end.

Definition qbytes (tr : list (wres * wreq)) : bytes := concat (map (fun p => res_bytes (fst p)) tr).
Fixpoint qend (tr : list (wres * wreq)) (q0 : wreq) : wreq :=
  match tr with [] => q0 | (_, q) :: tl => qend tl q end.

(* bytes returned through the bounded accessor only *)
Fixpoint qbounded_len (ops : list qop) (tr : list (wres * wreq)) : Z :=
  match ops, tr with
  | QBounded _ :: ops', (r, _) :: tr' => len (res_bytes r) + qbounded_len ops' tr'
  | _ :: ops', _ :: tr' => qbounded_len ops' tr'
  | _, _ => 0
  end.

Definition q_budget_left (q : wreq) : Z := w_rem (q_wst q).

Lemma wsgi_budget_nonneg c : 0 <= wsgi_budget c.
Proof.
  unfold wsgi_budget, content_length. destruct c as [| | |n]; try lia.
  destruct (Z.ltb_spec n 0); lia.
Qed.

(* one request-level step: the shared cursor, the budget, the construction count *)
Lemma qstep_facts op q r q' :
  0 <= q_budget_left q -> qop_ok op = true -> qstep op q = (r, q') ->
  s_data (q_src q) = res_bytes r ++ s_data (q_src q') /\
  s_pos (q_src q') = s_pos (q_src q) + len (res_bytes r) /\
  0 <= q_budget_left q' /\
  q_budget_left q' + (match op with QBounded _ => len (res_bytes r) | _ => 0 end) <= q_budget_left q /\
  q_cl q' = q_cl q /\
  q_made q' = (match op, q_rem q with QBounded _, None => q_made q + 1 | _, _ => q_made q end) /\
  (match op with QBounded _ => q_rem q' <> None | _ => q_rem q' = q_rem q end).
Proof.
  intros Hb OK H. destruct op as [o|n|n]; cbn [qstep qop_ok] in *.
  - destruct (wstep true o (q_wst q)) as [r0 st'] eqn:S. injection H as <- <-.
    destruct (wstep_lite _ _ _ _ Hb OK S) as (A1 & A2 & A3 & A4).
    unfold q_budget_left, q_wst in *. cbn [q_src q_rem q_cl q_made w_rem w_src] in *.
    repeat split; try assumption; try lia; try discriminate; try (destruct (q_rem q); reflexivity).
  - destruct (src_read (raw_size n) (q_src q)) as [d s'] eqn:S. injection H as <- <-.
    destruct (src_read_split _ _ _ _ S) as (A1 & A2).
    unfold q_budget_left, q_wst in *. cbn [q_src q_rem q_cl q_made w_rem w_src res_bytes] in *.
    repeat split; try assumption; try lia; try (destruct (q_rem q); reflexivity).
  - destruct (src_readline (raw_size n) (q_src q)) as [d s'] eqn:S. injection H as <- <-.
    destruct (src_readline_split _ _ _ _ S) as (A1 & A2).
    unfold q_budget_left, q_wst in *. cbn [q_src q_rem q_cl q_made w_rem w_src res_bytes] in *.
    repeat split; try assumption; try lia; try (destruct (q_rem q); reflexivity).
Qed.

Lemma qrun_facts : forall ops q,
  0 <= q_budget_left q -> forallb qop_ok ops = true ->
  let tr := qrun ops q in
  s_data (q_src q) = qbytes tr ++ s_data (q_src (qend tr q)) /\
  s_pos (q_src (qend tr q)) = s_pos (q_src q) + len (qbytes tr) /\
  0 <= q_budget_left (qend tr q) /\
  q_budget_left (qend tr q) + qbounded_len ops tr <= q_budget_left q /\
  q_made q <= q_made (qend tr q) <= q_made q + (match q_rem q with None => 1 | Some _ => 0 end).
Proof.
  induction ops as [|op ops IH]; intros q Hb OK; cbn zeta.
  - cbn [qrun qend qbounded_len]. unfold qbytes. cbn [map concat app].
    change (len (@nil N)) with 0. destruct (q_rem q); repeat split; try reflexivity; lia.
  - cbn [forallb] in OK. apply andb_true_iff in OK as [OK1 OK2].
    cbn [qrun]. destruct (qstep op q) as [r q1] eqn:S.
    destruct (qstep_facts _ _ _ _ Hb OK1 S) as (A1 & A2 & A3 & A4 & A5 & A6 & A7).
    destruct (IH q1 A3 OK2) as (B1 & B2 & B3 & B4 & B5). cbv zeta in *.
    unfold qbytes in *. cbn [map concat fst qend qbounded_len].
    fold (qbytes (qrun ops q1)) in *.
    split; [rewrite A1, B1, <- app_assoc; reflexivity|].
    split; [rewrite len_app; lia|]. split; [exact B3|].
    split.
    + destruct op; lia.
    + destruct op as [o|n|n]; destruct (q_rem q) eqn:QR; destruct (q_rem q1) eqn:QR1;
        try (exfalso; apply A7; reflexivity); try discriminate A7; lia.
Qed.

(* THE SHARED CURSOR: however req.stream and req.bounded_stream are interleaved, the bytes
   returned through either, in call order, are exactly the bytes wsgi.input has handed out
   (nothing lost, nothing twice); the bounded accessor alone never returns more than the
   effective Content-Length in total; the wrapper is constructed at most once *)
Theorem wsgi_accessors_share_cursor c data caps ops :
  forallb qop_ok ops = true ->
  let q0 := q_init c (src0 data caps) in
  let tr := qrun ops q0 in
  data = qbytes tr ++ s_data (q_src (qend tr q0)) /\
  s_pos (q_src (qend tr q0)) = len (qbytes tr) /\
  qbounded_len ops tr <= wsgi_budget c /\
  0 <= q_made (qend tr q0) <= 1.
Proof.
  intros OK q0 tr.
  assert (Hb : 0 <= q_budget_left q0) by (unfold q_budget_left, q_wst, q0; cbn; apply wsgi_budget_nonneg).
  destruct (qrun_facts ops q0 Hb OK) as (B1 & B2 & B3 & B4 & B5).
  change (qrun ops q0) with tr in B1, B2, B3, B4, B5.
  assert (E0 : s_data (q_src q0) = data) by reflexivity.
  assert (E1 : s_pos (q_src q0) = 0) by reflexivity.
  assert (E2 : q_made q0 = 0) by reflexivity.
  assert (E3 : q_rem q0 = None) by reflexivity.
  assert (E4 : q_budget_left q0 = wsgi_budget c) by reflexivity.
  rewrite E0 in B1. rewrite E1 in B2. rewrite E2, E3 in B5. rewrite E4 in B4.
  split; [exact B1|]. split; [lia|]. split; lia.
Qed.

(* with the bounded accessor only, the request-level history IS the history of
   BoundedStream(wsgi.input, effective Content-Length): every C07_wsgi_* theorem applies with
   cl := wsgi_budget c (absent / empty / invalid / negative => 0) *)
Definition q_of (c : clen) (st : wst) (made : Z) : wreq :=
  {| q_src := w_src st; q_cl := c; q_rem := Some (w_rem st); q_made := made |}.

Lemma qrun_bounded_sim c : forall ops q st,
  q_wst q = st -> q_cl q = c ->
  map fst (qrun (map QBounded ops) q) = map fst (wrun true ops st) /\
  q_src (qend (qrun (map QBounded ops) q) q) = w_src (wend (wrun true ops st) st).
Proof.
  induction ops as [|op ops IH]; intros q st E C; [subst st; split; reflexivity|].
  cbn [map qrun wrun qstep]. rewrite E.
  destruct (wstep true op st) as [r st1] eqn:S. cbn [map fst qend wend].
  match goal with |- context [qrun _ ?q1] => destruct (IH q1 st1) as [I1 I2] end.
  - unfold q_wst. cbn. destruct st1; reflexivity.
  - cbn. exact C.
  - split; [f_equal; exact I1 | exact I2].
Qed.

Theorem wsgi_bounded_accessor_is_bounded_stream c data caps ops :
  let q0 := q_init c (src0 data caps) in
  let st0 := w_init (wsgi_budget c) (src0 data caps) in
  map fst (qrun (map QBounded ops) q0) = map fst (wrun true ops st0) /\
  q_src (qend (qrun (map QBounded ops) q0) q0) = w_src (wend (wrun true ops st0) st0).
Proof. cbv zeta. apply (qrun_bounded_sim c); reflexivity. Qed.

(* ================= ASGI: req.stream / req.bounded_stream ================= *)

Fixpoint rqend (tr : list (ares * areq)) (rq0 : areq) : areq :=
  match tr with [] => rq0 | (_, rq) :: tl => rqend tl rq end.

(* the accessor used is irrelevant: bounded_stream is an alias of stream *)
Theorem asgi_accessors_alias : forall ops rq,
  areq_run ops rq = areq_run (map (fun p => (true, snd p)) ops) rq.
Proof.
  induction ops as [|[via op] ops IH]; intros rq; [reflexivity|].
  cbn [map areq_run snd]. unfold areq_step.
  destruct (rq_stream rq) as [st|].
  - destruct (astep true op st). rewrite IH. reflexivity.
  - destruct (content_length (rq_cl rq)) as [c|]; [|rewrite IH; reflexivity].
    destruct (astep true op _). rewrite IH. reflexivity.
Qed.

(* with a valid (or absent) Content-Length the request-level history IS the history of
   BoundedStream(receive, first_event, content_length), created by the first access and never
   again: every C07_asgi_* theorem applies *)
Lemma areq_run_started : forall ops rq st,
  rq_stream rq = Some st ->
  map fst (areq_run ops rq) = map fst (arun true (map snd ops) st) /\
  rq_made (rqend (areq_run ops rq) rq) = rq_made rq.
Proof.
  induction ops as [|[via op] ops IH]; intros rq st E; [split; reflexivity|].
  cbn [areq_run map snd arun]. unfold areq_step. rewrite E.
  destruct (astep true op st) as [r st1] eqn:S. cbn [map fst rqend].
  match goal with |- context [areq_run ops ?rq1] => destruct (IH rq1 st1 eq_refl) as [I1 I2] end.
  split; [f_equal; exact I1 | exact I2].
Qed.

Theorem asgi_request_stream_is_bounded_stream first c cl events ops :
  content_length c = Some cl ->
  let rq0 := areq_init first c events in
  map fst (areq_run ops rq0) = map fst (arun true (map snd ops) (a_init true first cl events)) /\
  0 <= rq_made (rqend (areq_run ops rq0) rq0) <= 1.
Proof.
  intros CL rq0. destruct ops as [|[via op] ops]; [split; [reflexivity | cbn; lia]|].
  cbn [areq_run map snd arun]. unfold areq_step. cbn [rq_stream rq0 areq_init rq_cl rq_first rq_events rq_made].
  rewrite CL. destruct (astep true op (a_init true first cl events)) as [r st1] eqn:S.
  cbn [map fst rqend].
  match goal with |- context [areq_run ops ?rq1] => destruct (areq_run_started ops rq1 st1 eq_refl) as [I1 I2] end.
  split; [f_equal; exact I1|]. rewrite I2. cbn. lia.
Qed.

(* an invalid Content-Length surfaces as HTTPInvalidHeader on every access; no stream is made *)
Theorem asgi_invalid_content_length first c events : forall ops,
  content_length c = None ->
  let rq0 := areq_init first c events in
  Forall (fun p => fst p = AErr EInvalidHeader) (areq_run ops rq0) /\
  rqend (areq_run ops rq0) rq0 = rq0.
Proof.
  intros ops CL rq0. induction ops as [|[via op] ops IH]; [split; [constructor | reflexivity]|].
  assert (ST : areq_step via op rq0 = (AErr EInvalidHeader, rq0)).
  { unfold areq_step. cbn [rq_stream rq0 areq_init rq_cl]. rewrite CL. reflexivity. }
  cbn [areq_run]. rewrite ST. cbn [rqend].
  destruct IH as [I1 I2]. split; [constructor; [reflexivity | exact I1] | exact I2].
Qed.
