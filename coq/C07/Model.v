(* C07 — executable models of falcon/stream.py:BoundedStream (WSGI) and
   falcon/asgi/stream.py:BoundedStream (ASGI).

   bytes = list N.  Sizes, budgets and positions are Z (Python ints).  [fixed] selects the
   repaired code (fixes/C07-*.patch, applied in the checked tree); [fixed := false] is the
   code as found and is kept for the *_refuted_before_fix witnesses. *)
From Coq Require Import ZArith NArith List Bool.
Import ListNotations.
Open Scope Z_scope.

Definition bytes := list N.
Definition len {A} (l : list A) : Z := Z.of_nat (length l).
(* l[:n] and l[n:] for an int n (n <= 0 takes nothing); recursion on the list, so that huge
   budgets (2**63) are never converted to unary numbers *)
Fixpoint takeZ {A} (n : Z) (l : list A) : list A :=
  match l with
  | [] => []
  | x :: tl => if n <=? 0 then [] else x :: takeZ (n - 1) tl
  end.
Fixpoint dropZ {A} (n : Z) (l : list A) : list A :=
  match l with
  | [] => []
  | x :: tl => if n <=? 0 then l else dropZ (n - 1) tl
  end.
Definition nonempty {A} (l : list A) : bool := match l with [] => false | _ :: _ => true end.

(* ------------------------------------------------------------------ WSGI *)

(* The scripted wsgi.input (harness: class FakeInput).  It hands out [s_data] front to back.
   read(n): at most n bytes, and at most (S c) bytes where c is the next entry of the
   short-read schedule [s_caps] (no entry: no cap); readline(n): up to and including the
   first LF, at most n bytes; a negative size means "no limit" (io semantics).
   Ghost accounting: [s_pos] bytes handed out so far; [s_reach] the furthest stream offset any
   request has asked for (position before the call + requested size); [s_unb] counts
   requests without a size limit (read(-1), readline(-1), readlines(), next()). *)
Record src := { s_data : bytes; s_caps : list nat; s_pos : Z; s_reach : Z; s_unb : Z }.

Definition hand (out : bytes) (n : Z) (caps : list nat) (s : src) : bytes * src :=
  (out,
   {| s_data := skipn (length out) (s_data s); s_caps := caps;
      s_pos := s_pos s + len out;
      s_reach := if n <? 0 then s_reach s else Z.max (s_reach s) (s_pos s + n);
      s_unb := if n <? 0 then s_unb s + 1 else s_unb s |}).

Definition src_read (n : Z) (s : src) : bytes * src :=
  if n <? 0 then hand (s_data s) n (s_caps s) s
  else match s_caps s with
       | [] => hand (takeZ n (s_data s)) n [] s
       | c :: caps => hand (takeZ (Z.min n (Z.of_nat (S c))) (s_data s)) n caps s
       end.

(* length of the first line (incl. its LF) of d *)
Fixpoint line_len (d : bytes) : nat :=
  match d with
  | [] => O
  | c :: tl => if N.eqb c 10 then 1%nat else S (line_len tl)
  end.

Definition first_line (d : bytes) : bytes := firstn (line_len d) d.

Definition src_readline (n : Z) (s : src) : bytes * src :=
  if n <? 0 then hand (first_line (s_data s)) n (s_caps s) s
  else hand (first_line (takeZ n (s_data s))) n (s_caps s) s.

(* io.IOBase.readlines(hint): hint <= 0 -> every line; else lines until total >= hint *)
Fixpoint all_lines (fuel : nat) (d : bytes) : list bytes :=
  match fuel with
  | O => []
  | S f => match d with
           | [] => []
           | _ => firstn (line_len d) d :: all_lines f (skipn (line_len d) d)
           end
  end.

Fixpoint hint_lines (fuel : nat) (hint total : Z) (d : bytes) : list bytes :=
  match fuel with
  | O => []
  | S f => match d with
           | [] => []
           | _ => let l := firstn (line_len d) d in
                  l :: (if total + len l >=? hint then []
                        else hint_lines f hint (total + len l) (skipn (line_len d) d))
           end
  end.

Definition src_readlines (hint : Z) (s : src) : list bytes * src :=
  let ls := if hint <=? 0 then all_lines (length (s_data s)) (s_data s)
            else hint_lines (length (s_data s)) hint 0 (s_data s) in
  (ls, snd (hand (concat ls) (-1) (s_caps s) s)).

(* next(stream) = readline(); StopIteration when empty *)
Definition src_next (s : src) : option bytes * src :=
  let '(l, s') := src_readline (-1) s in
  (match l with [] => None | _ => Some l end, s').

Record wst := { w_rem : Z; w_src : src }.

Definition w_init (stream_len : Z) (s : src) : wst := {| w_rem := stream_len; w_src := s |}.

(* the size fix-up of _read *)
Definition clamp (size : option Z) (rem : Z) : Z :=
  match size with
  | None => rem
  | Some n => if (n =? -1) || (n >? rem) then rem else n
  end.

(* _read(size, target) for the bytes-returning targets *)
Definition w_read_with (fixed : bool) (target : Z -> src -> bytes * src)
           (size : option Z) (st : wst) : bytes * wst :=
  let sz := clamp size (w_rem st) in
  let '(d, s') := target sz (w_src st) in
  if fixed then
    (d, {| w_rem := if nonempty d then w_rem st - len d
                    else if sz >? 0 then 0 else w_rem st;
           w_src := s' |})
  else
    (d, {| w_rem := w_rem st - sz; w_src := s' |}).

Definition w_read (fixed : bool) := w_read_with fixed src_read.
Definition w_readline (fixed : bool) := w_read_with fixed src_readline.

(* repaired readlines(): the bounded readline() in a loop.  Every iteration that continues
   consumed at least one byte of the source, so fuel = S (bytes left in the source) is never
   exhausted (same argument as ProofsW.exhaust_loop_done, which is proved for exhaust();
   for readlines it is validated by the correspondence only -- the safety theorems hold for
   any fuel). *)
Fixpoint w_readlines_loop (fuel : nat) (hint : option Z) (total : Z) (st : wst)
  : list bytes * wst :=
  match fuel with
  | O => ([], st)
  | S f =>
    let '(l, st1) := w_readline true None st in
    if nonempty l then
      let total1 := total + len l in
      let stop := match hint with
                  | None => false
                  | Some h => (0 <? h) && (h <=? total1)
                  end in
      if stop then ([l], st1)
      else let '(ls, st2) := w_readlines_loop f hint total1 st1 in (l :: ls, st2)
    else ([], st1)
  end.

Definition w_readlines (fixed : bool) (hint : option Z) (st : wst) : list bytes * wst :=
  if fixed then w_readlines_loop (S (length (s_data (w_src st)))) hint 0 st
  else
    let sz := clamp hint (w_rem st) in
    let '(ls, s') := src_readlines sz (w_src st) in
    (ls, {| w_rem := w_rem st - sz; w_src := s' |}).

Definition w_next (fixed : bool) (st : wst) : option bytes * wst :=
  if fixed then
    let '(l, st1) := w_readline true None st in
    (if nonempty l then Some l else None, st1)
  else
    let '(r, s') := src_next (w_src st) in (r, {| w_rem := w_rem st; w_src := s' |}).

(* exhaust(chunk_size): read(chunk_size) until an empty chunk; returns the discarded bytes
   (ghost: the method itself returns None) *)
Fixpoint w_exhaust_loop (fixed : bool) (fuel : nat) (chunk : Z) (st : wst) : bytes * wst :=
  match fuel with
  | O => ([], st)
  | S f =>
    let '(c, st1) := w_read fixed (Some chunk) st in
    if nonempty c then let '(cs, st2) := w_exhaust_loop fixed f chunk st1 in (c ++ cs, st2)
    else ([], st1)
  end.

Definition w_exhaust (fixed : bool) (chunk : Z) (st : wst) : bytes * wst :=
  w_exhaust_loop fixed (S (length (s_data (w_src st)))) chunk st.

Definition w_eof (st : wst) : bool := w_rem st <=? 0.

Inductive wop :=
| WRead (size : option Z) | WReadline (size : option Z) | WReadlines (hint : option Z)
| WNext | WExhaust (chunk : Z) | WEof.

Inductive wres :=
| RBytes (b : bytes) | RLines (l : list bytes) | RStop | RDiscard (b : bytes) | RBool (b : bool).

Definition wstep (fixed : bool) (op : wop) (st : wst) : wres * wst :=
  match op with
  | WRead sz => let '(d, st') := w_read fixed sz st in (RBytes d, st')
  | WReadline sz => let '(d, st') := w_readline fixed sz st in (RBytes d, st')
  | WReadlines h => let '(ls, st') := w_readlines fixed h st in (RLines ls, st')
  | WNext => let '(r, st') := w_next fixed st in
             (match r with Some l => RBytes l | None => RStop end, st')
  | WExhaust c => let '(d, st') := w_exhaust fixed c st in (RDiscard d, st')
  | WEof => (RBool (w_eof st), st)
  end.

(* a history: every result together with the state it left behind *)
Fixpoint wrun (fixed : bool) (ops : list wop) (st : wst) : list (wres * wst) :=
  match ops with
  | [] => []
  | op :: tl => let '(r, st1) := wstep fixed op st in (r, st1) :: wrun fixed tl st1
  end.

(* bytes an operation took from the stream (returned to the caller or discarded by exhaust) *)
Definition res_bytes (r : wres) : bytes :=
  match r with
  | RBytes b => b | RLines l => concat l | RDiscard b => b | RStop => [] | RBool _ => []
  end.

(* ------------------------------------------------------------------ ASGI *)

(* http.request event with optional 'body' key and truthiness of 'more_body', or
   http.disconnect.  receive() on an exhausted script answers http.disconnect (what a server
   does after the client has gone). *)
Inductive event := Req (body : option bytes) (more : bool) | Disc.

Definition ev_body (e : event) : option bytes := match e with Req b _ => b | Disc => None end.
Definition ev_more (e : event) : bool := match e with Req _ m => m | Disc => false end.
Definition is_disc (e : event) : bool := match e with Disc => true | Req _ _ => false end.
Definition obody (b : option bytes) : bytes := match b with Some c => c | None => [] end.

(* the scripted receive() with its ghost accounting:
   awaits = calls; disc = a disconnect has been returned; late = calls made after that;
   rcvd = body bytes received so far (first event included); over = calls made although a
   declared Content-Length had already been received in full *)
Record net := { evs : list event; awaits : Z; disc : bool; late : Z; rcvd : Z; over : Z;
                climit : option Z }.

Definition g_recv (g : net) (e : event) (tl : list event) : net :=
  {| evs := tl; awaits := awaits g + 1;
     disc := disc g || is_disc e;
     late := if disc g then late g + 1 else late g;
     rcvd := rcvd g + len (obody (ev_body e));
     over := match climit g with
             | Some n => if rcvd g >=? n then over g + 1 else over g
             | None => over g
             end;
     climit := climit g |}.

(* generator object returned by __aiter__ (async def _iter_content) *)
Inductive gstate := GNone | GFresh | GAfterBuf | GInLoop (more : bool) | GDone.

Record ast := { buf : bytes; rem : Z; pos : Z; closed : bool; started : bool;
                gen : gstate; nt : net }.

Definition two63 : Z := 2 ^ 63.

(* __init__(receive, first_event, content_length); first_event = None | dict with optional
   'body' and 'more_body' (a dict always carries 'type', so it is truthy) *)
Definition first_chunk (first : option (option bytes * bool)) : bytes :=
  match first with Some (Some b, _) => b | _ => [] end.

Definition a_init (fixed : bool) (first : option (option bytes * bool)) (cl : option Z)
           (events : list event) : ast :=
  let fc := first_chunk first in
  let b0 := match cl with
            | None => fc
            | Some n => if len fc >? n then takeZ n fc else fc
            end in
  let r0 := match cl with None => two63 | Some n => n - len b0 end in
  let r1 := match first with
            | Some (_, more) => if negb (r0 =? 0) then (if more then r0 else 0) else r0
            | None => r0
            end in
  {| buf := b0; rem := r1; pos := if fixed then 0 else len b0;
     closed := false; started := false; gen := GNone;
     nt := {| evs := events; awaits := 0; disc := false; late := 0;
              rcvd := len fc; over := 0; climit := cl |} |}.

Definition a_eof (st : ast) : bool := negb (nonempty (buf st)) && (rem st =? 0).

Definition a_close (st : ast) : ast :=
  if closed st then st
  else {| buf := []; rem := 0; pos := pos st; closed := true; started := started st;
          gen := gen st; nt := nt st |}.

(* one receive(): the next scripted event, or http.disconnect when the script is over *)
Definition recv_split (ev : list event) : event * list event :=
  match ev with [] => (Disc, []) | e :: tl => (e, tl) end.

(* exhaust(): while self._bytes_remaining > 0.  Repaired code ([fixed]): a chunk larger than
   the budget is counted only up to the budget (as read()/readall()/iteration truncate it);
   as found, the whole chunk length was subtracted and added to the position. *)
Fixpoint exhaust_loop (fixed : bool) (ev : list event) (g : net) (r p : Z) : net * Z * Z :=
  if r >? 0 then
    match ev with
    | [] => (g_recv g Disc [], 0, p)
    | e :: tl =>
      let g' := g_recv g e tl in
      match e with
      | Disc => exhaust_loop fixed tl g' 0 p
      | Req b more =>
        let n0 := len (obody b) in
        let n := if fixed && (n0 >? r) then r else n0 in
        exhaust_loop fixed tl g' (if more then r - n else 0) (p + n)
      end
    end
  else (g, r, p).

(* the common body of the read()/readall() loops for one event: append the (possibly
   truncated) chunk, adjust the budget and -- read() only -- the available count *)
Definition absorb (fixed : bool) (e : event) (r avail : Z) (acc : bytes) : Z * Z * bytes :=
  let '(r1, avail1, acc1) :=
    match ev_body e with
    | None => (r, avail, acc)
    | Some c =>
      if len c <=? r then (r - len c, avail + len c, acc ++ c)
      else (0, (if fixed then avail + r else avail + 0), acc ++ takeZ r c)
    end in
  ((if ev_more e then r1 else 0), avail1, acc1).

(* readall(): while self._bytes_remaining > 0 *)
Fixpoint readall_loop (ev : list event) (g : net) (r : Z) (acc : bytes) : net * Z * bytes :=
  if r >? 0 then
    match ev with
    | [] => (g_recv g Disc [], 0, acc)
    | e :: tl =>
      let '(r', _, acc') := absorb true e r 0 acc in
      readall_loop tl (g_recv g e tl) r' acc'
    end
  else (g, r, acc).

(* read(size): while self._bytes_remaining > 0 and num_bytes_available < size *)
Fixpoint read_loop (fixed : bool) (size : Z) (ev : list event) (g : net) (r avail : Z)
         (acc : bytes) : net * Z * Z * bytes :=
  if (r >? 0) && (avail <? size) then
    match ev with
    | [] => (g_recv g Disc [], 0, avail, acc)
    | e :: tl =>
      let '(r', avail', acc') := absorb fixed e r avail acc in
      read_loop fixed size tl (g_recv g e tl) r' avail' acc'
    end
  else (g, r, avail, acc).

Inductive aerr := ENotAllowed | EValueError | EInvalidHeader.

Inductive ares :=
| ABytes (b : bytes) | AStop | AErr (e : aerr) | ANone | ABool (b : bool) | AInt (z : Z).

Definition set_core (st : ast) (b : bytes) (r p : Z) (g : net) : ast :=
  {| buf := b; rem := r; pos := p; closed := closed st; started := started st;
     gen := gen st; nt := g |}.

(* exhaust(): the look-ahead buffer is discarded too; the repaired code counts it in the
   position (as found, it was dropped silently) *)
Definition a_exhaust (fixed : bool) (st : ast) : ares * ast :=
  if closed st then (AErr EValueError, st)
  else
    let p0 := if fixed then pos st + len (buf st) else pos st in
    let '(g, _, p) := exhaust_loop fixed (evs (nt st)) (nt st) (rem st) p0 in
    (ANone, set_core st [] 0 p g).

Definition a_readall (st : ast) : ares * ast :=
  if closed st then (AErr ENotAllowed, st)
  else if a_eof st then (ABytes [], st)
  else
    let '(g, r, data) := readall_loop (evs (nt st)) (nt st) (rem st) (buf st) in
    (ABytes data, set_core st [] r (pos st + len data) g).

Definition a_read (fixed : bool) (size : option Z) (st : ast) : ares * ast :=
  if closed st then (AErr ENotAllowed, st)
  else if a_eof st then (ABytes [], st)
  else match size with
  | None => a_readall st
  | Some n =>
    if n =? -1 then a_readall st
    else if n <=? 0 then (ABytes [], st)
    else
      let '(g, r, avail, joined) :=
        read_loop fixed n (evs (nt st)) (nt st) (rem st) (len (buf st)) (buf st) in
      let '(data, rest) := if avail <=? n then (joined, []) else (takeZ n joined, dropZ n joined) in
      (ABytes data, set_core st rest r (pos st + len data) g)
  end.

(* the while loop of _iter_content up to its next yield (Some chunk, with the event's
   more_body flag that is examined on resumption) or its end (None) *)
Fixpoint iter_loop (ev : list event) (g : net) (r p : Z) : option (bytes * bool) * net * Z * Z :=
  if r >? 0 then
    match ev with
    | [] => (None, g_recv g Disc [], 0, p)
    | e :: tl =>
      let g' := g_recv g e tl in
      match ev_body e with
      | Some (x :: c') =>
        let c := x :: c' in
        if len c <=? r then (Some (c, ev_more e), g', r - len c, p + len c)
        else (Some (takeZ r c, ev_more e), g', 0, p + r)
      | _ => iter_loop tl g' (if ev_more e then r else 0) p
      end
    end
  else (None, g, r, p).

Definition set_gen (st : ast) (gs : gstate) : ast :=
  {| buf := buf st; rem := rem st; pos := pos st; closed := closed st; started := started st;
     gen := gs; nt := nt st |}.

Definition a_resume_loop (st : ast) (r : Z) : ares * ast :=
  let '(y, g, r', p') := iter_loop (evs (nt st)) (nt st) r (pos st) in
  match y with
  | Some (c, more) =>
    (ABytes c, {| buf := buf st; rem := r'; pos := p'; closed := closed st;
                  started := started st; gen := GInLoop more; nt := g |})
  | None =>
    (AStop, {| buf := buf st; rem := r'; pos := p'; closed := closed st;
               started := started st; gen := GDone; nt := g |})
  end.

(* __anext__ on the held generator (a fresh one is created when none is held) *)
Definition a_next (st : ast) : ares * ast :=
  match gen st with
  | GDone => (AStop, st)
  | GNone | GFresh =>
    if closed st then (AErr ENotAllowed, set_gen st GDone)
    else if a_eof st then (AStop, set_gen st GDone)
    else if started st then (AErr ENotAllowed, set_gen st GDone)
    else if nonempty (buf st) then
      (ABytes (buf st),
       {| buf := []; rem := rem st; pos := pos st + len (buf st); closed := closed st;
          started := true; gen := GAfterBuf; nt := nt st |})
    else
      a_resume_loop {| buf := buf st; rem := rem st; pos := pos st; closed := closed st;
                       started := true; gen := gen st; nt := nt st |} (rem st)
  | GAfterBuf => a_resume_loop st (rem st)
  | GInLoop more => a_resume_loop st (if more then rem st else 0)
  end.

Inductive aop :=
| ARead (size : option Z) | AReadAll | ANext | AIterNew | AExhaust | AClose
| ATell | AEof | AClosed.

Definition astep (fixed : bool) (op : aop) (st : ast) : ares * ast :=
  match op with
  | ARead sz => a_read fixed sz st
  | AReadAll => a_readall st
  | ANext => a_next st
  | AIterNew => (ANone, set_gen st GFresh)
  | AExhaust => a_exhaust fixed st
  | AClose => (ANone, a_close st)
  | ATell => (AInt (pos st), st)
  | AEof => (ABool (a_eof st), st)
  | AClosed => (ABool (closed st), st)
  end.

Fixpoint arun (fixed : bool) (ops : list aop) (st : ast) : list (ares * ast) :=
  match ops with
  | [] => []
  | op :: tl => let '(r, st1) := astep fixed op st in (r, st1) :: arun fixed tl st1
  end.

Definition ares_bytes (r : ares) : bytes := match r with ABytes b => b | _ => [] end.

(* ------------------------------------------------------------------ the request objects *)

(* The Content-Length header as the request object reads it (falcon/request.py and
   falcon/asgi/request.py: content_length): absent, present but empty, not an int(), or an
   integer (a negative one is rejected like a non-integer). *)
Inductive clen := CAbsent | CEmpty | CInvalid | CValue (n : Z).

(* Request.content_length: None = raises HTTPInvalidHeader; Some None = returns None *)
Definition content_length (c : clen) : option (option Z) :=
  match c with
  | CAbsent | CEmpty => Some None
  | CInvalid => None
  | CValue n => if n <? 0 then None else Some (Some n)
  end.

(* falcon.Request (WSGI).  req.stream IS env['wsgi.input'] (unbounded, shares the server's
   cursor); req.bounded_stream is created lazily, at most once, by _get_wrapped_wsgi_input:
   BoundedStream(env['wsgi.input'], content_length or 0), an invalid header counting as 0.
   [q_rem] = None until the wrapper exists, then its remaining budget (its only own state:
   the source is shared); [q_made] counts constructions. *)
Definition wsgi_budget (c : clen) : Z :=
  match content_length c with Some (Some n) => n | _ => 0 end.

Record wreq := { q_src : src; q_cl : clen; q_rem : option Z; q_made : Z }.

Inductive qop :=
| QBounded (op : wop)                 (* req.bounded_stream.<op> *)
| QRawRead (n : option Z)             (* req.stream.read(n) *)
| QRawReadline (n : option Z).        (* req.stream.readline(n) *)

Definition q_wst (q : wreq) : wst :=
  {| w_rem := match q_rem q with Some r => r | None => wsgi_budget (q_cl q) end;
     w_src := q_src q |}.

Definition raw_size (n : option Z) : Z := match n with Some k => k | None => -1 end.

Definition qstep (op : qop) (q : wreq) : wres * wreq :=
  match op with
  | QBounded o =>
    let '(r, st') := wstep true o (q_wst q) in
    (r, {| q_src := w_src st'; q_cl := q_cl q; q_rem := Some (w_rem st');
           q_made := match q_rem q with Some _ => q_made q | None => q_made q + 1 end |})
  | QRawRead n =>
    let '(d, s') := src_read (raw_size n) (q_src q) in
    (RBytes d, {| q_src := s'; q_cl := q_cl q; q_rem := q_rem q; q_made := q_made q |})
  | QRawReadline n =>
    let '(d, s') := src_readline (raw_size n) (q_src q) in
    (RBytes d, {| q_src := s'; q_cl := q_cl q; q_rem := q_rem q; q_made := q_made q |})
  end.

Fixpoint qrun (ops : list qop) (q : wreq) : list (wres * wreq) :=
  match ops with
  | [] => []
  | op :: tl => let '(r, q1) := qstep op q in (r, q1) :: qrun tl q1
  end.

Definition q_init (c : clen) (s : src) : wreq :=
  {| q_src := s; q_cl := c; q_rem := None; q_made := 0 |}.

(* falcon.asgi.Request.  __init__ keeps receive and first_event; req.stream creates, at most
   once, BoundedStream(receive, first_event=self._first_event,
   content_length=self.content_length) -- so an invalid Content-Length surfaces there as
   HTTPInvalidHeader -- and req.bounded_stream is an alias of req.stream. *)
Record areq := { rq_first : option (option bytes * bool); rq_cl : clen;
                 rq_events : list event; rq_stream : option ast; rq_made : Z }.

(* accessor used for the operation: true = req.stream, false = req.bounded_stream *)
Definition areq_step (via_stream : bool) (op : aop) (rq : areq) : ares * areq :=
  match rq_stream rq with
  | Some st =>
    let '(r, st') := astep true op st in
    (r, {| rq_first := rq_first rq; rq_cl := rq_cl rq; rq_events := rq_events rq;
           rq_stream := Some st'; rq_made := rq_made rq |})
  | None =>
    match content_length (rq_cl rq) with
    | None => (AErr EInvalidHeader, rq)
    | Some c =>
      let '(r, st') := astep true op (a_init true (rq_first rq) c (rq_events rq)) in
      (r, {| rq_first := rq_first rq; rq_cl := rq_cl rq; rq_events := rq_events rq;
             rq_stream := Some st'; rq_made := rq_made rq + 1 |})
    end
  end.

Fixpoint areq_run (ops : list (bool * aop)) (rq : areq) : list (ares * areq) :=
  match ops with
  | [] => []
  | (via, op) :: tl => let '(r, rq1) := areq_step via op rq in (r, rq1) :: areq_run tl rq1
  end.

Definition areq_init (first : option (option bytes * bool)) (c : clen) (events : list event) : areq :=
  {| rq_first := first; rq_cl := c; rq_events := events; rq_stream := None; rq_made := 0 |}.
