(* C07 — property theorems only.  Each is closed by [exact] of a lemma from Proofs*.v and
   followed by Print Assumptions.  [true] selects the model of the repaired code (the code the
   check runs against, fixes/C07-*.patch applied); [false] the code as found. *)
From Coq Require Import ZArith NArith List Bool Lia.
From Falcon.C07 Require Import Model Spec ProofsLib ProofsW ProofsA ProofsA2 ProofsA3 ProofsA4 ProofsReq.
Import ListNotations.
Open Scope Z_scope.

(* ======================= WSGI: falcon.stream.BoundedStream =======================
   For every Content-Length cl >= 0, every body [data] the server holds (shorter, equal or
   longer than cl), every short-read schedule [caps] and every history [ops] of
   read/readline/readlines/next/exhaust/eof with sizes None, -1 or >= 0: *)

(* the bytes taken from the stream, in call order, are a prefix of the declared body *)
Theorem C07_wsgi_prefix : forall cl data caps ops,
  0 <= cl -> forallb wop_ok ops = true ->
  let st0 := w_init cl (src0 data caps) in
  exists rest, w_declared cl data = wbytes (wrun true ops st0) ++ rest.
Proof. exact wsgi_prefix. Qed.
Print Assumptions C07_wsgi_prefix.

(* nothing is lost: wsgi.input has handed out exactly the bytes that were returned *)
Theorem C07_wsgi_no_loss : forall cl data caps ops,
  0 <= cl -> forallb wop_ok ops = true ->
  let st0 := w_init cl (src0 data caps) in
  s_pos (w_src (wend (wrun true ops st0) st0)) = len (wbytes (wrun true ops st0)).
Proof. exact wsgi_no_loss. Qed.
Print Assumptions C07_wsgi_no_loss.

(* wsgi.input is never asked for an offset beyond Content-Length, nor without a bound *)
Theorem C07_wsgi_no_overread : forall cl data caps ops,
  0 <= cl -> forallb wop_ok ops = true ->
  let st0 := w_init cl (src0 data caps) in
  s_reach (w_src (wend (wrun true ops st0) st0)) <= cl /\
  s_unb (w_src (wend (wrun true ops st0) st0)) = 0.
Proof. exact wsgi_no_overread. Qed.
Print Assumptions C07_wsgi_no_overread.

(* once eof is reported the whole declared body has been delivered *)
Theorem C07_wsgi_eof_complete : forall cl data caps ops,
  0 <= cl -> forallb wop_ok ops = true ->
  let st0 := w_init cl (src0 data caps) in
  w_eof (wend (wrun true ops st0) st0) = true -> wbytes (wrun true ops st0) = w_declared cl data.
Proof. exact wsgi_eof_complete. Qed.
Print Assumptions C07_wsgi_eof_complete.

(* and eof is reported as soon as Content-Length bytes have been delivered *)
Theorem C07_wsgi_eof_when_full : forall cl data caps ops,
  0 <= cl -> forallb wop_ok ops = true ->
  let st0 := w_init cl (src0 data caps) in
  len (wbytes (wrun true ops st0)) = cl -> w_eof (wend (wrun true ops st0) st0) = true.
Proof. exact wsgi_eof_when_full. Qed.
Print Assumptions C07_wsgi_eof_when_full.

(* after any history, a sized read / readline returns at most its size *)
Theorem C07_wsgi_sized_le : forall cl data caps ops,
  0 <= cl -> forallb wop_ok ops = true ->
  let st0 := w_init cl (src0 data caps) in
  forall op n r st',
    (op = WRead (Some n) \/ op = WReadline (Some n)) -> 0 <= n ->
    wstep true op (wend (wrun true ops st0) st0) = (r, st') -> len (res_bytes r) <= n.
Proof. exact wsgi_sized_le. Qed.
Print Assumptions C07_wsgi_sized_le.

(* after any history, an empty result of an operation that asks for data (read(), read(n>0),
   readline, readlines, next -> StopIteration) means the declared body is over *)
Theorem C07_wsgi_empty_means_end : forall cl data caps ops,
  0 <= cl -> forallb wop_ok ops = true ->
  let st0 := w_init cl (src0 data caps) in
  forall op r st',
    wop_ok op = true -> asks_for_data op = true ->
    wstep true op (wend (wrun true ops st0) st0) = (r, st') -> res_bytes r = [] ->
    wbytes (wrun true ops st0) = w_declared cl data /\ w_eof st' = true.
Proof. exact wsgi_empty_means_end. Qed.
Print Assumptions C07_wsgi_empty_means_end.

(* after any history, exhaust(chunk_size) with a positive (or -1) chunk size leaves the stream
   at eof: its loop ends because read() returned nothing, never because the model's fuel ran
   out *)
Theorem C07_wsgi_exhaust_reaches_eof : forall cl data caps ops chunk r st',
  0 <= cl -> forallb wop_ok ops = true -> (chunk = -1 \/ 0 < chunk) ->
  let st0 := w_init cl (src0 data caps) in
  wstep true (WExhaust chunk) (wend (wrun true ops st0) st0) = (r, st') -> w_eof st' = true.
Proof. exact wsgi_exhaust_reaches_eof. Qed.
Print Assumptions C07_wsgi_exhaust_reaches_eof.

(* the executable oracle the harness applies to the real stream accepts the model on every
   history *)
Theorem C07_w_oracle_sound : forall cl data caps ops,
  0 <= cl -> forallb wop_ok ops = true ->
  w_oracle cl data (w_observes ops (wrun true ops (w_init cl (src0 data caps)))) = [].
Proof. exact w_oracle_sound. Qed.
Print Assumptions C07_w_oracle_sound.

(* --- the code as found (fixed := false) violates three clauses; each witness replayed on the
   unpatched implementation reproduced (corpus/C07/*.json) *)
Theorem C07_wsgi_eof_complete_refuted_before_fix :
  exists cl data caps ops, 0 <= cl /\ forallb wop_ok ops = true /\
    let st0 := w_init cl (src0 data caps) in
    let tr := wrun false ops st0 in
    w_eof (wend tr st0) = true /\ wbytes tr <> w_declared cl data.
Proof. exact wsgi_eof_complete_refuted_before_fix. Qed.
Print Assumptions C07_wsgi_eof_complete_refuted_before_fix.

Theorem C07_wsgi_short_read_refuted_before_fix :
  exists cl data caps ops, 0 <= cl /\ forallb wop_ok ops = true /\
    let st0 := w_init cl (src0 data caps) in
    let tr := wrun false ops st0 in
    w_eof (wend tr st0) = true /\ wbytes tr <> w_declared cl data.
Proof. exact wsgi_short_read_refuted_before_fix. Qed.
Print Assumptions C07_wsgi_short_read_refuted_before_fix.

Theorem C07_wsgi_no_overread_refuted_before_fix :
  exists cl data caps ops, 0 <= cl /\ forallb wop_ok ops = true /\
    let st0 := w_init cl (src0 data caps) in
    let tr := wrun false ops st0 in
    s_unb (w_src (wend tr st0)) <> 0 /\
    ~ (exists rest, w_declared cl data = wbytes tr ++ rest).
Proof. exact wsgi_no_overread_refuted_before_fix. Qed.
Print Assumptions C07_wsgi_no_overread_refuted_before_fix.

Theorem C07_wsgi_readlines_refuted_before_fix :
  exists cl data caps ops, 0 <= cl /\ forallb wop_ok ops = true /\
    let st0 := w_init cl (src0 data caps) in
    let tr := wrun false ops st0 in
    ~ (exists rest, w_declared cl data = wbytes tr ++ rest).
Proof. exact wsgi_readlines_refuted_before_fix. Qed.
Print Assumptions C07_wsgi_readlines_refuted_before_fix.

(* ======================= ASGI: falcon.asgi.stream.BoundedStream =======================
   For every first event (absent, with/without body and more_body), every Content-Length
   (absent or >= 0), every event script obeying the server contract [wfb] (after an event
   without more_body or a disconnect only disconnects follow; receive() on an exhausted script
   answers http.disconnect), and every history [ops] of read(n)/read()/readall/__anext__/
   __aiter__/exhaust/close/tell/eof/closed that obeys the documented usage rule
   [disciplined] (no sized read while an iteration is suspended): *)

Theorem C07_asgi_prefix : forall first cl events ops,
  wfb (first_events first ++ events) = true -> (forall n, cl = Some n -> 0 <= n) ->
  let st0 := a_init true first cl events in
  disciplined ops st0 = true ->
  exists rest, a_declared first cl events = abytes (arun true ops st0) ++ rest.
Proof. exact asgi_prefix. Qed.
Print Assumptions C07_asgi_prefix.

(* POSITION AND END-OF-STREAM INDICATORS, FOR ALL HISTORIES (exhaust() and close() included).
   What the property demands of them: the stream is a cursor over the declared body.
   tell() is the cursor: the number of declared-body bytes consumed so far, i.e. returned by
   a read or explicitly skipped by exhaust() (a successful exhaust() skips everything that was
   left, [cursor_after]); close() abandons the stream where it is.  eof says "nothing more
   will be returned": on an open stream it is reported only when the cursor is at the end of the
   declared body (so everything was returned, or skipped on request), and on any stream --
   closed ones too -- nothing is returned after it was reported. *)

(* tell() = cursor, for all histories ... *)
Theorem C07_asgi_tell_cursor : forall first cl events ops,
  wfb (first_events first ++ events) = true -> (forall n, cl = Some n -> 0 <= n) ->
  let st0 := a_init true first cl events in
  disciplined ops st0 = true ->
  pos (aend (arun true ops st0) st0)
  = acursor (a_declared first cl events) 0 ops (arun true ops st0).
Proof. exact asgi_tell_cursor. Qed.
Print Assumptions C07_asgi_tell_cursor.

(* ... which is exactly the number of bytes returned when exhaust() is not used ... *)
Theorem C07_asgi_tell_exact : forall first cl events ops,
  wfb (first_events first ++ events) = true -> (forall n, cl = Some n -> 0 <= n) ->
  let st0 := a_init true first cl events in
  disciplined ops st0 = true -> forallb not_exhaust ops = true ->
  pos (aend (arun true ops st0) st0) = len (abytes (arun true ops st0)).
Proof. exact asgi_tell_exact. Qed.
Print Assumptions C07_asgi_tell_exact.

(* ... and always between the bytes returned and the length of the declared body *)
Theorem C07_asgi_tell_le_declared : forall first cl events ops,
  wfb (first_events first ++ events) = true -> (forall n, cl = Some n -> 0 <= n) ->
  let st0 := a_init true first cl events in
  disciplined ops st0 = true ->
  len (abytes (arun true ops st0)) <= pos (aend (arun true ops st0) st0)
                                   <= len (a_declared first cl events).
Proof. exact asgi_tell_le_declared. Qed.
Print Assumptions C07_asgi_tell_le_declared.

(* eof on an open stream: the cursor is at the end of the declared body, for all histories *)
Theorem C07_asgi_eof_cursor : forall first cl events ops,
  wfb (first_events first ++ events) = true -> (forall n, cl = Some n -> 0 <= n) ->
  let st0 := a_init true first cl events in
  disciplined ops st0 = true ->
  a_eof (aend (arun true ops st0) st0) = true -> closed (aend (arun true ops st0) st0) = false ->
  consumed_run (a_declared first cl events) [] ops (arun true ops st0) = a_declared first cl events /\
  pos (aend (arun true ops st0) st0) = len (a_declared first cl events).
Proof. exact asgi_eof_cursor. Qed.
Print Assumptions C07_asgi_eof_cursor.

(* hence, when nothing was skipped by exhaust(), the whole declared body was returned *)
Theorem C07_asgi_eof_complete : forall first cl events ops,
  wfb (first_events first ++ events) = true -> (forall n, cl = Some n -> 0 <= n) ->
  let st0 := a_init true first cl events in
  disciplined ops st0 = true -> forallb not_exhaust ops = true ->
  a_eof (aend (arun true ops st0) st0) = true -> closed (aend (arun true ops st0) st0) = false ->
  abytes (arun true ops st0) = a_declared first cl events.
Proof. exact asgi_eof_complete. Qed.
Print Assumptions C07_asgi_eof_complete.

(* after eof was reported -- in ANY state, reachable or not, open, exhausted or closed --
   nothing is ever returned again and eof stays reported *)
Theorem C07_asgi_eof_final : forall more_ops st,
  a_eof st = true ->
  abytes (arun true more_ops st) = [] /\ a_eof (aend (arun true more_ops st) st) = true.
Proof. exact eof_stays. Qed.
Print Assumptions C07_asgi_eof_final.

(* exhaust() on an open stream: cursor to the end, eof reported *)
Theorem C07_asgi_exhaust_to_end : forall first cl events ops,
  wfb (first_events first ++ events) = true -> (forall n, cl = Some n -> 0 <= n) ->
  let st0 := a_init true first cl events in
  disciplined ops st0 = true ->
  forall r st', closed (aend (arun true ops st0) st0) = false ->
    astep true AExhaust (aend (arun true ops st0) st0) = (r, st') ->
    r = ANone /\ pos st' = len (a_declared first cl events) /\ a_eof st' = true /\ closed st' = false.
Proof. exact asgi_exhaust_to_end. Qed.
Print Assumptions C07_asgi_exhaust_to_end.

(* close(): closed and eof reported, tell() unchanged *)
Theorem C07_asgi_close_semantics : forall first cl events ops,
  wfb (first_events first ++ events) = true -> (forall n, cl = Some n -> 0 <= n) ->
  let st0 := a_init true first cl events in
  disciplined ops st0 = true ->
  let st := aend (arun true ops st0) st0 in
  closed (a_close st) = true /\ a_eof (a_close st) = true /\ pos (a_close st) = pos st.
Proof. exact asgi_close_semantics. Qed.
Print Assumptions C07_asgi_close_semantics.

(* a disconnect ends the stream: receive() is never awaited again after it returned
   http.disconnect *)
Theorem C07_asgi_disconnect_terminates : forall first cl events ops,
  wfb (first_events first ++ events) = true -> (forall n, cl = Some n -> 0 <= n) ->
  let st0 := a_init true first cl events in
  disciplined ops st0 = true -> late (nt (aend (arun true ops st0) st0)) = 0.
Proof. exact asgi_disconnect_terminates. Qed.
Print Assumptions C07_asgi_disconnect_terminates.

(* receive() is never awaited once Content-Length body bytes have been received *)
Theorem C07_asgi_no_receive_beyond_content_length : forall first cl events ops,
  wfb (first_events first ++ events) = true -> (forall n, cl = Some n -> 0 <= n) ->
  let st0 := a_init true first cl events in
  disciplined ops st0 = true -> over (nt (aend (arun true ops st0) st0)) = 0.
Proof. exact asgi_no_receive_beyond_content_length. Qed.
Print Assumptions C07_asgi_no_receive_beyond_content_length.

Theorem C07_asgi_sized_le : forall first cl events ops,
  wfb (first_events first ++ events) = true -> (forall n, cl = Some n -> 0 <= n) ->
  let st0 := a_init true first cl events in
  disciplined ops st0 = true ->
  forall n r st',
    0 < n -> gsusp (gen (aend (arun true ops st0) st0)) = false ->
    astep true (ARead (Some n)) (aend (arun true ops st0) st0) = (r, st') ->
    len (ares_bytes r) <= n.
Proof. exact asgi_sized_le. Qed.
Print Assumptions C07_asgi_sized_le.

Theorem C07_asgi_empty_means_eof : forall first cl events ops,
  wfb (first_events first ++ events) = true -> (forall n, cl = Some n -> 0 <= n) ->
  let st0 := a_init true first cl events in
  disciplined ops st0 = true ->
  forall op st',
    a_asks_for_data op = true ->
    gsusp (gen (aend (arun true ops st0) st0)) && sized_read op = false ->
    astep true op (aend (arun true ops st0) st0) = (ABytes [], st') -> a_eof st' = true.
Proof. exact asgi_empty_means_eof. Qed.
Print Assumptions C07_asgi_empty_means_eof.

Theorem C07_a_oracle_sound : forall first cl events ops,
  wfb (first_events first ++ events) = true -> (forall n, cl = Some n -> 0 <= n) ->
  let st0 := a_init true first cl events in
  a_oracle first cl events (pos st0) (a_eof st0) (a_observes ops (arun true ops st0)) = [].
Proof. exact a_oracle_sound. Qed.
Print Assumptions C07_a_oracle_sound.

Theorem C07_asgi_tell_exact_refuted_before_fix :
  exists first cl events ops,
    wfb (first_events first ++ events) = true /\ (forall n, cl = Some n -> 0 <= n) /\
    forallb not_exhaust ops = true /\
    let st0 := a_init false first cl events in
    let tr := arun false ops st0 in
    pos st0 <> 0 /\ pos (aend tr st0) <> len (abytes tr).
Proof. exact asgi_tell_exact_refuted_before_fix. Qed.
Print Assumptions C07_asgi_tell_exact_refuted_before_fix.

Theorem C07_asgi_sized_le_refuted_before_fix :
  exists first cl events n r st',
    wfb (first_events first ++ events) = true /\ 0 < n /\
    astep false (ARead (Some n)) (a_init false first cl events) = (r, st') /\
    n < len (ares_bytes r).
Proof. exact asgi_sized_le_refuted_before_fix. Qed.
Print Assumptions C07_asgi_sized_le_refuted_before_fix.

(* exhaust() as found (before fixes/C07-asgi-exhaust-position.patch) left tell() behind the
   end of the declared body although eof was reported, or moved it beyond the declared body *)
Theorem C07_asgi_exhaust_tell_refuted_before_fix :
  exists first cl events ops,
    wfb (first_events first ++ events) = true /\ (forall n, cl = Some n -> 0 <= n) /\
    let st0 := a_init false first cl events in
    let tr := arun false ops st0 in
    a_eof (aend tr st0) = true /\ closed (aend tr st0) = false /\
    pos (aend tr st0) <> len (a_declared first cl events).
Proof. exact asgi_exhaust_tell_refuted_before_fix. Qed.
Print Assumptions C07_asgi_exhaust_tell_refuted_before_fix.

Theorem C07_asgi_exhaust_oversized_refuted_before_fix :
  exists first cl events ops,
    wfb (first_events first ++ events) = true /\ (forall n, cl = Some n -> 0 <= n) /\
    let st0 := a_init false first cl events in
    let tr := arun false ops st0 in
    len (a_declared first cl events) < pos (aend tr st0).
Proof. exact asgi_exhaust_oversized_refuted_before_fix. Qed.
Print Assumptions C07_asgi_exhaust_oversized_refuted_before_fix.

(* ======================= the request objects =======================
   falcon.Request: req.stream is env['wsgi.input'] itself; req.bounded_stream is created at most
   once as BoundedStream(wsgi.input, Content-Length or 0; absent/empty/invalid/negative => 0).
   falcon.asgi.Request: req.stream creates, at most once, BoundedStream(receive, first_event,
   content_length); req.bounded_stream is an alias. *)

(* one shared cursor: however the two WSGI accessors are interleaved, what they return, in
   call order, is exactly what wsgi.input handed out; the bounded accessor never returns
   more than the effective Content-Length; the wrapper is constructed at most once *)
Theorem C07_wsgi_accessors_share_cursor : forall c data caps ops,
  forallb qop_ok ops = true ->
  let q0 := q_init c (src0 data caps) in
  let tr := qrun ops q0 in
  data = qbytes tr ++ s_data (q_src (qend tr q0)) /\
  s_pos (q_src (qend tr q0)) = len (qbytes tr) /\
  qbounded_len ops tr <= wsgi_budget c /\
  0 <= q_made (qend tr q0) <= 1.
Proof. exact wsgi_accessors_share_cursor. Qed.
Print Assumptions C07_wsgi_accessors_share_cursor.

(* through req.bounded_stream alone the history is that of BoundedStream(wsgi.input,
   wsgi_budget c): all C07_wsgi_* theorems apply with cl := wsgi_budget c *)
Theorem C07_wsgi_bounded_accessor_is_bounded_stream : forall c data caps ops,
  let q0 := q_init c (src0 data caps) in
  let st0 := w_init (wsgi_budget c) (src0 data caps) in
  map fst (qrun (map QBounded ops) q0) = map fst (wrun true ops st0) /\
  q_src (qend (qrun (map QBounded ops) q0) q0) = w_src (wend (wrun true ops st0) st0).
Proof. exact wsgi_bounded_accessor_is_bounded_stream. Qed.
Print Assumptions C07_wsgi_bounded_accessor_is_bounded_stream.

(* ASGI: which accessor is used never matters *)
Theorem C07_asgi_accessors_alias : forall ops rq,
  areq_run ops rq = areq_run (map (fun p => (true, snd p)) ops) rq.
Proof. exact asgi_accessors_alias. Qed.
Print Assumptions C07_asgi_accessors_alias.

(* ASGI: with a valid or absent Content-Length the accessors expose the one
   BoundedStream(receive, first_event, content_length), created once: all C07_asgi_* apply *)
Theorem C07_asgi_request_stream_is_bounded_stream : forall first c cl events ops,
  content_length c = Some cl ->
  let rq0 := areq_init first c events in
  map fst (areq_run ops rq0) = map fst (arun true (map snd ops) (a_init true first cl events)) /\
  0 <= rq_made (rqend (areq_run ops rq0) rq0) <= 1.
Proof. exact asgi_request_stream_is_bounded_stream. Qed.
Print Assumptions C07_asgi_request_stream_is_bounded_stream.

(* ASGI: an invalid Content-Length is reported (HTTPInvalidHeader) by every access *)
Theorem C07_asgi_invalid_content_length : forall first c events ops,
  content_length c = None ->
  let rq0 := areq_init first c events in
  Forall (fun p => fst p = AErr EInvalidHeader) (areq_run ops rq0) /\
  rqend (areq_run ops rq0) rq0 = rq0.
Proof. exact asgi_invalid_content_length. Qed.
Print Assumptions C07_asgi_invalid_content_length.

(* ---- non-vacuity: concrete non-trivial histories meeting the hypotheses *)
Example C07_wsgi_example :
  let ops := [WReadline None; WRead (Some 2); WEof; WReadlines None; WEof] in
  let st0 := w_init 6 (src0 b_abcd [0%nat]) in
  forallb wop_ok ops = true /\
  map fst (wrun true ops st0) =
    [RBytes [97; 98; 10]%N; RBytes [99]%N; RBool false; RLines [[100; 10]%N]; RBool true] /\
  wbytes (wrun true ops st0) = w_declared 6 b_abcd.
Proof. vm_compute. repeat split; reflexivity. Qed.

Example C07_asgi_example :
  let first := Some (Some [97; 98]%N, true) in
  let events := [Req (Some [99; 100; 101]%N) true; Req None true; Req (Some [102]%N) false; Disc] in
  let ops := [ARead (Some 3); ATell; ANext; ANext; AEof] in
  let st0 := a_init true first (Some 5) events in
  wfb (first_events first ++ events) = true /\ disciplined ops st0 = true /\
  forallb not_exhaust ops = true /\
  map fst (arun true ops st0) =
    [ABytes [97; 98; 99]%N; AInt 3; ABytes [100; 101]%N; AStop; ABool true] /\
  abytes (arun true ops st0) = a_declared first (Some 5) events.
Proof. vm_compute. repeat split; reflexivity. Qed.

Example C07_asgi_exhaust_example :
  let events := [Req (Some [97; 98; 99; 100]%N) true; Req (Some [101; 102; 103; 104]%N) false] in
  let ops := [ARead (Some 2); ATell; AExhaust; ATell; AEof; ARead None] in
  let st0 := a_init true None (Some 6) events in
  disciplined ops st0 = true /\
  map fst (arun true ops st0) = [ABytes [97; 98]%N; AInt 2; ANone; AInt 6; ABool true; ABytes []].
Proof. vm_compute. split; reflexivity. Qed.

Example C07_wsgi_request_example :
  let ops := [QRawRead (Some 1); QBounded (WRead (Some 2)); QRawReadline None; QBounded (WRead None)] in
  let q0 := q_init (CValue 4) (src0 b_abcd []) in
  forallb qop_ok ops = true /\
  map fst (qrun ops q0) = [RBytes [97]%N; RBytes [98; 10]%N; RBytes [99; 100; 10]%N; RBytes []] /\
  q_made (qend (qrun ops q0) q0) = 1.
Proof. vm_compute. repeat split; reflexivity. Qed.
