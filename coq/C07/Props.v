From Coq Require Import ZArith NArith List Bool.
From Falcon.C07 Require Import Model Spec Proofs.
