(* C07 — ASGI BoundedStream: every operation, the oracle, whole histories *)
From Coq Require Import ZArith NArith List Bool Lia.
From Falcon.C07 Require Import Model Spec ProofsLib ProofsA ProofsA2.
Import ListNotations.
Open Scope Z_scope.

Lemma exhaust_ok D dl st r st' :
  AInv D dl st -> a_exhaust true st = (r, st') ->
  AInv D (consumed_after D dl AExhaust r) st' /\
  a_shape_ok (a_observe AExhaust (r, st')) = true /\ gen st' = gen st.
Proof.
  intros I H. unfold a_exhaust in H. destruct (closed st) eqn:C.
  - injection H as <- <-. split; [|split; [cbn; exact C | reflexivity]].
    cbn [consumed_after ares_bytes]. apply (AInv_same _ _ st st I); auto.
  - destruct (exhaust_loop true (evs (nt st)) (nt st) (rem st) (pos st + len (buf st)))
      as [[g r1] p] eqn:L.
    injection H as <- <-.
    destruct (exhaust_loop_spec _ _ _ _ _ _ _ eq_refl (ai_net _ _ _ I) (ai_rem _ _ _ I) L)
      as (S1 & S2 & S3 & S4).
    split; [|split; reflexivity].
    cbn [consumed_after]. unfold set_core.
    pose proof (ai_open _ _ _ I C) as DL.
    constructor; cbn [buf rem pos closed gen nt].
    + lia.
    + exists []. rewrite app_nil_r. reflexivity.
    + intros _. rewrite (takeZ_nonpos 0), !app_nil_r by lia. reflexivity.
    + rewrite S3, (ai_tell _ _ _ I). rewrite (f_equal len DL), !len_app. lia.
    + exact (NInv_zero _ _ S1).
    + reflexivity.
    + intro G. apply S4. exact (ai_pend _ _ _ I G).
    + intros _. split; reflexivity.
Qed.

Lemma close_ok D dl st : AInv D dl st -> AInv D (dl ++ []) (a_close st).
Proof.
  intros I. unfold a_close. destruct (closed st) eqn:C.
  - apply (AInv_same _ _ st st I); auto.
  - rewrite app_nil_r. destruct I as [I1 I2 I3 I5 I7 I8 I9 I10].
    constructor; cbn [buf rem pos closed gen nt]; try assumption; try discriminate; try lia.
    + exact (NInv_zero _ _ I7).
    + reflexivity.
    + intros _. split; reflexivity.
Qed.

Lemma astep_ok D dl op st r st' :
  AInv D dl st -> gsusp (gen st) && sized_read op = false ->
  astep true op st = (r, st') -> AStepOK D dl op st r st'.
Proof.
  intros I DS H. unfold AStepOK. destruct op as [sz| | | | | | | |]; cbn [astep] in H.
  - destruct (read_ok _ _ _ _ _ _ I DS H) as (R1 & R2 & R3 & R4 & R5).
    split; [exact R1|]. split; [exact R2|]. split; [exact R3|]. split.
    + unfold a_shape_ok, a_observe. cbn [ao_op ao_res ao_closed fst snd].
      destruct R4 as [[b ->] | [-> C]]; [reflexivity | exact C].
    + rewrite R5. reflexivity.
  - assert (GE : gen st' = gen st).
    { unfold a_readall in H. destruct (closed st); [injection H as <- <-; reflexivity|].
      destruct (a_eof st); [injection H as <- <-; reflexivity|].
      destruct (readall_loop _ _ _ _) as [[? ?] ?]. injection H as <- <-. reflexivity. }
    destruct (readall_ok _ _ _ _ _ I H) as [(A1 & A2 & [b ->]) | (-> & A2 & A3 & A4)].
    + split; [exact A1|]. split; [reflexivity|]. split; [intros _; exact A2|].
      split; [reflexivity | rewrite GE; reflexivity].
    + split; [exact A4|]. split; [reflexivity|]. split; [discriminate|].
      split; [cbn; exact A2 | rewrite GE; reflexivity].
  - destruct (next_ok _ _ _ _ _ I H) as (N1 & N2 & N3).
    split; [exact N1|]. split; [reflexivity|]. split; [discriminate|]. split; assumption.
  - injection H as <- <-. split; [apply (AInv_same _ _ st _ I); try reflexivity; discriminate|].
    repeat split; discriminate || reflexivity.
  - destruct (exhaust_ok _ _ _ _ _ I H) as (E1 & E2 & E3).
    split; [exact E1|]. split; [reflexivity|]. split; [discriminate|].
    split; [exact E2 | rewrite E3; reflexivity].
  - injection H as <- <-. split; [exact (close_ok _ _ _ I)|].
    split; [reflexivity|]. split; [discriminate|]. split; [reflexivity|].
    unfold a_close. destruct (closed st); reflexivity.
  - injection H as <- <-. split; [apply (AInv_same _ _ st st I); auto|].
    split; [reflexivity|]. split; [discriminate|]. split; [cbn; apply Z.eqb_refl | reflexivity].
  - injection H as <- <-. split; [apply (AInv_same _ _ st st I); auto|].
    split; [reflexivity|]. split; [discriminate|]. split; [cbn; apply eqb_reflx | reflexivity].
  - injection H as <- <-. split; [apply (AInv_same _ _ st st I); auto|].
    split; [reflexivity|]. split; [discriminate|]. split; [cbn; apply eqb_reflx | reflexivity].
Qed.

Lemma slice_ok_app (c b r : bytes) : slice_ok (c ++ b ++ r) (len c) b = true.
Proof.
  rewrite <- (takeZ_all (len (c ++ b ++ r)) (c ++ b ++ r)) at 1 by lia.
  apply slice_ok_at. rewrite !len_app. pose proof (len_nonneg r). lia.
Qed.

Lemma cursor_consumed D dl op r :
  (exists rest, D = dl ++ rest) ->
  cursor_after D (len dl) op r = len (consumed_after D dl op r).
Proof.
  intros _. unfold cursor_after, consumed_after.
  destruct op; try (rewrite len_app; reflexivity).
  destruct r; try (rewrite len_app; reflexivity). reflexivity.
Qed.

(* the bytes an operation returned sit at the cursor *)
Lemma step_slice D dl op st r st' :
  AInv D dl st -> AStepOK D dl op st r st' -> slice_ok D (len dl) (ares_bytes r) = true.
Proof.
  intros I (I' & _). destruct (ai_pre _ _ _ I) as [rest0 PR0].
  assert (NB : forall rest, D = (dl ++ ares_bytes r) ++ rest -> slice_ok D (len dl) (ares_bytes r) = true).
  { intros rest PR. rewrite PR, <- app_assoc. apply slice_ok_app. }
  destruct (ai_pre _ _ _ I') as [rest PR]. unfold consumed_after in PR.
  destruct op; try exact (NB _ PR).
  destruct r; try exact (NB _ PR).
  cbn [ares_bytes]. rewrite PR0. replace rest0 with ([] ++ rest0) by reflexivity. apply slice_ok_app.
Qed.

(* once eof is reported no operation returns bytes, and eof stays reported *)
Lemma iter_loop_zero ev g p : iter_loop ev g 0 p = (None, g, 0, p).
Proof. destruct ev; reflexivity. Qed.

Lemma exhaust_loop_zero f ev g p : exhaust_loop f ev g 0 p = (g, 0, p).
Proof. destruct ev; reflexivity. Qed.

Lemma eof_no_bytes op st r st' :
  a_eof st = true -> astep true op st = (r, st') -> ares_bytes r = [] /\ a_eof st' = true.
Proof.
  intros E H. destruct (eof_inv _ E) as [B R].
  destruct op as [sz| | | | | | | |]; cbn [astep] in H.
  - unfold a_read in H. destruct (closed st); [injection H as <- <-; split; [reflexivity | exact E]|].
    rewrite E in H. injection H as <- <-. split; [reflexivity | exact E].
  - unfold a_readall in H. destruct (closed st); [injection H as <- <-; split; [reflexivity | exact E]|].
    rewrite E in H. injection H as <- <-. split; [reflexivity | exact E].
  - unfold a_next in H.
    assert (RS : forall r0, r0 = 0 -> a_resume_loop st r0 = (r, st') -> ares_bytes r = [] /\ a_eof st' = true).
    { intros r0 -> HH. unfold a_resume_loop in HH. rewrite iter_loop_zero in HH.
      injection HH as <- <-. split; [reflexivity|]. unfold a_eof. cbn [buf rem]. rewrite B. reflexivity. }
    destruct (gen st) eqn:G.
    + destruct (closed st); [injection H as <- <-; split; [reflexivity | exact E]|].
      rewrite E in H. injection H as <- <-. split; [reflexivity | exact E].
    + destruct (closed st); [injection H as <- <-; split; [reflexivity | exact E]|].
      rewrite E in H. injection H as <- <-. split; [reflexivity | exact E].
    + apply (RS (rem st) R H).
    + apply (RS (if more then rem st else 0)); [destruct more; [exact R | reflexivity] | exact H].
    + injection H as <- <-. split; [reflexivity | exact E].
  - injection H as <- <-. split; [reflexivity | exact E].
  - unfold a_exhaust in H. destruct (closed st); [injection H as <- <-; split; [reflexivity | exact E]|].
    rewrite R, exhaust_loop_zero in H. injection H as <- <-. split; reflexivity.
  - injection H as <- <-. split; [reflexivity|]. unfold a_close.
    destruct (closed st); [exact E | reflexivity].
  - injection H as <- <-. split; [reflexivity | exact E].
  - injection H as <- <-. split; [reflexivity | exact E].
  - injection H as <- <-. split; [reflexivity | exact E].
Qed.

Lemma a_check_ok D dl op st r st' :
  AInv D dl st -> astep true op st = (r, st') -> AStepOK D dl op st r st' ->
  a_check D (len dl) (a_eof st) (a_observe op (r, st')) = [].
Proof.
  intros I0 HS SO. pose proof (step_slice _ _ _ _ _ _ I0 SO) as SL.
  destruct SO as (I & SZ & EM & SH & _). unfold a_check.
  set (o := a_observe op (r, st')) in *.
  change (ao_res o) with r. change (ao_op o) with op. change (ao_tell o) with (pos st').
  change (ao_eof o) with (a_eof st'). change (ao_late o) with (late (nt st')).
  change (ao_over o) with (over (nt st')). change (ao_closed o) with (closed st').
  rewrite SL, SZ. destruct (ai_net _ _ _ I) as (_ & LT & OV & _).
  rewrite LT, OV, SH. cbn [Z.eqb app].
  rewrite (cursor_consumed D dl op r (ai_pre _ _ _ I0)).
  rewrite (ai_tell _ _ _ I), Z.eqb_refl. cbn [app].
  assert (E5 : a_eof st' && negb (closed st')
               && negb (len (consumed_after D dl op r) =? len D) = false).
  { destruct (a_eof st') eqn:E; [|reflexivity].
    destruct (closed st') eqn:C; [reflexivity|]. cbn [andb negb].
    destruct (eof_inv _ E) as [B R]. pose proof (ai_open _ _ _ I C) as DL.
    rewrite B, R, (takeZ_nonpos 0), !app_nil_r in DL by lia.
    rewrite <- DL, Z.eqb_refl. reflexivity. }
  rewrite E5. cbn [app].
  assert (E9 : a_eof st && nonempty (ares_bytes r) = false).
  { destruct (a_eof st) eqn:E; [|reflexivity]. cbn [andb].
    rewrite (proj1 (eof_no_bytes _ _ _ _ E HS)). reflexivity. }
  rewrite E9. cbn [app].
  destruct (a_asks_for_data op) eqn:A; [|reflexivity].
  destruct r as [b| | | | |]; cbn [ares_bytes nonempty negb andb]; try (destruct (a_eof st'); reflexivity).
  destruct b; cbn [nonempty negb andb]; [|reflexivity].
  rewrite (EM eq_refl eq_refl). reflexivity.
Qed.

Lemma a_oracle_from_ok D : forall ops dl st,
  AInv D dl st ->
  a_oracle_from D (len dl) (a_eof st) (gsusp (gen st)) (a_observes ops (arun true ops st)) = [].
Proof.
  induction ops as [|op ops IH]; intros dl st I; [reflexivity|].
  cbn [arun]. destruct (astep true op st) as [r st1] eqn:S.
  cbn [a_observes a_oracle_from].
  change (ao_op (a_observe op (r, st1))) with op.
  destruct (gsusp (gen st) && sized_read op) eqn:DS; [reflexivity|].
  pose proof (astep_ok _ _ _ _ _ _ I DS S) as SO.
  rewrite (a_check_ok _ _ _ _ _ _ I S SO). cbn [app].
  change (ao_res (a_observe op (r, st1))) with r.
  change (ao_eof (a_observe op (r, st1))) with (a_eof st1).
  destruct SO as (I1 & _ & _ & _ & G). rewrite <- G.
  rewrite (cursor_consumed D dl op r (ai_pre _ _ _ I)). apply IH. exact I1.
Qed.

(* ---- the constructor establishes the invariant *)
Lemma AInv_init first cl events :
  wfb (first_events first ++ events) = true -> (forall n, cl = Some n -> 0 <= n) ->
  AInv (a_declared first cl events) [] (a_init true first cl events) /\
  pos (a_init true first cl events) = 0 /\ gen (a_init true first cl events) = GNone.
Proof.
  intros W CL. split; [|split; reflexivity].
  set (fc := first_chunk first).
  assert (SB : sbody (first_events first ++ events) =
               fc ++ (match first with Some (_, false) => [] | _ => sbody events end)).
  { unfold fc, first_chunk. destruct first as [[[b|] [|]]|]; cbn; rewrite ?app_nil_r; reflexivity. }
  assert (WE : wfb events = true).
  { destruct first as [[b m]|]; [|exact W]. cbn [first_events app] in W. eapply wfb_tail. exact W. }
  assert (AD : match first with Some (_, false) => all_disc events = true | _ => True end).
  { destruct first as [[b [|]]|]; try exact Logic.I. cbn [first_events app wfb] in W. exact W. }
  pose proof (len_nonneg fc) as Lf.
  unfold a_declared. rewrite SB. fold fc.
  unfold a_init. fold fc.
  constructor; cbn [buf rem pos closed gen nt evs started].
  - (* 0 <= rem *)
    destruct cl as [n|].
    + specialize (CL n eq_refl).
      assert (0 <= n - len (if len fc >? n then takeZ n fc else fc)).
      { destruct (Z.gtb_spec (len fc) n); [rewrite len_takeZ; lia | lia]. }
      destruct first as [[b m]|]; [|lia].
      destruct (n - len (if len fc >? n then takeZ n fc else fc) =? 0); cbn [negb]; [lia|].
      destruct m; lia.
    + unfold two63. destruct first as [[b m]|]; [|lia]. cbn. destruct m; lia.
  - eexists. reflexivity.
  - intros _. cbn [app]. destruct cl as [n|].
    + specialize (CL n eq_refl). rewrite takeZ_app.
      destruct (Z.gtb_spec (len fc) n).
      * rewrite len_takeZ. replace (n - Z.max 0 (Z.min n (len fc))) with 0 by lia.
        rewrite (takeZ_nonpos (n - len fc)) by lia.
        assert (E : (match first with
                     | Some (_, more) => if negb (0 =? 0) then if more then 0 else 0 else 0
                     | None => 0 end) = 0) by (destruct first as [[? ?]|]; reflexivity).
        rewrite E, (takeZ_nonpos 0) by lia. reflexivity.
      * rewrite (takeZ_all n fc) by lia. f_equal.
        destruct first as [[b [|]]|]; cbn [negb].
        -- destruct (n - len fc =? 0); reflexivity.
        -- rewrite takeZ_nil. rewrite (sbody_all_disc _ AD).
           destruct (n - len fc =? 0); rewrite takeZ_nil; reflexivity.
        -- reflexivity.
    + rewrite takeZ_app, (takeZ_all (len fc + two63) fc) by (unfold two63; lia). f_equal.
      replace (len fc + two63 - len fc) with two63 by lia.
      destruct first as [[b [|]]|]; cbn.
      * reflexivity.
      * rewrite (sbody_all_disc _ AD). reflexivity.
      * reflexivity.
  - reflexivity.
  - (* NInv *)
    unfold NInv. cbn [disc late over rcvd climit evs].
    split; [discriminate|]. split; [reflexivity|]. split; [reflexivity|]. split; [|exact WE].
    intros n E. subst cl. specialize (CL n eq_refl).
    destruct (Z.gtb_spec (len fc) n).
    + rewrite len_takeZ. replace (n - Z.max 0 (Z.min n (len fc))) with 0 by lia.
      destruct first as [[b m]|]; cbn; [destruct m|]; lia.
    + destruct first as [[b m]|]; [|lia].
      destruct (negb (n - len fc =? 0)); [destruct m|]; lia.
  - discriminate.
  - discriminate.
  - discriminate.
Qed.

Theorem a_oracle_sound first cl events ops :
  wfb (first_events first ++ events) = true -> (forall n, cl = Some n -> 0 <= n) ->
  let st0 := a_init true first cl events in
  a_oracle first cl events (pos st0) (a_eof st0) (a_observes ops (arun true ops st0)) = [].
Proof.
  intros W CL st0. destruct (AInv_init first cl events W CL) as (I & P & G).
  unfold a_oracle. fold st0 in I, P, G. rewrite P. cbn [Z.eqb app].
  pose proof (a_oracle_from_ok _ ops [] st0 I) as H.
  rewrite G in H. exact H.
Qed.
