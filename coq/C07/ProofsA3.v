(* C07 — ASGI BoundedStream: every operation, the oracle, whole histories *)
From Coq Require Import ZArith NArith List Bool Lia.
From Falcon.C07 Require Import Model Spec ProofsLib ProofsA ProofsA2.
Import ListNotations.
Open Scope Z_scope.

Lemma exhaust_ok D dl live noex st r st' :
  AInv D dl live noex st -> a_exhaust st = (r, st') ->
  AInv D (dl ++ ares_bytes r) false false st' /\
  a_shape_ok (a_observe AExhaust (r, st')) = true /\ gen st' = gen st.
Proof.
  intros I H. unfold a_exhaust in H. destruct (closed st) eqn:C.
  - injection H as <- <-. destruct (ai_closed _ _ _ _ _ I C) as [B R].
    split; [|split; [cbn; exact C | reflexivity]].
    cbn [ares_bytes]. rewrite app_nil_r. destruct I as [I1 I2 I3 I4 I5 I6 I7 I8 I9 I10].
    constructor; try assumption; try discriminate. intros _. split; assumption.
  - destruct (exhaust_loop (evs (nt st)) (nt st) (rem st) (pos st)) as [[g r1] p] eqn:L.
    injection H as <- <-.
    destruct (exhaust_loop_spec _ _ _ _ _ _ _ eq_refl (ai_net _ _ _ _ _ I) L) as (S1 & S2 & S3).
    split; [|split; reflexivity].
    cbn [ares_bytes]. rewrite app_nil_r. unfold set_core.
    constructor; cbn [buf rem pos closed gen nt]; try discriminate; try lia.
    + exact (ai_pre _ _ _ _ _ I).
    + intros _. split; reflexivity.
    + pose proof (ai_tell_le _ _ _ _ _ I). lia.
    + exact (NInv_zero _ _ S1).
    + reflexivity.
    + intro G. apply S3. exact (ai_pend _ _ _ _ _ I G).
    + intros _. split; reflexivity.
Qed.

Lemma close_ok D dl live noex st :
  AInv D dl live noex st -> AInv D (dl ++ []) false noex (a_close st).
Proof.
  intros I. rewrite app_nil_r. unfold a_close. destruct (closed st) eqn:C.
  - destruct (ai_closed _ _ _ _ _ I C) as [B R]. destruct I as [I1 I2 I3 I4 I5 I6 I7 I8 I9 I10].
    constructor; try assumption; try discriminate. intros _. split; assumption.
  - destruct I as [I1 I2 I3 I4 I5 I6 I7 I8 I9 I10].
    constructor; cbn [buf rem pos closed gen nt]; try assumption; try discriminate; try lia.
    + intros _. split; reflexivity.
    + exact (NInv_zero _ _ I7).
    + reflexivity.
    + intros _. split; reflexivity.
Qed.

Lemma astep_ok D dl live noex op st r st' :
  AInv D dl live noex st -> gsusp (gen st) && sized_read op = false ->
  astep true op st = (r, st') -> AStepOK D dl live noex op st r st'.
Proof.
  intros I DS H. unfold AStepOK. destruct op as [sz| | | | | | | |]; cbn [astep] in H.
  - destruct (read_ok _ _ _ _ _ _ _ _ I DS H) as (R1 & R2 & R3 & R4 & R5).
    split; [exact R1|]. split; [exact R2|]. split; [exact R3|]. split.
    + unfold a_shape_ok, a_observe. cbn [ao_op ao_res ao_closed fst snd].
      destruct R4 as [[b ->] | [-> C]]; [reflexivity | exact C].
    + rewrite R5. reflexivity.
  - assert (GE : gen st' = gen st).
    { unfold a_readall in H. destruct (closed st); [injection H as <- <-; reflexivity|].
      destruct (a_eof st); [injection H as <- <-; reflexivity|].
      destruct (readall_loop _ _ _ _) as [[? ?] ?]. injection H as <- <-. reflexivity. }
    destruct (readall_ok _ _ _ _ _ _ _ I H) as [(A1 & A2 & [b ->]) | (-> & A2 & A3 & A4)].
    + split; [exact A1|]. split; [reflexivity|]. split; [intros _; exact A2|].
      split; [reflexivity | rewrite GE; reflexivity].
    + split; [exact A4|]. split; [reflexivity|]. split; [discriminate|].
      split; [cbn; exact A2 | rewrite GE; reflexivity].
  - destruct (next_ok _ _ _ _ _ _ _ I H) as (N1 & N2 & N3).
    split; [exact N1|]. split; [reflexivity|]. split; [discriminate|]. split; assumption.
  - injection H as <- <-. split; [apply (AInv_same _ _ _ _ st _ I); try reflexivity; discriminate|].
    repeat split; discriminate || reflexivity.
  - destruct (exhaust_ok _ _ _ _ _ _ _ I H) as (E1 & E2 & E3).
    split; [exact E1|]. split; [reflexivity|]. split; [discriminate|].
    split; [exact E2 | rewrite E3; reflexivity].
  - injection H as <- <-. split; [exact (close_ok _ _ _ _ _ I)|].
    split; [reflexivity|]. split; [discriminate|]. split; [reflexivity|].
    unfold a_close. destruct (closed st); reflexivity.
  - injection H as <- <-. split; [apply (AInv_same _ _ _ _ st st I); auto|].
    split; [reflexivity|]. split; [discriminate|]. split; [cbn; apply Z.eqb_refl | reflexivity].
  - injection H as <- <-. split; [apply (AInv_same _ _ _ _ st st I); auto|].
    split; [reflexivity|]. split; [discriminate|]. split; [cbn; apply eqb_reflx | reflexivity].
  - injection H as <- <-. split; [apply (AInv_same _ _ _ _ st st I); auto|].
    split; [reflexivity|]. split; [discriminate|]. split; [cbn; apply eqb_reflx | reflexivity].
Qed.

Lemma slice_ok_app (c b r : bytes) : slice_ok (c ++ b ++ r) (len c) b = true.
Proof.
  rewrite <- (takeZ_all (len (c ++ b ++ r)) (c ++ b ++ r)) at 1 by lia.
  apply slice_ok_at. rewrite !len_app. pose proof (len_nonneg r). lia.
Qed.

Lemma a_check_ok D dl live noex op st r st' :
  AStepOK D dl live noex op st r st' ->
  a_check D (len dl) live (a_noex_after noex op) (a_observe op (r, st')) = [].
Proof.
  intros (I & SZ & EM & SH & _). unfold a_check.
  set (o := a_observe op (r, st')) in *.
  change (ao_res o) with r. change (ao_op o) with op. change (ao_tell o) with (pos st').
  change (ao_eof o) with (a_eof st'). change (ao_late o) with (late (nt st')).
  change (ao_over o) with (over (nt st')).
  destruct (ai_pre _ _ _ _ _ I) as [rest PR].
  assert (SL : slice_ok D (len dl) (ares_bytes r) = true).
  { rewrite PR, <- app_assoc. apply slice_ok_app. }
  rewrite SL, SZ. destruct (ai_net _ _ _ _ _ I) as (_ & LT & OV & _).
  rewrite LT, OV, SH. cbn [Z.eqb app].
  assert (T : (if a_noex_after noex op then pos st' =? len dl + len (ares_bytes r)
               else len dl + len (ares_bytes r) <=? pos st') = true).
  { destruct (a_noex_after noex op) eqn:NX.
    - apply Z.eqb_eq. rewrite (ai_tell _ _ _ _ _ I eq_refl), len_app. reflexivity.
    - apply Z.leb_le. pose proof (ai_tell_le _ _ _ _ _ I) as TL. rewrite len_app in TL. exact TL. }
  rewrite T. cbn [app].
  assert (E5 : a_live_after live op && a_eof st' && negb (len dl + len (ares_bytes r) =? len D) = false).
  { destruct (a_live_after live op) eqn:LV; [|reflexivity].
    destruct (a_eof st') eqn:E; [|reflexivity]. cbn [andb].
    destruct (eof_inv _ E) as [B R]. pose proof (ai_live _ _ _ _ _ I eq_refl) as DL.
    rewrite B, R, (takeZ_nonpos 0), !app_nil_r in DL by lia.
    rewrite DL, len_app, Z.eqb_refl. reflexivity. }
  rewrite E5. cbn [app].
  destruct (a_asks_for_data op) eqn:A; [|reflexivity].
  destruct r as [b| | | | |]; cbn [ares_bytes nonempty negb andb]; try (destruct (a_eof st'); reflexivity).
  destruct b; cbn [nonempty negb andb]; [|reflexivity].
  rewrite (EM eq_refl eq_refl). reflexivity.
Qed.

Lemma a_oracle_from_ok D : forall ops dl live noex st,
  AInv D dl live noex st ->
  a_oracle_from D (len dl) live noex (gsusp (gen st)) (a_observes ops (arun true ops st)) = [].
Proof.
  induction ops as [|op ops IH]; intros dl live noex st I; [reflexivity|].
  cbn [arun]. destruct (astep true op st) as [r st1] eqn:S.
  cbn [a_observes a_oracle_from].
  change (ao_op (a_observe op (r, st1))) with op.
  destruct (gsusp (gen st) && sized_read op) eqn:DS; [reflexivity|].
  pose proof (astep_ok _ _ _ _ _ _ _ _ I DS S) as SO.
  rewrite (a_check_ok _ _ _ _ _ _ _ _ SO). cbn [app].
  change (ao_res (a_observe op (r, st1))) with r.
  destruct SO as (I1 & _ & _ & _ & G). rewrite <- G, <- len_app. apply IH. exact I1.
Qed.

(* ---- the constructor establishes the invariant *)
Lemma AInv_init first cl events :
  wfb (first_events first ++ events) = true -> (forall n, cl = Some n -> 0 <= n) ->
  AInv (a_declared first cl events) [] true true (a_init true first cl events) /\
  pos (a_init true first cl events) = 0 /\ gen (a_init true first cl events) = GNone.
Proof.
  intros W CL. split; [|split; reflexivity].
  set (fc := first_chunk first).
  assert (SB : sbody (first_events first ++ events) =
               fc ++ (match first with Some (_, false) => [] | _ => sbody events end)).
  { unfold fc, first_chunk. destruct first as [[[b|] [|]]|]; cbn; rewrite ?app_nil_r; reflexivity. }
  assert (WE : wfb events = true).
  { destruct first as [[b m]|]; [|exact W]. cbn [first_events app] in W. eapply wfb_tail. exact W. }
  assert (AD : match first with Some (_, false) => all_disc events = true | _ => True end).
  { destruct first as [[b [|]]|]; try exact Logic.I. cbn [first_events app wfb] in W. exact W. }
  pose proof (len_nonneg fc) as Lf.
  unfold a_declared. rewrite SB. fold fc.
  unfold a_init. fold fc.
  constructor; cbn [buf rem pos closed gen nt evs started].
  - (* 0 <= rem *)
    destruct cl as [n|].
    + specialize (CL n eq_refl).
      assert (0 <= n - len (if len fc >? n then takeZ n fc else fc)).
      { destruct (Z.gtb_spec (len fc) n); [rewrite len_takeZ; lia | lia]. }
      destruct first as [[b m]|]; [|lia].
      destruct (n - len (if len fc >? n then takeZ n fc else fc) =? 0); cbn [negb]; [lia|].
      destruct m; lia.
    + unfold two63. destruct first as [[b m]|]; [|lia]. cbn. destruct m; lia.
  - eexists. reflexivity.
  - intros _. cbn [app]. destruct cl as [n|].
    + specialize (CL n eq_refl). rewrite takeZ_app.
      destruct (Z.gtb_spec (len fc) n).
      * rewrite len_takeZ. replace (n - Z.max 0 (Z.min n (len fc))) with 0 by lia.
        rewrite (takeZ_nonpos (n - len fc)) by lia.
        assert (E : (match first with
                     | Some (_, more) => if negb (0 =? 0) then if more then 0 else 0 else 0
                     | None => 0 end) = 0) by (destruct first as [[? ?]|]; reflexivity).
        rewrite E, (takeZ_nonpos 0) by lia. reflexivity.
      * rewrite (takeZ_all n fc) by lia. f_equal.
        destruct first as [[b [|]]|]; cbn [negb].
        -- destruct (n - len fc =? 0); reflexivity.
        -- rewrite takeZ_nil. rewrite (sbody_all_disc _ AD).
           destruct (n - len fc =? 0); rewrite takeZ_nil; reflexivity.
        -- reflexivity.
    + rewrite takeZ_app, (takeZ_all (len fc + two63) fc) by (unfold two63; lia). f_equal.
      replace (len fc + two63 - len fc) with two63 by lia.
      destruct first as [[b [|]]|]; cbn.
      * reflexivity.
      * rewrite (sbody_all_disc _ AD). reflexivity.
      * reflexivity.
  - discriminate.
  - reflexivity.
  - change (len (@nil N)) with 0. lia.
  - (* NInv *)
    unfold NInv. cbn [disc late over rcvd climit evs].
    split; [discriminate|]. split; [reflexivity|]. split; [reflexivity|]. split; [|exact WE].
    intros n E. subst cl. specialize (CL n eq_refl).
    destruct (Z.gtb_spec (len fc) n).
    + rewrite len_takeZ. replace (n - Z.max 0 (Z.min n (len fc))) with 0 by lia.
      destruct first as [[b m]|]; cbn; [destruct m|]; lia.
    + destruct first as [[b m]|]; [|lia].
      destruct (negb (n - len fc =? 0)); [destruct m|]; lia.
  - discriminate.
  - discriminate.
  - discriminate.
Qed.

Theorem a_oracle_sound first cl events ops :
  wfb (first_events first ++ events) = true -> (forall n, cl = Some n -> 0 <= n) ->
  let st0 := a_init true first cl events in
  a_oracle first cl events (pos st0) (a_observes ops (arun true ops st0)) = [].
Proof.
  intros W CL st0. destruct (AInv_init first cl events W CL) as (I & P & G).
  unfold a_oracle. fold st0 in I, P, G. rewrite P. cbn [Z.eqb app].
  pose proof (a_oracle_from_ok _ ops [] true true st0 I) as H.
  rewrite G in H. exact H.
Qed.
