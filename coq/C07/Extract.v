From Coq Require Import ZArith NArith List Bool String.
From Coq Require Import ExtrOcamlBasic.
From Falcon.lib Require Import Wire.
From Falcon.C07 Require Import Model Spec.
Import ListNotations.
Open Scope Z_scope.

Definition d_zopt (v : val) : option Z := dopt dZ v.

Definition d_wop (v : val) : wop :=
  match v with
  | L [I 0; s] => WRead (d_zopt s)
  | L [I 1; s] => WReadline (d_zopt s)
  | L [I 2; s] => WReadlines (d_zopt s)
  | L [I 3] => WNext
  | L [I 4; I c] => WExhaust c
  | _ => WEof
  end.

Definition v_wres (r : wres) : val :=
  match r with
  | RBytes b => L [I 0; vstr b]
  | RLines l => L [I 1; vlist vstr l]
  | RStop => L [I 2]
  | RDiscard b => L [I 3; vstr b]
  | RBool b => L [I 4; vbool b]
  end.

(* result, then what the harness can observe after the operation: eof, the fake input's
   position, furthest requested offset, number of unbounded requests *)
Definition v_wobs (p : wres * wst) : val :=
  let '(r, st) := p in
  L [v_wres r; vbool (w_eof st); I (s_pos (w_src st)); I (s_reach (w_src st));
     I (s_unb (w_src st))].

Definition d_event (v : val) : event :=
  match v with
  | L [I 0; b; m] => Req (dopt dstr b) (dbool m)
  | _ => Disc
  end.

Definition d_first (v : val) : option (option bytes * bool) :=
  dopt (fun p => (dopt dstr (nth_val 0 p), dbool (nth_val 1 p))) v.

Definition d_aop (v : val) : aop :=
  match v with
  | L [I 0; s] => ARead (d_zopt s)
  | L [I 1] => AReadAll
  | L [I 2] => ANext
  | L [I 3] => AIterNew
  | L [I 4] => AExhaust
  | L [I 5] => AClose
  | L [I 6] => ATell
  | L [I 7] => AEof
  | _ => AClosed
  end.

Definition v_ares (r : ares) : val :=
  match r with
  | ABytes b => L [I 0; vstr b]
  | AStop => L [I 1]
  | AErr ENotAllowed => L [I 2; I 1]
  | AErr EValueError => L [I 2; I 2]
  | AErr EInvalidHeader => L [I 2; I 3]
  | ANone => L [I 3]
  | ABool b => L [I 4; vbool b]
  | AInt z => L [I 5; I z]
  end.

(* result, then tell(), eof, closed and the number of receive() calls so far; then the
   ghost counters (late receives, receives beyond Content-Length) *)
Definition v_aobs (p : ares * ast) : val :=
  let '(r, st) := p in
  L [v_ares r; I (pos st); vbool (a_eof st); vbool (closed st); I (awaits (nt st));
     I (late (nt st)); I (over (nt st))].

Definition d_wres (v : val) : wres :=
  match v with
  | L [I 0; b] => RBytes (dstr b)
  | L [I 1; l] => RLines (dlist dstr l)
  | L [I 2] => RStop
  | L [I 3; b] => RDiscard (dstr b)
  | L [I 4; b] => RBool (dbool b)
  | _ => RBool false      (* an exception or a foreign value: fails the shape clause *)
  end.

Definition d_wobs (v : val) : wobs :=
  {| o_op := d_wop (nth_val 0 v); o_res := d_wres (nth_val 1 v); o_eof := dbool (nth_val 2 v);
     o_pos := dZ (nth_val 3 v); o_reach := dZ (nth_val 4 v); o_unb := dZ (nth_val 5 v) |}.

Definition d_ares (v : val) : ares :=
  match v with
  | L [I 0; b] => ABytes (dstr b)
  | L [I 1] => AStop
  | L [I 2; I 1] => AErr ENotAllowed
  | L [I 2; I 2] => AErr EValueError
  | L [I 2; I _] => AErr EInvalidHeader
  | L [I 3] => ANone
  | L [I 4; b] => ABool (dbool b)
  | L [I 5; I z] => AInt z
  | _ => AInt (-1)      (* an exception or a foreign value: fails the shape clause *)
  end.

Definition d_aobs (v : val) : aobs :=
  {| ao_op := d_aop (nth_val 0 v); ao_res := d_ares (nth_val 1 v); ao_tell := dZ (nth_val 2 v);
     ao_eof := dbool (nth_val 3 v); ao_closed := dbool (nth_val 4 v);
     ao_awaits := dZ (nth_val 5 v); ao_late := dZ (nth_val 6 v); ao_over := dZ (nth_val 7 v) |}.

Definition d_clen (v : val) : clen :=
  match v with
  | L [I 0] => CAbsent
  | L [I 1] => CEmpty
  | L [I 2] => CInvalid
  | L [I 3; I n] => CValue n
  | _ => CAbsent
  end.

Definition d_qop (v : val) : qop :=
  match v with
  | L [I 10; s] => QRawRead (d_zopt s)
  | L [I 11; s] => QRawReadline (d_zopt s)
  | _ => QBounded (d_wop v)
  end.

Definition v_qobs (p : wres * wreq) : val :=
  let '(r, q) := p in
  L [v_wres r; vbool (w_eof (q_wst q)); I (s_pos (q_src q)); I (s_reach (q_src q));
     I (s_unb (q_src q))].

Definition v_rqobs (p : ares * areq) : val :=
  let '(r, rq) := p in
  match rq_stream rq with
  | Some st => v_aobs (r, st)
  | None => L [v_ares r]
  end.

(* ops: 4 WSGI request object (clen, data, caps, qops); 5 ASGI request object;
        0 WSGI history (model + the oracle on the model's own observations);
        1 ASGI history; 2 WSGI oracle on observations of the implementation; 3 ASGI oracle *)
Definition run (v : val) : val :=
  match v with
  | L [I 0; fx; cl; data; caps; ops] =>
    let wops := dlist d_wop ops in
    let tr := wrun (dbool fx) wops (w_init (dZ cl) (src0 (dstr data) (dlist dnat caps))) in
    L [vlist v_wobs tr; vlist vN (w_oracle (dZ cl) (dstr data) (w_observes wops tr))]
  | L [I 1; fx; first; cl; events; ops] =>
    let aops := dlist d_aop ops in
    let st := a_init (dbool fx) (d_first first) (d_zopt cl) (dlist d_event events) in
    let tr := arun (dbool fx) aops st in
    L [L [I (pos st); vbool (a_eof st)]; vlist v_aobs tr;
       vlist vN (a_oracle (d_first first) (d_zopt cl) (dlist d_event events) (pos st) (a_eof st)
                          (a_observes aops tr))]
  | L [I 2; cl; data; obs] =>
    vlist vN (w_oracle (dZ cl) (dstr data) (dlist d_wobs obs))
  | L [I 3; first; cl; events; tell0; eof0; obs] =>
    vlist vN (a_oracle (d_first first) (d_zopt cl) (dlist d_event events) (dZ tell0) (dbool eof0)
                       (dlist d_aobs obs))
  | L [I 4; cl; data; caps; ops] =>
    let tr := qrun (dlist d_qop ops) (q_init (d_clen cl) (src0 (dstr data) (dlist dnat caps))) in
    L [I (wsgi_budget (d_clen cl)); vlist v_qobs tr;
       I (match tr with [] => 0 | _ => q_made (snd (last tr (RStop, q_init CAbsent (src0 [] [])))) end)]
  | L [I 5; first; cl; events; ops] =>
    let tr := areq_run (dlist (fun p => (dbool (nth_val 0 p), d_aop (nth_val 1 p))) ops)
                       (areq_init (d_first first) (d_clen cl) (dlist d_event events)) in
    L [vlist v_rqobs tr]
  | _ => L [I (-1)]
  end.

Extraction "C07/model.ml" run.
