From Coq Require Import ZArith NArith List Bool String.
From Coq Require Import ExtrOcamlBasic.
From Falcon.lib Require Import Wire.
From Falcon.C07 Require Import Model Spec.
Import ListNotations.
Open Scope Z_scope.

Definition d_zopt (v : val) : option Z := dopt dZ v.

Definition d_wop (v : val) : wop :=
  match v with
  | L [I 0; s] => WRead (d_zopt s)
  | L [I 1; s] => WReadline (d_zopt s)
  | L [I 2; s] => WReadlines (d_zopt s)
  | L [I 3] => WNext
  | L [I 4; I c] => WExhaust c
  | _ => WEof
  end.

Definition v_wres (r : wres) : val :=
  match r with
  | RBytes b => L [I 0; vstr b]
  | RLines l => L [I 1; vlist vstr l]
  | RStop => L [I 2]
  | RDiscard b => L [I 3; vstr b]
  | RBool b => L [I 4; vbool b]
  end.

(* result, then what the harness can observe after the operation: eof, the fake input's
   position, furthest requested offset, number of unbounded requests *)
Definition v_wobs (p : wres * wst) : val :=
  let '(r, st) := p in
  L [v_wres r; vbool (w_eof st); I (s_pos (w_src st)); I (s_reach (w_src st));
     I (s_unb (w_src st))].

Definition d_event (v : val) : event :=
  match v with
  | L [I 0; b; m] => Req (dopt dstr b) (dbool m)
  | _ => Disc
  end.

Definition d_first (v : val) : option (option bytes * bool) :=
  dopt (fun p => (dopt dstr (nth_val 0 p), dbool (nth_val 1 p))) v.

Definition d_aop (v : val) : aop :=
  match v with
  | L [I 0; s] => ARead (d_zopt s)
  | L [I 1] => AReadAll
  | L [I 2] => ANext
  | L [I 3] => AIterNew
  | L [I 4] => AExhaust
  | L [I 5] => AClose
  | L [I 6] => ATell
  | L [I 7] => AEof
  | _ => AClosed
  end.

Definition v_ares (r : ares) : val :=
  match r with
  | ABytes b => L [I 0; vstr b]
  | AStop => L [I 1]
  | AErr ENotAllowed => L [I 2; I 1]
  | AErr EValueError => L [I 2; I 2]
  | ANone => L [I 3]
  | ABool b => L [I 4; vbool b]
  | AInt z => L [I 5; I z]
  end.

(* result, then tell(), eof, closed and the number of receive() calls so far; then the
   ghost counters (late receives, receives beyond Content-Length) *)
Definition v_aobs (p : ares * ast) : val :=
  let '(r, st) := p in
  L [v_ares r; I (pos st); vbool (a_eof st); vbool (closed st); I (awaits (nt st));
     I (late (nt st)); I (over (nt st))].

(* ops: 0 WSGI history; 1 ASGI history *)
Definition run (v : val) : val :=
  match v with
  | L [I 0; fx; cl; data; caps; ops] =>
    let s := {| s_data := dstr data; s_caps := dlist dnat caps; s_pos := 0; s_reach := 0;
                s_unb := 0 |} in
    vlist v_wobs (wrun (dbool fx) (dlist d_wop ops) (w_init (dZ cl) s))
  | L [I 1; fx; first; cl; events; ops] =>
    let st := a_init (dbool fx) (d_first first) (d_zopt cl) (dlist d_event events) in
    L [L [I (pos st); vbool (a_eof st)];
       vlist v_aobs (arun (dbool fx) (dlist d_aop ops) st)]
  | _ => L [I (-1)]
  end.

Extraction "C07/model.ml" run.
