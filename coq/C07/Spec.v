(* C07 — the property: a cursor over the declared body.  The oracles below are boolean
   functions of what the harness observes on the REAL streams (per operation: the result and
   the public indicators afterwards); Proofs.v shows that the model's own observations always
   pass them (w_oracle_sound / a_oracle_sound). *)
From Coq Require Import ZArith NArith List Bool.
From Falcon.C07 Require Import Model.
Import ListNotations.
Open Scope Z_scope.

Fixpoint bytes_eqb (a b : bytes) : bool :=
  match a, b with
  | [], [] => true
  | x :: a', y :: b' => N.eqb x y && bytes_eqb a' b'
  | _, _ => false
  end.

(* [b] is what the declared body holds at offset [p] *)
Definition slice_ok (declared : bytes) (p : Z) (b : bytes) : bool :=
  (p + len b <=? len declared) && bytes_eqb (takeZ (len b) (dropZ p declared)) b.

(* ------------------------------------------------------------------ WSGI *)

(* declared body: the first Content-Length bytes of what the server has *)
Definition w_declared (cl : Z) (data : bytes) : bytes := takeZ cl data.

Definition size_ok (sz : option Z) : bool :=
  match sz with None => true | Some n => -1 <=? n end.

Definition wop_ok (op : wop) : bool :=
  match op with
  | WRead s | WReadline s | WReadlines s => size_ok s
  | WExhaust c => -1 <=? c
  | WNext | WEof => true
  end.

Record wobs := { o_op : wop; o_res : wres; o_eof : bool; o_pos : Z; o_reach : Z; o_unb : Z }.

(* does this operation, returning nothing, report end-of-stream? *)
Definition asks_for_data (op : wop) : bool :=
  match op with
  | WRead None | WReadline None | WReadlines _ | WNext => true
  | WRead (Some n) | WReadline (Some n) => (n =? -1) || (0 <? n)
  | WExhaust _ | WEof => false
  end.

Definition sized_ok (op : wop) (b : bytes) : bool :=
  match op with
  | WRead (Some n) | WReadline (Some n) => (n <? 0) || (len b <=? n)
  | _ => true
  end.

Definition shape_ok (op : wop) (r : wres) (eof_after : bool) : bool :=
  match op, r with
  | WRead _, RBytes _ | WReadline _, RBytes _ | WReadlines _, RLines _
  | WNext, RBytes (_ :: _) | WNext, RStop | WExhaust _, RDiscard _ => true
  | WEof, RBool b => Bool.eqb b eof_after
  | _, _ => false
  end.

(* failing clauses of one observation, given the cursor [p] before it:
   1 prefix / exact bytes   2 sized read <= size   3 source asked beyond Content-Length
   4 eof indicator disagrees with what was returned   5 bytes taken from the source but not
   returned (loss)   6 result shape   7 empty result although the declared body is not over *)
Definition w_check (cl : Z) (declared : bytes) (p : Z) (o : wobs) : list N :=
  let b := res_bytes (o_res o) in
  let p' := p + len b in
  (if slice_ok declared p b then [] else [1%N])
  ++ (if sized_ok (o_op o) b then [] else [2%N])
  ++ (if (o_reach o <=? cl) && (o_unb o =? 0) then [] else [3%N])
  ++ (if (if o_eof o then p' =? len declared else true)
         && (if p' =? cl then o_eof o else true) then [] else [4%N])
  ++ (if o_pos o =? p' then [] else [5%N])
  ++ (if shape_ok (o_op o) (o_res o) (o_eof o) then [] else [6%N])
  ++ (if asks_for_data (o_op o) && negb (nonempty b) && negb (p' =? len declared)
      then [7%N] else []).

Fixpoint w_oracle_from (cl : Z) (declared : bytes) (p : Z) (obs : list wobs) : list N :=
  match obs with
  | [] => []
  | o :: tl => w_check cl declared p o
               ++ w_oracle_from cl declared (p + len (res_bytes (o_res o))) tl
  end.

Definition w_oracle (cl : Z) (data : bytes) (obs : list wobs) : list N :=
  w_oracle_from cl (w_declared cl data) 0 obs.

Definition w_observe (op : wop) (p : wres * wst) : wobs :=
  {| o_op := op; o_res := fst p; o_eof := w_eof (snd p); o_pos := s_pos (w_src (snd p));
     o_reach := s_reach (w_src (snd p)); o_unb := s_unb (w_src (snd p)) |}.

Fixpoint w_observes (ops : list wop) (tr : list (wres * wst)) : list wobs :=
  match ops, tr with
  | op :: ops', p :: tr' => w_observe op p :: w_observes ops' tr'
  | _, _ => []
  end.

Definition src0 (data : bytes) (caps : list nat) : src :=
  {| s_data := data; s_caps := caps; s_pos := 0; s_reach := 0; s_unb := 0 |}.

(* the state a history ends in, and everything it took from the stream, in call order *)
Fixpoint wend (tr : list (wres * wst)) (st0 : wst) : wst :=
  match tr with [] => st0 | (_, st) :: tl => wend tl st end.
Definition wbytes (tr : list (wres * wst)) : bytes :=
  concat (map (fun p => res_bytes (fst p)) tr).

(* ------------------------------------------------------------------ ASGI *)

(* the body the server sends: chunks up to the first event without more_body (or a
   disconnect); what follows is not part of this request's body *)
Fixpoint sbody (ev : list event) : bytes :=
  match ev with
  | [] => []
  | Disc :: _ => []
  | Req b more :: tl => obody b ++ (if more then sbody tl else [])
  end.

Definition first_events (first : option (option bytes * bool)) : list event :=
  match first with Some (b, m) => [Req b m] | None => [] end.

(* declared body: the first Content-Length bytes of it; without Content-Length all of it
   (up to the stream's 2**63 budget beyond the first chunk) *)
Definition a_declared (first : option (option bytes * bool)) (cl : option Z)
           (events : list event) : bytes :=
  let all := sbody (first_events first ++ events) in
  match cl with
  | Some n => takeZ n all
  | None => takeZ (len (first_chunk first) + two63) all
  end.

(* the server contract: after an event without more_body, or a disconnect, only disconnects *)
Definition all_disc (ev : list event) : bool := forallb is_disc ev.
Fixpoint wfb (ev : list event) : bool :=
  match ev with
  | [] => true
  | Disc :: tl => all_disc tl
  | Req _ false :: tl => all_disc tl
  | Req _ true :: tl => wfb tl
  end.

Record aobs := { ao_op : aop; ao_res : ares; ao_tell : Z; ao_eof : bool; ao_closed : bool;
                 ao_awaits : Z; ao_late : Z; ao_over : Z }.

Definition a_sized_ok (op : aop) (b : bytes) : bool :=
  match op with
  | ARead (Some n) => (n =? -1) || (len b <=? Z.max n 0)
  | _ => true
  end.

Definition a_asks_for_data (op : aop) : bool :=
  match op with
  | ARead None | AReadAll => true
  | ARead (Some n) => (n =? -1) || (0 <? n)
  | _ => false
  end.

(* result shapes; the documented errors (OperationNotAllowed / ValueError) only on a closed
   stream, or OperationNotAllowed from an iteration attempt *)
Definition a_shape_ok (o : aobs) : bool :=
  match ao_op o, ao_res o with
  | ATell, AInt z => z =? ao_tell o
  | AEof, ABool b => Bool.eqb b (ao_eof o)
  | AClosed, ABool b => Bool.eqb b (ao_closed o)
  | (ARead _ | AReadAll), ABytes _ => true
  | (ARead _ | AReadAll), AErr ENotAllowed => ao_closed o
  | ANext, (ABytes (_ :: _) | AStop | AErr ENotAllowed) => true
  | AExhaust, ANone => true
  | AExhaust, AErr EValueError => ao_closed o
  | (AIterNew | AClose), ANone => true
  | _, _ => false
  end.

(* The cursor into the declared body.  Reads advance it by what they returned; a successful
   exhaust() consumes (and discards) everything that was left of the declared body, so it
   moves the cursor to the end; close() abandons the stream where it is. *)
Definition cursor_after (declared : bytes) (p : Z) (op : aop) (r : ares) : Z :=
  match op, r with
  | AExhaust, ANone => len declared
  | _, _ => p + len (ares_bytes r)
  end.

(* failing clauses, for ALL histories:  1 prefix / exact bytes   2 sized read <= size
   3 receive() awaited although Content-Length bytes had been received   4 tell() is not the
   cursor (bytes returned + bytes skipped by exhaust)   5 eof reported on an open stream before
   the cursor reached the end of the declared body   6 receive() awaited after a disconnect
   7 empty read although not at end-of-stream   8 shape / undocumented error   9 bytes returned
   after eof had been reported *)
Definition a_check (declared : bytes) (p : Z) (eof_before : bool) (o : aobs) : list N :=
  let b := ares_bytes (ao_res o) in
  let p' := cursor_after declared p (ao_op o) (ao_res o) in
  (if slice_ok declared p b then [] else [1%N])
  ++ (if a_sized_ok (ao_op o) b then [] else [2%N])
  ++ (if ao_over o =? 0 then [] else [3%N])
  ++ (if ao_tell o =? p' then [] else [4%N])
  ++ (if ao_eof o && negb (ao_closed o) && negb (p' =? len declared) then [5%N] else [])
  ++ (if ao_late o =? 0 then [] else [6%N])
  ++ (if a_asks_for_data (ao_op o) && negb (nonempty b) && negb (ao_eof o)
         && (match ao_res o with ABytes _ => true | _ => false end) then [7%N] else [])
  ++ (if a_shape_ok o then [] else [8%N])
  ++ (if eof_before && nonempty b then [9%N] else []).

(* The documented usage rule (falcon/asgi/stream.py, class docstring): "Apps may not use both
   read() and the asynchronous iterator interface to consume the same request body; the only
   time that it is safe to do so is when one or the other method is used to completely read
   the entire body before the other method is even attempted."  A sized read issued while an
   iteration is suspended (its last __anext__ yielded a chunk) can leave look-ahead bytes in
   the buffer that the resumed iteration skips; such histories are outside the property's
   domain from that operation on.  [susp] tracks "an iteration is suspended" from results. *)
Definition sized_read (op : aop) : bool :=
  match op with ARead (Some n) => negb (n =? -1) && (0 <? n) | _ => false end.

Definition gsusp (g : gstate) : bool :=
  match g with GAfterBuf | GInLoop _ => true | _ => false end.

(* the same rule as a predicate on histories of the model *)
Fixpoint disciplined (ops : list aop) (st : ast) : bool :=
  match ops with
  | [] => true
  | op :: tl => negb (gsusp (gen st) && sized_read op)
                && disciplined tl (snd (astep true op st))
  end.

Definition keeps_data (op : aop) : bool :=
  match op with AExhaust | AClose => false | _ => true end.
Definition not_exhaust (op : aop) : bool :=
  match op with AExhaust => false | _ => true end.

Definition susp_after (susp : bool) (op : aop) (r : ares) : bool :=
  match op, r with
  | ANext, ABytes _ => true
  | ANext, _ => false
  | AIterNew, _ => false
  | _, _ => susp
  end.

Fixpoint a_oracle_from (declared : bytes) (p : Z) (eof_before susp : bool) (obs : list aobs)
  : list N :=
  match obs with
  | [] => []
  | o :: tl =>
    if susp && sized_read (ao_op o) then []
    else
    a_check declared p eof_before o
    ++ a_oracle_from declared (cursor_after declared p (ao_op o) (ao_res o)) (ao_eof o)
                     (susp_after susp (ao_op o) (ao_res o)) tl
  end.

Definition a_oracle (first : option (option bytes * bool)) (cl : option Z)
           (events : list event) (tell0 : Z) (eof0 : bool) (obs : list aobs) : list N :=
  (if tell0 =? 0 then [] else [4%N])
  ++ a_oracle_from (a_declared first cl events) 0 eof0 false obs.

(* the cursor a history ends at *)
Fixpoint acursor (declared : bytes) (p : Z) (ops : list aop) (tr : list (ares * ast)) : Z :=
  match ops, tr with
  | op :: ops', (r, _) :: tr' => acursor declared (cursor_after declared p op r) ops' tr'
  | _, _ => p
  end.

Definition a_observe (op : aop) (p : ares * ast) : aobs :=
  let st := snd p in
  {| ao_op := op; ao_res := fst p; ao_tell := pos st; ao_eof := a_eof st;
     ao_closed := closed st; ao_awaits := awaits (nt st); ao_late := late (nt st);
     ao_over := over (nt st) |}.

Fixpoint a_observes (ops : list aop) (tr : list (ares * ast)) : list aobs :=
  match ops, tr with
  | op :: ops', p :: tr' => a_observe op p :: a_observes ops' tr'
  | _, _ => []
  end.

Fixpoint aend (tr : list (ares * ast)) (st0 : ast) : ast :=
  match tr with [] => st0 | (_, st) :: tl => aend tl st end.
Definition abytes (tr : list (ares * ast)) : bytes :=
  concat (map (fun p => ares_bytes (fst p)) tr).
