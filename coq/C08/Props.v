(* C08 — property theorems only (each closed by [exact] of a lemma proved in Proofs*.v).
   Query strings range over ALL lists of code points; [forallb scalar s = true] is Python's own
   domain for str (no lone surrogates: decode() calls str.encode()). *)
From Coq Require Import ZArith NArith List Bool.
From Falcon.lib Require Import PyStr Utf8.
From Falcon.C10 Require Import Model Spec.
From Falcon.C08 Require Import Model Spec ProofsParse ProofsGetters ProofsRoundtrip.
Import ListNotations.
Open Scope N_scope.

(* ---- parsing = the reference reading (fields / decoding / grouping), and total *)
Theorem C08_parse_is_reference : forall s keep_blank csv,
  forallb scalar s = true -> parse_query_string s keep_blank csv = Ok (ref_parse s keep_blank csv).
Proof. exact parse_is_reference. Qed.
Print Assumptions C08_parse_is_reference.

Theorem C08_request_params_is_reference : forall s keep_blank csv,
  forallb scalar s = true -> req_params s keep_blank csv = Ok (ref_parse s keep_blank csv).
Proof. exact req_params_is_reference. Qed.
Print Assumptions C08_request_params_is_reference.

Theorem C08_parse_total : forall s keep_blank csv,
  forallb scalar s = true -> exists p, parse_query_string s keep_blank csv = Ok p.
Proof. exact parse_total. Qed.
Print Assumptions C08_parse_total.

(* skipping decode() when the query has neither '+' nor '%' changes nothing *)
Theorem C08_is_encoded_shortcut_sound : forall enc x,
  good enc x -> maybe_decode enc x = Ok (ref_decode x true).
Proof. exact shortcut_sound. Qed.
Print Assumptions C08_is_encoded_shortcut_sound.

(* repeated names are collected into one list in order; one plain occurrence stays a str *)
Theorem C08_repeats_collected_in_order : forall s keep_blank csv n,
  lookup n (ref_parse s keep_blank csv) = grouped (occs_named n (occurrences s keep_blank csv)).
Proof. exact ref_parse_grouped. Qed.
Print Assumptions C08_repeats_collected_in_order.

(* dict order: a name enters when it first occurs and never moves *)
Theorem C08_insertion_order : forall ps o,
  map fst (merge ps o) = if has_param ps (o_name o) then map fst ps else map fst ps ++ [o_name o].
Proof. exact merge_keys. Qed.
Print Assumptions C08_insertion_order.

(* ---- getters (repaired presence test) = reference getters on every mapping *)
Theorem C08_get_param_is_reference : forall p name required,
  get_param true p name required = spec_get Some never never p name required.
Proof. exact get_param_is_spec. Qed.
Print Assumptions C08_get_param_is_reference.

Theorem C08_int_getter_is_reference : forall p name required mn mx,
  get_param_as_int true p name required mn mx = spec_get py_int (below mn) (above mx) p name required.
Proof. exact int_getter_is_spec. Qed.
Print Assumptions C08_int_getter_is_reference.

Theorem C08_bool_getter_is_reference : forall p name required bat,
  get_param_as_bool true p name required bat = spec_get (bool_of bat) never never p name required.
Proof. exact bool_getter_is_spec. Qed.
Print Assumptions C08_bool_getter_is_reference.

(* float / uuid (converter + bounds) and datetime / date / json (through get_param), relative to
   the converter oracle [conv] (None = ValueError / HTTPBadRequest from the handler) *)
Theorem C08_converter_getters_are_reference_partial :
  (forall T (conv : str -> option T) lo hi p name required,
      get_param_conv conv lo hi true p name required = spec_get conv lo hi p name required) /\
  (forall T (conv : str -> option T) p name required,
      get_param_via conv true p name required = spec_get conv never never p name required).
Proof. split; intros; [apply conv_getter_is_spec | apply via_is_spec]. Qed.
Print Assumptions C08_converter_getters_are_reference_partial.

Theorem C08_typed_getters_factor_through_get_param : forall T (conv : str -> option T) lo hi fixed p name required,
  get_param_conv conv lo hi fixed p name required =
  match get_param fixed p name required with
  | Found s => match conv s with
               | None => Err InvalidParam
               | Some x => if lo x || hi x then Err InvalidParam else Found x
               end
  | Defaulted => Defaulted
  | Err e => Err e
  | GCrash k => GCrash k
  end.
Proof. intros T. exact conv_factors_through_get_param. Qed.
Print Assumptions C08_typed_getters_factor_through_get_param.

(* a value or a 400-class error, never anything else *)
Theorem C08_getters_no_crash : forall p name required mn mx bat,
  is_crash (get_param true p name required) = false /\
  is_crash (get_param_as_int true p name required mn mx) = false /\
  is_crash (get_param_as_bool true p name required bat) = false /\
  is_crash (get_param_as_list p name required) = false /\
  (forall T (tr : str -> option T), is_crash (get_param_as_list_t tr p name required) = false) /\
  (forall T (conv : str -> option T) lo hi,
      is_crash (get_param_conv conv lo hi true p name required) = false) /\
  (forall T (conv : str -> option T), is_crash (get_param_via conv true p name required) = false).
Proof. exact getters_no_crash. Qed.
Print Assumptions C08_getters_no_crash.

(* the code as found: 'a=,' with auto_parse_qs_csv and blank values dropped gives {'a': []} and
   param[-1] raises IndexError (reproduced on the implementation: corpus/C08/empty-csv-list.json) *)
Theorem C08_getters_no_crash_refuted_before_fix :
  exists s kb csv name,
    forallb scalar s = true /\
    match parse_query_string s kb csv with
    | Ok p => get_param false p name false = GCrash IndexError /\
              get_param_as_int false p name false None None = GCrash IndexError /\
              get_param_as_bool false p name false true = GCrash IndexError
    | Crash _ => False
    end.
Proof. exact getters_no_crash_refuted_before_fix. Qed.
Print Assumptions C08_getters_no_crash_refuted_before_fix.

Theorem C08_getter_last_occurrence : forall s keep_blank csv name,
  all_values (ref_parse s keep_blank csv) name
  = concat (map o_vals (occs_named name (occurrences s keep_blank csv))).
Proof. exact getter_last_occurrence. Qed.
Print Assumptions C08_getter_last_occurrence.

Theorem C08_getter_required_default : forall T (conv : str -> option T) lo hi p name required,
  last_opt (all_values p name) = None ->
  spec_get conv lo hi p name required = if required then Err MissingParam else Defaulted.
Proof. intro T. exact getter_required_default. Qed.
Print Assumptions C08_getter_required_default.

Theorem C08_int_getter_bounds_exact : forall p name required mn mx x,
  get_param_as_int true p name required mn mx = Found x <->
  exists s, last_opt (all_values p name) = Some s /\ py_int s = Some x /\
            (forall m, mn = Some m -> (m <= x)%Z) /\ (forall m, mx = Some m -> (x <= m)%Z).
Proof. exact int_getter_bounds_exact. Qed.
Print Assumptions C08_int_getter_bounds_exact.

(* the getters are pure functions of the mapping: whatever sequence of getters runs, req.params
   afterwards is the mapping that was parsed (only store= dicts are written) *)
Theorem C08_getters_do_not_mutate_params : forall fixed p cs,
  snd (do_calls fixed p cs) = p /\ fst (do_calls fixed p cs) = map (fun c => fst (do_call fixed p c)) cs.
Proof. exact getters_pure. Qed.
Print Assumptions C08_getters_do_not_mutate_params.

(* ---- to_query_str *)
Theorem C08_qs_roundtrip : forall m cdl csv,
  canonical cdl m = true -> mapping_scalar m = true -> (cdl = true -> csv = true) ->
  exists q, to_query_str m cdl false = Ok q /\ parse_query_string q true csv = Ok (to_params m).
Proof. exact qs_roundtrip. Qed.
Print Assumptions C08_qs_roundtrip.

Theorem C08_qs_prefix : forall m cdl,
  canonical cdl m = true -> mapping_scalar m = true -> is_nil m = false ->
  exists q, to_query_str m cdl false = Ok q /\ to_query_str m cdl true = Ok (63 :: q).
Proof. exact qs_prefix. Qed.
Print Assumptions C08_qs_prefix.

(* ---- the harness's expected values (Spec on the reference mapping) are the model's outputs *)
Theorem C08_harness_oracles_sound : forall s kb csv p name required mn mx bat,
  forallb scalar s = true -> req_params s kb csv = Ok p ->
  p = ref_parse s kb csv /\
  get_param true p name required = spec_get Some never never (ref_parse s kb csv) name required /\
  get_param_as_int true p name required mn mx
  = spec_get py_int (below mn) (above mx) (ref_parse s kb csv) name required /\
  get_param_as_bool true p name required bat
  = spec_get (bool_of bat) never never (ref_parse s kb csv) name required.
Proof. exact harness_oracles_sound. Qed.
Print Assumptions C08_harness_oracles_sound.

(* ---- non-vacuity / documented edges *)
(* "a=1,%2C&b=caf%C3%A9&a=+x&c&=&d=" *)
Definition sample_qs : str :=
  [97; 61; 49; 44; 37; 50; 67; 38; 98; 61; 99; 97; 102; 37; 67; 51; 37; 65; 57; 38; 97; 61; 43; 120;
   38; 99; 38; 61; 38; 100; 61].
Example C08_sample_parse :
  forallb scalar sample_qs = true /\
  parse_query_string sample_qs true true
  = Ok [([97], VList [[49]; [44]; [32; 120]]); ([98], VStr [99; 97; 102; 233]); ([99], VStr []); ([100], VStr [])] /\
  parse_query_string sample_qs false false
  = Ok [([97], VList [[49; 44; 44]; [32; 120]]); ([98], VStr [99; 97; 102; 233])].
Proof. vm_compute. repeat split; reflexivity. Qed.

(* a canonical mapping with commas, '%', '+', '&', '=', blanks and non-ASCII *)
Definition sample_map : list (str * qval) :=
  [([97; 38; 98], QList [IStr [49; 44; 50]; IStr []; IStr [37; 43]]);
   ([], QItem (IStr [61]));
   ([233], QItem (IStr []))].
Example C08_sample_roundtrip :
  canonical true sample_map = true /\ canonical false sample_map = true /\ mapping_scalar sample_map = true /\
  match to_query_str sample_map true false with
  | Ok q => parse_query_string q true true = Ok (to_params sample_map)
  | Crash _ => False
  end /\
  match to_query_str sample_map false true with
  | Ok q => parse_query_string (tl q) true false = Ok (to_params sample_map)
  | Crash _ => False
  end.
Proof. vm_compute. repeat split; reflexivity. Qed.

(* inherent to the format, not demanded: singleton / empty lists and bools do not round-trip *)
Example C08_roundtrip_needs_canonical :
  (match to_query_str [([97], QList [IStr [120]])] true false with
   | Ok q => parse_query_string q true true = Ok [([97], VStr [120])] | Crash _ => False end) /\
  (match to_query_str [([97], QList [])] true false with
   | Ok q => parse_query_string q true true = Ok [([97], VStr [])] | Crash _ => False end) /\
  to_query_str [([97], QItem (IBool true))] true true = Ok [63; 97; 61; 116; 114; 117; 101] /\
  to_query_str [([97], QList [IBool true; IBool false])] true true
  = Ok [63; 97; 61; 84; 114; 117; 101; 44; 70; 97; 108; 115; 101].
Proof. vm_compute. repeat split; reflexivity. Qed.

Example C08_getters_sample :
  let p := [([97], VList [[49]; [52; 50]]); ([98], VStr []); ([99], VList [])] in
  get_param true p [97] false = Found [52; 50] /\
  get_param_as_int true p [97] false (Some 0%Z) (Some 41%Z) = Err InvalidParam /\
  get_param_as_int true p [97] false (Some 0%Z) (Some 42%Z) = Found 42%Z /\
  get_param_as_bool true p [98] false true = Found true /\
  get_param true p [99] true = Err MissingParam /\
  get_param false p [99] true = GCrash IndexError /\
  get_param_as_list p [99] false = Found [] /\
  get_param true p [122] false = Defaulted.
Proof. vm_compute. repeat split; reflexivity. Qed.
