From Coq Require Import ZArith NArith List Bool.
From Falcon.C08 Require Import Model Spec.
