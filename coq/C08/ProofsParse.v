(* C08 — parse_query_string equals the three-phase reference reading; closed form of grouping. *)
From Coq Require Import ZArith NArith List Bool Lia Arith.
From Falcon.lib Require Import PyStr Utf8.
From Falcon.C10 Require Import Model Spec ProofsDecode ProofsHost.
From Falcon.C08 Require Import Model Spec.
Import ListNotations.
Open Scope N_scope.

(* ---- pieces of a string only contain its characters *)
Definition sub (x y : str) : Prop := forall c, In c x -> In c y.

Lemma sub_refl x : sub x x.
Proof. intros c H. exact H. Qed.

Lemma sub_trans x y z : sub x y -> sub y z -> sub x z.
Proof. intros H1 H2 c H. apply H2, H1, H. Qed.

Lemma split_sub sep s tok : In tok (split_chr sep s) -> sub tok s.
Proof.
  revert tok. induction s as [|c tl IH]; intros tok H.
  - cbn [split_chr] in H. destruct H as [<- | []]. apply sub_refl.
  - cbn [split_chr] in H. destruct (c =? sep) eqn:E.
    + destruct H as [<- | H]; [intros x []|]. intros x Hx. right. apply (IH tok H x Hx).
    + destruct (split_chr_ex sep tl) as (h & t & Hs). rewrite Hs in *.
      destruct H as [<- | H].
      * intros x [<- | Hx]; [left; reflexivity|]. right. apply (IH h (or_introl eq_refl) x Hx).
      * intros x Hx. right. apply (IH tok (or_intror H) x Hx).
Qed.

Lemma partition_sub sep s a f b : partition_chr sep s = (a, f, b) -> sub a s /\ sub b s.
Proof.
  intro P. apply partition_spec in P as [_ Hs]. destruct f.
  - subst s. split; intros c Hc; apply in_or_app; [left; exact Hc | right; right; exact Hc].
  - destruct Hs as [-> ->]. split; [apply sub_refl | intros c []].
Qed.

(* ---- what a piece inherits: scalar code points, and no '+' / '%' when the whole string has none *)
Definition good (enc : bool) (x : str) : Prop :=
  forallb scalar x = true /\ (enc = false -> char_in 43 x = false /\ char_in 37 x = false).

Lemma char_in_sub c x y : sub x y -> char_in c y = false -> char_in c x = false.
Proof.
  intros S H. destruct (char_in c x) eqn:E; [|reflexivity].
  apply char_in_In in E. apply S in E. apply char_in_In in E. congruence.
Qed.

Lemma good_sub enc x y : sub x y -> good enc y -> good enc x.
Proof.
  intros S [Hs He]. split.
  - apply forallb_forall. intros c Hc. rewrite forallb_forall in Hs. apply Hs, S, Hc.
  - intro E. destruct (He E) as [H1 H2]. split; eapply char_in_sub; eauto.
Qed.

Lemma good_whole s : forallb scalar s = true -> good (char_in 43 s || char_in 37 s) s.
Proof. intro H. split; [exact H|]. intro E. apply orb_false_iff in E. exact E. Qed.

(* the is_encoded shortcut: skipping decode() when the query has neither '+' nor '%' changes nothing *)
Theorem shortcut_sound enc x : good enc x -> maybe_decode enc x = Ok (ref_decode x true).
Proof.
  intros [Hs He]. unfold maybe_decode. destruct enc.
  - apply decode_is_reference, Hs.
  - destruct (He eq_refl) as [H43 H37]. f_equal. symmetry.
    assert (P : plus_step x true = x) by (apply replace_chr_id; exact H43).
    rewrite <- P at 2. apply identity_path_sound; [exact Hs | rewrite P; exact H37].
Qed.

Lemma decode_good enc x : good enc x -> decode x true = Ok (ref_decode x true).
Proof. intros [Hs _]. apply decode_is_reference, Hs. Qed.

Lemma map_res_decode enc l :
  (forall e, In e l -> good enc e) ->
  map_res (fun e => decode e true) l = Ok (map (fun e => ref_decode e true) l).
Proof.
  induction l as [|e l IH]; intro H; [reflexivity|].
  cbn [map_res map]. rewrite (decode_good enc e) by (apply H; left; reflexivity).
  rewrite IH by (intros e' He'; apply H; right; exact He'). reflexivity.
Qed.

Lemma filter_true {A} (l : list A) : filter (fun _ => true) l = l.
Proof. induction l as [|x l IH]; [reflexivity|]. cbn [filter]. rewrite IH. reflexivity. Qed.

Lemma csv_values_ref enc kb v :
  good enc v ->
  csv_values kb v = Ok (map (fun e => ref_decode e true)
                            (filter (fun e => kb || nonempty e) (split_chr 44 v))).
Proof.
  intro G. unfold csv_values.
  assert (E : (if kb then split_chr 44 v else filter nonempty (split_chr 44 v))
              = filter (fun e => kb || nonempty e) (split_chr 44 v)).
  { destruct kb; cbn [orb]; [symmetry; apply filter_true | reflexivity]. }
  rewrite E. apply (map_res_decode enc). intros e He. apply filter_In in He as [He _].
  apply (good_sub enc e v); [apply (split_sub 44 v e He) | exact G].
Qed.

(* ---- one iteration = drop, or merge the occurrence *)
Lemma field_step_ref kb csv enc ps f :
  good enc f ->
  field_step kb csv enc ps f
  = Ok (if kept kb (raw_field f) then merge ps (occ_of kb csv (raw_field f)) else ps).
Proof.
  intro G. unfold field_step, raw_field.
  destruct (partition_chr 61 f) as [[k0 fl] v] eqn:P.
  destruct (partition_sub 61 f k0 fl v P) as [Sk Sv].
  pose proof (good_sub enc k0 f Sk G) as Gk. pose proof (good_sub enc v f Sv G) as Gv.
  unfold kept. cbn [fst snd].
  destruct (is_nil v && (negb kb || is_nil k0)); cbn [negb]; [reflexivity|].
  rewrite (shortcut_sound enc k0 Gk). unfold merge, occ_of. cbn [fst snd].
  destruct (csv && char_in 44 v) eqn:C; cbn [o_name o_vals o_list].
  - rewrite (csv_values_ref enc kb v Gv).
    destruct (lookup (ref_decode k0 true) ps) as [[o|l]|]; reflexivity.
  - destruct (lookup (ref_decode k0 true) ps) as [[o|l]|].
    + rewrite (shortcut_sound enc v Gv). reflexivity.
    + rewrite (shortcut_sound enc v Gv). reflexivity.
    + cbn [hd]. pose proof (shortcut_sound enc v Gv) as S. unfold maybe_decode in S.
      destruct enc; [rewrite S; reflexivity | injection S as <-; reflexivity].
Qed.

Lemma fold_fields_ref kb csv enc fields : forall ps,
  (forall f, In f fields -> good enc f) ->
  fold_fields (field_step kb csv enc) ps fields
  = Ok (fold_left merge (map (occ_of kb csv) (filter (kept kb) (map raw_field fields))) ps).
Proof.
  induction fields as [|f tl IH]; intros ps H; [reflexivity|].
  cbn [fold_fields map filter]. rewrite field_step_ref by (apply H; left; reflexivity).
  rewrite IH by (intros f' Hf'; apply H; right; exact Hf').
  destruct (kept kb (raw_field f)); reflexivity.
Qed.

Theorem parse_is_reference s kb csv :
  forallb scalar s = true -> parse_query_string s kb csv = Ok (ref_parse s kb csv).
Proof.
  intro Hs. unfold parse_query_string, ref_parse, occurrences, raw_fields.
  apply fold_fields_ref. intros f Hf.
  apply (good_sub _ f s); [apply (split_sub 38 s f Hf) | apply good_whole, Hs].
Qed.

Theorem parse_total s kb csv :
  forallb scalar s = true -> exists p, parse_query_string s kb csv = Ok p.
Proof. intro H. eexists. apply parse_is_reference, H. Qed.

Lemma ref_parse_nil kb csv : ref_parse [] kb csv = [].
Proof. destruct kb; reflexivity. Qed.

Theorem req_params_is_reference s kb csv :
  forallb scalar s = true -> req_params s kb csv = Ok (ref_parse s kb csv).
Proof.
  intro H. unfold req_params. destruct s as [|c s]; [|apply parse_is_reference, H].
  cbn [is_nil]. rewrite ref_parse_nil. reflexivity.
Qed.

(* ---- grouping, in closed form per name *)
Lemma lookup_pset n k v ps :
  lookup n (pset k v ps) = if str_eqb n k then Some v else lookup n ps.
Proof.
  induction ps as [|[k' v'] tl IH]; cbn [pset lookup].
  - destruct (str_eqb n k); reflexivity.
  - destruct (str_eqb k k') eqn:E; cbn [lookup].
    + apply str_eqb_eq in E. subst k'. destruct (str_eqb n k); reflexivity.
    + destruct (str_eqb n k') eqn:E2.
      * apply str_eqb_eq in E2. subst k'. rewrite (str_eqb_sym n k), E. reflexivity.
      * exact IH.
Qed.

Definition init (o : occ) : pval := if o_list o then VList (o_vals o) else VStr (hd [] (o_vals o)).
Definition merge_opt (cur : option pval) (o : occ) : option pval :=
  match cur with
  | None => Some (init o)
  | Some old => Some (VList (items_of old ++ o_vals o))
  end.

Lemma lookup_merge n ps o :
  lookup n (merge ps o) = if str_eqb n (o_name o) then merge_opt (lookup n ps) o else lookup n ps.
Proof.
  unfold merge. destruct (lookup (o_name o) ps) as [old|] eqn:L; rewrite lookup_pset;
    destruct (str_eqb n (o_name o)) eqn:E; try reflexivity;
    apply str_eqb_eq in E; subst n; rewrite L; reflexivity.
Qed.

Lemma lookup_fold_merge n os : forall ps,
  lookup n (fold_left merge os ps) = fold_left merge_opt (occs_named n os) (lookup n ps).
Proof.
  induction os as [|o os IH]; intro ps; [reflexivity|].
  cbn [fold_left occs_named filter]. rewrite IH, lookup_merge.
  destruct (str_eqb n (o_name o)); reflexivity.
Qed.

(* a non-list occurrence carries exactly one value *)
Definition wf_occ (o : occ) : Prop := o_list o = true \/ exists x, o_vals o = [x].

Lemma occ_of_wf kb csv kv : wf_occ (occ_of kb csv kv).
Proof. unfold occ_of. destruct (csv && char_in 44 (snd kv)); [left | right; eexists]; reflexivity. Qed.

Lemma items_init o : wf_occ o -> items_of (init o) = o_vals o.
Proof.
  intros [H | [x H]]; unfold init.
  - rewrite H. reflexivity.
  - destruct (o_list o); [reflexivity|]. rewrite H. reflexivity.
Qed.

Lemma fold_merge_opt_some os : forall acc,
  fold_left merge_opt os (Some (VList acc)) = Some (VList (acc ++ concat (map o_vals os))).
Proof.
  induction os as [|o os IH]; intro acc; cbn [fold_left map concat merge_opt items_of].
  - rewrite app_nil_r. reflexivity.
  - rewrite IH, app_assoc. reflexivity.
Qed.

Lemma fold_merge_opt_grouped os : Forall wf_occ os -> fold_left merge_opt os None = grouped os.
Proof.
  intro W. destruct os as [|o1 [|o2 rest]]; try reflexivity.
  inversion W as [|? ? W1 _]; subst.
  cbn [fold_left merge_opt]. rewrite (items_init o1 W1).
  rewrite fold_merge_opt_some. cbn [grouped map concat]. rewrite <- app_assoc. reflexivity.
Qed.

(* repeated names are collected into one list, in order; a single plain occurrence stays a str *)
Theorem ref_parse_grouped s kb csv n :
  lookup n (ref_parse s kb csv) = grouped (occs_named n (occurrences s kb csv)).
Proof.
  unfold ref_parse. rewrite lookup_fold_merge. cbn [lookup].
  apply fold_merge_opt_grouped. unfold occs_named, occurrences.
  apply Forall_forall. intros o Ho. apply filter_In in Ho as [Ho _].
  apply in_map_iff in Ho as (kv & <- & _). apply occ_of_wf.
Qed.

(* insertion order: a name enters the mapping when it first occurs and never moves *)
Lemma keys_pset_in k v ps : lookup k ps <> None -> map fst (pset k v ps) = map fst ps.
Proof.
  induction ps as [|[k' v'] tl IH]; cbn [lookup pset map fst]; [congruence|].
  destruct (str_eqb k k') eqn:E; cbn [map fst]; [reflexivity|]. intro H. rewrite (IH H). reflexivity.
Qed.

Lemma keys_pset_new k v ps : lookup k ps = None -> map fst (pset k v ps) = map fst ps ++ [k].
Proof.
  induction ps as [|[k' v'] tl IH]; cbn [lookup pset map fst app]; [reflexivity|].
  destruct (str_eqb k k') eqn:E; [discriminate|]. intro H. cbn [map fst]. rewrite (IH H). reflexivity.
Qed.

Theorem merge_keys ps o :
  map fst (merge ps o) = if has_param ps (o_name o) then map fst ps else map fst ps ++ [o_name o].
Proof.
  unfold merge, has_param. destruct (lookup (o_name o) ps) eqn:L.
  - apply keys_pset_in. congruence.
  - apply keys_pset_new. exact L.
Qed.
