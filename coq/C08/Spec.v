(* C08 — the form-urlencoded reference reading, written as three separate phases (fields,
   decoding through C10's reference decoder, grouping), the reference getters, and the
   canonical mappings for the to_query_str round trip. *)
From Coq Require Import ZArith NArith List Bool.
From Falcon.lib Require Import PyStr Utf8.
From Falcon.gen Require Import ConstsC08.
From Falcon.C10 Require Import Model Spec.
From Falcon.C08 Require Import Model.
Import ListNotations.
Open Scope N_scope.

(* phase 1: fields on '&', name/value on the first '=' *)
Definition raw_field (f : str) : str * str :=
  let '(k, _, v) := partition_chr 61 f in (k, v).
Definition raw_fields (s : str) : list (str * str) := map raw_field (split_chr 38 s).

(* blank values kept or dropped per option (a field with neither name nor value is noise) *)
Definition kept (keep_blank : bool) (kv : str * str) : bool :=
  negb (is_nil (snd kv) && (negb keep_blank || is_nil (fst kv))).

(* phase 2: one occurrence = decoded name, decoded value(s), "was a comma list" *)
Record occ := mk_occ { o_name : str; o_vals : list str; o_list : bool }.

Definition occ_of (keep_blank csv : bool) (kv : str * str) : occ :=
  let name := ref_decode (fst kv) true in
  if csv && char_in 44 (snd kv) then
    mk_occ name
           (map (fun e => ref_decode e true)
                (filter (fun e => keep_blank || nonempty e) (split_chr 44 (snd kv))))
           true
  else mk_occ name [ref_decode (snd kv) true] false.

Definition occurrences (s : str) (keep_blank csv : bool) : list occ :=
  map (occ_of keep_blank csv) (filter (kept keep_blank) (raw_fields s)).

(* phase 3: repeated names collected into lists, in order *)
Definition merge (ps : params) (o : occ) : params :=
  match lookup (o_name o) ps with
  | None => pset (o_name o) (if o_list o then VList (o_vals o) else VStr (hd [] (o_vals o))) ps
  | Some old => pset (o_name o) (VList (items_of old ++ o_vals o)) ps
  end.

Definition ref_parse (s : str) (keep_blank csv : bool) : params :=
  fold_left merge (occurrences s keep_blank csv) [].

(* closed form of phase 3 for one name *)
Definition occs_named (n : str) (os : list occ) : list occ :=
  filter (fun o => str_eqb n (o_name o)) os.
Definition grouped (os : list occ) : option pval :=
  match os with
  | [] => None
  | [o] => Some (if o_list o then VList (o_vals o) else VStr (hd [] (o_vals o)))
  | _ => Some (VList (concat (map o_vals os)))
  end.

(* ---- getters: the last value among all occurrences, converted, or a 400-class error *)
Definition all_values (p : params) (name : str) : list str :=
  match lookup name p with Some v => items_of v | None => [] end.

Definition spec_get {T} (conv : str -> option T) (too_low too_high : T -> bool)
           (p : params) (name : str) (required : bool) : outcome T :=
  match last_opt (all_values p name) with
  | None => absent required
  | Some s =>
    match conv s with
    | None => Err InvalidParam
    | Some x => if too_low x || too_high x then Err InvalidParam else Found x
    end
  end.

Definition never {T} (x : T) : bool := false.

Definition bool_of (blank_as_true : bool) (s : str) : option bool :=
  if mem s req_TRUE_STRINGS then Some true
  else if mem s req_FALSE_STRINGS then Some false
  else if is_nil s then Some blank_as_true else None.

Definition is_crash {T} (o : outcome T) : bool := match o with GCrash _ => true | _ => false end.

(* ---- to_query_str: the mappings a query string can represent *)
Definition is_str_item (i : qitem) : bool := match i with IStr _ => true | IBool _ => false end.
Definition item_str (i : qitem) : str := match i with IStr s => s | IBool _ => [] end.

(* values are strings or lists of at least two strings; not (key = '' and value = ''), which
   no query string can carry (with repeated fields each list element is such a value) *)
Definition canonical_entry (cdl : bool) (kv : str * qval) : bool :=
  match snd kv with
  | QItem (IStr s) => negb (is_nil (fst kv) && is_nil s)
  | QItem (IBool _) => false
  | QList l => (2 <=? length l)%nat && forallb is_str_item l
               && negb (is_nil (fst kv) && negb cdl && existsb (fun i => is_nil (item_str i)) l)
  end.

Fixpoint distinct (ks : list str) : bool :=
  match ks with [] => true | k :: tl => negb (mem k tl) && distinct tl end.

Definition canonical (cdl : bool) (m : list (str * qval)) : bool :=
  forallb (canonical_entry cdl) m && distinct (map fst m).

Definition to_params (m : list (str * qval)) : params :=
  map (fun kv => (fst kv, match snd kv with
                          | QItem i => VStr (item_str i)
                          | QList l => VList (map item_str l)
                          end)) m.

Definition qval_scalar (v : qval) : bool :=
  match v with
  | QItem i => forallb scalar (item_str i)
  | QList l => forallb (fun i => forallb scalar (item_str i)) l
  end.
Definition mapping_scalar (m : list (str * qval)) : bool :=
  forallb (fun kv => forallb scalar (fst kv) && qval_scalar (snd kv)) m.
