(* C08 — a canonical mapping rendered by to_query_str parses back to itself. *)
From Coq Require Import ZArith NArith List Bool Lia ZifyBool ZifyN Arith.
From Falcon.lib Require Import PyStr Utf8.
From Falcon.C10 Require Import Model Spec ProofsTables ProofsDecode ProofsEncode ProofsHost.
From Falcon.C08 Require Import Model Spec ProofsParse.
Import ListNotations.
Open Scope N_scope.
#[local] Ltac Zify.zify_post_hook ::= Z.div_mod_to_equations.

(* ------------------------------------------------------------------ split / join / partition *)
Lemma split_no_sep sep s : char_in sep s = false -> split_chr sep s = [s].
Proof.
  induction s as [|c tl IH]; [reflexivity|]. rewrite char_in_cons. intro H.
  apply orb_false_iff in H as [H1 H2]. rewrite N.eqb_sym in H1.
  rewrite split_chr_cons_ne by exact H1. rewrite (IH H2). reflexivity.
Qed.

Lemma split_app_sep sep a r :
  char_in sep a = false -> split_chr sep (a ++ sep :: r) = a :: split_chr sep r.
Proof.
  induction a as [|c a IH]; cbn [app].
  - intros _. apply split_chr_cons_eq.
  - rewrite char_in_cons. intro H. apply orb_false_iff in H as [H1 H2]. rewrite N.eqb_sym in H1.
    rewrite split_chr_cons_ne by exact H1. rewrite (IH H2). reflexivity.
Qed.

Lemma split_join sep fs :
  fs <> [] -> forallb (fun f => negb (char_in sep f)) fs = true ->
  split_chr sep (join_chr sep fs) = fs.
Proof.
  induction fs as [|f [|g rest] IH]; intros Hne H; [contradiction | |].
  - cbn [forallb] in H. rewrite andb_true_r in H. apply negb_true_iff in H.
    cbn [join_chr]. apply split_no_sep, H.
  - cbn [forallb] in H. apply andb_true_iff in H as [Hf Hr]. apply negb_true_iff in Hf.
    change (join_chr sep (f :: g :: rest)) with (f ++ sep :: join_chr sep (g :: rest)).
    rewrite (split_app_sep sep f _ Hf). f_equal. apply IH; [discriminate | exact Hr].
Qed.

Lemma join_has_sep sep f g rest : char_in sep (join_chr sep (f :: g :: rest)) = true.
Proof.
  change (join_chr sep (f :: g :: rest)) with (f ++ sep :: join_chr sep (g :: rest)).
  apply char_in_In. apply in_or_app. right. left. reflexivity.
Qed.

Lemma removelast_fields sep fs :
  fs <> [] -> removelast (concat (map (fun f => f ++ [sep]) fs)) = join_chr sep fs.
Proof.
  induction fs as [|f [|g rest] IH]; intro Hne; [contradiction | |].
  - cbn [map concat join_chr]. rewrite app_nil_r. apply removelast_last.
  - change (concat (map (fun f => f ++ [sep]) (f :: g :: rest)))
      with ((f ++ [sep]) ++ concat (map (fun f => f ++ [sep]) (g :: rest))).
    rewrite removelast_app.
    + rewrite IH by discriminate. rewrite <- app_assoc. reflexivity.
    + cbn [map concat]. destruct g; discriminate.
Qed.

Lemma partition_app sep a b :
  char_in sep a = false -> partition_chr sep (a ++ sep :: b) = (a, true, b).
Proof.
  induction a as [|c a IH]; cbn [app partition_chr].
  - intros _. rewrite N.eqb_refl. reflexivity.
  - rewrite char_in_cons. intro H. apply orb_false_iff in H as [H1 H2]. rewrite N.eqb_sym in H1.
    rewrite H1, (IH H2). reflexivity.
Qed.

(* ------------------------------------------------------------------ encode_value output *)
Definition enc (s : str) : str := table_out true (encode s).

Lemma encode_value_enc s : forallb scalar s = true -> encode_value s = Ok (enc s).
Proof. apply encoder_plain. Qed.

Lemma enc_decodes s : forallb scalar s = true -> ref_decode (enc s) true = s.
Proof. intro H. apply ref_decode_table_out; [reflexivity | exact H]. Qed.

Lemma enc_scalar s : forallb scalar s = true -> forallb scalar (enc s) = true.
Proof. intro H. apply ascii_scalar, table_out_ascii, encode_bytes, H. Qed.

(* no '&', '=' or ',' in an encoded value *)
Definition clean (c : N) : bool := negb ((c =? 38) || (c =? 61) || (c =? 44)).

Lemma hex_upper_clean n : n < 16 -> clean (hex_upper n) = true.
Proof. intro H. unfold clean, hex_upper. destruct (n <? 10) eqn:E; lia. Qed.

Lemma table_out_clean bs : Forall (fun b => b < 256) bs -> forallb clean (table_out true bs) = true.
Proof.
  unfold table_out. induction 1 as [|b bs Hb _ IH]; [reflexivity|].
  cbn [flat_map]. rewrite forallb_app, IH, andb_true_r.
  destruct (rfc_allowed true b) eqn:E.
  - rewrite encode_char_allowed by exact E. cbn [forallb]. rewrite andb_true_r.
    unfold clean. destruct (b =? 38) eqn:E1; [apply N.eqb_eq in E1; subst; discriminate|].
    destruct (b =? 61) eqn:E2; [apply N.eqb_eq in E2; subst; discriminate|].
    destruct (b =? 44) eqn:E3; [apply N.eqb_eq in E3; subst; discriminate|]. reflexivity.
  - rewrite encode_char_escaped by exact E. cbn [forallb].
    rewrite !hex_upper_clean by lia. reflexivity.
Qed.

Lemma enc_clean s : forallb scalar s = true -> forallb clean (enc s) = true.
Proof. intro H. apply table_out_clean, encode_bytes, H. Qed.

Lemma clean_no c s : forallb clean s = true -> clean c = false -> char_in c s = false.
Proof.
  intros H Hc. destruct (char_in c s) eqn:E; [|reflexivity].
  apply char_in_In in E. rewrite forallb_forall in H. apply H in E. congruence.
Qed.

Lemma enc_no s c : forallb scalar s = true -> clean c = false -> char_in c (enc s) = false.
Proof. intros H Hc. apply clean_no; [apply enc_clean, H | exact Hc]. Qed.

Lemma enc_nil s : is_nil (enc s) = is_nil s.
Proof.
  destruct s as [|c s]; [reflexivity|]. unfold enc, encode. cbn [flat_map is_nil].
  pose proof (encode_cp_nonempty c) as Hc. destruct (encode_cp c) as [|b bs]; [contradiction|].
  unfold table_out. cbn [app flat_map]. unfold encode_char.
  destruct (char_in b (allowed_chars true)); reflexivity.
Qed.

(* ------------------------------------------------------------------ what to_query_str writes *)
Definition field_of (kv : str * str) : str := fst kv ++ [61] ++ snd kv.

Definition enc_i (i : qitem) : str := enc (item_str i).

Definition item_pairs (cdl : bool) (k : str) (v : qval) : list (str * str) :=
  match v with
  | QItem i => [(enc k, enc_i i)]
  | QList l => if cdl then [(enc k, join_chr 44 (map enc_i l))]
               else map (fun i => (enc k, enc_i i)) l
  end.

Definition with_amp (kv : str * str) : str := field_of kv ++ [38].

Lemma pair_text_field ek ev : pair_text ek ev = with_amp (ek, ev).
Proof. unfold pair_text, with_amp, field_of. cbn [fst snd]. rewrite <- !app_assoc. reflexivity. Qed.

Definition item_ok (i : qitem) : bool := is_str_item i && forallb scalar (item_str i).

Lemma map_res_encode_str l :
  forallb item_ok l = true ->
  map_res (fun i => encode_value (py_str i)) l = Ok (map enc_i l).
Proof.
  induction l as [|i l IH]; intro H; [reflexivity|].
  cbn [forallb] in H. apply andb_true_iff in H as [Hi Hl]. unfold item_ok in Hi.
  apply andb_true_iff in Hi as [Hs Hsc]. destruct i as [b|s]; [discriminate|].
  cbn [map_res py_str map]. cbn [item_str] in Hsc. rewrite (encode_value_enc s Hsc), (IH Hl). reflexivity.
Qed.

Lemma map_res_enc_item l :
  forallb item_ok l = true -> map_res enc_item l = Ok (map enc_i l).
Proof.
  induction l as [|i l IH]; intro H; [reflexivity|].
  cbn [forallb] in H. apply andb_true_iff in H as [Hi Hl]. unfold item_ok in Hi.
  apply andb_true_iff in Hi as [Hs Hsc]. destruct i as [b|s]; [discriminate|].
  cbn [map_res enc_item map]. cbn [item_str] in Hsc. rewrite (encode_value_enc s Hsc), (IH Hl). reflexivity.
Qed.

Definition qval_ok (v : qval) : bool :=
  match v with QItem i => item_ok i | QList l => forallb item_ok l end.

Lemma entry_text_pairs cdl k v :
  forallb scalar k = true -> qval_ok v = true ->
  entry_text cdl k v = Ok (concat (map with_amp (item_pairs cdl k v))).
Proof.
  intros Hk Hv. unfold entry_text. rewrite (encode_value_enc k Hk). cbn [bind].
  destruct v as [i|l]; cbn [qval_ok] in Hv.
  - unfold item_ok in Hv. apply andb_true_iff in Hv as [Hs Hsc]. destruct i as [b|s]; [discriminate|].
    cbn [enc_item item_str] in *. rewrite (encode_value_enc s Hsc). cbn [bind item_pairs map concat].
    rewrite pair_text_field, app_nil_r. reflexivity.
  - destruct cdl.
    + rewrite (map_res_encode_str l Hv). cbn [bind item_pairs map concat].
      rewrite pair_text_field, app_nil_r. reflexivity.
    + rewrite (map_res_enc_item l Hv). cbn [bind item_pairs]. f_equal. f_equal.
      rewrite !map_map. apply map_ext. intro i. apply pair_text_field.
Qed.

Definition entry_ok (kv : str * qval) : bool := forallb scalar (fst kv) && qval_ok (snd kv).

Definition all_pairs (cdl : bool) (m : list (str * qval)) : list (str * str) :=
  flat_map (fun kv => item_pairs cdl (fst kv) (snd kv)) m.

Lemma entries_text_pairs cdl m :
  forallb entry_ok m = true -> entries_text cdl m = Ok (concat (map with_amp (all_pairs cdl m))).
Proof.
  induction m as [|[k v] m IH]; intro H; [reflexivity|].
  cbn [forallb] in H. apply andb_true_iff in H as [He Hm]. unfold entry_ok in He. cbn [fst snd] in He.
  apply andb_true_iff in He as [Hk Hv].
  cbn [entries_text]. rewrite (entry_text_pairs cdl k v Hk Hv), (IH Hm). cbn [bind all_pairs flat_map fst snd].
  rewrite map_app, concat_app. reflexivity.
Qed.

(* canonical + scalar gives the side conditions used above *)
Lemma canonical_entry_ok cdl kv :
  canonical_entry cdl kv = true -> forallb scalar (fst kv) && qval_scalar (snd kv) = true ->
  entry_ok kv = true.
Proof.
  destruct kv as [k v]. unfold canonical_entry, entry_ok. cbn [fst snd]. intros C S.
  apply andb_true_iff in S as [Sk Sv]. rewrite Sk. cbn [andb].
  destruct v as [[b|s]|l]; cbn [qval_ok qval_scalar] in *.
  - discriminate.
  - unfold item_ok. cbn [is_str_item item_str andb] in *. exact Sv.
  - apply andb_true_iff in C as [C _]. apply andb_true_iff in C as [_ C].
    apply forallb_forall. intros i Hi. unfold item_ok. rewrite forallb_forall in C, Sv.
    rewrite (C i Hi), (Sv i Hi). reflexivity.
Qed.

(* ------------------------------------------------------------------ reading the fields back *)
Lemma field_no_amp kv :
  forallb clean (fst kv) = true -> forallb (fun c => negb (c =? 38)) (snd kv) = true ->
  char_in 38 (field_of kv) = false.
Proof.
  intros Hk Hv. unfold field_of. destruct (char_in 38 (fst kv ++ [61] ++ snd kv)) eqn:E; [|exact E].
  apply char_in_In in E. apply in_app_or in E as [E | E].
  - rewrite forallb_forall in Hk. apply Hk in E. discriminate.
  - apply in_app_or in E as [[E | []] | E]; [discriminate|].
    rewrite forallb_forall in Hv. apply Hv in E. discriminate.
Qed.

Lemma raw_field_of ek ev : forallb clean ek = true -> raw_field (field_of (ek, ev)) = (ek, ev).
Proof.
  intro H. unfold raw_field, field_of. cbn [fst snd app].
  rewrite partition_app; [reflexivity|]. apply clean_no; [exact H | reflexivity].
Qed.

(* expected occurrences of one entry *)
Definition occs_entry (cdl : bool) (k : str) (v : qval) : list occ :=
  match v with
  | QItem i => [mk_occ k [item_str i] false]
  | QList l => if cdl then [mk_occ k (map item_str l) true]
               else map (fun i => mk_occ k [item_str i] false) l
  end.

Lemma occ_of_plain csv k s :
  forallb scalar k = true -> forallb scalar s = true ->
  occ_of true csv (enc k, enc s) = mk_occ k [s] false.
Proof.
  intros Hk Hs. unfold occ_of. cbn [fst snd].
  rewrite (enc_no s 44 Hs eq_refl), andb_false_r, (enc_decodes k Hk), (enc_decodes s Hs). reflexivity.
Qed.

Lemma map_enc_decode l :
  forallb item_ok l = true -> map (fun e => ref_decode e true) (map enc_i l) = map item_str l.
Proof.
  intro H. rewrite map_map. apply map_ext_in. intros i Hi. rewrite forallb_forall in H.
  specialize (H i Hi). unfold item_ok in H. apply andb_true_iff in H as [_ H]. apply enc_decodes, H.
Qed.

Lemma occs_of_entry cdl csv k v :
  (cdl = true -> csv = true) -> forallb scalar k = true -> qval_ok v = true ->
  match v with QList l => (2 <=? length l)%nat = true | _ => True end ->
  map (occ_of true csv) (item_pairs cdl k v) = occs_entry cdl k v.
Proof.
  intros Hc Hk Hv Hlen. destruct v as [i|l]; cbn [qval_ok] in Hv.
  - unfold item_ok in Hv. apply andb_true_iff in Hv as [_ Hs].
    cbn [item_pairs map occs_entry]. unfold enc_i. rewrite (occ_of_plain csv k _ Hk Hs). reflexivity.
  - destruct cdl; cbn [item_pairs occs_entry].
    + rewrite (Hc eq_refl). cbn [map]. unfold occ_of. cbn [fst snd andb].
      destruct l as [|i1 [|i2 rest]]; [discriminate | discriminate |].
      change (map enc_i (i1 :: i2 :: rest)) with (enc_i i1 :: enc_i i2 :: map enc_i rest).
      rewrite join_has_sep.
      change (enc_i i1 :: enc_i i2 :: map enc_i rest) with (map enc_i (i1 :: i2 :: rest)).
      rewrite split_join.
      * cbn [orb]. rewrite filter_true, (map_enc_decode _ Hv), (enc_decodes k Hk). reflexivity.
      * discriminate.
      * apply forallb_forall. intros f Hf. apply in_map_iff in Hf as (i & <- & Hi).
        rewrite forallb_forall in Hv. specialize (Hv i Hi). unfold item_ok in Hv.
        apply andb_true_iff in Hv as [_ Hs]. unfold enc_i. rewrite (enc_no _ 44 Hs eq_refl). reflexivity.
    + rewrite map_map. apply map_ext_in. intros i Hi. rewrite forallb_forall in Hv.
      specialize (Hv i Hi). unfold item_ok in Hv. apply andb_true_iff in Hv as [_ Hs].
      unfold enc_i. apply (occ_of_plain csv k _ Hk Hs).
Qed.

(* ------------------------------------------------------------------ grouping the occurrences *)
Lemma lookup_app k a b :
  lookup k (a ++ b) = match lookup k a with Some v => Some v | None => lookup k b end.
Proof.
  induction a as [|[k' v'] a IH]; [reflexivity|]. cbn [app lookup].
  destruct (str_eqb k k'); [reflexivity | exact IH].
Qed.

Lemma pset_new k v ps : lookup k ps = None -> pset k v ps = ps ++ [(k, v)].
Proof.
  induction ps as [|[k' v'] ps IH]; [reflexivity|]. cbn [lookup pset app].
  destruct (str_eqb k k'); [discriminate|]. intro H. rewrite (IH H). reflexivity.
Qed.

Lemma pset_last k v w ps : lookup k ps = None -> pset k v (ps ++ [(k, w)]) = ps ++ [(k, v)].
Proof.
  induction ps as [|[k' v'] ps IH]; cbn [lookup pset app].
  - intros _. rewrite str_eqb_refl. reflexivity.
  - destruct (str_eqb k k'); [discriminate|]. intro H. rewrite (IH H). reflexivity.
Qed.

Lemma lookup_last k w ps : lookup k ps = None -> lookup k (ps ++ [(k, w)]) = Some w.
Proof. intro H. rewrite lookup_app, H. cbn [lookup]. rewrite str_eqb_refl. reflexivity. Qed.

Lemma merge_more k ps items : forall acc,
  lookup k ps = None ->
  fold_left merge (map (fun i => mk_occ k [item_str i] false) items) (ps ++ [(k, VList acc)])
  = ps ++ [(k, VList (acc ++ map item_str items))].
Proof.
  induction items as [|i items IH]; intros acc H; cbn [map fold_left].
  - rewrite app_nil_r. reflexivity.
  - unfold merge at 2. cbn [o_name o_vals o_list]. rewrite (lookup_last k _ ps H).
    cbn [items_of]. rewrite (pset_last k _ _ ps H), (IH _ H), <- app_assoc. reflexivity.
Qed.

Lemma merge_entry cdl k v ps :
  lookup k ps = None ->
  match v with QList l => (2 <=? length l)%nat = true | _ => True end ->
  fold_left merge (occs_entry cdl k v) ps
  = ps ++ [(k, match v with QItem i => VStr (item_str i) | QList l => VList (map item_str l) end)].
Proof.
  intros H Hlen. destruct v as [i|l]; cbn [occs_entry].
  - cbn [fold_left]. unfold merge. cbn [o_name o_vals o_list hd]. rewrite H. apply pset_new, H.
  - destruct cdl.
    + cbn [fold_left]. unfold merge. cbn [o_name o_vals o_list]. rewrite H. apply pset_new, H.
    + destruct l as [|i1 [|i2 rest]]; [discriminate | discriminate |].
      cbn [map fold_left]. unfold merge at 3. cbn [o_name o_vals o_list hd]. rewrite H, (pset_new k _ ps H).
      unfold merge at 2. cbn [o_name o_vals o_list]. rewrite (lookup_last k _ ps H).
      cbn [items_of app]. rewrite (pset_last k _ _ ps H), (merge_more k ps rest _ H). reflexivity.
Qed.

Definition all_occs (cdl : bool) (m : list (str * qval)) : list occ :=
  flat_map (fun kv => occs_entry cdl (fst kv) (snd kv)) m.

Definition len_ok (kv : str * qval) : Prop :=
  match snd kv with QList l => (2 <=? length l)%nat = true | _ => True end.

Lemma mem_false_neq k l k' : mem k l = false -> In k' l -> str_eqb k' k = false.
Proof.
  intros H Hin. destruct (str_eqb k' k) eqn:E; [|reflexivity].
  apply str_eqb_eq in E. subst k'. apply mem_In in Hin. congruence.
Qed.

Lemma merge_all cdl m : forall ps,
  Forall len_ok m -> distinct (map fst m) = true ->
  (forall k, In k (map fst m) -> lookup k ps = None) ->
  fold_left merge (all_occs cdl m) ps = ps ++ to_params m.
Proof.
  induction m as [|[k v] m IH]; intros ps Hl Hd Hps.
  - cbn [all_occs flat_map fold_left to_params map]. rewrite app_nil_r. reflexivity.
  - inversion Hl as [|? ? Hl1 Hl2]; subst. cbn [map fst distinct] in Hd.
    apply andb_true_iff in Hd as [Hk Hd]. apply negb_true_iff in Hk.
    cbn [all_occs flat_map fst snd]. rewrite fold_left_app.
    rewrite (merge_entry cdl k v ps (Hps k (or_introl eq_refl)) Hl1).
    change (flat_map (fun kv => occs_entry cdl (fst kv) (snd kv)) m) with (all_occs cdl m).
    rewrite IH; [| exact Hl2 | exact Hd |].
    + cbn [to_params map fst snd]. rewrite <- app_assoc. reflexivity.
    + intros k' Hk'. rewrite lookup_app, (Hps k' (or_intror Hk')). cbn [lookup].
      rewrite (mem_false_neq k _ k' Hk Hk'). reflexivity.
Qed.

(* ------------------------------------------------------------------ the theorem *)
Lemma filter_all {A} (f : A -> bool) l : forallb f l = true -> filter f l = l.
Proof.
  induction l as [|x l IH]; [reflexivity|]. cbn [forallb filter]. intro H.
  apply andb_true_iff in H as [Hx Hl]. rewrite Hx, (IH Hl). reflexivity.
Qed.

Definition pair_ok (kv : str * str) : bool :=
  forallb clean (fst kv) && forallb (fun c => negb (c =? 38)) (snd kv) && kept true kv.

Lemma clean_not_amp s : forallb clean s = true -> forallb (fun c => negb (c =? 38)) s = true.
Proof.
  intro H. apply forallb_forall. intros c Hc. rewrite forallb_forall in H. specialize (H c Hc).
  unfold clean in H. destruct (c =? 38); [discriminate | reflexivity].
Qed.

Lemma join_not_amp l : forallb item_ok l = true ->
  forallb (fun c => negb (c =? 38)) (join_chr 44 (map enc_i l)) = true.
Proof.
  induction l as [|i [|j rest] IH]; intro H; [reflexivity | |].
  - cbn [map join_chr]. cbn [forallb] in H. rewrite andb_true_r in H. unfold item_ok in H.
    apply andb_true_iff in H as [_ H]. apply clean_not_amp, enc_clean, H.
  - cbn [forallb] in H. apply andb_true_iff in H as [Hi Hr]. unfold item_ok in Hi.
    apply andb_true_iff in Hi as [_ Hi].
    change (join_chr 44 (map enc_i (i :: j :: rest))) with (enc_i i ++ 44 :: join_chr 44 (map enc_i (j :: rest))).
    rewrite forallb_app. cbn [forallb]. rewrite (IH Hr), andb_true_r.
    change (enc_i i) with (enc (item_str i)).
    rewrite (clean_not_amp _ (enc_clean _ Hi)). reflexivity.
Qed.

Lemma pairs_ok cdl kv :
  canonical_entry cdl kv = true -> entry_ok kv = true ->
  forallb pair_ok (item_pairs cdl (fst kv) (snd kv)) = true.
Proof.
  destruct kv as [k v]. unfold canonical_entry, entry_ok. cbn [fst snd]. intros C E.
  apply andb_true_iff in E as [Hk Hv].
  assert (Ck : forallb clean (enc k) = true) by (apply enc_clean, Hk).
  destruct v as [[b|s]|l]; cbn [qval_ok] in Hv.
  - discriminate.
  - unfold item_ok in Hv. cbn [is_str_item item_str andb] in Hv.
    cbn [item_pairs forallb]. unfold pair_ok, enc_i, kept. cbn [fst snd item_str].
    rewrite Ck, (clean_not_amp _ (enc_clean s Hv)), !enc_nil. cbn [negb orb andb].
    rewrite andb_true_r. rewrite andb_comm. exact C.
  - apply andb_true_iff in C as [C Cblank]. apply andb_true_iff in C as [Clen _].
    destruct cdl; cbn [item_pairs].
    + cbn [forallb]. unfold pair_ok, kept. cbn [fst snd]. rewrite Ck, (join_not_amp l Hv). cbn [andb].
      destruct l as [|i1 [|i2 rest]]; [discriminate | discriminate |].
      assert (Hne : is_nil (join_chr 44 (map enc_i (i1 :: i2 :: rest))) = false).
      { change (join_chr 44 (map enc_i (i1 :: i2 :: rest)))
          with (enc_i i1 ++ 44 :: join_chr 44 (map enc_i (i2 :: rest))).
        destruct (enc_i i1); reflexivity. }
      rewrite Hne. reflexivity.
    + apply forallb_forall. intros p Hp. apply in_map_iff in Hp as (i & <- & Hi).
      rewrite forallb_forall in Hv. pose proof (Hv i Hi) as Hiok. unfold item_ok in Hiok.
      apply andb_true_iff in Hiok as [_ Hs].
      unfold pair_ok, kept, enc_i. cbv beta. cbn [fst snd].
      rewrite Ck, (clean_not_amp _ (enc_clean _ Hs)), !enc_nil. cbn [negb orb andb].
      apply negb_true_iff in Cblank. apply negb_true_iff. rewrite andb_true_r in Cblank.
      destruct (is_nil k); [|apply andb_false_r]. cbn [andb] in Cblank. rewrite andb_true_r.
      destruct (is_nil (item_str i)) eqn:N; [|reflexivity].
      exfalso. assert (X : existsb (fun i => is_nil (item_str i)) l = true).
      { apply existsb_exists. exists i. auto. }
      rewrite X in Cblank. discriminate.
Qed.

Theorem qs_roundtrip m cdl csv :
  canonical cdl m = true -> mapping_scalar m = true -> (cdl = true -> csv = true) ->
  exists q, to_query_str m cdl false = Ok q /\ parse_query_string q true csv = Ok (to_params m).
Proof.
  intros C S Hc. unfold canonical in C. unfold mapping_scalar in S. apply andb_true_iff in C as [Ce Cd].
  assert (Eok : forallb entry_ok m = true).
  { apply forallb_forall. intros kv Hkv. rewrite forallb_forall in Ce, S.
    apply (canonical_entry_ok cdl kv (Ce kv Hkv) (S kv Hkv)). }
  destruct (is_nil m) eqn:Hm.
  { destruct m; [|discriminate]. exists []. split; reflexivity. }
  unfold to_query_str. rewrite Hm, (entries_text_pairs cdl m Eok). cbn [bind app].
  eexists. split; [reflexivity|].
  (* the pairs *)
  assert (Pok : forallb pair_ok (all_pairs cdl m) = true).
  { unfold all_pairs. apply forallb_forall. intros p Hp. apply in_flat_map in Hp as (kv & Hkv & Hp).
    rewrite forallb_forall in Ce, Eok.
    pose proof (pairs_ok cdl kv (Ce kv Hkv) (Eok kv Hkv)) as F. rewrite forallb_forall in F. apply F, Hp. }
  assert (Pne : all_pairs cdl m <> []).
  { unfold all_pairs. destruct m as [|[k v] m2]; [discriminate Hm|]. cbn [flat_map fst snd].
    rewrite forallb_forall in Ce. pose proof (Ce (k, v) (or_introl eq_refl)) as Ckv.
    unfold canonical_entry in Ckv. cbn [fst snd] in Ckv.
    destruct v as [i|l]; cbn [item_pairs]; [discriminate|].
    destruct cdl; [discriminate|]. destruct l as [|i1 l]; [discriminate | discriminate]. }
  set (fields := map field_of (all_pairs cdl m)).
  assert (Fsplit : split_chr 38 (removelast (concat (map with_amp (all_pairs cdl m)))) = fields).
  { replace (map with_amp (all_pairs cdl m)) with (map (fun f => f ++ [38]) fields)
      by (unfold fields; rewrite map_map; reflexivity).
    rewrite removelast_fields by (unfold fields; destruct (all_pairs cdl m); [contradiction | discriminate]).
    apply split_join; [unfold fields; destruct (all_pairs cdl m); [contradiction | discriminate]|].
    unfold fields. apply forallb_forall. intros f Hf. apply in_map_iff in Hf as (p & <- & Hp).
    rewrite forallb_forall in Pok. specialize (Pok p Hp). unfold pair_ok in Pok.
    apply andb_true_iff in Pok as [Pok _]. apply andb_true_iff in Pok as [P1 P2].
    rewrite (field_no_amp p P1 P2). reflexivity. }
  assert (Qs : forallb scalar (removelast (concat (map with_amp (all_pairs cdl m)))) = true).
  { apply forallb_forall. intros c Hc'.
    assert (Hin : In c (concat (map with_amp (all_pairs cdl m)))).
    { remember (concat (map with_amp (all_pairs cdl m))) as body. clear -Hc'.
      induction body as [|x [|y body] IH]; [destruct Hc' | destruct Hc' |].
      change (removelast (x :: y :: body)) with (x :: removelast (y :: body)) in Hc'.
      destruct Hc' as [-> | H]; [left; reflexivity | right; apply IH, H]. }
    apply in_concat in Hin as (t & Ht & Hct). apply in_map_iff in Ht as (p & <- & Hp).
    unfold all_pairs in Hp. apply in_flat_map in Hp as (kv & Hkv & Hp).
    rewrite forallb_forall in Eok. specialize (Eok kv Hkv). unfold entry_ok in Eok.
    apply andb_true_iff in Eok as [Hk Hv].
    assert (Sk : forallb scalar (enc (fst kv)) = true) by (apply enc_scalar, Hk).
    assert (Si : forall i, item_ok i = true -> forallb scalar (enc_i i) = true).
    { intros i Hi. unfold item_ok in Hi. apply andb_true_iff in Hi as [_ Hi]. apply enc_scalar, Hi. }
    assert (Sj : forall l, forallb item_ok l = true -> forallb scalar (join_chr 44 (map enc_i l)) = true).
    { induction l as [|i [|j rest] IHl]; intro H; [reflexivity | |].
      - cbn [map join_chr]. cbn [forallb] in H. rewrite andb_true_r in H. apply Si, H.
      - cbn [forallb] in H. apply andb_true_iff in H as [Hi Hr].
        change (join_chr 44 (map enc_i (i :: j :: rest))) with (enc_i i ++ 44 :: join_chr 44 (map enc_i (j :: rest))).
        rewrite forallb_app. cbn [forallb]. rewrite (Si i Hi), (IHl Hr). reflexivity. }
    assert (Sp : forallb scalar (with_amp p) = true).
    { unfold with_amp, field_of. rewrite !forallb_app. cbn [forallb].
      destruct (snd kv) as [i|l]; cbn [item_pairs qval_ok] in *.
      - destruct Hp as [<- | []]. cbn [fst snd]. rewrite Sk, (Si i Hv). reflexivity.
      - destruct cdl.
        + destruct Hp as [<- | []]. cbn [fst snd]. rewrite Sk, (Sj l Hv). reflexivity.
        + apply in_map_iff in Hp as (i & <- & Hi). cbn [fst snd]. rewrite forallb_forall in Hv.
          rewrite Sk, (Si i (Hv i Hi)). reflexivity. }
    rewrite forallb_forall in Sp. apply Sp, Hct. }
  rewrite (parse_is_reference _ true csv Qs). f_equal.
  unfold ref_parse, occurrences, raw_fields. rewrite Fsplit. unfold fields. rewrite map_map.
  assert (Raw : map (fun x => raw_field (field_of x)) (all_pairs cdl m) = all_pairs cdl m).
  { transitivity (map (fun x => x) (all_pairs cdl m)); [|apply map_id].
    apply map_ext_in. intros [ek ev] Hp. rewrite forallb_forall in Pok. specialize (Pok _ Hp).
    unfold pair_ok in Pok. apply andb_true_iff in Pok as [Pok _]. apply andb_true_iff in Pok as [P1 _].
    apply raw_field_of, P1. }
  rewrite Raw, filter_all.
  2:{ apply forallb_forall. intros p Hp. rewrite forallb_forall in Pok. specialize (Pok p Hp).
      unfold pair_ok in Pok. apply andb_true_iff in Pok as [_ K]. exact K. }
  assert (Occ : map (occ_of true csv) (all_pairs cdl m) = all_occs cdl m).
  { unfold all_pairs, all_occs. clear -Ce Eok Hc. induction m as [|[k v] m IH]; [reflexivity|].
    cbn [forallb] in Ce, Eok. apply andb_true_iff in Ce as [C1 C2]. apply andb_true_iff in Eok as [E1 E2].
    cbn [flat_map fst snd]. rewrite map_app, (IH C2 E2). f_equal.
    unfold entry_ok in E1. cbn [fst snd] in E1. apply andb_true_iff in E1 as [Hk Hv].
    apply occs_of_entry; try assumption.
    unfold canonical_entry in C1. cbn [fst snd] in C1. destruct v as [i|l]; [exact I|].
    apply andb_true_iff in C1 as [C1 _]. apply andb_true_iff in C1 as [C1 _]. exact C1. }
  rewrite Occ. rewrite (merge_all cdl m []); [reflexivity | | exact Cd | reflexivity].
  apply Forall_forall. intros [k v] Hkv. rewrite forallb_forall in Ce. specialize (Ce _ Hkv).
  unfold canonical_entry in Ce. cbn [fst snd] in Ce. unfold len_ok. cbn [snd].
  destruct v as [i|l]; [exact I|].
  apply andb_true_iff in Ce as [Ce _]. apply andb_true_iff in Ce as [Ce _]. exact Ce.
Qed.

(* ------------------------------------------------------------------ the '?' prefix *)
Lemma all_pairs_nonempty cdl m :
  forallb (canonical_entry cdl) m = true -> is_nil m = false -> all_pairs cdl m <> [].
Proof.
  intros Ce Hm. unfold all_pairs. destruct m as [|[k v] m2]; [discriminate Hm|]. cbn [flat_map fst snd].
  cbn [forallb] in Ce. apply andb_true_iff in Ce as [Ckv _].
  unfold canonical_entry in Ckv. cbn [fst snd] in Ckv.
  destruct v as [i|l]; cbn [item_pairs]; [discriminate|].
  destruct cdl; [discriminate|]. destruct l as [|i1 l]; [discriminate | discriminate].
Qed.

Theorem qs_prefix m cdl :
  canonical cdl m = true -> mapping_scalar m = true -> is_nil m = false ->
  exists q, to_query_str m cdl false = Ok q /\ to_query_str m cdl true = Ok (63 :: q).
Proof.
  intros C S Hm. unfold canonical in C. unfold mapping_scalar in S. apply andb_true_iff in C as [Ce _].
  assert (Eok : forallb entry_ok m = true).
  { apply forallb_forall. intros kv Hkv. rewrite forallb_forall in Ce, S.
    apply (canonical_entry_ok cdl kv (Ce kv Hkv) (S kv Hkv)). }
  unfold to_query_str. rewrite Hm, (entries_text_pairs cdl m Eok). cbn [bind app].
  eexists. split; [reflexivity|]. f_equal.
  pose proof (all_pairs_nonempty cdl m Ce Hm) as Pne.
  destruct (all_pairs cdl m) as [|p ps]; [contradiction|]. cbn [map concat].
  assert (E : exists x t, with_amp p = x :: t).
  { unfold with_amp. destruct (field_of p) as [|x t]; cbn [app]; eauto. }
  destruct E as (x & t & ->). reflexivity.
Qed.
