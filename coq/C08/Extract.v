From Coq Require Import ZArith NArith List Bool.
From Coq Require Import ExtrOcamlBasic.
From Falcon.lib Require Import Wire PyStr Utf8.
From Falcon.C10 Require Import Model.
From Falcon.C08 Require Import Model Spec.
Import ListNotations.
Open Scope Z_scope.

Definition v_pval (v : pval) : val :=
  match v with VStr s => L [I 0; vstr s] | VList l => L [I 1; vlist vstr l] end.
Definition v_params (p : params) : val := vlist (vpair vstr v_pval) p.
Definition v_rparams (r : res params) : val :=
  match r with Ok p => L [I 1; v_params p] | Crash _ => L [I 0] end.
Definition d_pval (v : val) : pval :=
  match v with
  | L [I 0; s] => VStr (dstr s)
  | L [I _; l] => VList (dlist dstr l)
  | _ => VStr []
  end.
Definition d_params (v : val) : params := dlist (fun p => (dstr (nth_val 0 p), d_pval (nth_val 1 p))) v.

Definition v_outcome {A} (f : A -> val) (o : outcome A) : val :=
  match o with
  | Found v => L [I 0; f v]
  | Defaulted => L [I 1]
  | Err MissingParam => L [I 2]
  | Err InvalidParam => L [I 3]
  | GCrash IndexError => L [I 4]
  end.

(* the getters evaluated on a mapping: [fixed] selects the repaired presence test.  The
   transform of get_param_as_list is int(); min/max for the int getter come from the case. *)
Definition getters (spec fixed : bool) (p : params) (name : str) (required : bool)
           (mn mx : option Z) (bat : bool) : val :=
  if spec then
    L [v_outcome vstr (spec_get Some never never p name required);
       v_outcome I (spec_get py_int (below mn) (above mx) p name required);
       v_outcome vbool (spec_get (bool_of bat) never never p name required);
       v_outcome (vlist vstr) (get_param_as_list p name required);
       v_outcome (vlist I) (get_param_as_list_t py_int p name required);
       vbool (has_param p name)]
  else
    L [v_outcome vstr (get_param fixed p name required);
       v_outcome I (get_param_as_int fixed p name required mn mx);
       v_outcome vbool (get_param_as_bool fixed p name required bat);
       v_outcome (vlist vstr) (get_param_as_list p name required);
       v_outcome (vlist I) (get_param_as_list_t py_int p name required);
       vbool (has_param p name)].

Definition d_qitem (v : val) : qitem :=
  match v with
  | L [I 0; b] => IBool (dbool b)
  | L [I _; s] => IStr (dstr s)
  | _ => IStr []
  end.
Definition d_qval (v : val) : qval :=
  match v with
  | L [I 0; i] => QItem (d_qitem i)
  | L [I _; l] => QList (dlist d_qitem l)
  | _ => QItem (IStr [])
  end.
Definition d_mapping (v : val) : list (str * qval) :=
  dlist (fun p => (dstr (nth_val 0 p), d_qval (nth_val 1 p))) v.

Definition v_rstr (r : res str) : val := match r with Ok s => L [I 1; vstr s] | Crash _ => L [I 0] end.

(* ops: 0 parse (model, reference); 1 request: model params + reference params + getters on each
   name (model getters on the model mapping, spec getters on the reference mapping);
   2 getters on a given mapping (model fixed / unfixed, spec); 3 to_query_str + canonical +
   to_params *)
Definition run (v : val) : val :=
  match v with
  | L [I 0; s; kb; csv] =>
    L [v_rparams (parse_query_string (dstr s) (dbool kb) (dbool csv));
       v_params (ref_parse (dstr s) (dbool kb) (dbool csv))]
  | L [I 1; s; kb; csv; fixed; names; req; mn; mx; bat] =>
    let rp := ref_parse (dstr s) (dbool kb) (dbool csv) in
    match req_params (dstr s) (dbool kb) (dbool csv) with
    | Crash _ => L [I 0]
    | Ok p =>
      L [I 1; v_params p; v_params rp;
         vlist (fun n => L [getters false (dbool fixed) p n (dbool req) (dopt dZ mn) (dopt dZ mx) (dbool bat);
                            getters true true rp n (dbool req) (dopt dZ mn) (dopt dZ mx) (dbool bat)])
               (dlist dstr names)]
    end
  | L [I 2; p; fixed; name; req; mn; mx; bat] =>
    L [getters false (dbool fixed) (d_params p) (dstr name) (dbool req) (dopt dZ mn) (dopt dZ mx) (dbool bat);
       getters true true (d_params p) (dstr name) (dbool req) (dopt dZ mn) (dopt dZ mx) (dbool bat)]
  | L [I 3; m; cdl; prefix] =>
    L [v_rstr (to_query_str (d_mapping m) (dbool cdl) (dbool prefix));
       vbool (canonical (dbool cdl) (d_mapping m));
       v_params (to_params (d_mapping m))]
  | _ => L [I (-1)]
  end.

Extraction "C08/model.ml" run.
