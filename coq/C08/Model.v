(* C08 — executable model of falcon/util/uri.py:parse_query_string, the request getters of
   falcon/request.py (get_param, get_param_as_int/bool/list/..., has_param) and
   falcon/util/misc.py:to_query_str.  decode / encode_value / int() are C10's model. *)
From Coq Require Import ZArith NArith List Bool.
From Falcon.lib Require Import PyStr Utf8.
From Falcon.gen Require Import ConstsC08.
From Falcon.C10 Require Import Model.
Import ListNotations.
Open Scope N_scope.

(* a parameter value: a str, or a list of str *)
Inductive pval := VStr (s : str) | VList (l : list str).
(* dict in insertion order *)
Definition params := list (str * pval).

Fixpoint lookup (k : str) (p : params) : option pval :=
  match p with
  | [] => None
  | (k', v) :: tl => if str_eqb k k' then Some v else lookup k tl
  end.

(* params[k] = v : in place when present, appended otherwise *)
Fixpoint pset (k : str) (v : pval) (p : params) : params :=
  match p with
  | [] => [(k, v)]
  | (k', v') :: tl => if str_eqb k k' then (k', v) :: tl else (k', v') :: pset k v tl
  end.

Fixpoint map_res {A B} (f : A -> res B) (l : list A) : res (list B) :=
  match l with
  | [] => Ok []
  | x :: tl =>
    match f x with
    | Crash e => Crash e
    | Ok y => match map_res f tl with Crash e => Crash e | Ok ys => Ok (y :: ys) end
    end
  end.

Definition nonempty (s : str) : bool := negb (is_nil s).

(* [decode(element) for element in values if element]  /  [decode(element) for element in values] *)
Definition csv_values (keep_blank : bool) (v : str) : res (list str) :=
  let values := split_chr 44 v in
  map_res (fun e => decode e true) (if keep_blank then values else filter nonempty values).

Definition maybe_decode (is_encoded : bool) (s : str) : res str :=
  if is_encoded then decode s true else Ok s.

(* one iteration of the for loop *)
Definition field_step (keep_blank csv is_encoded : bool) (ps : params) (field : str) : res params :=
  let '(k0, _, v) := partition_chr 61 field in
  if is_nil v && (negb keep_blank || is_nil k0) then Ok ps else
  match maybe_decode is_encoded k0 with
  | Crash e => Crash e
  | Ok k =>
    match lookup k ps with
    | Some old =>
      if csv && char_in 44 v then
        match csv_values keep_blank v with
        | Crash e => Crash e
        | Ok additional =>
          match old with
          | VList l => Ok (pset k (VList (l ++ additional)) ps)
          | VStr o => Ok (pset k (VList (o :: additional)) ps)
          end
        end
      else
        match maybe_decode is_encoded v with
        | Crash e => Crash e
        | Ok v' =>
          match old with
          | VList l => Ok (pset k (VList (l ++ [v'])) ps)
          | VStr o => Ok (pset k (VList [o; v']) ps)
          end
        end
    | None =>
      if csv && char_in 44 v then
        match csv_values keep_blank v with
        | Crash e => Crash e
        | Ok vals => Ok (pset k (VList vals) ps)
        end
      else if is_encoded then
        match decode v true with
        | Crash e => Crash e
        | Ok v' => Ok (pset k (VStr v') ps)
        end
      else Ok (pset k (VStr v) ps)
    end
  end.

Fixpoint fold_fields (step : params -> str -> res params) (ps : params) (fields : list str)
  : res params :=
  match fields with
  | [] => Ok ps
  | f :: tl => match step ps f with Crash e => Crash e | Ok ps' => fold_fields step ps' tl end
  end.

Definition parse_query_string (s : str) (keep_blank csv : bool) : res params :=
  let is_encoded := char_in 43 s || char_in 37 s in
  fold_fields (field_step keep_blank csv is_encoded) [] (split_chr 38 s).

(* Request.__init__: an empty query string is not parsed *)
Definition req_params (qs : str) (keep_blank csv : bool) : res params :=
  if is_nil qs then Ok [] else parse_query_string qs keep_blank csv.

(* ------------------------------------------------------------------ getters *)
Inductive gerr := MissingParam | InvalidParam.       (* HTTPMissingParam / HTTPInvalidParam: 400 *)
Inductive gcrash := IndexError.
(* Found v: v returned (and stored when a store is given); Defaulted: the default returned,
   nothing stored *)
Inductive outcome (A : Type) : Type :=
| Found (v : A) | Defaulted | Err (e : gerr) | GCrash (k : gcrash).
Arguments Found {A} v.
Arguments Defaulted {A}.
Arguments Err {A} e.
Arguments GCrash {A} k.

(* `if name in params` — with [fixed] (fixes/C08-empty-csv-list-getters.patch):
   `if name in params and params[name] != []` *)
Definition present (fixed : bool) (p : params) (name : str) : option pval :=
  match lookup name p with
  | Some (VList []) => if fixed then None else Some (VList [])
  | o => o
  end.

Fixpoint last_opt {A} (l : list A) : option A :=
  match l with
  | [] => None
  | [x] => Some x
  | _ :: tl => last_opt tl
  end.

(* param[-1] when a list  (None = IndexError) *)
Definition last_value (v : pval) : option str :=
  match v with VStr s => Some s | VList l => last_opt l end.

Definition absent {A} (required : bool) : outcome A :=
  if required then Err MissingParam else Defaulted.

Definition get_param (fixed : bool) (p : params) (name : str) (required : bool) : outcome str :=
  match present fixed p name with
  | Some v => match last_value v with Some s => Found s | None => GCrash IndexError end
  | None => absent required
  end.

(* get_param_as_int / _float / _uuid: conversion (None = ValueError), then the bounds *)
Definition get_param_conv {T} (conv : str -> option T) (too_low too_high : T -> bool)
           (fixed : bool) (p : params) (name : str) (required : bool) : outcome T :=
  match present fixed p name with
  | Some v =>
    match last_value v with
    | None => GCrash IndexError
    | Some s =>
      match conv s with
      | None => Err InvalidParam
      | Some x => if too_low x then Err InvalidParam
                  else if too_high x then Err InvalidParam else Found x
      end
    end
  | None => absent required
  end.

Definition below (min_value : option Z) (x : Z) : bool :=
  match min_value with Some m => (x <? m)%Z | None => false end.
Definition above (max_value : option Z) (x : Z) : bool :=
  match max_value with Some m => (m <? x)%Z | None => false end.

Definition get_param_as_int (fixed : bool) (p : params) (name : str) (required : bool)
           (min_value max_value : option Z) : outcome Z :=
  get_param_conv py_int (below min_value) (above max_value) fixed p name required.

Definition get_param_as_bool (fixed : bool) (p : params) (name : str) (required : bool)
           (blank_as_true : bool) : outcome bool :=
  match present fixed p name with
  | Some v =>
    match last_value v with
    | None => GCrash IndexError
    | Some s =>
      if mem s req_TRUE_STRINGS then Found true
      else if mem s req_FALSE_STRINGS then Found false
      else if is_nil s then Found blank_as_true
      else Err InvalidParam
    end
  | None => absent required
  end.

Definition items_of (v : pval) : list str := match v with VStr s => [s] | VList l => l end.

Fixpoint map_opt {A B} (f : A -> option B) (l : list A) : option (list B) :=
  match l with
  | [] => Some []
  | x :: tl => match f x with
               | None => None
               | Some y => match map_opt f tl with None => None | Some ys => Some (y :: ys) end
               end
  end.

Definition get_param_as_list (p : params) (name : str) (required : bool) : outcome (list str) :=
  match lookup name p with
  | Some v => Found (items_of v)
  | None => absent required
  end.

Definition get_param_as_list_t {T} (transform : str -> option T) (p : params) (name : str)
           (required : bool) : outcome (list T) :=
  match lookup name p with
  | Some v => match map_opt transform (items_of v) with
              | Some l => Found l
              | None => Err InvalidParam
              end
  | None => absent required
  end.

(* get_param_as_datetime / _date / _json: get_param first, then the converter *)
Definition get_param_via {T} (conv : str -> option T) (fixed : bool) (p : params) (name : str)
           (required : bool) : outcome T :=
  match get_param fixed p name required with
  | Found s => match conv s with Some d => Found d | None => Err InvalidParam end
  | Defaulted => Defaulted
  | Err e => Err e
  | GCrash k => GCrash k
  end.

Definition has_param (p : params) (name : str) : bool :=
  match lookup name p with Some _ => true | None => false end.

(* ------------------------------------------------------------------ to_query_str *)
Inductive qitem := IBool (b : bool) | IStr (s : str).
Inductive qval := QItem (i : qitem) | QList (l : list qitem).

Definition s_true : str := [116; 114; 117; 101].
Definition s_false : str := [102; 97; 108; 115; 101].
Definition s_True : str := [84; 114; 117; 101].
Definition s_False : str := [70; 97; 108; 115; 101].
Definition lower_bool (b : bool) : str := if b then s_true else s_false.
(* str(v) *)
Definition py_str (i : qitem) : str :=
  match i with IStr s => s | IBool b => if b then s_True else s_False end.

(* 'true' / 'false' / encode_value(str(v)) *)
Definition enc_item (i : qitem) : res str :=
  match i with IBool b => Ok (lower_bool b) | IStr s => encode_value s end.

Definition bind {A B} (r : res A) (f : A -> res B) : res B :=
  match r with Ok v => f v | Crash e => Crash e end.

Definition pair_text (k v : str) : str := k ++ [61] ++ v ++ [38].

Definition entry_text (cdl : bool) (k : str) (v : qval) : res str :=
  bind (encode_value k) (fun ek =>
  match v with
  | QItem i => bind (enc_item i) (fun ev => Ok (pair_text ek ev))
  | QList l =>
    if cdl then
      bind (map_res (fun i => encode_value (py_str i)) l) (fun evs => Ok (pair_text ek (join_chr 44 evs)))
    else
      bind (map_res enc_item l) (fun evs => Ok (concat (map (pair_text ek) evs)))
  end).

Fixpoint entries_text (cdl : bool) (m : list (str * qval)) : res str :=
  match m with
  | [] => Ok []
  | (k, v) :: tl =>
    bind (entry_text cdl k v) (fun t => bind (entries_text cdl tl) (fun r => Ok (t ++ r)))
  end.

Definition to_query_str (m : list (str * qval)) (comma_delimited_lists prefix : bool) : res str :=
  if is_nil m then Ok []
  else bind (entries_text comma_delimited_lists m)
            (fun body => Ok (removelast ((if prefix then [63] else []) ++ body))).

(* ------------------------------------------------------------------ purity
   None of the getters assigns to self._params (a store= dict is the only thing they may write):
   a getter call is a function of the mapping, and the mapping afterwards is the mapping before.
   A history of calls is therefore modelled as a fold that threads the mapping unchanged. *)
Inductive gcall :=
| CGet (name : str) (required : bool)
| CInt (name : str) (required : bool) (mn mx : option Z)
| CBool (name : str) (required blank_as_true : bool)
| CList (name : str) (required : bool)
| CHas (name : str).

Inductive gout :=
| OStr (o : outcome str) | OInt (o : outcome Z) | OBool (o : outcome bool)
| OList (o : outcome (list str)) | OHas (b : bool).

Definition do_call (fixed : bool) (p : params) (c : gcall) : gout * params :=
  match c with
  | CGet n r => (OStr (get_param fixed p n r), p)
  | CInt n r mn mx => (OInt (get_param_as_int fixed p n r mn mx), p)
  | CBool n r b => (OBool (get_param_as_bool fixed p n r b), p)
  | CList n r => (OList (get_param_as_list p n r), p)
  | CHas n => (OHas (has_param p n), p)
  end.

Fixpoint do_calls (fixed : bool) (p : params) (cs : list gcall) : list gout * params :=
  match cs with
  | [] => ([], p)
  | c :: tl => let '(o, p1) := do_call fixed p c in
               let '(os, p2) := do_calls fixed p1 tl in (o :: os, p2)
  end.
