(* C08 — the request getters: equal to the reference getters (repaired presence test), never an
   internal error, and the pre-fix witness. *)
From Coq Require Import ZArith NArith List Bool Lia Arith.
From Falcon.lib Require Import PyStr Utf8.
From Falcon.gen Require Import ConstsC08.
From Falcon.C10 Require Import Model.
From Falcon.C08 Require Import Model Spec ProofsParse.
Import ListNotations.
Open Scope N_scope.

Lemma last_opt_cons {A} (x : A) l : last_opt (x :: l) <> None.
Proof.
  revert x. induction l as [|y l IH]; intro x; [discriminate|].
  change (last_opt (x :: y :: l)) with (last_opt (y :: l)). apply IH.
Qed.

(* what the repaired presence test + param[-1] compute: the last of all values of the name *)
Lemma present_last p name :
  match present true p name with
  | Some v => last_value v = last_opt (all_values p name) /\ last_value v <> None
  | None => last_opt (all_values p name) = None
  end.
Proof.
  unfold present, all_values. destruct (lookup name p) as [[s|[|x l]]|]; cbn [items_of last_value].
  - split; [reflexivity | discriminate].
  - reflexivity.
  - split; [reflexivity | apply last_opt_cons].
  - reflexivity.
Qed.

Theorem conv_getter_is_spec {T} (conv : str -> option T) lo hi p name required :
  get_param_conv conv lo hi true p name required = spec_get conv lo hi p name required.
Proof.
  unfold get_param_conv, spec_get. pose proof (present_last p name) as H.
  destruct (present true p name) as [v|].
  - destruct H as [H1 H2]. rewrite <- H1. destruct (last_value v) as [s|]; [|contradiction].
    destruct (conv s) as [x|]; [|reflexivity]. destruct (lo x), (hi x); reflexivity.
  - rewrite H. reflexivity.
Qed.

Theorem get_param_is_spec p name required :
  get_param true p name required = spec_get Some never never p name required.
Proof.
  unfold get_param, spec_get. pose proof (present_last p name) as H.
  destruct (present true p name) as [v|].
  - destruct H as [H1 H2]. rewrite <- H1. destruct (last_value v) as [s|]; [reflexivity | contradiction].
  - rewrite H. reflexivity.
Qed.

Theorem int_getter_is_spec p name required mn mx :
  get_param_as_int true p name required mn mx
  = spec_get py_int (below mn) (above mx) p name required.
Proof. apply conv_getter_is_spec. Qed.

Theorem bool_getter_is_spec p name required bat :
  get_param_as_bool true p name required bat = spec_get (bool_of bat) never never p name required.
Proof.
  unfold get_param_as_bool, spec_get, bool_of. pose proof (present_last p name) as H.
  destruct (present true p name) as [v|].
  - destruct H as [H1 H2]. rewrite <- H1. destruct (last_value v) as [s|]; [|contradiction].
    destruct (mem s req_TRUE_STRINGS); [reflexivity|].
    destruct (mem s req_FALSE_STRINGS); [reflexivity|]. destruct (is_nil s); reflexivity.
  - rewrite H. reflexivity.
Qed.

(* the typed getters are get_param followed by the converter and the bounds: this is what
   lets the harness check float/uuid/datetime/json with Python's own converter as the oracle *)
Theorem conv_factors_through_get_param {T} (conv : str -> option T) lo hi fixed p name required :
  get_param_conv conv lo hi fixed p name required =
  match get_param fixed p name required with
  | Found s => match conv s with
               | None => Err InvalidParam
               | Some x => if lo x || hi x then Err InvalidParam else Found x
               end
  | Defaulted => Defaulted
  | Err e => Err e
  | GCrash k => GCrash k
  end.
Proof.
  unfold get_param_conv, get_param. destruct (present fixed p name) as [v|].
  - destruct (last_value v) as [s|]; [|reflexivity]. destruct (conv s) as [x|]; [|reflexivity].
    destruct (lo x), (hi x); reflexivity.
  - unfold absent. destruct required; reflexivity.
Qed.

Theorem via_is_spec {T} (conv : str -> option T) p name required :
  get_param_via conv true p name required = spec_get conv never never p name required.
Proof.
  unfold get_param_via. rewrite get_param_is_spec. unfold spec_get.
  destruct (last_opt (all_values p name)) as [s|]; cbn [never orb].
  - destruct (conv s); reflexivity.
  - unfold absent. destruct required; reflexivity.
Qed.

(* ---- never an internal error (after the fix), on every mapping whatsoever *)
Lemma spec_get_no_crash {T} (conv : str -> option T) lo hi p name required :
  is_crash (spec_get conv lo hi p name required) = false.
Proof.
  unfold spec_get. destruct (last_opt (all_values p name)) as [s|].
  - destruct (conv s) as [x|]; [|reflexivity]. destruct (lo x || hi x); reflexivity.
  - unfold absent. destruct required; reflexivity.
Qed.

Theorem getters_no_crash p name required mn mx bat :
  is_crash (get_param true p name required) = false /\
  is_crash (get_param_as_int true p name required mn mx) = false /\
  is_crash (get_param_as_bool true p name required bat) = false /\
  is_crash (get_param_as_list p name required) = false /\
  (forall T (tr : str -> option T), is_crash (get_param_as_list_t tr p name required) = false) /\
  (forall T (conv : str -> option T) lo hi,
      is_crash (get_param_conv conv lo hi true p name required) = false) /\
  (forall T (conv : str -> option T), is_crash (get_param_via conv true p name required) = false).
Proof.
  rewrite get_param_is_spec, int_getter_is_spec, bool_getter_is_spec.
  repeat split; try apply spec_get_no_crash.
  - unfold get_param_as_list, absent. destruct (lookup name p); [|destruct required]; reflexivity.
  - intros T tr. unfold get_param_as_list_t, absent.
    destruct (lookup name p) as [v|]; [destruct (map_opt tr (items_of v)) | destruct required]; reflexivity.
  - intros T conv lo hi. rewrite conv_getter_is_spec. apply spec_get_no_crash.
  - intros T conv. rewrite via_is_spec. apply spec_get_no_crash.
Qed.

(* the code as found: 'a=,' with auto_parse_qs_csv and blank values dropped *)
Theorem getters_no_crash_refuted_before_fix :
  exists s kb csv name,
    forallb scalar s = true /\
    match parse_query_string s kb csv with
    | Ok p => get_param false p name false = GCrash IndexError /\
              get_param_as_int false p name false None None = GCrash IndexError /\
              get_param_as_bool false p name false true = GCrash IndexError
    | Crash _ => False
    end.
Proof. exists [97; 61; 44], false, true, [97]. vm_compute. repeat split; reflexivity. Qed.

(* ---- required / default / store *)
Theorem getter_required_default {T} (conv : str -> option T) lo hi p name required :
  last_opt (all_values p name) = None ->
  spec_get conv lo hi p name required = if required then Err MissingParam else Defaulted.
Proof. intro H. unfold spec_get. rewrite H. reflexivity. Qed.

(* min/max are honoured exactly: Found x  <->  the last value converts to x within the bounds *)
Theorem int_getter_bounds_exact p name required mn mx x :
  get_param_as_int true p name required mn mx = Found x <->
  exists s, last_opt (all_values p name) = Some s /\ py_int s = Some x /\
            (forall m, mn = Some m -> (m <= x)%Z) /\ (forall m, mx = Some m -> (x <= m)%Z).
Proof.
  rewrite int_getter_is_spec. unfold spec_get. split.
  - destruct (last_opt (all_values p name)) as [s|]; [|unfold absent; destruct required; discriminate].
    destruct (py_int s) as [y|] eqn:Ep; [|discriminate].
    destruct (below mn y || above mx y) eqn:B; [discriminate|]. intro H. injection H as ->.
    apply orb_false_iff in B as [B1 B2]. exists s. split; [reflexivity|]. split; [exact Ep|]. split.
    + intros m ->. unfold below in B1. lia.
    + intros m ->. unfold above in B2. lia.
  - intros (s & -> & -> & Hlo & Hhi).
    assert (B1 : below mn x = false) by (unfold below; destruct mn as [m|]; [specialize (Hlo m eq_refl); lia | reflexivity]).
    assert (B2 : above mx x = false) by (unfold above; destruct mx as [m|]; [specialize (Hhi m eq_refl); lia | reflexivity]).
    rewrite B1, B2. reflexivity.
Qed.

(* the value the getters see is the last one among all occurrences of the name in the query *)
Lemma items_grouped os : Forall wf_occ os ->
  match grouped os with Some v => items_of v | None => [] end = concat (map o_vals os).
Proof.
  intro W. destruct os as [|o1 [|o2 rest]]; [reflexivity | | reflexivity].
  inversion W as [|? ? W1 _]; subst. cbn [grouped map concat]. rewrite app_nil_r.
  apply (items_init o1 W1).
Qed.

Theorem getter_last_occurrence s kb csv name :
  all_values (ref_parse s kb csv) name
  = concat (map o_vals (occs_named name (occurrences s kb csv))).
Proof.
  unfold all_values. rewrite ref_parse_grouped. apply items_grouped.
  unfold occs_named, occurrences. apply Forall_forall. intros o Ho. apply filter_In in Ho as [Ho _].
  apply in_map_iff in Ho as (kv & <- & _). apply occ_of_wf.
Qed.

Theorem has_param_spec p name : has_param p name = true <-> lookup name p <> None.
Proof. unfold has_param. destruct (lookup name p); split; intro H; congruence. Qed.

(* what the harness compares the implementation with (reference mapping, reference getters on
   it) is what the model computes *)
Theorem harness_oracles_sound s kb csv p name required mn mx bat :
  forallb scalar s = true -> req_params s kb csv = Ok p ->
  p = ref_parse s kb csv /\
  get_param true p name required = spec_get Some never never (ref_parse s kb csv) name required /\
  get_param_as_int true p name required mn mx
  = spec_get py_int (below mn) (above mx) (ref_parse s kb csv) name required /\
  get_param_as_bool true p name required bat
  = spec_get (bool_of bat) never never (ref_parse s kb csv) name required.
Proof.
  intros Hs H. rewrite (req_params_is_reference s kb csv Hs) in H. injection H as <-.
  repeat split; [apply get_param_is_spec | apply int_getter_is_spec | apply bool_getter_is_spec].
Qed.

(* ---- getters never write the mapping: after any history of calls req.params is what was parsed,
   and every call sees that same mapping *)
Theorem getters_pure fixed p cs :
  snd (do_calls fixed p cs) = p /\ fst (do_calls fixed p cs) = map (fun c => fst (do_call fixed p c)) cs.
Proof.
  induction cs as [|c tl [IH1 IH2]]; [split; reflexivity|].
  cbn [do_calls map]. assert (E : do_call fixed p c = (fst (do_call fixed p c), p)) by (destruct c; reflexivity).
  rewrite E. destruct (do_calls fixed p tl) as [os p2]. cbn [fst snd] in *. subst. split; reflexivity.
Qed.
