(* C04 — property theorems only (each closed by [exact] of a lemma of Proofs.v). *)
From Coq Require Import ZArith NArith List Bool String.
From Falcon.lib Require Import PyStr.
From Falcon.gen Require Import ConstsC04.
From Falcon.C03 Require Model Proofs.
From Falcon.C12 Require Json JsonProofs ProofsUtf8.
From Falcon.C04 Require Import Model Spec Proofs Body ProofsBody.
Import ListNotations.
Open Scope N_scope.

(* The dictionary kept by add_error_handler, after ANY registration history (tuples, repeated
   classes, calls that raise TypeError half-way), maps a class to its latest registration. *)
Theorem C04_registry_latest : forall hist c,
  rget (replay init_registry hist) c = latest (init_assignments ++ assignments hist) c.
Proof. exact registry_latest. Qed.
Print Assumptions C04_registry_latest.

Theorem C04_latest_spec : forall a c h,
  latest a c = Some h <->
  exists pre post, a = pre ++ (c, h) :: post /\ (forall h', ~ In (c, h') post).
Proof. exact latest_spec. Qed.
Print Assumptions C04_latest_spec.

(* handler_is_nearest: _find_error_handler = the latest handler of the first class of the MRO
   (object excluded) that has any registration. *)
Theorem C04_handler_is_nearest : forall hist mro,
  find_error_handler (replay init_registry hist) mro = spec_handler hist mro.
Proof. exact handler_is_nearest. Qed.
Print Assumptions C04_handler_is_nearest.

Theorem C04_find_loop_spec : forall r l h,
  find_loop r l = Some h <->
  exists pre c post, l = pre ++ c :: post /\ (forall c', In c' pre -> rget r c' = None) /\
                     rget r c = Some h.
Proof. exact find_loop_spec. Qed.
Print Assumptions C04_find_loop_spec.

(* Text, data and media set so far are discarded before the handler runs. *)
Theorem C04_reset_discards : forall v r x t d m,
  handle_exception v (with_media (with_data (with_text r t) d) m) x = handle_exception v r x.
Proof. exact reset_discards. Qed.
Print Assumptions C04_reset_discards.

Theorem C04_custom_handler_sees_cleared : forall v r x n,
  find_error_handler (v_reg v) (x_mro x) = Some (HCustom n) ->
  h_end (script_of v n) = HEReturn ->
  handle_exception v r x =
    (Handled, Some (HCustom n), apply_writes (h_writes (script_of v n)) (clear r)) /\
  r_text (clear r) = None /\ r_data (clear r) = None /\ r_media (clear r) = None.
Proof. exact custom_handler_sees_cleared. Qed.
Print Assumptions C04_custom_handler_sees_cleared.

(* ... INCLUDING a cached rendering of the media (an early render_body() by a middleware or the
   responder): only status and headers of the response survive into the handler, and the
   response the handler leaves can never send a stale rendering. *)
Theorem C04_reset_discards_all : forall v r1 r2 x,
  r_status r1 = r_status r2 -> r_headers r1 = r_headers r2 ->
  handle_exception v r1 x = handle_exception v r2 x.
Proof. exact reset_discards_all. Qed.
Print Assumptions C04_reset_discards_all.

Theorem C04_no_stale_rendering : forall v r x, cache_ok (snd (handle_exception v r x)).
Proof. exact no_stale_rendering. Qed.
Print Assumptions C04_no_stale_rendering.

Theorem C04_rendered_media_is_current : forall mf r b,
  cache_ok r -> render mf r = inl (BMedia b) -> r_media r = Some b.
Proof. exact rendered_media_is_current. Qed.
Print Assumptions C04_rendered_media_is_current.

(* An HTTP error / HTTP status raised by the handler is rendered in turn. *)
Theorem C04_handler_raised_error_rendered : forall v r x n e,
  find_error_handler (v_reg v) (x_mro x) = Some (HCustom n) ->
  h_end (script_of v n) = HERaiseError e ->
  handle_exception v r x =
    (Handled, Some (HCustom n),
     compose_error (v_ncfg v) (apply_writes (h_writes (script_of v n)) (clear r)) e).
Proof. exact handler_raised_error_rendered. Qed.
Print Assumptions C04_handler_raised_error_rendered.

Theorem C04_handler_raised_status_rendered : forall v r x n s,
  find_error_handler (v_reg v) (x_mro x) = Some (HCustom n) ->
  h_end (script_of v n) = HERaiseStatus s ->
  handle_exception v r x =
    (Handled, Some (HCustom n),
     compose_status (apply_writes (h_writes (script_of v n)) (clear r)) s).
Proof. exact handler_raised_status_rendered. Qed.
Print Assumptions C04_handler_raised_status_rendered.

(* An HTTP error produces its own status; an HTTP status its status and text. *)
Theorem C04_compose_error_status : forall n r e, r_status (compose_error n r e) = e_status e.
Proof. exact compose_error_status. Qed.
Print Assumptions C04_compose_error_status.

Theorem C04_compose_status_fields : forall r s,
  r_status (compose_status r s) = s_status s /\ r_text (compose_status r s) = s_text s.
Proof. exact compose_status_fields. Qed.
Print Assumptions C04_compose_status_fields.

(* Negotiation of default_serialize_error (client_prefers / _resolve are oracle inputs). *)
Theorem C04_serialize_vary : forall n r e,
  hget (r_headers (serialize_error n r e)) s_vary =
  Some (match hget (r_headers r) s_vary with
        | Some old => old ++ s_comma_sp ++ s_Accept
        | None => s_Accept
        end).
Proof. exact serialize_vary. Qed.
Print Assumptions C04_serialize_vary.

Theorem C04_serialize_json : forall n r e,
  final_preferred n = Some MEDIA_JSON ->
  r_data (serialize_error n r e) = Some (DJson (to_dict e)) /\
  hget (r_headers (serialize_error n r e)) s_content_type = Some MEDIA_JSON.
Proof. exact serialize_json. Qed.
Print Assumptions C04_serialize_json.

Theorem C04_serialize_other : forall n r e p,
  final_preferred n = Some p -> p <> MEDIA_JSON ->
  hget (r_headers (serialize_error n r e)) s_content_type = Some p /\
  (if mem p (n_resolvable n)
   then r_media (serialize_error n r e) = Some (MErr (to_dict e)) /\
        r_data (serialize_error n r e) = r_data r
   else if n_xml n
        then r_data (serialize_error n r e) = Some (DXml (to_dict e)) /\
             r_media (serialize_error n r e) = r_media r
        else r_data (serialize_error n r e) = r_data r /\
             r_media (serialize_error n r e) = r_media r).
Proof. exact serialize_other. Qed.
Print Assumptions C04_serialize_other.

Theorem C04_serialize_none : forall n r e,
  final_preferred n = None ->
  r_data (serialize_error n r e) = r_data r /\ r_media (serialize_error n r e) = r_media r /\
  hget (r_headers (serialize_error n r e)) s_content_type = hget (r_headers r) s_content_type.
Proof. exact serialize_none. Qed.
Print Assumptions C04_serialize_none.

Theorem C04_xml_only_when_enabled : forall n r e d,
  r_data (serialize_error n r e) = Some (DXml d) -> r_data r <> Some (DXml d) ->
  n_xml n = true /\ exists p, final_preferred n = Some p /\ p <> MEDIA_JSON /\
                              mem p (n_resolvable n) = false.
Proof. exact xml_only_when_enabled. Qed.
Print Assumptions C04_xml_only_when_enabled.

(* no_escape_default: an Exception-derived error always finds a handler ... *)
Theorem C04_handler_exists : forall hist x,
  exception_derived x -> find_error_handler (replay init_registry hist) (x_mro x) <> None.
Proof. exact handler_exists. Qed.
Print Assumptions C04_handler_exists.

(* ... becomes a response (a 500 when the framework's Exception handler is the nearest) ... *)
Theorem C04_no_escape : forall hist scripts ncfg r x,
  custom_history hist -> exception_derived x -> wf_exc x = true ->
  let v := {| v_reg := replay init_registry hist; v_scripts := scripts; v_ncfg := ncfg |} in
  all_benign v ->
  fst (fst (handle_exception v r x)) = Handled /\
  (spec_handler hist (x_mro x) = Some HPython ->
   r_status (snd (handle_exception v r x)) = internal_error_status).
Proof. exact no_escape. Qed.
Print Assumptions C04_no_escape.

(* ... at every raise window, for stacks of any height (through C03's run_request). *)
Theorem C04_no_escape_any_window : forall asgi indep hist scripts ncfg (cs : list comp4) st
        (meta : bool) (route : Falcon.C03.Model.route) (hooks : list (bool * action4))
        (responder : action4),
  custom_history hist ->
  let v := {| v_reg := replay init_registry hist; v_scripts := scripts; v_ncfg := ncfg |} in
  all_benign v ->
  (forall c, In c cs -> good_opt (c4_req c) /\ good_opt (c4_rsrc c) /\ good_opt (c4_resp c)) ->
  (forall h, In h hooks -> good_action (snd h)) -> good_action responder ->
  Falcon.C03.Model.prepare asgi indep (map (lift_comp v) cs) = Some st ->
  exists s,
    snd (Falcon.C03.Model.run_request indep st
           {| Falcon.C03.Model.q_meta := meta; Falcon.C03.Model.q_route := route;
              Falcon.C03.Model.q_hooks := map (fun h => (fst h, lift v (snd h))) hooks;
              Falcon.C03.Model.q_responder := lift v responder |})
    = Falcon.C03.Model.Finished s.
Proof. exact no_escape_any_window. Qed.
Print Assumptions C04_no_escape_any_window.

(* The render window.  FULL statement: "whatever is raised while the body is rendered is
   reported with the status, headers AND body its handler composed".  True of the repaired
   code (fixes/C04-render-error-body.patch) ... *)
Theorem C04_render_error_has_body : forall v mf r x h r' b,
  render mf r = inr x -> catchable x = true ->
  handle_exception_enc v r x = (Handled, h, r') -> render mf r' = inl b ->
  finish true v mf r = (Response (r_status r') (r_headers r') b, [h]).
Proof. exact render_error_has_body. Qed.
Print Assumptions C04_render_error_has_body.

(* ... and false of the code as found (the witness reproduces on the real framework: a 500
   / 415 with Content-Type: application/json and an empty body). *)
Theorem C04_render_error_body_refuted_before_fix :
  exists v mf r x h r' b,
    render mf r = inr x /\ catchable x = true /\
    handle_exception_enc v r x = (Handled, h, r') /\ render mf r' = inl b /\ b <> BNone /\
    finish false v mf r = (Response (r_status r') (r_headers r') BNone, [h]).
Proof. exact render_error_body_refuted_before_fix. Qed.
Print Assumptions C04_render_error_body_refuted_before_fix.

(* FULL statement "whatever is raised is given to the nearest registered handler" is false:
   add_error_handler accepts BaseException subclasses that `except Exception` never catches
   (known finding C04-baseexception-handler-ignored). *)
Theorem C04_whatever_is_raised_refuted :
  exists v mf r0 w x h,
    find_error_handler (v_reg v) (x_mro x) = Some h /\
    request true v mf r0 w (Some x) = (Escaped, []).
Proof. exact whatever_is_raised_refuted. Qed.
Print Assumptions C04_whatever_is_raised_refuted.

(* The true part: every object the app catches (Exception in its MRO) goes to the nearest,
   latest handler. *)
Theorem C04_request_uses_nearest_partial : forall fixed hist scripts ncfg mf r0 w x,
  catchable x = true ->
  let v := {| v_reg := replay init_registry hist; v_scripts := scripts; v_ncfg := ncfg |} in
  hd None (snd (request fixed v mf r0 w (Some x))) = spec_handler hist (x_mro x).
Proof. exact request_uses_nearest_partial. Qed.
Print Assumptions C04_request_uses_nearest_partial.

(* The oracle evaluated on the real framework's observations accepts the model. *)
Theorem C04_oracle_sound : forall hist scripts ncfg r x,
  custom_history hist -> wf_exc x = true -> catchable x = true ->
  let v := {| v_reg := replay init_registry hist; v_scripts := scripts; v_ncfg := ncfg |} in
  oracle hist scripts x (snd (fst (handle_exception v r x)))
         (outcome_escaped (fst (fst (handle_exception v r x))))
         (r_status (snd (handle_exception v r x))) = [].
Proof. exact oracle_sound. Qed.
Print Assumptions C04_oracle_sound.

(* One app over time: registrations interleaved with requests.  Lookups are pure (nothing is
   memoised into the registry) and every lookup follows the nearest/latest rule over the
   registrations made so far. *)
Theorem C04_lookup_pure : forall r mro, snd (lookup r mro) = r.
Proof. exact lookup_pure. Qed.
Print Assumptions C04_lookup_pure.

Theorem C04_session_is_nearest : forall ops hist,
  run_ops (replay init_registry hist) ops = spec_ops hist ops.
Proof. exact session_is_nearest. Qed.
Print Assumptions C04_session_is_nearest.

Theorem C04_later_registration_wins : forall hist mro c h pre post,
  removelast mro = pre ++ c :: post ->
  (forall c', In c' pre -> latest (init_assignments ++ assignments hist) c' = None) ->
  run_ops (replay init_registry hist) [OLookup mro; OReg ([(c, true)], h); OLookup mro]
  = [spec_handler hist mro; Some h].
Proof. exact later_registration_wins. Qed.
Print Assumptions C04_later_registration_wins.

(* The '+json' / '+xml' fallbacks are substring tests on the whole lower-cased Accept header. *)
Theorem C04_contains_spec : forall s p, contains s p = true <-> exists a b, s = a ++ p ++ b.
Proof. exact contains_spec. Qed.
Print Assumptions C04_contains_spec.

Theorem C04_fallback_json : forall n a b,
  n_preferred n = None -> lower (n_accept n) = a ++ s_plus_json ++ b ->
  final_preferred n = Some MEDIA_JSON.
Proof. exact fallback_json. Qed.
Print Assumptions C04_fallback_json.

Theorem C04_fallback_xml : forall n a b,
  n_preferred n = None -> contains (lower (n_accept n)) s_plus_json = false ->
  lower (n_accept n) = a ++ s_plus_xml ++ b ->
  final_preferred n = Some MEDIA_XML.
Proof. exact fallback_xml. Qed.
Print Assumptions C04_fallback_xml.

(* Header-bearing errors created without headers= carry exactly their own header, and so does
   the response composed for them ("its own status and headers"). *)
Theorem C04_ctor_headers_own :
  (forall a, ctor_headers (CMethodNotAllowed a) None = Some [(s_Allow, join_comma a)]) /\
  (forall c cs, ctor_headers (CUnauthorized (c :: cs)) None
                = Some [(s_WWW_Authenticate, join_comma (c :: cs))]) /\
  ctor_headers (CUnauthorized []) None = None /\
  (forall v, ctor_headers (CRetryAfter (Some v)) None = Some [(s_Retry_After, v)]) /\
  ctor_headers (CRetryAfter None) None = None /\
  (forall n, ctor_headers (CRange n) None = Some [(s_Content_Range, s_bytes_star ++ n)]) /\
  ctor_headers CPlain None = None.
Proof. exact ctor_headers_own. Qed.
Print Assumptions C04_ctor_headers_own.

Theorem C04_error_response_headers_exact : forall n c e r,
  r_headers r = [] -> e_headers e = None -> n_preferred n = Some MEDIA_JSON ->
  r_headers (compose_error n r (with_ctor c e)) =
  set_headers [] (load_headers (ctor_headers c None))
  ++ [(s_content_type, MEDIA_JSON); (s_vary, s_Accept)].
Proof. exact error_response_headers_exact. Qed.
Print Assumptions C04_error_response_headers_exact.

Example C04_example_vendor_list :
  let n := {| n_xml := true; n_preferred := None;
              n_accept := lit "application/vnd.api+JSON, text/csv"; n_resolvable := [] |} in
  final_preferred n = Some MEDIA_JSON /\
  final_preferred {| n_xml := true; n_preferred := None;
                     n_accept := lit "application/atom+xml, image/png;q=0.2";
                     n_resolvable := [] |} = Some MEDIA_XML.
Proof. split; reflexivity. Qed.

(* error_body_faithful, JSON half, PROVED (on top of coq/C12's JSON and UTF-8 codecs): for every
   error whose strings consist of Unicode scalar values the body emitted by the default
   serializer is exactly utf8(print(to_dict_jv e)) - to_dict() with its key order, title always,
   description / code / link{text,href,rel} only when set - and decoding and parsing it gives
   back exactly that object; the object determines the fields. *)
Theorem C04_error_json_body_faithful : forall d,
  dict_scalarb d = true ->
  exists body, json_body d = Json.SBytes body /\
               Json.utf8_encode (Json.print (to_dict_jv d)) = Some body /\
               Json.utf8_decode body = Some (Json.print (to_dict_jv d)) /\
               Json.parse (Json.print (to_dict_jv d)) = Some (to_dict_jv d) /\
               Json.json_deserialize_body body = Json.DOk (to_dict_jv d).
Proof. exact error_json_body_faithful. Qed.
Print Assumptions C04_error_json_body_faithful.

Theorem C04_to_dict_jv_injective : forall d1 d2, to_dict_jv d1 = to_dict_jv d2 -> d1 = d2.
Proof. exact to_dict_jv_injective. Qed.
Print Assumptions C04_to_dict_jv_injective.

(* A lone surrogate in any text: str.encode() raises UnicodeEncodeError while the error
   response is composed; in the model (handle_exception_enc) the exception leaves the app -
   known finding C04-error-text-surrogate-escapes. *)
Theorem C04_error_json_surrogate_fails : forall d,
  dict_scalarb d = false -> json_body d = Json.SEncodeError.
Proof. exact error_json_surrogate_fails. Qed.
Print Assumptions C04_error_json_surrogate_fails.

Theorem C04_encode_ok_json : forall n e,
  final_preferred n = Some MEDIA_JSON ->
  (encode_ok n e = true <-> exists b, json_body (to_dict e) = Json.SBytes b).
Proof. exact encode_ok_json. Qed.
Print Assumptions C04_encode_ok_json.

(* XML half.  The image ElementTree writes for this fixed shape is read back exactly by the
   reader (code point level, ANY texts: & < > are the only characters that need escaping for
   THIS reader) ... *)
Theorem C04_xml_roundtrip : forall d, read_xml (print_xml d) = Some (xview d).
Proof. exact xml_roundtrip. Qed.
Print Assumptions C04_xml_roundtrip.

(* ... and for scalar texts the body is the UTF-8 encoding of that image.  DOMAIN: this is
   faithfulness w.r.t. the reader above; a conforming XML 1.0 parser additionally rejects the
   control characters and normalises CR, which ElementTree writes unescaped (known finding
   C04-xml-error-body-unfaithful), and rejects the &#N; written for lone surrogates. *)
Theorem C04_error_xml_body_faithful : forall d,
  xml_scalarb d = true ->
  Json.utf8_encode (print_xml d) = Some (xml_body d) /\
  Json.utf8_decode (xml_body d) = Some (print_xml d) /\
  read_xml (print_xml d) = Some (xview d).
Proof. exact error_xml_body_faithful. Qed.
Print Assumptions C04_error_xml_body_faithful.

(* ---- non-vacuity: class 6 derives from class 5 and from HTTPError; handlers were
   registered for 5, then for (5, HTTPError) in one call, then for Exception *)
Definition ex_hist : list registration :=
  [([(5%nat, true)], HCustom 0); ([(5%nat, true); (c_HTTPError, true)], HCustom 1);
   ([(c_Exception, true)], HCustom 2)].
Definition ex_err : herr :=
  {| e_status := 404; e_title := lit "Not here"; e_desc := Some (lit "gone"); e_code := Some (CodeInt 7%Z);
     e_link := None; e_headers := Some [(lit "X-Err", lit "1")] |}.
Definition ex_exc : exc :=
  {| x_mro := [6%nat; 5%nat; c_HTTPError; c_Exception; c_BaseException; c_object];
     x_payload := PError ex_err |}.

Example C04_example_nearest :
  custom_history ex_hist /\ wf_exc ex_exc = true /\ exception_derived ex_exc /\
  spec_handler ex_hist (x_mro ex_exc) = Some (HCustom 1) /\
  spec_handler ex_hist [c_HTTPStatus; c_Exception; c_BaseException; c_object] = Some HHTTPStatus /\
  spec_handler ex_hist [7%nat; c_Exception; c_BaseException; c_object] = Some (HCustom 2) /\
  spec_handler [] [7%nat; c_Exception; c_BaseException; c_object] = Some HPython.
Proof.
  repeat split; try reflexivity.
  - intros l h [H|[H|[H|[]]]]; injection H as _ <-; eauto.
  - unfold exception_derived. simpl. tauto.
Qed.

Example C04_example_default_error :
  let v := {| v_reg := init_registry; v_scripts := [];
              v_ncfg := {| n_xml := true; n_preferred := Some MEDIA_JSON; n_accept := lit "*/*";
                           n_resolvable := [MEDIA_JSON] |} |} in
  let r0 := {| r_status := 200; r_headers := []; r_text := Some (lit "partial"); r_data := None;
               r_media := None; r_rendered := None |} in
  handle_exception v r0 ex_exc =
  (Handled, Some HHTTPError,
   {| r_status := 404;
      r_headers := [(lit "x-err", lit "1"); (s_content_type, MEDIA_JSON); (s_vary, s_Accept)];
      r_text := None; r_data := Some (DJson (to_dict ex_err)); r_media := None; r_rendered := None |}).
Proof. vm_compute. reflexivity. Qed.
