From Coq Require Import ZArith NArith List Bool String Lia.
From Falcon.lib Require Import PyStr.
From Falcon.gen Require Import ConstsC04.
From Falcon.C12 Require Json JsonProofs ProofsUtf8.
From Falcon.C04 Require Import Model Spec Proofs Body.
Import ListNotations.
Open Scope N_scope.

(* ------------------------------------------------------------------ JSON *)

Lemma to_dict_jv_wf d : JsonProofs.wf (to_dict_jv d).
Proof.
  unfold to_dict_jv. constructor.
  - destruct (d_desc d), (d_code d), (d_link d); simpl;
      repeat (constructor; [simpl; intuition discriminate|]); constructor.
  - repeat rewrite Forall_app. repeat split.
    + repeat constructor.
    + destruct (d_desc d); repeat constructor.
    + destruct (d_code d) as [[z|cs]|]; repeat constructor.
    + destruct (d_link d) as [l|]; [|constructor]. constructor; [|constructor].
      cbn [snd]. unfold link_jv. constructor.
      * simpl. repeat (constructor; [simpl; intuition discriminate|]); constructor.
      * repeat constructor.
Qed.

Lemma forallb_scalar s : str_scalarb s = true -> ProofsUtf8.str_scalar s.
Proof.
  unfold str_scalarb, ProofsUtf8.str_scalar. rewrite forallb_forall, Forall_forall. auto.
Qed.

Lemma key_scalar k : In k [k_title; k_description; k_code; k_link; k_text; k_href; k_rel] ->
  ProofsUtf8.str_scalar k.
Proof.
  intro H. simpl in H.
  repeat (destruct H as [<-|H]; [repeat constructor|]). contradiction.
Qed.

Lemma to_dict_jv_scalars d : dict_scalarb d = true -> ProofsUtf8.scalars (to_dict_jv d).
Proof.
  unfold dict_scalarb. intro H.
  apply andb_true_iff in H as [H Hl]. apply andb_true_iff in H as [H Hc].
  apply andb_true_iff in H as [Ht Hd].
  unfold to_dict_jv. constructor. repeat rewrite Forall_app. repeat split.
  - constructor; [|constructor]. split; [apply key_scalar; simpl; auto|].
    constructor. apply forallb_scalar. exact Ht.
  - destruct (d_desc d); constructor; [|constructor]. split; [apply key_scalar; simpl; auto|].
    constructor. apply forallb_scalar. exact Hd.
  - destruct (d_code d) as [[z|cs]|]; [| |constructor]; (constructor; [|constructor]);
      (split; [apply key_scalar; simpl; auto|]); cbn [snd code_jv].
    + constructor.
    + constructor. apply forallb_scalar. exact Hc.
  - destruct (d_link d) as [l|]; constructor; [|constructor].
    split; [apply key_scalar; simpl; auto 10|].
    unfold link_scalarb in Hl. apply andb_true_iff in Hl as [Hl H3].
    apply andb_true_iff in Hl as [H1 H2].
    unfold link_jv. constructor.
    repeat (constructor; [split; [apply key_scalar; simpl; auto 10 | constructor; apply forallb_scalar; assumption]|]).
    constructor.
Qed.

(* error_json_body_faithful: for every error whose strings are sequences of Unicode scalar
   values, the JSON body the default serializer emits is exactly utf8(print(to_dict_jv e)),
   and decoding + parsing it gives back exactly that object *)
Theorem error_json_body_faithful d :
  dict_scalarb d = true ->
  exists body, json_body d = Json.SBytes body /\
               Json.utf8_encode (Json.print (to_dict_jv d)) = Some body /\
               Json.utf8_decode body = Some (Json.print (to_dict_jv d)) /\
               Json.parse (Json.print (to_dict_jv d)) = Some (to_dict_jv d) /\
               Json.json_deserialize_body body = Json.DOk (to_dict_jv d).
Proof.
  intro H.
  destruct (ProofsUtf8.json_handler_roundtrip (to_dict_jv d) (to_dict_jv_wf d) (to_dict_jv_scalars d H))
    as (body & Hs & Hd).
  exists body. split; [exact Hs|].
  unfold json_body, Json.json_serialize, Json.json_serialize_glue in Hs.
  destruct (Json.utf8_encode (Json.print (to_dict_jv d))) as [b|] eqn:E; [|discriminate].
  injection Hs as <-. repeat split; auto.
  - apply ProofsUtf8.utf8_roundtrip. exact E.
  - apply JsonProofs.json_roundtrip. apply to_dict_jv_wf.
Qed.

(* ... hence title, description, code and link are recoverable unchanged: the object
   determines the fields *)
Theorem to_dict_jv_injective d1 d2 : to_dict_jv d1 = to_dict_jv d2 -> d1 = d2.
Proof.
  destruct d1 as [t1 de1 c1 l1], d2 as [t2 de2 c2 l2]. unfold to_dict_jv, link_jv. simpl.
  intro H. injection H as Ht Hrest. subst t2.
  destruct de1, de2, c1 as [[z1|s1]|], c2 as [[z2|s2]|], l1 as [[a1 b1 r1]|], l2 as [[a2 b2 r2]|];
    simpl in Hrest; try discriminate;
    repeat (match goal with H : _ = _ |- _ => injection H; clear H; intros; subst end);
    reflexivity.
Qed.

(* a lone surrogate anywhere in the texts: str.encode() raises, no body is produced *)
Lemma in_print_str c s : In c s -> 127 < c -> In c (Json.print_str s).
Proof.
  intros Hin Hc. unfold Json.print_str. right. apply in_or_app. left.
  apply in_flat_map. exists c. split; [exact Hin|]. unfold Json.esc_char.
  repeat match goal with |- context [if ?b then _ else _] =>
    let E := fresh in destruct b eqn:E; [try (apply N.eqb_eq in E); try (apply N.ltb_lt in E); lia|] end.
  left. reflexivity.
Qed.

Lemma in_join_sep x p : forall parts, In p parts -> In x p -> In x (Json.join_sep parts).
Proof.
  induction parts as [|q tl IH]; intros Hp Hx; [contradiction|].
  destruct tl as [|q2 tl2].
  - destruct Hp as [->|[]]. exact Hx.
  - change (Json.join_sep (q :: q2 :: tl2)) with (q ++ 44 :: 32 :: Json.join_sep (q2 :: tl2)).
    destruct Hp as [->|Hp]; apply in_or_app; [left; exact Hx|].
    right. right. right. apply IH; assumption.
Qed.

Lemma in_print_member x k v l : In (k, v) l -> In x (Json.print v) -> In x (Json.print (Json.JObj l)).
Proof.
  intros Hin Hx. cbn [Json.print]. right. apply in_or_app. left.
  eapply in_join_sep; [apply in_map; exact Hin|]. cbn [fst snd].
  apply in_or_app. right. right. right. exact Hx.
Qed.

Lemma not_scalar_big c : Json.scalar c = false -> 127 < c.
Proof.
  unfold Json.scalar, Json.is_surrogate. intro H.
  destruct (c <=? 1114111) eqn:E1; simpl in H.
  - apply negb_false_iff in H. apply andb_true_iff in H as [H _]. apply N.leb_le in H. lia.
  - apply N.leb_gt in E1. lia.
Qed.

Lemma str_not_scalar s : str_scalarb s = false -> exists c, In c s /\ Json.scalar c = false.
Proof.
  unfold str_scalarb. induction s as [|c tl IH]; simpl; [discriminate|].
  destruct (Json.scalar c) eqn:E; simpl.
  - intro H. destruct (IH H) as [c' [Hin Hc]]. exists c'. auto.
  - intros _. exists c. auto.
Qed.

Definition dict_strings (d : errdict) : list str :=
  [d_title d]
  ++ match d_desc d with Some x => [x] | None => [] end
  ++ match d_code d with Some (CodeStr x) => [x] | _ => [] end
  ++ match d_link d with Some l => [l_text l; l_href l; l_rel l] | None => [] end.

Lemma dict_scalarb_false d :
  dict_scalarb d = false -> exists s, In s (dict_strings d) /\ str_scalarb s = false.
Proof.
  destruct d as [t de co li]. unfold dict_scalarb, link_scalarb, dict_strings. cbn [d_title d_desc d_code d_link].
  destruct (str_scalarb t) eqn:E0.
  2:{ intros _. exists t. split; [left; reflexivity|exact E0]. }
  cbn [andb].
  assert (Hde : forall rest, match de with Some x => str_scalarb x | None => true end && rest = false ->
            (exists s, In s (match de with Some x => [x] | None => [] end) /\ str_scalarb s = false) \/ rest = false).
  { intros rest H. destruct de as [x|]; [|right; exact H].
    destruct (str_scalarb x) eqn:E; [right; exact H|left; exists x; split; [left; reflexivity|exact E]]. }
  intro H. rewrite <- andb_assoc in H. destruct (Hde _ H) as [(s & Hin & Hs) | H1].
  { exists s. split; [|exact Hs]. apply in_or_app. right. apply in_or_app. left. exact Hin. }
  clear H Hde.
  destruct co as [[z|cs]|]; cbn [andb] in H1.
  - destruct li as [[a b r]|]; [|discriminate]. cbn [l_text l_href l_rel] in *.
    destruct (str_scalarb a) eqn:Ea; [destruct (str_scalarb b) eqn:Eb; [destruct (str_scalarb r) eqn:Er; [discriminate|]|]|];
      [exists r | exists b | exists a]; (split; [|assumption]); apply in_or_app; right; apply in_or_app; right; apply in_or_app; right; simpl; auto.
  - destruct (str_scalarb cs) eqn:Ec.
    2:{ exists cs. split; [|exact Ec]. apply in_or_app. right. apply in_or_app. right. apply in_or_app. left. left. reflexivity. }
    cbn [andb] in H1. destruct li as [[a b r]|]; [|discriminate]. cbn [l_text l_href l_rel] in *.
    destruct (str_scalarb a) eqn:Ea; [destruct (str_scalarb b) eqn:Eb; [destruct (str_scalarb r) eqn:Er; [discriminate|]|]|];
      [exists r | exists b | exists a]; (split; [|assumption]); apply in_or_app; right; apply in_or_app; right; apply in_or_app; right; simpl; auto.
  - destruct li as [[a b r]|]; [|discriminate]. cbn [l_text l_href l_rel] in *.
    destruct (str_scalarb a) eqn:Ea; [destruct (str_scalarb b) eqn:Eb; [destruct (str_scalarb r) eqn:Er; [discriminate|]|]|];
      [exists r | exists b | exists a]; (split; [|assumption]); apply in_or_app; right; apply in_or_app; right; apply in_or_app; right; simpl; auto.
Qed.

Lemma field_in_print d s c :
  In s (dict_strings d) -> In c s -> 127 < c -> In c (Json.print (to_dict_jv d)).
Proof.
  intros Hs Hc Hbig. unfold dict_strings in Hs. unfold to_dict_jv.
  apply in_app_or in Hs. destruct Hs as [[<-|[]]|Hs].
  { eapply in_print_member; [apply in_or_app; left; left; reflexivity|]. apply in_print_str; assumption. }
  apply in_app_or in Hs. destruct Hs as [Hs|Hs].
  { destruct (d_desc d) as [x|]; [|contradiction]. destruct Hs as [<-|[]].
    eapply in_print_member; [apply in_or_app; right; apply in_or_app; left; left; reflexivity|].
    apply in_print_str; assumption. }
  apply in_app_or in Hs. destruct Hs as [Hs|Hs].
  { destruct (d_code d) as [[z|x]|]; try contradiction. destruct Hs as [<-|[]].
    eapply in_print_member;
      [apply in_or_app; right; apply in_or_app; right; apply in_or_app; left; left; reflexivity|].
    apply in_print_str; assumption. }
  destruct (d_link d) as [l|]; [|contradiction].
  eapply in_print_member;
    [apply in_or_app; right; apply in_or_app; right; apply in_or_app; right; left; reflexivity|].
  unfold link_jv. simpl in Hs. destruct Hs as [<-|[<-|[<-|[]]]].
  - eapply in_print_member; [left; reflexivity|]. apply in_print_str; assumption.
  - eapply in_print_member; [right; left; reflexivity|]. apply in_print_str; assumption.
  - eapply in_print_member; [right; right; left; reflexivity|]. apply in_print_str; assumption.
Qed.

Theorem error_json_surrogate_fails d :
  dict_scalarb d = false -> json_body d = Json.SEncodeError.
Proof.
  intro H. apply ProofsUtf8.json_serialize_surrogate_fails. intro Hs.
  destruct (dict_scalarb_false d H) as (s & Hin & Hbad).
  destruct (str_not_scalar s Hbad) as (c & Hc & Hnc).
  pose proof (field_in_print d s c Hin Hc (not_scalar_big c Hnc)) as Hp.
  unfold ProofsUtf8.str_scalar in Hs. rewrite Forall_forall in Hs. rewrite (Hs c Hp) in Hnc. discriminate.
Qed.

(* the model's "composing the response raises UnicodeEncodeError" is exactly that *)
Theorem encode_ok_json n e :
  final_preferred n = Some MEDIA_JSON ->
  (encode_ok n e = true <-> exists b, json_body (to_dict e) = Json.SBytes b).
Proof.
  intro Hp. unfold encode_ok. fold (final_preferred n). rewrite Hp, str_eqb_refl. split.
  - intro H. destruct (error_json_body_faithful _ H) as (b & Hb & _). eauto.
  - intros [b Hb]. destruct (dict_scalarb (to_dict e)) eqn:E; [reflexivity|].
    rewrite (error_json_surrogate_fails _ E) in Hb. discriminate.
Qed.

(* ------------------------------------------------------------------ XML *)

Lemma expect_app : forall p r, expect p (p ++ r) = Some r.
Proof. induction p as [|y p IH]; intro r; simpl; [destruct r; reflexivity|]. rewrite N.eqb_refl. apply IH. Qed.

Lemma expect_mismatch : forall p a b q r, a <> b -> expect (p ++ a :: q) (p ++ b :: r) = None.
Proof.
  induction p as [|y p IH]; intros a b q r H; simpl.
  - destruct (b =? a) eqn:E; [apply N.eqb_eq in E; congruence|reflexivity].
  - rewrite N.eqb_refl. apply IH. exact H.
Qed.

Lemma startswith_nil s : startswith s [] = true.
Proof. destruct s; reflexivity. Qed.

Lemma read_text_esc : forall t rest,
  read_text 0 (flat_map xesc t ++ 60 :: rest) = Some (t, 60 :: rest).
Proof.
  induction t as [|c t IH]; intro rest.
  - reflexivity.
  - cbn [flat_map]. unfold xesc at 1.
    destruct (c =? 38) eqn:E38.
    { apply N.eqb_eq in E38. subst c. simpl. rewrite startswith_nil, IH. reflexivity. }
    destruct (c =? 60) eqn:E60.
    { apply N.eqb_eq in E60. subst c. simpl. rewrite startswith_nil, IH. reflexivity. }
    destruct (c =? 62) eqn:E62.
    { apply N.eqb_eq in E62. subst c. simpl. rewrite startswith_nil, IH. reflexivity. }
    cbn [app read_text]. rewrite E60, E38, IH. reflexivity.
Qed.

(* an element is read back with its text, whatever the text *)
Lemma read_elem_rt name t rest : read_elem name (xml_elem name t ++ rest) = Some (t, rest).
Proof.
  unfold read_elem, xml_elem. destruct t as [|c t'].
  - rewrite expect_app. reflexivity.
  - replace (([60] ++ name ++ [62] ++ flat_map xesc (c :: t') ++ [60; 47] ++ name ++ [62]) ++ rest)
      with (([60] ++ name) ++ 62 :: (flat_map xesc (c :: t') ++ 60 :: ([47] ++ name ++ [62] ++ rest)))
      by (repeat (rewrite <- app_assoc; simpl); reflexivity).
    replace ([60] ++ name ++ [32; 47; 62]) with (([60] ++ name) ++ 32 :: [47; 62])
      by (repeat (rewrite <- app_assoc; simpl); reflexivity).
    rewrite expect_mismatch by discriminate.
    replace ([60] ++ name ++ [62]) with (([60] ++ name) ++ [62])
      by (repeat (rewrite <- app_assoc; simpl); reflexivity).
    replace (([60] ++ name) ++ 62 :: (flat_map xesc (c :: t') ++ 60 :: ([47] ++ name ++ [62] ++ rest)))
      with ((([60] ++ name) ++ [62]) ++ (flat_map xesc (c :: t') ++ 60 :: ([47] ++ name ++ [62] ++ rest)))
      by (repeat (rewrite <- app_assoc; simpl); reflexivity).
    rewrite expect_app, read_text_esc.
    replace (60 :: [47] ++ name ++ [62] ++ rest) with (([60; 47] ++ name ++ [62]) ++ rest)
      by (repeat (rewrite <- app_assoc; simpl); reflexivity).
    rewrite expect_app. reflexivity.
Qed.

Lemma xml_elem_head name t rest : startswith (xml_elem name t ++ rest) ([60] ++ name) = true.
Proof.
  apply startswith_app. unfold xml_elem. destruct t; eexists;
    repeat (rewrite <- app_assoc; simpl); reflexivity.
Qed.

Lemma opt_elem_present name t rest : opt_elem name (xml_elem name t ++ rest) = Some (Some t, rest).
Proof. unfold opt_elem. rewrite xml_elem_head, read_elem_rt. reflexivity. Qed.

Lemma opt_elem_absent name s : startswith s ([60] ++ name) = false -> opt_elem name s = Some (None, s).
Proof. unfold opt_elem. intros ->. reflexivity. Qed.

Lemma read_link_present l rest : read_link (xml_link l ++ rest) = Some (Some l, rest).
Proof.
  unfold read_link, xml_link. destruct l as [a b r]. cbn [l_text l_href l_rel].
  replace (([60] ++ k_link ++ [62] ++ xml_elem k_text a ++ xml_elem k_href b ++ xml_elem k_rel r ++ [60; 47] ++ k_link ++ [62]) ++ rest)
    with (([60] ++ k_link ++ [62]) ++ (xml_elem k_text a ++ (xml_elem k_href b ++ (xml_elem k_rel r ++ (([60; 47] ++ k_link ++ [62]) ++ rest)))))
    by (repeat (rewrite <- app_assoc; simpl); reflexivity).
  rewrite expect_app, !read_elem_rt, expect_app. reflexivity.
Qed.

(* the reader inverts the printer on EVERY error (code point level): the XML image determines
   title, description, str(code) and the link *)
Theorem xml_roundtrip d : read_xml (print_xml d) = Some (xview d).
Proof.
  destruct d as [t de co li]. unfold read_xml, print_xml, xview. cbn [d_title d_desc d_code d_link].
  rewrite app_assoc, expect_app, read_elem_rt.
  destruct de as [x|]; destruct co as [c|]; destruct li as [l|]; cbn [app];
    rewrite ?opt_elem_present.
  - rewrite read_link_present. reflexivity.
  - reflexivity.
  - rewrite opt_elem_absent by reflexivity. rewrite read_link_present. reflexivity.
  - reflexivity.
  - rewrite opt_elem_absent by (unfold xml_elem; destruct (code_text c); reflexivity).
    rewrite opt_elem_present, read_link_present. reflexivity.
  - rewrite opt_elem_absent by (unfold xml_elem; destruct (code_text c); reflexivity).
    rewrite opt_elem_present. reflexivity.
  - rewrite opt_elem_absent by reflexivity. rewrite opt_elem_absent by reflexivity.
    rewrite read_link_present. reflexivity.
  - reflexivity.
Qed.

(* byte level: for scalar strings the writer's codec is plain UTF-8, so the body decodes to
   the printed document *)
Lemma xml_char_bytes_scalar : forall s, ProofsUtf8.str_scalar s ->
  Json.utf8_encode s = Some (flat_map xml_char_bytes s).
Proof.
  induction s as [|c s IH]; intro H; [reflexivity|].
  inversion H as [|? ? Hc Hs]; subst. cbn [Json.utf8_encode flat_map].
  destruct (ProofsUtf8.utf8_char_scalar c Hc) as (b & Eb & _).
  unfold xml_char_bytes at 1. rewrite Eb, (IH Hs). reflexivity.
Qed.

Definition xml_scalarb (d : errdict) : bool := forallb Json.scalar (print_xml d).

Theorem error_xml_body_faithful d :
  xml_scalarb d = true ->
  Json.utf8_encode (print_xml d) = Some (xml_body d) /\
  Json.utf8_decode (xml_body d) = Some (print_xml d) /\
  read_xml (print_xml d) = Some (xview d).
Proof.
  intro H. assert (Hs : ProofsUtf8.str_scalar (print_xml d)).
  { unfold xml_scalarb in H. unfold ProofsUtf8.str_scalar. rewrite Forall_forall.
    rewrite forallb_forall in H. exact H. }
  pose proof (xml_char_bytes_scalar _ Hs) as E. split; [exact E|].
  split; [apply ProofsUtf8.utf8_roundtrip; exact E | apply xml_roundtrip].
Qed.

(* the XML writer never raises: a lone surrogate is written as a character reference (which
   no XML parser accepts) *)
Theorem xml_surrogate_charref : xml_char_bytes 55296 = [38; 35; 53; 53; 50; 57; 54; 59].
Proof. vm_compute. reflexivity. Qed.
