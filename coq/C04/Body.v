(* C04 — the BYTES of default error bodies.
   JSON: HTTPError.to_json(handler) = handler.serialize(self.to_dict(), MEDIA_JSON) with the
   default JSONHandler = json.dumps(obj, ensure_ascii=False).encode() — the codec proved in
   coq/C12 (Json.print / utf8_encode).  to_dict() is modelled as a function into C12's [jv].
   XML: HTTPError._to_xml() = a fixed declaration + xml.etree.ElementTree.tostring(error,
   encoding='utf-8') for the fixed shape error/title/description/code/link{text,href,rel}:
   attribute-free elements, text escaped by ElementTree._escape_cdata (& < > only), empty text
   written as a self-closing tag, characters the codec cannot encode written as &#N;
   (errors='xmlcharrefreplace').  (falcon 4 has no OptionalRepresentation / NoRepresentation
   classes any more: every HTTPError has the to_dict() below.) *)
From Coq Require Import ZArith NArith List Bool String.
From Falcon.lib Require Import PyStr.
From Falcon.C12 Require Json.
From Falcon.C04 Require Import Model.
Import ListNotations.
Open Scope N_scope.

Definition k_title : str := Eval vm_compute in lit "title".
Definition k_description : str := Eval vm_compute in lit "description".
Definition k_code : str := Eval vm_compute in lit "code".
Definition k_link : str := Eval vm_compute in lit "link".
Definition k_text : str := Eval vm_compute in lit "text".
Definition k_href : str := Eval vm_compute in lit "href".
Definition k_rel : str := Eval vm_compute in lit "rel".

(* ------------------------------------------------------------------ JSON *)

(* self.link = {'text': ..., 'href': ..., 'rel': 'help'}  (insertion order) *)
Definition link_jv (l : link) : Json.jv :=
  Json.JObj [(k_text, Json.JStr (l_text l)); (k_href, Json.JStr (l_href l));
             (k_rel, Json.JStr (l_rel l))].

Definition code_jv (c : ecode) : Json.jv :=
  match c with CodeInt z => Json.JInt z | CodeStr s => Json.JStr s end.

(* to_dict(): obj['title']; then description / code / link only if not None, in this order *)
Definition to_dict_jv (d : errdict) : Json.jv :=
  Json.JObj
    ([(k_title, Json.JStr (d_title d))]
     ++ match d_desc d with Some x => [(k_description, Json.JStr x)] | None => [] end
     ++ match d_code d with Some c => [(k_code, code_jv c)] | None => [] end
     ++ match d_link d with Some l => [(k_link, link_jv l)] | None => [] end).

(* the body: SBytes b, or SEncodeError when str.encode() meets a lone surrogate *)
Definition json_body (d : errdict) : Json.ser_res := Json.json_serialize (to_dict_jv d).

(* ------------------------------------------------------------------ XML *)

Definition xml_decl : str := Eval vm_compute in lit "<?xml version=""1.0"" encoding=""UTF-8""?>".
Definition s_amp : str := Eval vm_compute in lit "&amp;".
Definition s_lt : str := Eval vm_compute in lit "&lt;".
Definition s_gt : str := Eval vm_compute in lit "&gt;".

(* ElementTree._escape_cdata *)
Definition xesc (c : N) : str :=
  if c =? 38 then s_amp else if c =? 60 then s_lt else if c =? 62 then s_gt else [c].

(* <name>text</name>, or <name /> for empty text (short_empty_elements) *)
Definition xml_elem (name text : str) : str :=
  match text with
  | [] => [60] ++ name ++ [32; 47; 62]
  | _ => [60] ++ name ++ [62] ++ flat_map xesc text ++ [60; 47] ++ name ++ [62]
  end.

(* str(self.code) *)
Definition code_text (c : ecode) : str :=
  match c with CodeInt z => Json.print_Z z | CodeStr s => s end.

Definition xml_link (l : link) : str :=
  [60] ++ k_link ++ [62]
  ++ xml_elem k_text (l_text l) ++ xml_elem k_href (l_href l) ++ xml_elem k_rel (l_rel l)
  ++ [60; 47] ++ k_link ++ [62].

Definition s_error_open : str := Eval vm_compute in lit "<error>".
Definition s_error_close : str := Eval vm_compute in lit "</error>".

(* the document as text *)
Definition print_xml (d : errdict) : str :=
  xml_decl ++ s_error_open
  ++ xml_elem k_title (d_title d)
  ++ match d_desc d with Some x => xml_elem k_description x | None => [] end
  ++ match d_code d with Some c => xml_elem k_code (code_text c) | None => [] end
  ++ match d_link d with Some l => xml_link l | None => [] end
  ++ s_error_close.

(* the writer's codec: UTF-8, '&#N;' for what UTF-8 cannot encode (lone surrogates) *)
Definition xml_char_bytes (c : N) : list N :=
  match Json.utf8_char c with
  | Some b => b
  | None => [38; 35] ++ Json.print_N c ++ [59]
  end.

Definition xml_body (d : errdict) : list N := flat_map xml_char_bytes (print_xml d).

(* ---- a reader for exactly that image *)
Fixpoint expect (p s : str) : option str :=
  match p, s with
  | [], _ => Some s
  | y :: p', x :: s' => if x =? y then expect p' s' else None
  | _ :: _, [] => None
  end.

Definition cons1 (c : N) (r : option (str * str)) : option (str * str) :=
  match r with Some (t, rest) => Some (c :: t, rest) | None => None end.

Definition t_amp : str := Eval vm_compute in lit "amp;".
Definition t_lt : str := Eval vm_compute in lit "lt;".
Definition t_gt : str := Eval vm_compute in lit "gt;".

(* character data up to the next '<', undoing the three entities; [skip] = characters of an
   entity still to be passed over *)
Fixpoint read_text (skip : nat) (s : str) : option (str * str) :=
  match s with
  | [] => None
  | c :: tl =>
    match skip with
    | S k => read_text k tl
    | O =>
      if c =? 60 then Some ([], s)
      else if c =? 38 then
        if startswith tl t_amp then cons1 38 (read_text 4 tl)
        else if startswith tl t_lt then cons1 60 (read_text 3 tl)
        else if startswith tl t_gt then cons1 62 (read_text 3 tl)
        else None
      else cons1 c (read_text 0 tl)
    end
  end.

Definition read_elem (name s : str) : option (str * str) :=
  match expect ([60] ++ name ++ [32; 47; 62]) s with
  | Some rest => Some ([], rest)
  | None =>
    match expect ([60] ++ name ++ [62]) s with
    | None => None
    | Some s1 =>
      match read_text 0 s1 with
      | None => None
      | Some (t, s2) =>
        match expect ([60; 47] ++ name ++ [62]) s2 with
        | Some rest => Some (t, rest)
        | None => None
        end
      end
    end
  end.

(* what can be read back: the code only as text *)
Record xdict := { x_title : str; x_desc : option str; x_code : option str; x_link : option link }.

Definition xview (d : errdict) : xdict :=
  {| x_title := d_title d; x_desc := d_desc d;
     x_code := match d_code d with Some c => Some (code_text c) | None => None end;
     x_link := d_link d |}.

Definition opt_elem (name s : str) : option (option str * str) :=
  if startswith s ([60] ++ name) then
    match read_elem name s with Some (t, rest) => Some (Some t, rest) | None => None end
  else Some (None, s).

Definition read_link (s : str) : option (option link * str) :=
  match expect ([60] ++ k_link ++ [62]) s with
  | None => Some (None, s)
  | Some s1 =>
    match read_elem k_text s1 with
    | None => None
    | Some (t, s2) =>
      match read_elem k_href s2 with
      | None => None
      | Some (h, s3) =>
        match read_elem k_rel s3 with
        | None => None
        | Some (r, s4) =>
          match expect ([60; 47] ++ k_link ++ [62]) s4 with
          | Some rest => Some (Some {| l_text := t; l_href := h; l_rel := r |}, rest)
          | None => None
          end
        end
      end
    end
  end.

Definition read_xml (s : str) : option xdict :=
  match expect (xml_decl ++ s_error_open) s with
  | None => None
  | Some s1 =>
    match read_elem k_title s1 with
    | None => None
    | Some (t, s2) =>
      match opt_elem k_description s2 with
      | None => None
      | Some (de, s3) =>
        match opt_elem k_code s3 with
        | None => None
        | Some (co, s4) =>
          match read_link s4 with
          | None => None
          | Some (li, s5) =>
            match expect s_error_close s5 with
            | Some [] => Some {| x_title := t; x_desc := de; x_code := co; x_link := li |}
            | _ => None
            end
          end
        end
      end
    end
  end.
