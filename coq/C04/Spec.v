(* C04 — reference definitions and the boolean oracle evaluated on the real framework's
   observations. *)
From Coq Require Import ZArith NArith List Bool String.
From Falcon.lib Require Import PyStr.
From Falcon.gen Require Import ConstsC04.
From Falcon.C04 Require Import Model.
Import ListNotations.
Open Scope N_scope.

(* ---- "nearest class in the MRO, latest registration per class wins", read off the
   registration history itself (no dictionary) *)

(* the (class, handler) assignments a history performs, in order *)
Fixpoint assignments_of (l : list (cls * bool)) (h : hid) : list (cls * hid) :=
  match l with
  | [] => []
  | (c, isx) :: tl => if isx then (c, h) :: assignments_of tl h else []
  end.

Fixpoint assignments (hist : list registration) : list (cls * hid) :=
  match hist with
  | [] => []
  | (l, h) :: tl => assignments_of l h ++ assignments tl
  end.

Definition init_assignments : list (cls * hid) :=
  [(c_Exception, HPython); (c_HTTPError, HHTTPError); (c_HTTPStatus, HHTTPStatus)].

(* latest assignment for class c *)
Fixpoint latest (a : list (cls * hid)) (c : cls) : option hid :=
  match a with
  | [] => None
  | (c', h) :: tl =>
    match latest tl c with
    | Some h' => Some h'
    | None => if Nat.eqb c c' then Some h else None
    end
  end.

(* nearest class of the MRO (object excluded) that has any assignment *)
Fixpoint nearest (a : list (cls * hid)) (l : list cls) : option hid :=
  match l with
  | [] => None
  | c :: tl => match latest a c with Some h => Some h | None => nearest a tl end
  end.

Definition spec_handler (hist : list registration) (mro : list cls) : option hid :=
  nearest (init_assignments ++ assignments hist) (removelast mro).

(* ---- well-formed exception objects: the payload agrees with the class *)
Definition in_mro (c : cls) (x : exc) : bool := existsb (Nat.eqb c) (removelast (x_mro x)).

Definition wf_exc (x : exc) : bool :=
  match x_payload x with
  | PError _ => in_mro c_HTTPError x && negb (in_mro c_HTTPStatus x)
  | PStatus _ => in_mro c_HTTPStatus x && negb (in_mro c_HTTPError x)
  | PNone => negb (in_mro c_HTTPError x) && negb (in_mro c_HTTPStatus x)
  end.

Definition hid_eqb (a b : hid) : bool :=
  match a, b with
  | HPython, HPython | HHTTPError, HHTTPError | HHTTPStatus, HHTTPStatus => true
  | HCustom n, HCustom m => Nat.eqb n m
  | _, _ => false
  end.

Definition ohid_eqb (a b : option hid) : bool :=
  match a, b with
  | None, None => true
  | Some x, Some y => hid_eqb x y
  | _, _ => false
  end.

Definition benign_script (s : hscript) : bool :=
  match h_end s with HERaiseOther => false | _ => true end.

(* ---- the oracle on one observed handling of a raised exception:
   observed = the handler that ran (None: none), whether the exception escaped, and the
   status of the response.
   1 = not the nearest/latest handler
   2 = an Exception-derived error escaped although its handler does not raise / a response
       was produced although no handler exists
   3 = default handling of a plain Exception is not a 500
   4 = a handler is registered for a class of the MRO, but the object is not
       Exception-derived and escaped without any handler having been invoked *)
Definition default_script : hscript := {| h_writes := no_writes; h_end := HEReturn |}.

Definition oracle (hist : list registration) (scripts : list hscript) (x : exc)
           (obs_handler : option hid) (obs_escaped : bool) (obs_status : N) : list nat :=
  let expected := spec_handler hist (x_mro x) in
  if negb (catchable x) && obs_escaped && ohid_eqb obs_handler None then
    match expected with None => [] | Some _ => [4%nat] end
  else
  (if ohid_eqb obs_handler expected then [] else [1%nat])
  ++ (match expected with
      | None => if obs_escaped then [] else [2%nat]
      | Some (HCustom n) =>
        if benign_script (nth n scripts default_script)
        then (if obs_escaped then [2%nat] else [])
        else (if obs_escaped then [] else [2%nat])
      | Some _ => if obs_escaped then [2%nat] else []
      end)
  ++ (match expected with
      | Some HPython => if obs_escaped || (obs_status =? internal_error_status) then [] else [3%nat]
      | _ => []
      end).

(* ---- sessions: the expected handler of every lookup = nearest/latest over the
   registrations made SO FAR *)
Fixpoint spec_ops (hist : list registration) (ops : list op) : list (option hid) :=
  match ops with
  | [] => []
  | OReg r :: tl => spec_ops (hist ++ [r]) tl
  | OLookup mro :: tl => spec_handler hist mro :: spec_ops hist tl
  end.
