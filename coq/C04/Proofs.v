From Coq Require Import ZArith NArith List Bool String Lia.
From Falcon.lib Require Import PyStr.
From Falcon.gen Require Import ConstsC04.
From Falcon.C03 Require Model Proofs.
From Falcon.C04 Require Import Model Spec.
Import ListNotations.
Open Scope N_scope.

(* ------------------------------------------------------------------ the registry is a dict *)

Lemma rget_rset r c h c' :
  rget (rset r c h) c' = if Nat.eqb c' c then Some h else rget r c'.
Proof.
  induction r as [|[c0 h0] tl IH]; simpl.
  - reflexivity.
  - destruct (Nat.eqb c c0) eqn:E; simpl.
    + apply Nat.eqb_eq in E. subst c0. destruct (Nat.eqb c' c); reflexivity.
    + destruct (Nat.eqb c' c0) eqn:E2.
      * apply Nat.eqb_eq in E2. subst c0. rewrite Nat.eqb_sym, E. reflexivity.
      * exact IH.
Qed.

Lemma latest_app a b c :
  latest (a ++ b) c = match latest b c with Some h => Some h | None => latest a c end.
Proof.
  induction a as [|[c0 h0] tl IH]; simpl.
  - destruct (latest b c); reflexivity.
  - rewrite IH. destruct (latest b c); reflexivity.
Qed.

Lemma add_loop_rget : forall l r h c,
  rget (fst (add_loop r l h)) c =
  match latest (assignments_of l h) c with Some h' => Some h' | None => rget r c end.
Proof.
  induction l as [|[c0 isx] tl IH]; intros r h c; simpl; [reflexivity|].
  destruct isx; simpl; [|reflexivity].
  rewrite IH, rget_rset. destruct (latest (assignments_of tl h) c); [reflexivity|].
  destruct (Nat.eqb c c0); reflexivity.
Qed.

Lemma replay_rget : forall hist r c,
  rget (replay r hist) c =
  match latest (assignments hist) c with Some h => Some h | None => rget r c end.
Proof.
  induction hist as [|[l h] tl IH]; intros r c; simpl; [reflexivity|].
  rewrite IH, latest_app, add_loop_rget.
  destruct (latest (assignments tl) c); reflexivity.
Qed.

Lemma init_rget c : rget init_registry c = latest init_assignments c.
Proof.
  unfold init_registry, init_assignments. simpl.
  destruct c as [|[|[|[|[|c]]]]]; reflexivity.
Qed.

(* the dictionary after any registration history = "latest assignment per class" *)
Theorem registry_latest hist c :
  rget (replay init_registry hist) c = latest (init_assignments ++ assignments hist) c.
Proof.
  rewrite replay_rget, latest_app, init_rget. reflexivity.
Qed.

Lemma find_loop_nearest r a : (forall c, rget r c = latest a c) ->
  forall l, find_loop r l = nearest a l.
Proof.
  intros H l. induction l as [|c tl IH]; simpl; [reflexivity|].
  rewrite H, IH. reflexivity.
Qed.

(* handler_is_nearest: for ANY registration history (tuples, repeated classes, entries that
   raise TypeError half-way) and any MRO, _find_error_handler returns the latest handler
   registered for the first class of the MRO (object excluded) that has one *)
Theorem handler_is_nearest hist mro :
  find_error_handler (replay init_registry hist) mro = spec_handler hist mro.
Proof.
  unfold find_error_handler, spec_handler. apply find_loop_nearest.
  intro c. apply registry_latest.
Qed.

(* the same, spelled out *)
Theorem find_loop_spec r : forall l h,
  find_loop r l = Some h <->
  exists pre c post, l = pre ++ c :: post /\ (forall c', In c' pre -> rget r c' = None) /\
                     rget r c = Some h.
Proof.
  induction l as [|c tl IH]; intro h; simpl.
  - split; [discriminate|]. intros (pre & c & post & H & _). destruct pre; discriminate.
  - destruct (rget r c) as [h0|] eqn:E.
    + split.
      * intro H. injection H as ->. exists [], c, tl. simpl. repeat split; auto. contradiction.
      * intros (pre & c' & post & H & Hpre & Hc). destruct pre as [|p pre'].
        -- simpl in H. injection H as -> ->. congruence.
        -- simpl in H. injection H as -> ->. rewrite Hpre in E by (left; reflexivity). discriminate.
    + rewrite IH. split.
      * intros (pre & c' & post & -> & Hpre & Hc). exists (c :: pre), c', post.
        repeat split; auto. intros c'' [<-|Hin]; auto.
      * intros (pre & c' & post & H & Hpre & Hc). destruct pre as [|p pre'].
        -- simpl in H. injection H as -> ->. congruence.
        -- simpl in H. injection H as -> ->. exists pre', c', post. repeat split; auto.
           intros c'' Hin. apply Hpre. right. exact Hin.
Qed.

Lemma latest_in_aux : forall a c h, latest a c = Some h -> In (c, h) a.
Proof.
  induction a as [|[c0 h0] tl IH]; intros c h H; simpl in H; [discriminate|].
  destruct (latest tl c) eqn:E.
  - injection H as ->. right. apply IH. exact E.
  - destruct (Nat.eqb c c0) eqn:Ec; [|discriminate]. injection H as ->.
    apply Nat.eqb_eq in Ec. subst. left. reflexivity.
Qed.

Lemma latest_some_of_in : forall a c h, In (c, h) a -> exists hh, latest a c = Some hh.
Proof.
  induction a as [|[cc hc] t IH]; intros c h Hin; [contradiction|]. simpl.
  destruct Hin as [Hin|Hin].
  - injection Hin as -> ->. destruct (latest t c); eauto. rewrite Nat.eqb_refl. eauto.
  - destruct (IH _ _ Hin) as [hh ->]. eauto.
Qed.

Lemma latest_none_not_in : forall a c h, latest a c = None -> ~ In (c, h) a.
Proof.
  intros a c h Hn Hin. destruct (latest_some_of_in _ _ _ Hin) as [hh Hh]. congruence.
Qed.

(* latest a c = Some h  iff  (c, h) is the last assignment for c in the history *)
Theorem latest_spec : forall a c h,
  latest a c = Some h <->
  exists pre post, a = pre ++ (c, h) :: post /\ (forall h', ~ In (c, h') post).
Proof.
  induction a as [|[c0 h0] tl IH]; intros c h; simpl.
  - split; [discriminate|]. intros (pre & post & H & _). destruct pre; discriminate.
  - split.
    + intro H. destruct (latest tl c) as [h1|] eqn:E.
      * injection H as ->. apply IH in E. destruct E as (pre & post & -> & Hn).
        exists ((c0, h0) :: pre), post. auto.
      * destruct (Nat.eqb c c0) eqn:Ec; [|discriminate]. injection H as ->.
        apply Nat.eqb_eq in Ec. subst c0. exists [], tl. split; [reflexivity|].
        intros h'. apply latest_none_not_in. exact E.
    + intros (pre & post & H & Hn). destruct pre as [|p pre'].
      * simpl in H. injection H as Hc Hh Htl. subst c0 h0 tl.
        destruct (latest post c) as [h1|] eqn:E.
        -- apply latest_in_aux in E. exfalso. apply (Hn h1). exact E.
        -- rewrite Nat.eqb_refl. reflexivity.
      * simpl in H. injection H as Hp Htl. subst p tl.
        assert (latest (pre' ++ (c, h) :: post) c = Some h) as E2.
        { apply IH. exists pre', post. auto. }
        rewrite E2. reflexivity.
Qed.

(* ------------------------------------------------------------------ reset before the handler *)

Lemma clear_idem r : clear (clear r) = clear r.
Proof. reflexivity. Qed.

Theorem reset_before_handler v r x :
  handle_exception v r x = handle_exception v (clear r) x.
Proof. unfold handle_exception. rewrite clear_idem. reflexivity. Qed.

(* what the application had put in text/data/media does not influence the outcome *)
Theorem reset_discards v r x t d m :
  handle_exception v (with_media (with_data (with_text r t) d) m) x = handle_exception v r x.
Proof. rewrite reset_before_handler, (reset_before_handler v r). reflexivity. Qed.

(* a custom handler is entered with text = data = media = None *)
Theorem custom_handler_sees_cleared v r x n :
  find_error_handler (v_reg v) (x_mro x) = Some (HCustom n) ->
  h_end (script_of v n) = HEReturn ->
  handle_exception v r x =
    (Handled, Some (HCustom n), apply_writes (h_writes (script_of v n)) (clear r)) /\
  r_text (clear r) = None /\ r_data (clear r) = None /\ r_media (clear r) = None.
Proof.
  intros Hf He. unfold handle_exception. rewrite Hf, He. auto.
Qed.

(* ------------------------------------------------------------------ errors raised by handlers *)

Theorem handler_raised_error_rendered v r x n e :
  find_error_handler (v_reg v) (x_mro x) = Some (HCustom n) ->
  h_end (script_of v n) = HERaiseError e ->
  handle_exception v r x =
    (Handled, Some (HCustom n),
     compose_error (v_ncfg v) (apply_writes (h_writes (script_of v n)) (clear r)) e).
Proof. intros Hf He. unfold handle_exception. rewrite Hf, He. reflexivity. Qed.

Theorem handler_raised_status_rendered v r x n s :
  find_error_handler (v_reg v) (x_mro x) = Some (HCustom n) ->
  h_end (script_of v n) = HERaiseStatus s ->
  handle_exception v r x =
    (Handled, Some (HCustom n),
     compose_status (apply_writes (h_writes (script_of v n)) (clear r)) s).
Proof. intros Hf He. unfold handle_exception. rewrite Hf, He. reflexivity. Qed.

(* ------------------------------------------------------------------ composition facts *)

Definition final_preferred (n : ncfg) : option str :=
  match n_preferred n with
  | Some p => Some p
  | None =>
    let accept := lower (n_accept n) in
    if contains accept s_plus_json then Some MEDIA_JSON
    else if contains accept s_plus_xml then Some MEDIA_XML
    else None
  end.

Lemma serialize_status n r e : r_status (serialize_error n r e) = r_status r.
Proof.
  unfold serialize_error. fold (final_preferred n).
  destruct (final_preferred n) as [p|]; [|reflexivity]. simpl.
  destruct (str_eqb p MEDIA_JSON); [reflexivity|].
  destruct (mem p (n_resolvable n)); [reflexivity|]. destruct (n_xml n); reflexivity.
Qed.

Lemma serialize_text n r e : r_text (serialize_error n r e) = r_text r.
Proof.
  unfold serialize_error. fold (final_preferred n).
  destruct (final_preferred n) as [p|]; [|reflexivity]. simpl.
  destruct (str_eqb p MEDIA_JSON); [reflexivity|].
  destruct (mem p (n_resolvable n)); [reflexivity|]. destruct (n_xml n); reflexivity.
Qed.

Theorem compose_error_status n r e : r_status (compose_error n r e) = e_status e.
Proof.
  unfold compose_error. rewrite serialize_status. destruct (e_headers e); reflexivity.
Qed.

Theorem compose_status_fields r s :
  r_status (compose_status r s) = s_status s /\ r_text (compose_status r s) = s_text s.
Proof. unfold compose_status. destruct (s_headers s); auto. Qed.

(* ------------------------------------------------------------------ header store *)

Lemma hget_hset h k v k' :
  hget (hset h k v) k' = if str_eqb k' k then Some v else hget h k'.
Proof.
  induction h as [|[k0 v0] tl IH]; simpl.
  - destruct (str_eqb k' k); reflexivity.
  - destruct (str_eqb k k0) eqn:E; simpl.
    + apply str_eqb_eq in E. subst k0. destruct (str_eqb k' k); reflexivity.
    + destruct (str_eqb k' k0) eqn:E2.
      * apply str_eqb_eq in E2. subst k0. rewrite (str_eqb_sym k' k), E. reflexivity.
      * exact IH.
Qed.

Lemma lower_vary : lower s_vary = s_vary. Proof. reflexivity. Qed.
Lemma vary_not_ctype : str_eqb s_vary s_content_type = false. Proof. reflexivity. Qed.

(* Vary: Accept is always appended (to whatever Vary the response already carried) *)
Theorem serialize_vary n r e :
  hget (r_headers (serialize_error n r e)) s_vary =
  Some (match hget (r_headers r) s_vary with
        | Some old => old ++ s_comma_sp ++ s_Accept
        | None => s_Accept
        end).
Proof.
  unfold serialize_error. fold (final_preferred n).
  assert (H : forall r1 : resp, hget (r_headers r1) s_vary = hget (r_headers r) s_vary ->
          hget (r_headers (with_headers r1 (append_header (r_headers r1) s_vary s_Accept))) s_vary =
          Some (match hget (r_headers r) s_vary with
                | Some old => old ++ s_comma_sp ++ s_Accept | None => s_Accept end)).
  { intros r1 H1. simpl. unfold append_header. rewrite lower_vary, H1.
    destruct (hget (r_headers r) s_vary); rewrite hget_hset, str_eqb_refl; reflexivity. }
  apply H. destruct (final_preferred n) as [p|]; [|reflexivity].
  simpl. rewrite hget_hset, vary_not_ctype.
  destruct (str_eqb p MEDIA_JSON); [reflexivity|].
  destruct (mem p (n_resolvable n)); [reflexivity|]. destruct (n_xml n); reflexivity.
Qed.

(* JSON whenever JSON is the negotiated type: data = the JSON encoding of to_dict, typed JSON *)
Theorem serialize_json n r e :
  final_preferred n = Some MEDIA_JSON ->
  r_data (serialize_error n r e) = Some (DJson (to_dict e)) /\
  hget (r_headers (serialize_error n r e)) s_content_type = Some MEDIA_JSON.
Proof.
  intro H. unfold serialize_error. fold (final_preferred n). rewrite H, str_eqb_refl. simpl.
  split; [reflexivity|].
  unfold append_header. rewrite lower_vary.
  destruct (hget (hset (r_headers r) s_content_type MEDIA_JSON) s_vary);
    rewrite !hget_hset; reflexivity.
Qed.

(* another negotiated type: through its media handler if one resolves, else the built-in XML
   only if xml_error_serialization is on, else no body; the content type is that type *)
Theorem serialize_other n r e p :
  final_preferred n = Some p -> p <> MEDIA_JSON ->
  hget (r_headers (serialize_error n r e)) s_content_type = Some p /\
  (if mem p (n_resolvable n)
   then r_media (serialize_error n r e) = Some (MErr (to_dict e)) /\
        r_data (serialize_error n r e) = r_data r
   else if n_xml n
        then r_data (serialize_error n r e) = Some (DXml (to_dict e)) /\
             r_media (serialize_error n r e) = r_media r
        else r_data (serialize_error n r e) = r_data r /\
             r_media (serialize_error n r e) = r_media r).
Proof.
  intros H Hne. apply str_eqb_neq in Hne.
  unfold serialize_error. fold (final_preferred n). rewrite H, Hne.
  split.
  - simpl. unfold append_header. rewrite lower_vary.
    match goal with |- context [hget ?hh s_vary] => destruct (hget hh s_vary) end;
      rewrite !hget_hset; reflexivity.
  - destruct (mem p (n_resolvable n)); [simpl; auto|]. destruct (n_xml n); simpl; auto.
Qed.

(* nothing acceptable: the error is sent without a body, content type untouched *)
Theorem serialize_none n r e :
  final_preferred n = None ->
  r_data (serialize_error n r e) = r_data r /\ r_media (serialize_error n r e) = r_media r /\
  hget (r_headers (serialize_error n r e)) s_content_type = hget (r_headers r) s_content_type.
Proof.
  intro H. unfold serialize_error. fold (final_preferred n). rewrite H. simpl.
  repeat split. unfold append_header. rewrite lower_vary.
  destruct (hget (r_headers r) s_vary); rewrite hget_hset; reflexivity.
Qed.

(* XML is produced only when enabled and only for a non-JSON negotiated type *)
Theorem xml_only_when_enabled n r e d :
  r_data (serialize_error n r e) = Some (DXml d) -> r_data r <> Some (DXml d) ->
  n_xml n = true /\ exists p, final_preferred n = Some p /\ p <> MEDIA_JSON /\
                              mem p (n_resolvable n) = false.
Proof.
  unfold serialize_error. fold (final_preferred n).
  destruct (final_preferred n) as [p|]; simpl; [|congruence].
  destruct (str_eqb p MEDIA_JSON) eqn:Ej; simpl; [discriminate|].
  destruct (mem p (n_resolvable n)) eqn:Em; simpl; [congruence|].
  destruct (n_xml n); simpl; [|congruence].
  intros _ _. split; [reflexivity|]. exists p. apply str_eqb_neq in Ej. auto.
Qed.

(* ------------------------------------------------------------------ nothing escapes by default *)

Lemma latest_init_exception : latest init_assignments c_Exception = Some HPython.
Proof. reflexivity. Qed.

Lemma registry_keeps_exception hist :
  rget (replay init_registry hist) c_Exception <> None.
Proof.
  rewrite registry_latest, latest_app.
  destruct (latest (assignments hist) c_Exception); [discriminate|].
  rewrite latest_init_exception. discriminate.
Qed.

Lemma find_loop_some r l c : In c l -> rget r c <> None -> find_loop r l <> None.
Proof.
  induction l as [|c0 tl IH]; intros Hin Hc; [contradiction|]. simpl.
  destruct (rget r c0) eqn:E; [discriminate|].
  destruct Hin as [->|Hin]; [congruence|]. apply IH; assumption.
Qed.

Definition exception_derived (x : exc) : Prop := In c_Exception (removelast (x_mro x)).

(* for every Exception-derived object and every registration history a handler exists *)
Theorem handler_exists hist x :
  exception_derived x -> find_error_handler (replay init_registry hist) (x_mro x) <> None.
Proof.
  intro H. unfold find_error_handler. eapply find_loop_some; eauto.
  apply registry_keeps_exception.
Qed.

Lemma in_mro_true c x : in_mro c x = true <-> In c (removelast (x_mro x)).
Proof.
  unfold in_mro. rewrite existsb_exists. split.
  - intros [c' [Hin E]]. apply Nat.eqb_eq in E. subst. exact Hin.
  - intro H. exists c. split; [exact H|apply Nat.eqb_refl].
Qed.

Definition all_benign (v : env) : Prop := forall n, benign_script (script_of v n) = true.

(* registrations of application handlers never install a default handler *)
Lemma assignments_of_custom : forall l h c h', (exists n, h = HCustom n) ->
  In (c, h') (assignments_of l h) -> exists n, h' = HCustom n.
Proof.
  induction l as [|[c0 isx] tl IH]; intros h c h' Hc Hin; simpl in Hin; [contradiction|].
  destruct isx; [|contradiction]. destruct Hin as [Hin|Hin]; [injection Hin as _ <-; exact Hc|].
  eapply IH; eauto.
Qed.

Definition custom_history (hist : list registration) : Prop :=
  forall l h, In (l, h) hist -> exists n, h = HCustom n.

Lemma assignments_custom : forall hist c h, custom_history hist ->
  In (c, h) (assignments hist) -> exists n, h = HCustom n.
Proof.
  induction hist as [|[l h0] tl IH]; intros c h Hc Hin; simpl in Hin; [contradiction|].
  apply in_app_or in Hin. destruct Hin as [Hin|Hin].
  - apply (assignments_of_custom l h0 c h); [|exact Hin]. apply (Hc l h0). left. reflexivity.
  - eapply IH; eauto. intros l' h' H'. apply (Hc l' h'). right. exact H'.
Qed.

Lemma latest_in : forall a c h, latest a c = Some h -> In (c, h) a.
Proof. exact latest_in_aux. Qed.

Lemma nearest_in : forall a l h, nearest a l = Some h -> exists c, In c l /\ latest a c = Some h.
Proof.
  induction l as [|c tl IH]; intros h H; simpl in H; [discriminate|].
  destruct (latest a c) eqn:E.
  - injection H as ->. exists c. split; [left; reflexivity|exact E].
  - apply IH in H. destruct H as [c' [Hin Hc]]. exists c'. split; [right; exact Hin|exact Hc].
Qed.

(* a default handler is only ever found through the class it was installed for *)
Lemma default_handler_class hist x h :
  custom_history hist -> spec_handler hist (x_mro x) = Some h ->
  match h with
  | HPython => exception_derived x
  | HHTTPError => in_mro c_HTTPError x = true
  | HHTTPStatus => in_mro c_HTTPStatus x = true
  | HCustom _ => True
  end.
Proof.
  intros Hc H. unfold spec_handler in H. apply nearest_in in H. destruct H as [c [Hin Hl]].
  apply latest_in in Hl. apply in_app_or in Hl. destruct Hl as [Hl|Hl].
  - simpl in Hl. destruct Hl as [Hl|[Hl|[Hl|[]]]]; injection Hl as <- <-.
    + exact Hin.
    + apply in_mro_true. exact Hin.
    + apply in_mro_true. exact Hin.
  - apply (assignments_custom _ _ _ Hc) in Hl. destruct Hl as [n ->]. exact I.
Qed.

(* no_escape_default: an Exception-derived, well-formed object raised where the app catches
   exceptions always becomes a response when the application's handlers raise only HTTP
   errors / statuses; and it is a 500 when the Exception handler of the framework is the
   nearest one *)
Theorem no_escape hist scripts ncfg r x :
  custom_history hist -> exception_derived x -> wf_exc x = true ->
  let v := {| v_reg := replay init_registry hist; v_scripts := scripts; v_ncfg := ncfg |} in
  all_benign v ->
  fst (fst (handle_exception v r x)) = Handled /\
  (spec_handler hist (x_mro x) = Some HPython ->
   r_status (snd (handle_exception v r x)) = internal_error_status).
Proof.
  intros Hc Hx Hwf v Hb. unfold handle_exception.
  replace (v_reg v) with (replay init_registry hist) by reflexivity.
  rewrite handler_is_nearest.
  pose proof (handler_exists hist x Hx) as Hne. rewrite handler_is_nearest in Hne.
  destruct (spec_handler hist (x_mro x)) as [h|] eqn:Hs; [|congruence].
  pose proof (default_handler_class hist x h Hc Hs) as Hcl.
  destruct h as [| | |n].
  - cbn [fst snd]. split; [reflexivity|]. intros _. apply compose_error_status.
  - unfold wf_exc in Hwf. destruct (x_payload x).
    + cbn [fst snd]. split; [reflexivity|discriminate].
    + rewrite Hcl, andb_false_r in Hwf. discriminate.
    + rewrite Hcl in Hwf. discriminate.
  - unfold wf_exc in Hwf. destruct (x_payload x).
    + rewrite Hcl, andb_false_r in Hwf. discriminate.
    + cbn [fst snd]. split; [reflexivity|discriminate].
    + rewrite Hcl, andb_false_r in Hwf. discriminate.
  - specialize (Hb n). unfold benign_script in Hb.
    destruct (h_end (script_of v n)); cbn [fst snd]; try (split; [reflexivity|discriminate]).
    discriminate.
Qed.

(* ------------------------------------------------------------------ the render window *)

(* with the fix: an error raised while rendering is reported WITH the body composed by its
   handler (whenever that body renders) *)
Theorem render_error_has_body v mf r x h r' b :
  render mf r = inr x -> catchable x = true ->
  handle_exception_enc v r x = (Handled, h, r') -> render mf r' = inl b ->
  finish true v mf r = (Response (r_status r') (r_headers r') b, [h]).
Proof.
  intros Hr Hc Hh Hr'. unfold finish. rewrite Hr, Hc, Hh, Hr'. reflexivity.
Qed.

(* the code as found sent such responses bodiless, whatever the handler composed *)
Theorem render_error_body_refuted_before_fix :
  exists v mf r x h r' b,
    render mf r = inr x /\ catchable x = true /\
    handle_exception_enc v r x = (Handled, h, r') /\ render mf r' = inl b /\ b <> BNone /\
    finish false v mf r = (Response (r_status r') (r_headers r') BNone, [h]).
Proof.
  set (x := {| x_mro := [5%nat; c_Exception; c_BaseException; c_object]; x_payload := PNone |}).
  set (v := {| v_reg := init_registry; v_scripts := [];
               v_ncfg := {| n_xml := true; n_preferred := Some MEDIA_JSON; n_accept := [];
                            n_resolvable := [MEDIA_JSON] |} |}).
  set (mf := {| bad_ctypes := []; bad_tags := [(1, x)] |}).
  set (r := {| r_status := 200; r_headers := []; r_text := None; r_data := None;
               r_media := Some (MApp 1); r_rendered := None |}).
  exists v, mf, r, x. eexists. eexists. eexists.
  repeat split; try (vm_compute; reflexivity). discriminate.
Qed.

(* a handler registered for a BaseException subclass that is not Exception-derived is never
   reached: the statement "whatever is raised is given to its nearest handler" is false of the
   faithful model (known finding C04-baseexception-handler-ignored) *)
Theorem whatever_is_raised_refuted :
  exists v mf r0 w x h,
    find_error_handler (v_reg v) (x_mro x) = Some h /\
    request true v mf r0 w (Some x) = (Escaped, []).
Proof.
  set (x := {| x_mro := [5%nat; c_BaseException; c_object]; x_payload := PNone |}).
  set (v := {| v_reg := replay init_registry [([(5%nat, true)], HCustom 0)];
               v_scripts := [default_script];
               v_ncfg := {| n_xml := true; n_preferred := None; n_accept := [];
                            n_resolvable := [] |} |}).
  exists v, {| bad_ctypes := []; bad_tags := [] |},
    {| r_status := 200; r_headers := []; r_text := None; r_data := None; r_media := None; r_rendered := None |},
    no_writes, x, (HCustom 0).
  split; vm_compute; reflexivity.
Qed.

(* the partial statement that IS true: every object the app catches goes to its nearest handler *)
Lemma handle_hid v r x :
  snd (fst (handle_exception v r x)) = find_error_handler (v_reg v) (x_mro x).
Proof.
  unfold handle_exception. destruct (find_error_handler (v_reg v) (x_mro x)) as [[| | |n]|]; try reflexivity.
  - destruct (x_payload x); reflexivity.
  - destruct (x_payload x); reflexivity.
  - destruct (h_end (script_of v n)); reflexivity.
Qed.

Lemma handle_enc_hid v r x :
  snd (fst (handle_exception_enc v r x)) = find_error_handler (v_reg v) (x_mro x).
Proof.
  rewrite <- (handle_hid v r x). unfold handle_exception_enc.
  destruct (handle_exception v r x) as [[o h] r']. destruct o; try reflexivity.
  destruct (composed_error v x) as [e|]; [|reflexivity]. destruct (encode_ok (v_ncfg v) e); reflexivity.
Qed.

Theorem request_uses_nearest_partial fixed hist scripts ncfg mf r0 w x :
  catchable x = true ->
  let v := {| v_reg := replay init_registry hist; v_scripts := scripts; v_ncfg := ncfg |} in
  hd None (snd (request fixed v mf r0 w (Some x))) = spec_handler hist (x_mro x).
Proof.
  intros Hc v. unfold request. rewrite Hc. cbn [negb].
  pose proof (handle_enc_hid v (apply_writes w r0) x) as Hh.
  replace (v_reg v) with (replay init_registry hist) in Hh by reflexivity.
  rewrite handler_is_nearest in Hh.
  destruct (handle_exception_enc v (apply_writes w r0) x) as [[o h] r']. simpl in Hh. subst h.
  destruct o; try reflexivity.
  destruct (finish fixed v mf r'). reflexivity.
Qed.

(* ------------------------------------------------------------------ the oracle accepts the model *)

Lemma hid_eqb_refl h : hid_eqb h h = true.
Proof. destruct h; simpl; auto using Nat.eqb_refl. Qed.

Lemma ohid_eqb_refl h : ohid_eqb h h = true.
Proof. destruct h; simpl; auto using hid_eqb_refl. Qed.

Definition outcome_escaped (o : houtcome) : bool :=
  match o with Handled => false | _ => true end.

(* the model's own handling, read as an observation, passes the oracle whenever the object is
   well-formed, the history registers application handlers only, and the object is one the
   app catches *)
Theorem oracle_sound hist scripts ncfg r x :
  custom_history hist -> wf_exc x = true -> catchable x = true ->
  let v := {| v_reg := replay init_registry hist; v_scripts := scripts; v_ncfg := ncfg |} in
  oracle hist scripts x (snd (fst (handle_exception v r x)))
         (outcome_escaped (fst (fst (handle_exception v r x))))
         (r_status (snd (handle_exception v r x))) = [].
Proof.
  intros Hc Hwf Hcat v. unfold handle_exception.
  replace (v_reg v) with (replay init_registry hist) by reflexivity.
  rewrite handler_is_nearest.
  unfold oracle. rewrite Hcat. cbn [negb andb].
  destruct (spec_handler hist (x_mro x)) as [h|] eqn:Hs.
  - pose proof (default_handler_class hist x h Hc Hs) as Hcl.
    destruct h as [| | |n].
    + cbn [fst snd outcome_escaped]. rewrite compose_error_status. unfold internal_error.
      cbn [e_status]. rewrite N.eqb_refl. reflexivity.
    + unfold wf_exc in Hwf. destruct (x_payload x).
      * reflexivity.
      * rewrite Hcl, andb_false_r in Hwf. discriminate.
      * rewrite Hcl in Hwf. discriminate.
    + unfold wf_exc in Hwf. destruct (x_payload x).
      * rewrite Hcl, andb_false_r in Hwf. discriminate.
      * reflexivity.
      * rewrite Hcl, andb_false_r in Hwf. discriminate.
    + unfold benign_script. replace (script_of v n) with (nth n scripts default_script) by reflexivity.
      destruct (h_end (nth n scripts default_script)); cbn [fst snd outcome_escaped ohid_eqb hid_eqb];
        rewrite ?Nat.eqb_refl; reflexivity.
  - reflexivity.
Qed.

(* ------------------------------------------------------------------ all raise windows (via C03) *)

(* what a middleware method / hook / responder does, at the level of C04 *)
Inductive action4 := A4Return | A4Complete | A4Raise (x : exc).

Definition lift (v : env) (a : action4) : Falcon.C03.Model.action :=
  match a with
  | A4Return => Falcon.C03.Model.Return
  | A4Complete => Falcon.C03.Model.Complete
  | A4Raise x => derive_action v x
  end.

Record comp4 := { c4_req : option action4; c4_rsrc : option action4; c4_resp : option action4 }.

Definition lift_comp (v : env) (c : comp4) : Falcon.C03.Model.comp :=
  {| Falcon.C03.Model.c_req := option_map (lift v) (c4_req c);
     Falcon.C03.Model.c_rsrc := option_map (lift v) (c4_rsrc c);
     Falcon.C03.Model.c_resp := option_map (lift v) (c4_resp c);
     Falcon.C03.Model.c_startup := None; Falcon.C03.Model.c_shutdown := None |}.

Definition good_exc (x : exc) : Prop := exception_derived x /\ wf_exc x = true.

Definition good_action (a : action4) : Prop :=
  match a with A4Raise x => good_exc x | _ => True end.

Definition good_opt (o : option action4) : Prop :=
  match o with Some a => good_action a | None => True end.

Lemma in_removelast {A} (c : A) : forall l, In c (removelast l) -> In c l.
Proof.
  induction l as [|x tl IH]; simpl; [tauto|]. destruct tl; [contradiction|].
  intros [H|H]; [left; exact H | right; apply IH; exact H].
Qed.

Lemma derive_benign hist scripts ncfg x :
  custom_history hist -> good_exc x ->
  let v := {| v_reg := replay init_registry hist; v_scripts := scripts; v_ncfg := ncfg |} in
  all_benign v ->
  Falcon.C03.Proofs.benign_action (derive_action v x) = true.
Proof.
  intros Hc [Hx Hwf] v Hb. unfold derive_action.
  assert (Hcat : catchable x = true).
  { unfold catchable. apply existsb_exists. exists c_Exception.
    split; [apply in_removelast; exact Hx | reflexivity]. }
  rewrite Hcat. cbn [negb].
  replace (v_reg v) with (replay init_registry hist) by reflexivity.
  rewrite handler_is_nearest.
  pose proof (handler_exists hist x Hx) as Hne. rewrite handler_is_nearest in Hne.
  destruct (spec_handler hist (x_mro x)) as [h|] eqn:Hs; [|congruence].
  pose proof (default_handler_class hist x h Hc Hs) as Hcl.
  unfold wf_exc in Hwf.
  destruct h as [| | |n].
  - reflexivity.
  - destruct (x_payload x); [reflexivity| |].
    + rewrite Hcl, andb_false_r in Hwf. discriminate.
    + rewrite Hcl in Hwf. discriminate.
  - destruct (x_payload x); [|reflexivity|].
    + rewrite Hcl, andb_false_r in Hwf. discriminate.
    + rewrite Hcl, andb_false_r in Hwf. discriminate.
  - specialize (Hb n). unfold benign_script in Hb.
    destruct (h_end (script_of v n)); try reflexivity. discriminate.
Qed.

(* no_escape_default over ALL raise windows: for middleware stacks of any height, hook towers,
   responders, both modes and every placement of raises of Exception-derived objects, with any
   registration history of application handlers that raise only HTTP errors / statuses, the
   request ends with a response — nothing reaches the server *)
Theorem no_escape_any_window asgi indep hist scripts ncfg (cs : list comp4) st
        (meta : bool) (route : Falcon.C03.Model.route) (hooks : list (bool * action4))
        (responder : action4) :
  custom_history hist ->
  let v := {| v_reg := replay init_registry hist; v_scripts := scripts; v_ncfg := ncfg |} in
  all_benign v ->
  (forall c, In c cs -> good_opt (c4_req c) /\ good_opt (c4_rsrc c) /\ good_opt (c4_resp c)) ->
  (forall h, In h hooks -> good_action (snd h)) -> good_action responder ->
  Falcon.C03.Model.prepare asgi indep (map (lift_comp v) cs) = Some st ->
  exists s,
    snd (Falcon.C03.Model.run_request indep st
           {| Falcon.C03.Model.q_meta := meta; Falcon.C03.Model.q_route := route;
              Falcon.C03.Model.q_hooks := map (fun h => (fst h, lift v (snd h))) hooks;
              Falcon.C03.Model.q_responder := lift v responder |})
    = Falcon.C03.Model.Finished s.
Proof.
  intros Hc v Hb Hcs Hh Hr Hp.
  assert (La : forall a, good_action a -> Falcon.C03.Proofs.benign_action (lift v a) = true).
  { intros [| |x] G; try reflexivity. apply derive_benign; assumption. }
  assert (Lo : forall o, good_opt o ->
               Falcon.C03.Proofs.benign_opt (option_map (lift v) o) = true).
  { intros [a|] G; [apply La; exact G | reflexivity]. }
  eapply Falcon.C03.Proofs.benign_finished; [exact Hp | |].
  - apply forallb_forall. intros c Hin. apply in_map_iff in Hin. destruct Hin as [c4 [<- Hin]].
    destruct (Hcs c4 Hin) as (G1 & G2 & G3).
    unfold Falcon.C03.Proofs.benign_comp, lift_comp. simpl.
    rewrite (Lo _ G1), (Lo _ G2), (Lo _ G3). reflexivity.
  - unfold Falcon.C03.Proofs.benign_request. simpl. apply andb_true_iff. split.
    + apply forallb_forall. intros h Hin. apply in_map_iff in Hin. destruct Hin as [h4 [<- Hin]].
      simpl. apply La. apply Hh. exact Hin.
    + apply La. exact Hr.
Qed.

(* ------------------------------------------------------------------ one app over time *)

Lemma replay_app : forall h1 h2 r, replay r (h1 ++ h2) = replay (replay r h1) h2.
Proof. induction h1 as [|[l h] tl IH]; intros h2 r; simpl; [reflexivity|apply IH]. Qed.

(* lookups never change what later lookups see *)
Theorem lookup_pure r mro : snd (lookup r mro) = r.
Proof. reflexivity. Qed.

(* After ANY interleaving of add_error_handler calls and lookups on one app, every lookup
   returns the latest handler of the nearest registered class among the registrations made
   up to that moment: a handler registered later for a nearer ancestor (or a re-registration
   of the same ancestor, the defaults included) wins from then on. *)
Theorem session_is_nearest : forall ops hist,
  run_ops (replay init_registry hist) ops = spec_ops hist ops.
Proof.
  induction ops as [|o tl IH]; intro hist; simpl; [reflexivity|].
  destruct o as [[l h]|mro].
  - rewrite <- IH, replay_app. reflexivity.
  - simpl. rewrite handler_is_nearest, IH. reflexivity.
Qed.

Lemma nearest_skip a h : forall pre c post,
  (forall c', In c' pre -> latest a c' = None \/ latest a c' = Some h) ->
  latest a c = Some h -> nearest a (pre ++ c :: post) = Some h.
Proof.
  induction pre as [|p pre' IH]; intros c post Hpre Hc; cbn [app nearest].
  - rewrite Hc. reflexivity.
  - destruct (Hpre p (or_introl eq_refl)) as [-> | ->]; [|reflexivity].
    apply IH; [|exact Hc]. intros c' Hin. apply Hpre. right. exact Hin.
Qed.

Lemma assignments_snoc hist r : assignments (hist ++ [r]) = assignments hist ++ assignments_of (fst r) (snd r).
Proof.
  induction hist as [|[l0 h0] t IHt]; simpl.
  - destruct r. simpl. rewrite app_nil_r. reflexivity.
  - rewrite IHt, app_assoc. reflexivity.
Qed.

(* the typical instance: T resolved through ancestor A; then a handler for a nearer ancestor
   B (or A again) is added; T is then resolved by the new handler *)
Theorem later_registration_wins hist mro c h pre post :
  removelast mro = pre ++ c :: post ->
  (forall c', In c' pre -> latest (init_assignments ++ assignments hist) c' = None) ->
  run_ops (replay init_registry hist) [OLookup mro; OReg ([(c, true)], h); OLookup mro]
  = [spec_handler hist mro; Some h].
Proof.
  intros Hm Hpre. rewrite session_is_nearest. cbn [spec_ops]. f_equal. f_equal.
  unfold spec_handler. rewrite Hm.
  assert (Ha : forall c', latest (init_assignments ++ assignments (hist ++ [([(c, true)], h)])) c'
               = if Nat.eqb c' c then Some h else latest (init_assignments ++ assignments hist) c').
  { intro c'. rewrite assignments_snoc. cbn [fst snd assignments_of].
    rewrite app_assoc, latest_app. simpl. destruct (Nat.eqb c' c); reflexivity. }
  apply nearest_skip.
  - intros c' Hin. rewrite Ha. destruct (Nat.eqb c' c); [right; reflexivity|left; apply Hpre; exact Hin].
  - rewrite Ha, Nat.eqb_refl. reflexivity.
Qed.

(* ------------------------------------------------------------------ the substring fallbacks *)

Lemma contains_unfold x s p :
  contains (x :: s) p = startswith (x :: s) p || contains s p.
Proof. reflexivity. Qed.

Theorem contains_spec : forall s p, contains s p = true <-> exists a b, s = a ++ p ++ b.
Proof.
  induction s as [|x s IH]; intro p.
  - destruct p as [|y p]; simpl.
    + split; [intros _; exists [], []; reflexivity | reflexivity].
    + split; [discriminate|]. intros (a & b & H). destruct a; discriminate.
  - rewrite contains_unfold, orb_true_iff, startswith_app, IH. split.
    + intros [[r Hr] | (a & b & ->)]; [exists [], r; exact Hr | exists (x :: a), b; reflexivity].
    + intros (a & b & H). destruct a as [|y a].
      * left. exists b. exact H.
      * right. injection H as _ ->. eauto.
Qed.

(* the '+json' / '+xml' fallback looks at the WHOLE lower-cased Accept header: a vendor type
   anywhere in a list of ranges (before or after other types, parameters, q-values) counts *)
Theorem fallback_json n a b :
  n_preferred n = None -> lower (n_accept n) = a ++ s_plus_json ++ b ->
  final_preferred n = Some MEDIA_JSON.
Proof.
  intros Hp Ha. unfold final_preferred. rewrite Hp.
  replace (contains (lower (n_accept n)) s_plus_json) with true; [reflexivity|].
  symmetry. apply contains_spec. eauto.
Qed.

Theorem fallback_xml n a b :
  n_preferred n = None -> contains (lower (n_accept n)) s_plus_json = false ->
  lower (n_accept n) = a ++ s_plus_xml ++ b ->
  final_preferred n = Some MEDIA_XML.
Proof.
  intros Hp Hj Ha. unfold final_preferred. rewrite Hp, Hj.
  replace (contains (lower (n_accept n)) s_plus_xml) with true; [reflexivity|].
  symmetry. apply contains_spec. eauto.
Qed.

(* ------------------------------------------------------------------ an error's own headers *)

(* built without headers=, each header-bearing error carries exactly its own header *)
Theorem ctor_headers_own :
  (forall a, ctor_headers (CMethodNotAllowed a) None = Some [(s_Allow, join_comma a)]) /\
  (forall c cs, ctor_headers (CUnauthorized (c :: cs)) None
                = Some [(s_WWW_Authenticate, join_comma (c :: cs))]) /\
  ctor_headers (CUnauthorized []) None = None /\
  (forall v, ctor_headers (CRetryAfter (Some v)) None = Some [(s_Retry_After, v)]) /\
  ctor_headers (CRetryAfter None) None = None /\
  (forall n, ctor_headers (CRange n) None = Some [(s_Content_Range, s_bytes_star ++ n)]) /\
  ctor_headers CPlain None = None.
Proof. repeat split. Qed.

(* ... and the response composed for it from a response without headers carries that header,
   the negotiated content type and Vary, and nothing else *)
Theorem error_response_headers_exact n c e r :
  r_headers r = [] -> e_headers e = None -> n_preferred n = Some MEDIA_JSON ->
  r_headers (compose_error n r (with_ctor c e)) =
  set_headers [] (load_headers (ctor_headers c None))
  ++ [(s_content_type, MEDIA_JSON); (s_vary, s_Accept)].
Proof.
  intros Hr He Hp. destruct r as [st hs tx da me rd]. simpl in Hr. subst hs.
  unfold compose_error, with_ctor, serialize_error. cbn [e_headers e_status]. rewrite He, Hp.
  destruct c as [a|[|c0 cs]|[v|]|nn|]; reflexivity.
Qed.

(* ------------------------------------------------------------------ the render cache and the reset *)

(* the cache, when filled, belongs to the CURRENT media *)
Definition cache_ok (r : resp) : Prop :=
  match r_rendered r with Some c => r_media r = Some c | None => True end.

Theorem reset_clears_cache r : r_rendered (clear r) = None /\ cache_ok (clear r).
Proof. split; reflexivity. Qed.

(* everything about the body - text, data, media AND a cached rendering of the media - is
   discarded before the handler runs: only status and headers of the response matter *)
Theorem reset_discards_all v r1 r2 x :
  r_status r1 = r_status r2 -> r_headers r1 = r_headers r2 ->
  handle_exception v r1 x = handle_exception v r2 x.
Proof.
  intros Hs Hh. unfold handle_exception.
  assert (clear r1 = clear r2) as -> by (unfold clear, with_media, with_data, with_text; simpl; rewrite Hs, Hh; reflexivity).
  reflexivity.
Qed.

Lemma cache_ok_with_status r s : cache_ok r -> cache_ok (with_status r s). Proof. auto. Qed.
Lemma cache_ok_with_headers r h : cache_ok r -> cache_ok (with_headers r h). Proof. auto. Qed.
Lemma cache_ok_with_text r t : cache_ok r -> cache_ok (with_text r t). Proof. auto. Qed.
Lemma cache_ok_with_data r d : cache_ok r -> cache_ok (with_data r d). Proof. auto. Qed.
Lemma cache_ok_with_media r m : cache_ok (with_media r m). Proof. exact I. Qed.

Lemma cache_ok_early r : cache_ok r -> cache_ok (early_render r).
Proof.
  unfold early_render. intro H.
  destruct (r_text r); [exact H|]. destruct (r_data r); [exact H|].
  destruct (r_media r) eqn:Em; [|exact H]. destruct (r_rendered r) eqn:Er; [exact H|].
  reflexivity.
Qed.

Lemma cache_ok_apply_writes w r : cache_ok r -> cache_ok (apply_writes w r).
Proof.
  intro H. unfold apply_writes.
  set (r1 := match w_status w with Some s => with_status r s | None => r end).
  assert (H1 : cache_ok r1) by (unfold r1; destruct (w_status w); auto using cache_ok_with_status).
  set (r2 := match w_text w with Some t => with_text r1 (Some t) | None => r1 end).
  assert (H2 : cache_ok r2) by (unfold r2; destruct (w_text w); auto using cache_ok_with_text).
  set (r3 := match w_data w with Some d => with_data r2 (Some (DRaw d)) | None => r2 end).
  assert (H3 : cache_ok r3) by (unfold r3; destruct (w_data w); auto using cache_ok_with_data).
  set (r4 := match w_media w with Some m => with_media r3 (Some (MApp m)) | None => r3 end).
  assert (H4 : cache_ok r4) by (unfold r4; destruct (w_media w); auto using cache_ok_with_media).
  destruct (w_render w); [apply cache_ok_early|]; apply cache_ok_with_headers; exact H4.
Qed.

Lemma cache_ok_serialize n r e : cache_ok r -> cache_ok (serialize_error n r e).
Proof.
  intro H. unfold serialize_error. fold (final_preferred n).
  apply cache_ok_with_headers.
  destruct (final_preferred n) as [p|]; [|exact H].
  apply cache_ok_with_headers.
  destruct (str_eqb p MEDIA_JSON); [apply cache_ok_with_data; exact H|].
  destruct (mem p (n_resolvable n)); [apply cache_ok_with_media|].
  destruct (n_xml n); [apply cache_ok_with_data|]; exact H.
Qed.

Lemma cache_ok_compose_error n r e : cache_ok r -> cache_ok (compose_error n r e).
Proof.
  intro H. unfold compose_error. apply cache_ok_serialize.
  destruct (e_headers e); [apply cache_ok_with_headers|]; apply cache_ok_with_status; exact H.
Qed.

Lemma cache_ok_compose_status r s : cache_ok r -> cache_ok (compose_status r s).
Proof.
  intro H. unfold compose_status. apply cache_ok_with_text.
  destruct (s_headers s); [apply cache_ok_with_headers|]; apply cache_ok_with_status; exact H.
Qed.

(* whatever the response looked like when the exception was raised - in particular with the
   success payload already rendered and cached - the response the handler leaves has a cache
   that belongs to ITS media: a stale rendering can never be sent *)
Theorem no_stale_rendering v r x : cache_ok (snd (handle_exception v r x)).
Proof.
  unfold handle_exception.
  destruct (find_error_handler (v_reg v) (x_mro x)) as [[| | |n]|]; cbn [snd].
  - apply cache_ok_compose_error. reflexivity.
  - destruct (x_payload x); cbn [snd]; try reflexivity. apply cache_ok_compose_error. reflexivity.
  - destruct (x_payload x); cbn [snd]; try reflexivity. apply cache_ok_compose_status. reflexivity.
  - assert (Hw : cache_ok (apply_writes (h_writes (script_of v n)) (clear r)))
      by (apply cache_ok_apply_writes; reflexivity).
    destruct (h_end (script_of v n)); cbn [snd]; auto using cache_ok_compose_error, cache_ok_compose_status.
  - reflexivity.
Qed.

Theorem rendered_media_is_current mf r b :
  cache_ok r -> render mf r = inl (BMedia b) -> r_media r = Some b.
Proof.
  unfold render, cache_ok. destruct (r_text r); [discriminate|]. destruct (r_data r); [discriminate|].
  destruct (r_media r) as [m|]; [|discriminate].
  destruct (r_rendered r) as [c|].
  - intros H E. injection E as <-. exact H.
  - intros _. destruct (media_fails mf r m); [discriminate|]. intro E. injection E as <-. reflexivity.
Qed.
