From Coq Require Import List.
